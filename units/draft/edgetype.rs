// ======================================================================================
// fragment edgetype.rs - Direction, EdgeType, Directed/Undirected, DefaultIx
// (src/lib.rs, src/graph_impl/mod.rs)
// ======================================================================================

//@ item src/lib.rs | - | enum Direction
#[derive(Clone, Copy, PartialEq, Eq)]
#[repr(usize)]
pub enum Direction {
    /// An `Outgoing` edge is an outward edge *from* the current node.
    Outgoing = 0,
    /// An `Incoming` edge is an inbound edge *to* the current node.
    Incoming = 1,
}
//@ end
use Direction::{Outgoing, Incoming};

impl PartialEqSpecImpl for Direction {
    open spec fn obeys_eq_spec() -> bool { true }
    open spec fn eq_spec(&self, other: &Self) -> bool { *self == *other }
}

impl Direction {
    pub open spec fn k(self) -> int { match self { Direction::Outgoing => 0, Direction::Incoming => 1 } }
    pub open spec fn opp(self) -> Direction { match self { Direction::Outgoing => Direction::Incoming, Direction::Incoming => Direction::Outgoing } }

//@ item src/lib.rs | impl Direction | fn opposite
    #[inline]
    pub fn opposite(self) -> (r: Direction)
        ensures r == self.opp()
    {
        match self {
            Outgoing => Incoming,
            Incoming => Outgoing,
        }
    }
//@ end

//@ item src/lib.rs | impl Direction | fn index
    /// Return `0` for `Outgoing` and `1` for `Incoming`.
    #[inline]
    #[verifier::external_body]
    pub fn index(self) -> (r: usize)
        ensures r == self.k()
    {
        (self as usize) & 0x1
    }
//@ end
}

//@ item src/lib.rs | - | enum Directed
pub enum Directed {}
//@ end
//@ item src/lib.rs | - | enum Undirected
pub enum Undirected {}
//@ end

//@ item src/lib.rs | - | trait EdgeType
pub trait EdgeType {
    spec fn spec_is_directed() -> bool;
    fn is_directed() -> (r: bool)
        ensures r == Self::spec_is_directed();
}
//@ end

//@ item src/lib.rs | - | impl EdgeType for Directed
impl EdgeType for Directed {
    open spec fn spec_is_directed() -> bool { true }
    #[inline]
    fn is_directed() -> bool {
        true
    }
}
//@ end

//@ item src/lib.rs | - | impl EdgeType for Undirected
impl EdgeType for Undirected {
    open spec fn spec_is_directed() -> bool { false }
    #[inline]
    fn is_directed() -> bool {
        false
    }
}
//@ end

//@ item src/graph_impl/mod.rs | - | type DefaultIx
pub type DefaultIx = u32;
//@ end
