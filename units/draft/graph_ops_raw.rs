impl<N, E, Ty, Ix> Graph<N, E, Ty, Ix>
where
    Ty: EdgeType,
    Ix: IndexType,
{
    pub fn try_add_node(&mut self, weight: N) -> (res: Result<NodeIndex<Ix>, GraphError>)
        requires old(self).nodes.len() <= Ix::spec_max(), old(self).nodes.len() < usize::MAX,
        ensures
            match res {
                Ok(i) => i.0.ix() == old(self).nodes.len() && final(self).nodes@.len() == old(self).nodes@.len() + 1
                      && final(self).nodes@.len() <= Ix::spec_max()
                      && final(self).edges@ == old(self).edges@,
                Err(_) => final(self).nodes@ == old(self).nodes@ && final(self).edges@ == old(self).edges@,
            }
    {
        proof { assert(!0usize == 0xffff_ffff_ffff_ffffusize) by (bit_vector); }
        let node = Node {
            weight,
            next: [EdgeIndex::end(), EdgeIndex::end()],
        };
        let node_idx = NodeIndex::new(self.nodes.len());
        // check for max capacity, except if we use usize
        if <Ix as IndexType>::max().index() == !0 || NodeIndex::end() != node_idx {
            self.nodes.push(node);
            Ok(node_idx)
        } else {
            Err(GraphError::NodeIxLimit)
        }
    }

impl<N, E, Ty: EdgeType, Ix: IndexType> Graph<N, E, Ty, Ix> {
    // the real body of try_add_edge (copy under a second name so the probe keeps both contracts)
    pub fn try_add_edge2(
        &mut self,
        a: NodeIndex<Ix>,
        b: NodeIndex<Ix>,
        weight: E,
        Ghost(out): Ghost<Seq<Seq<int>>>, Ghost(inn): Ghost<Seq<Seq<int>>>,   // PROBE: witnesses passed in
    ) -> (res: Result<EdgeIndex<Ix>, GraphError>)
        requires old(self).wf_with(out, inn)
        ensures
            res is Err ==> final(self).nodes@ == old(self).nodes@ && final(self).edges@ == old(self).edges@,
            res is Err <==> (a.0.ix() >= old(self).nodes@.len() || b.0.ix() >= old(self).nodes@.len()
                             || (end_ix::<Ix>() != usize::MAX && old(self).edges@.len() == end_ix::<Ix>())),
            res is Ok ==> {
                let m = old(self).edges@.len() as int;
                let ai = a.0.ix() as int; let bi = b.0.ix() as int;
                &&& res->Ok_0.0.ix() == m
                &&& final(self).edges@.len() == m + 1
                &&& final(self).edges@[m].node[0] == a && final(self).edges@[m].node[1] == b && final(self).edges@[m].weight == weight
                &&& forall|j: int| 0 <= j < m ==> final(self).edges@[j] == old(self).edges@[j]
                &&& final(self).wf_with(out.update(ai, seq![m] + out[ai]), inn.update(bi, seq![m] + inn[bi]))
            },
    {
        proof { assert(!0usize == 0xffff_ffff_ffff_ffffusize) by (bit_vector); }
        let edge_idx = EdgeIndex::new(self.edges.len());
        if !(<Ix as IndexType>::max().index() == !0 || EdgeIndex::end() != edge_idx) {
            return Err(GraphError::EdgeIxLimit);
        }

        let mut edge = Edge {
            weight,
            node: [a, b],
            next: [EdgeIndex::end(); 2],
        };
        match index_twice(&mut self.nodes, a.index(), b.index()) {
            Pair::None => return Err(GraphError::NodeOutBounds),
            Pair::One(an) => {
                edge.next = an.next;
                an.next[0] = edge_idx;
                an.next[1] = edge_idx;
            }
            Pair::Both(an, bn) => {
                // a and b are different indices
                edge.next = [an.next[0], bn.next[1]];
                an.next[0] = edge_idx;
                bn.next[1] = edge_idx;
            }
        }
        self.edges.push(edge);
        proof {
            let ns0 = old(self).nodes@; let es0 = old(self).edges@;
            let ns1 = self.nodes@; let es1 = self.edges@;
            let m = es0.len() as int; let ai = a.0.ix() as int; let bi = b.0.ix() as int;
            let out1 = out.update(ai, seq![m] + out[ai]);
            let inn1 = inn.update(bi, seq![m] + inn[bi]);
            assert(self.edges@.len() == self.edges.len());   // Vec length is a usize
            assert(m + 1 <= usize::MAX);
            assert(m < end_ix::<Ix>());
            assert(es1 == es0.push(es1[m]));
            lemma_lists_after_add(ns0, es0, ns1, es1, 0, out, ai, m);
            lemma_lists_after_add(ns0, es0, ns1, es1, 1, inn, bi, m);
            assert(ns1.len() == ns0.len());
            assert(self.nodes@.len() <= end_ix::<Ix>() && self.edges@.len() <= end_ix::<Ix>());
            assert forall|e: int| 0 <= e < es1.len() implies (#[trigger] es1[e]).node[0].0.ix() < ns1.len() && es1[e].node[1].0.ix() < ns1.len() by {
                if e < m { assert(es1[e] == es0[e]); }
            }
            assert(lists_ok(ns1, es1, 0, out1));
            assert(lists_ok(ns1, es1, 1, inn1));
            assert(self.wf_with(out1, inn1));
        }
        Ok(edge_idx)
    }
}

impl<N, E, Ty, Ix> Graph<N, E, Ty, Ix>
where
    Ty: EdgeType,
    Ix: IndexType,
{
    fn find_edge_directed_from_node(
        &self,
        node: &Node<N, Ix>,
        b: NodeIndex<Ix>,
    ) -> (r: Option<EdgeIndex<Ix>>)
        requires
            exists|s: Seq<int>| chain(self.edges@, node.next[0], 0, s),
        ensures
            forall|s: Seq<int>| chain(self.edges@, node.next[0], 0, s) ==> 
                match r {
                    Some(e) => exists|i: int| 0 <= i < s.len() && s[i] == e.0.ix() && self.edges@[s[i]].node[1].0.ix() == b.0.ix()
                        && forall|j: int| 0 <= j < i ==> self.edges@[s[j]].node[1].0.ix() != b.0.ix(),
                    None => forall|j: int| 0 <= j < s.len() ==> self.edges@[s[j]].node[1].0.ix() != b.0.ix(),
                }
    {
        let ghost s0: Seq<int> = choose|s: Seq<int>| chain(self.edges@, node.next[0], 0, s);
        let ghost mut rest: Seq<int> = s0;
        let ghost mut done: int = 0;
        let mut edix = node.next[0];
        while let Some(edge) = self.edges.get(edix.index())
            invariant
                0 <= done <= s0.len(),
                chain(self.edges@, node.next[0], 0, s0),
                rest == s0.subrange(done, s0.len() as int),
                chain(self.edges@, edix, 0, rest),
                forall|j: int| 0 <= j < done ==> self.edges@[s0[j]].node[1].0.ix() != b.0.ix(),
            ensures edix.0.ix() >= self.edges@.len(),
            decreases rest.len()
        {
            proof {
                assert(rest.len() > 0);
                assert(rest[0] == edix.0.ix());
            }
            if edge.node[1] == b {
                proof { lemma_list_unique(self.edges@, node.next[0], 0, s0);
                    assert(s0[done] == rest[0]);
                    assert(0 <= s0[done] < self.edges@.len());
                }
                return Some(edix);
            }
            edix = edge.next[0];
            proof {
                assert(s0[done] == rest[0]);
                rest = rest.drop_first();
                done = done + 1;
                assert(rest =~= s0.subrange(done, s0.len() as int));
            }
        }
        proof { lemma_list_unique(self.edges@, node.next[0], 0, s0); assert(edix.0.ix() >= self.edges@.len()); assert(rest.len() == 0); assert(done == s0.len()); }
        None
    }
}

struct EdgesWalkerMut<'a, E: 'a, Ix: IndexType> {
    edges: &'a mut [Edge<E, Ix>],
    next: EdgeIndex<Ix>,
    dir: Direction,
}

fn edges_walker_mut<E, Ix>(
    edges: &mut [Edge<E, Ix>],
    next: EdgeIndex<Ix>,
    dir: Direction,
) -> (r: EdgesWalkerMut<E, Ix>)
where
    Ix: IndexType,
    ensures r.edges@ == old(edges)@, final(r.edges)@ == final(edges)@, r.next == next, r.dir == dir,
{
    EdgesWalkerMut { edges, next, dir }
}

impl<E, Ix> EdgesWalkerMut<'_, E, Ix>
where
    Ix: IndexType,
{
    fn next_edge(&mut self) -> (r: Option<&mut Edge<E, Ix>>)
        ensures
            final(self).dir == old(self).dir,
            final(final(self).edges)@ == final(old(self).edges)@,
            match r {
                None => old(self).next.0.ix() >= old(self).edges@.len() && final(self).next == old(self).next && final(self).edges@ == old(self).edges@,
                Some(e) => {
                    let i = old(self).next.0.ix() as int;
                    &&& i < old(self).edges@.len()
                    &&& *e == old(self).edges@[i]
                    &&& final(self).next == old(self).edges@[i].next[old(self).dir.k()]
                    &&& final(self).edges@ == old(self).edges@.update(i, *final(e))
                }
            }
    {
        self.next().map(|t: (EdgeIndex<Ix>, &mut Edge<E, Ix>)| -> (r: &mut Edge<E, Ix>) ensures *r == *old(t.1), *final(r) == *final(t.1) { t.1 })
    }

    fn next(&mut self) -> (r: Option<(EdgeIndex<Ix>, &mut Edge<E, Ix>)>)
        ensures
            final(self).dir == old(self).dir,
            final(final(self).edges)@ == final(old(self).edges)@,
            match r {
                None => old(self).next.0.ix() >= old(self).edges@.len() && final(self).next == old(self).next && final(self).edges@ == old(self).edges@,
                Some((ix, e)) => {
                    let i = old(self).next.0.ix() as int;
                    &&& ix == old(self).next
                    &&& i < old(self).edges@.len()
                    &&& *e == old(self).edges@[i]
                    &&& final(self).next == old(self).edges@[i].next[old(self).dir.k()]
                    &&& final(self).edges@ == old(self).edges@.update(i, *final(e))
                }
            }
    {
        let this_index = self.next;
        let k = self.dir.index();
        match self.edges.get_mut(self.next.index()) {
            None => None,
            Some(edge) => {
                self.next = edge.next[k];
                Some((this_index, edge))
            }
        }
    }
}

impl<N, E, Ty, Ix> Graph<N, E, Ty, Ix>
where
    Ty: EdgeType,
    Ix: IndexType,
{
    fn change_edge_links(
        &mut self,
        edge_node: [NodeIndex<Ix>; 2],
        e: EdgeIndex<Ix>,
        edge_next: [EdgeIndex<Ix>; 2],
        Ghost(s0): Ghost<Seq<int>>, Ghost(s1): Ghost<Seq<int>>,   // PROBE: chains passed in; the unit will `choose` them
    )
        requires
            edge_node[0].0.ix() < old(self).nodes.len(), edge_node[1].0.ix() < old(self).nodes.len(),
            chain(old(self).edges@, old(self).nodes@[edge_node[0].0.ix() as int].next[0], 0, s0), no_dup(s0),
            chain(old(self).edges@, old(self).nodes@[edge_node[1].0.ix() as int].next[1], 1, s1), no_dup(s1),
        ensures
            payload_same(old(self).nodes@, old(self).edges@, final(self).nodes@, final(self).edges@),
            dir_done(old(self).nodes@, old(self).edges@, final(self).nodes@, final(self).edges@, edge_node[0].0.ix() as int, e, edge_next[0], 0, s0),
            dir_done(old(self).nodes@, old(self).edges@, final(self).nodes@, final(self).edges@, edge_node[1].0.ix() as int, e, edge_next[1], 1, s1),
    {
        let ghost n0 = self.nodes@;
        let ghost e0 = self.edges@;
        for __d in it: &DIRECTIONS
            invariant
                it.seq().len() == 2, it.seq()[0].k() == 0, it.seq()[1].k() == 1,
                payload_same(n0, e0, self.nodes@, self.edges@),
                n0 == old(self).nodes@, e0 == old(self).edges@,
                edge_node[0].0.ix() < n0.len(), edge_node[1].0.ix() < n0.len(),
                chain(e0, n0[edge_node[0].0.ix() as int].next[0], 0, s0), no_dup(s0),
                chain(e0, n0[edge_node[1].0.ix() as int].next[1], 1, s1), no_dup(s1),
                it.index@ >= 1 ==> dir_done(n0, e0, self.nodes@, self.edges@, edge_node[0].0.ix() as int, e, edge_next[0], 0, s0),
                it.index@ >= 2 ==> dir_done(n0, e0, self.nodes@, self.edges@, edge_node[1].0.ix() as int, e, edge_next[1], 1, s1),
                it.index@ <= 1 ==> dir_untouched(n0, e0, self.nodes@, self.edges@, 1),
                it.index@ <= 0 ==> dir_untouched(n0, e0, self.nodes@, self.edges@, 0),
        { let d = *__d;
            let k = d.index();
            let ghost a: int = edge_node[k as int].0.ix() as int;
            let ghost s: Seq<int> = if k == 0 { s0 } else { s1 };
            let ghost repl = edge_next[k as int];
            let ghost n1 = self.nodes@;   // state at the start of this direction
            let ghost e1 = self.edges@;
            proof {
                assert(d == it.seq()[it.index@]);
                assert(k == it.index@);
                // the chain for direction k is still a chain in the current state: next[k] fields are untouched so far
                lemma_chain_range(e0, n0[a].next[k as int], k as int, s);
                assert forall|i: int| 0 <= i < s.len() implies e1[#[trigger] s[i]].next[k as int] == e0[s[i]].next[k as int] by { }
                lemma_chain_frame(e0, e1, n0[a].next[k as int], k as int, s);
                assert(n1[a].next[k as int] == n0[a].next[k as int]);
                lemma_first_link_frame(e0, e1, k as int, s, e);
            }
            let node = match self.nodes.get_mut(edge_node[k].index()) {
                Some(r) => r,
                None => {
                    assert(false);
                    return;
                }
            };
            let fst = node.next[k];
            if fst == e {
                node.next[k] = edge_next[k];
                proof {
                    assert(self.edges@ == e1);
                    assert(step_ok(n1, e1, self.nodes@, self.edges@, a, e, repl, k as int, s));
                }
            } else {
                let ghost mut done: int = 0;
                let mut edges = edges_walker_mut(&mut self.edges, fst, d);
                let ghost fin = final(edges.edges)@;
                proof { assert(s.subrange(0, s.len() as int) =~= s); }
                let ghost mut hit: bool = false;
                while let Some(curedge) = edges.next_edge()
                    invariant_except_break
                        edges.edges@ == e1,
                        chain(e1, edges.next, k as int, s.subrange(done, s.len() as int)),
                        !hit,
                    invariant
                        final(edges.edges)@ == fin,
                        edges.dir == d, k == d.k(), 0 <= done <= s.len(), k < 2, repl == edge_next[k as int],
                        no_dup(s),
                        forall|i: int| 0 <= i < done ==> e1[s[i]].next[k as int].0.ix() != e.0.ix(),
                        first_link(e1, k as int, s, e) == done + first_link(e1, k as int, s.subrange(done, s.len() as int), e),
                    ensures
                        !hit ==> edges.edges@ == e1 && first_link(e1, k as int, s, e) == s.len(),
                        hit ==> {
                            let p = first_link(e1, k as int, s, e);
                            &&& p == done && p < s.len()
                            &&& edges.edges@.len() == e1.len()
                            &&& forall|j: int| 0 <= j < e1.len() && j != s[p] ==> edges.edges@[j] == e1[j]
                            &&& edges.edges@[s[p]].next[k as int] == repl
                            &&& same_but_next(edges.edges@[s[p]], e1[s[p]], k as int)
                        },
                    decreases s.len() - done
                {
                    proof {
                        let rest = s.subrange(done, s.len() as int);
                        assert(rest.len() > 0);
                        assert(rest[0] == s[done]);
                        assert(rest.drop_first() =~= s.subrange(done + 1, s.len() as int));
                    }
                    let ghost cur0 = *curedge;
                    if curedge.next[k] == e {
                        curedge.next[k] = edge_next[k];
                        proof {
                            hit = true;
                            let rest = s.subrange(done, s.len() as int);
                            assert(cur0 == e1[s[done]]);
                            assert(first_link(e1, k as int, rest, e) == 0);
                            assert(same_but_next(*curedge, cur0, k as int));
                            assert(repl == edge_next[k as int]);
                        }
                        break; // the edge can only be present once in the list.
                    }
                    proof { done = done + 1; }
                }
                proof {
                    // walker is still alive here; its contents are the final edges by the prophecy invariant
                }
            }
            proof {
                if n1[a].next[k as int].0.ix() != e.0.ix() {
                    assert(self.nodes@ =~= n1);
                    assert(step_ok(n1, e1, self.nodes@, self.edges@, a, e, repl, k as int, s));
                }
            }
            proof {
                // establish dir_done(k) w.r.t. (n0,e0) from the facts about (n1,e1), and keep the other direction's status
                let n2 = self.nodes@; let e2 = self.edges@;
                assert(step_ok(n1, e1, n2, e2, a, e, repl, k as int, s));
                assert(payload_same(n0, e0, n2, e2));
                // direction k, relative to the original state
                assert(dir_done(n0, e0, n2, e2, a, e, repl, k as int, s)) by {
                    assert forall|j: int| 0 <= j < n0.len() implies (#[trigger] n2[j]).next[k as int] == node_next_after(n0, j, a, e, repl, k as int) by {
                        assert(n1[j].next[k as int] == n0[j].next[k as int]);
                    }
                    assert forall|j: int| 0 <= j < e0.len() implies (#[trigger] e2[j]).next[k as int] == edge_next_after(n0, e0, j, a, e, repl, k as int, s) by {
                        assert(e1[j].next[k as int] == e0[j].next[k as int]);
                    }
                }
                // the other direction keeps its status
                if k == 0 {
                    assert(dir_untouched(n0, e0, n2, e2, 1)) by {
                        assert forall|j: int| 0 <= j < n0.len() implies (#[trigger] n2[j]).next[1] == n0[j].next[1] by { assert(n1[j].next[1] == n0[j].next[1]); }
                        assert forall|j: int| 0 <= j < e0.len() implies (#[trigger] e2[j]).next[1] == e0[j].next[1] by { assert(e1[j].next[1] == e0[j].next[1]); }
                    }
                } else {
                    let a0 = edge_node[0].0.ix() as int;
                    assert(dir_done(n0, e0, n2, e2, a0, e, edge_next[0], 0, s0)) by {
                        assert forall|j: int| 0 <= j < n0.len() implies (#[trigger] n2[j]).next[0] == node_next_after(n0, j, a0, e, edge_next[0], 0) by { assert(n2[j].next[0] == n1[j].next[0]); }
                        assert forall|j: int| 0 <= j < e0.len() implies (#[trigger] e2[j]).next[0] == edge_next_after(n0, e0, j, a0, e, edge_next[0], 0, s0) by { assert(e2[j].next[0] == e1[j].next[0]); }
                    }
                }
            }
        }
    }
}

impl<N, E, Ty: EdgeType, Ix: IndexType> Graph<N, E, Ty, Ix> {
    fn remove_edge_adjust_indices(&mut self, e: EdgeIndex<Ix>, Ghost(l0): Ghost<Seq<Seq<int>>>, Ghost(l1): Ghost<Seq<Seq<int>>>) -> (r: Option<E>)
        requires
            e.0.ix() < old(self).edges@.len(), old(self).edges@.len() <= end_ix::<Ix>(), old(self).nodes@.len() <= end_ix::<Ix>(),
            endpoints_ok(old(self).nodes@, old(self).edges@),
            lists_ok_except(old(self).nodes@, old(self).edges@, 0, l0, e.0.ix() as int),
            lists_ok_except(old(self).nodes@, old(self).edges@, 1, l1, e.0.ix() as int),
        ensures
            r == Some(old(self).edges@[e.0.ix() as int].weight),
            final(self).wf(),
            final(self).nodes@.len() == old(self).nodes@.len(),
            final(self).edges@.len() == old(self).edges@.len() - 1,
            forall|j: int| 0 <= j < final(self).nodes@.len() ==> (#[trigger] final(self).nodes@[j]).weight == old(self).nodes@[j].weight,
            // swap_remove on the payload
            forall|j: int| 0 <= j < final(self).edges@.len() ==> {
                let src = if j == e.0.ix() { old(self).edges@.len() - 1 } else { j };
                (#[trigger] final(self).edges@[j]).weight == old(self).edges@[src].weight && final(self).edges@[j].node == old(self).edges@[src].node
            },
    {
        let ghost ns1 = self.nodes@;
        let ghost es1 = self.edges@;
        let ghost ei = e.0.ix() as int;
        let ghost l = es1.len() - 1;
        // swap_remove the edge -- only the removed edge
        // and the edge swapped into place are affected and need updating
        // indices.
        let edge = self.edges.swap_remove(e.index());
        let ghost es2 = self.edges@;
        let swap = match self.edges.get(e.index()) {
            // no elment needed to be swapped.
            None => {
                proof {
                    assert(ei == l);
                    assert(es2 =~= es1.drop_last());
                    lemma_truncate_dir(ns1, es1, es2, 0, l0);
                    lemma_truncate_dir(ns1, es1, es2, 1, l1);
                    assert(self.wf_with(l0, l1));
                }
                return Some(edge.weight)
            },
            Some(ed) => ed.node,
        };
        let swapped_e = EdgeIndex::new(self.edges.len());
        proof {
            assert(ei < l);
            assert(es2.len() == l);
            assert(es2[ei] == es1[l]);
            assert forall|j: int| 0 <= j < es2.len() && j != ei implies es2[j] == es1[j] by { }
            let sw: EdgeIndex<Ix> = swapped_e;
            assert(sw.0.ix() == l);
        }
        let ghost al0 = es1[l].node[0].0.ix() as int;
        let ghost al1 = es1[l].node[1].0.ix() as int;
        let ghost q0 = choose|q: int| 0 <= q < l0[al0].len() && l0[al0][q] == l;
        let ghost q1 = choose|q: int| 0 <= q < l1[al1].len() && l1[al1][q] == l;
        proof {
            assert(l0[al0].contains(l));
            assert(l1[al1].contains(l));
            lemma_rename_pre(ns1, es1, es2, 0, l0, ei, q0);
            lemma_rename_pre(ns1, es1, es2, 1, l1, ei, q1);
        }

        // Update the edge lists by replacing links to the old index by references to the new
        // edge index.
        self.change_edge_links(swap, swapped_e, [e, e], Ghost(l0[al0].subrange(0, q0)), Ghost(l1[al1].subrange(0, q1)));
        proof {
            let ns3 = self.nodes@; let es3 = self.edges@;
            lemma_rename_dir(ns1, es1, es2, ns3, es3, 0, l0, e, swapped_e, q0);
            lemma_rename_dir(ns1, es1, es2, ns3, es3, 1, l1, e, swapped_e, q1);
            let l0b = l0.update(al0, l0[al0].update(q0, ei));
            let l1b = l1.update(al1, l1[al1].update(q1, ei));
            assert(endpoints_ok(ns3, es3));
            assert(self.wf_with(l0b, l1b));
        }
        Some(edge.weight)
    }

    pub fn remove_edge(&mut self, e: EdgeIndex<Ix>, Ghost(out): Ghost<Seq<Seq<int>>>, Ghost(inn): Ghost<Seq<Seq<int>>>) -> (r: Option<E>)
        requires old(self).wf_with(out, inn)
        ensures
            e.0.ix() >= old(self).edges@.len() ==> r is None && final(self).nodes@ == old(self).nodes@ && final(self).edges@ == old(self).edges@,
            e.0.ix() < old(self).edges@.len() ==> {
                &&& r == Some(old(self).edges@[e.0.ix() as int].weight)
                &&& final(self).wf()
                &&& final(self).nodes@.len() == old(self).nodes@.len()
                &&& final(self).edges@.len() == old(self).edges@.len() - 1
                &&& forall|j: int| 0 <= j < final(self).nodes@.len() ==> (#[trigger] final(self).nodes@[j]).weight == old(self).nodes@[j].weight
                &&& forall|j: int| 0 <= j < final(self).edges@.len() ==> {
                        let src = if j == e.0.ix() { old(self).edges@.len() - 1 } else { j };
                        (#[trigger] final(self).edges@[j]).weight == old(self).edges@[src].weight && final(self).edges@[j].node == old(self).edges@[src].node
                    }
            },
    {
        // every edge is part of two lists,
        // outgoing and incoming edges.
        // Remove it from both
        let (edge_node, edge_next) = match self.edges.get(e.index()) {
            None => return None,
            Some(x) => (x.node, x.next),
        };
        let ghost ns0 = self.nodes@;
        let ghost es0 = self.edges@;
        let ghost ei = e.0.ix() as int;
        let ghost a0 = es0[ei].node[0].0.ix() as int;
        let ghost a1 = es0[ei].node[1].0.ix() as int;
        let ghost q0 = choose|q: int| 0 <= q < out[a0].len() && out[a0][q] == ei;
        let ghost q1 = choose|q: int| 0 <= q < inn[a1].len() && inn[a1][q] == ei;
        proof {
            assert(out[a0].contains(ei));
            assert(inn[a1].contains(ei));
            let t = end_ix::<Ix>() as int;
            lemma_slist_is_tchain(es0, ns0[a0].next[0], 0, out[a0]);
            lemma_tchain_is_chain(es0, ns0[a0].next[0], 0, out[a0], t);
            lemma_slist_is_tchain(es0, ns0[a1].next[1], 1, inn[a1]);
            lemma_tchain_is_chain(es0, ns0[a1].next[1], 1, inn[a1], t);
        }
        // Remove the edge from its in and out lists by replacing it with
        // a link to the next in the list.
        self.change_edge_links(edge_node, e, edge_next, Ghost(out[a0]), Ghost(inn[a1]));
        proof {
            let ns1 = self.nodes@; let es1 = self.edges@;
            lemma_unlink_dir(ns0, es0, ns1, es1, 0, out, e, q0);
            lemma_unlink_dir(ns0, es0, ns1, es1, 1, inn, e, q1);
            assert(endpoints_ok(ns1, es1));
        }
        self.remove_edge_adjust_indices(e, Ghost(out.update(a0, out[a0].remove(q0))), Ghost(inn.update(a1, inn[a1].remove(q1))))
    }
}
