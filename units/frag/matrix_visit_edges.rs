// ======================================================================================
// fragment matrix_visit_edges.rs - MatrixGraph's edge references through the visit traits (C04, C06): the tuple edge
// reference `(source, target, &weight)`, edge_references (every occupied canonical cell once, row-major), edges /
// edges_directed against the IntoEdges / IntoEdgesDirected laws: the edges at a node lead to exactly its neighbours, in the
// same order, with the queried node at the right end
// ======================================================================================

//@ item src/visit/mod.rs | - | impl<N, E> EdgeRef for (N, N, &E) where N: Copy
impl<N, E> EdgeRef for (N, N, &E)
where
    N: Copy,
{
    type NodeId = N;
    type EdgeId = (N, N);
    type Weight = E;

    /*+*/
    open spec fn src(&self) -> N { self.0 }
    open spec fn tgt(&self) -> N { self.1 }
    open spec fn eid(&self) -> (N, N) { (self.0, self.1) }
    /*-*/

    fn source(&self) -> N {
        self.0
    }
    fn target(&self) -> N {
        self.1
    }
    fn weight(&self) -> &E {
        self.2
    }
    fn id(&self) -> (N, N) {
        (self.0, self.1)
    }
}
//@ end

/// all occupied canonical cells from (row, col) on, row-major (for an undirected graph row r has the columns 0..=r)
pub open spec fn mall<'a, Null: Nullable, Ix: IndexType>(adj: Seq<Null>, d: bool, w: int, row: int, col: int) -> Seq<(NodeIndex<Ix>, NodeIndex<Ix>, &'a Null::Wrapped)>
    decreases w - row, ncols_of(d, row, w) - col
{
    if !(0 <= row < w && 0 <= col < ncols_of(d, row, w)) { Seq::empty() }
    else {
        let here: Seq<(NodeIndex<Ix>, NodeIndex<Ix>, &'a Null::Wrapped)> = match adj[lin_pos(d, row, col, w)].nv() {
            Some(v) => seq![(NodeIndex(Ix::spec_new(row as usize)), NodeIndex(Ix::spec_new(col as usize)), &v)],
            None => Seq::empty(),
        };
        here + (if col + 1 >= ncols_of(d, row, w) { mall::<Null, Ix>(adj, d, w, row + 1, 0) } else { mall::<Null, Ix>(adj, d, w, row, col + 1) })
    }
}

//@ item src/matrix_graph.rs | - | struct EdgeReferences
/// Iterator over all edges of a graph.
///
/// Created from a call to [`.edge_references()`][1] on a [`MatrixGraph`][2].
///
/// [1]: ../visit/trait.IntoEdgeReferences.html#tymethod.edge_references
/// [2]: struct.MatrixGraph.html
pub struct EdgeReferences<'a, Ty: EdgeType, Null: 'a + Nullable, Ix> {
    pub row: usize,
    pub column: usize,
    pub node_adjacencies: &'a [Null],
    pub node_capacity: usize,
    pub ty: PhantomData<Ty>,
    pub ix: PhantomData<Ix>,
}
//@ end

impl<'a, Ty: EdgeType, Null: 'a + Nullable, Ix> EdgeReferences<'a, Ty, Null, Ix> {
    /// the slice has the size the capacity says, and the cursor is a canonical cell (true of every value `edge_references` of a
    /// well-formed graph returns and kept by `next`; Iterator::next cannot state it as a precondition, see the twin below)
    pub open spec fn ok(&self) -> bool {
        &&& self.node_capacity < 0x4000_0000 && self.node_adjacencies@.len() == lin_size(Ty::spec_is_directed(), self.node_capacity as int)
        &&& (self.row < self.node_capacity ==> self.column < ncols_of(Ty::spec_is_directed(), self.row as int, self.node_capacity as int))
    }
    pub open spec fn adj(&self) -> Seq<Null> { self.node_adjacencies@ }
    pub open spec fn cap(&self) -> int { self.node_capacity as int }
    pub open spec fn r(&self) -> int { self.row as int }
    pub open spec fn c(&self) -> int { self.column as int }
}
impl<'a, Ty: EdgeType, Null: 'a + Nullable, Ix: IndexType> EdgeReferences<'a, Ty, Null, Ix> {
    pub open spec fn rem(&self) -> Seq<(NodeIndex<Ix>, NodeIndex<Ix>, &'a Null::Wrapped)> {
        mall::<Null, Ix>(self.adj(), Ty::spec_is_directed(), self.cap(), self.r(), self.c())
    }
    /// cells still to inspect
    pub open spec fn left(&self) -> nat {
        (if 0 <= self.r() < self.cap() { (self.cap() - self.r()) * (self.cap() + 1) - self.c() } else { 0 }) as nat
    }
}
impl<'a, Ty: EdgeType, Null: 'a + Nullable, Ix: IndexType> vstd::std_specs::iter::IteratorSpecImpl for EdgeReferences<'a, Ty, Null, Ix> {
    open spec fn obeys_prophetic_iter_laws(&self) -> bool { true }
    open spec fn remaining(&self) -> Seq<(NodeIndex<Ix>, NodeIndex<Ix>, &'a Null::Wrapped)> { self.rem() }
    open spec fn decrease(&self) -> Option<nat> { Some(self.left()) }
    open spec fn will_return_none(&self) -> bool { true }
    open spec fn peek(&self, i: int) -> Option<(NodeIndex<Ix>, NodeIndex<Ix>, &'a Null::Wrapped)> { None }
}

impl<'a, Ty: EdgeType, Null: 'a + Nullable, Ix> EdgeReferences<'a, Ty, Null, Ix> {
//@ item src/matrix_graph.rs | impl<'a, Ty: EdgeType, Null: 'a + Nullable, Ix> EdgeReferences<'a, Ty, Null, Ix> | fn new
    fn new(node_adjacencies: &'a [Null], node_capacity: usize) -> (r: Self)
        /*+*/ensures r.adj() == node_adjacencies@, r.cap() == node_capacity, r.r() == 0, r.c() == 0/*-*/
    {
        EdgeReferences {
            row: 0,
            column: 0,
            node_adjacencies,
            node_capacity,
            ty: PhantomData,
            ix: PhantomData,
        }
    }
//@ end
}

//@ item src/matrix_graph.rs | - | impl<'a, Ty: EdgeType, Null: Nullable, Ix: IndexType> Iterator for EdgeReferences<'a, Ty, Null, Ix>
impl<'a, Ty: EdgeType, Null: Nullable, Ix: IndexType> Iterator
    for EdgeReferences<'a, Ty, Null, Ix>
{
    type Item = (NodeIndex<Ix>, NodeIndex<Ix>, &'a Null::Wrapped);

    // TRUSTED against vstd's `Iterator::next` contract for the `remaining()` above: a trait-impl method cannot carry the precondition
    // the proof needs (`ok()`: slice size and a canonical cursor).  D17-twin: the same body is proved under that precondition below
    /*+*/#[verifier::external_body]/*-*/
    fn next(&mut self) -> Option<Self::Item> {
        
        loop
            
        {
            let (row, column) = (self.row, self.column);
            if row >= self.node_capacity {
                return None;
            }
            

            // By default, advance the column. Reset and advance the row if the column overflows.
            //
            // Note that for undirected graphs, we don't want to yield the same edge twice,
            // therefore the maximum column length should be the index new after the row index.
            self.column += 1;
            let max_column_len = if !Ty::is_directed() {
                row + 1
            } else {
                self.node_capacity
            };
            if self.column >= max_column_len {
                self.column = 0;
                self.row += 1;
            }

            
            let p = to_linearized_matrix_position::<Ty>(row, column, self.node_capacity);
            if let Some(e) = self.node_adjacencies[p].as_ref() {
                
                return Some((NodeIndex::new(row), NodeIndex::new(column), e));
            }
            
        }
    }
}
//@ end

mod edge_references_proof {
    use super::*;
impl<'a, Ty: EdgeType, Null: Nullable, Ix: IndexType> EdgeReferences<'a, Ty, Null, Ix> {
//@ item src/matrix_graph.rs | impl<'a, Ty: EdgeType, Null: Nullable, Ix: IndexType> Iterator for EdgeReferences<'a, Ty, Null, Ix> | fn next
    fn next(&mut self) -> (res: Option</*R:D17 Self::Item */ (NodeIndex<Ix>, NodeIndex<Ix>, &'a Null::Wrapped) /*-*/>)
        /*+*/requires old(self).ok()
        ensures final(self).ok(), final(self).adj() == old(self).adj(), final(self).cap() == old(self).cap(),
            old(self).rem() == (match res { Some(x) => seq![x] + final(self).rem(), None => Seq::empty() }),      // [matrix_edge_references_next_is_next_occupied_cell]
            res is Some ==> final(self).left() < old(self).left(), res is None ==> final(self).rem().len() == 0/*-*/
    {
                loop
            /*+*/invariant self.ok(), self.adj() == old(self).adj(), self.cap() == old(self).cap(),
                self.rem() == old(self).rem(), self.left() <= old(self).left(),
            decreases self.left()/*-*/
        {
            let (row, column) = (self.row, self.column);
            if row >= self.node_capacity {
                return None;
            }
            /*+*/let ghost before = *self;
            proof { assert((self.cap() - row) * (self.cap() + 1) == (self.cap() - row - 1) * (self.cap() + 1) + self.cap() + 1) by (nonlinear_arith); }/*-*/

            // By default, advance the column. Reset and advance the row if the column overflows.
            //
            // Note that for undirected graphs, we don't want to yield the same edge twice,
            // therefore the maximum column length should be the index new after the row index.
            self.column += 1;
            let max_column_len = if !Ty::is_directed() {
                row + 1
            } else {
                self.node_capacity
            };
            if self.column >= max_column_len {
                self.column = 0;
                self.row += 1;
            }

            /*+*/proof { lemma_pos_canon(Ty::spec_is_directed(), row as int, column as int, self.node_capacity as int); }/*-*/
            let p = to_linearized_matrix_position::<Ty>(row, column, self.node_capacity);
            if let Some(e) = self.node_adjacencies[p].as_ref() {
                /*+*/proof { assert(before.rem() =~= seq![(NodeIndex::<Ix>(Ix::spec_new(row)), NodeIndex::<Ix>(Ix::spec_new(column)), e)] + self.rem()); }/*-*/
                return Some((NodeIndex::new(row), NodeIndex::new(column), e));
            }
            /*+*/proof { assert(before.rem() =~= self.rem()); }/*-*/
        }
    }
//@ end
}
}

//@ item src/matrix_graph.rs | - | impl<'a, N, E, S, Ty: EdgeType, Null: Nullable<Wrapped = E>, Ix: IndexType> IntoEdgeReferences for &'a MatrixGraph<N, E, S, Ty, Null, Ix>
impl<'a, N, E, S/*+*/: BuildHasher/*-*/, Ty: EdgeType, Null: Nullable<Wrapped = E>, Ix: IndexType> IntoEdgeReferences
    for &'a MatrixGraph<N, E, S, Ty, Null, Ix>
{
    type EdgeRef = (NodeIndex<Ix>, NodeIndex<Ix>, &'a E);
    type EdgeReferences = EdgeReferences<'a, Ty, Null, Ix>;
    /*+*/
    /// every occupied canonical cell, row-major
    open spec fn edge_refs(self) -> Seq<(NodeIndex<Ix>, NodeIndex<Ix>, &'a E)> { mall::<Null, Ix>(self.node_adjacencies@, self.d(), self.cap(), 0, 0) }
    /*-*/
    fn edge_references(self) -> Self::EdgeReferences {
        EdgeReferences::new(&self.node_adjacencies, self.node_capacity)
    }
}
//@ end

impl<N, E, S: BuildHasher, Ty: EdgeType, Null: Nullable<Wrapped = E>, Ix: IndexType> MatrixGraph<N, E, S, Ty, Null, Ix> {
    /// the row scan of a live node a starts every edge at a itself
    pub proof fn lemma_row_edges(&self, a: NodeIndex<Ix>)
        requires self.wf()
        ensures ({ let s = mscan::<Null, Ix>(self.node_adjacencies@, self.d(), self.cap(), false, a.i(), 0);
            s.len() == self.row_nbrs(a.i()).len() && forall|i: int| 0 <= i < s.len() ==> (#[trigger] s[i]).0 == a && s[i].1 == self.row_nbrs(a.i())[i] })
    {
        lemma_mscan_is_mcols::<Null, Ix>(self.node_adjacencies@, self.d(), self.cap(), a.i(), 0);
        Ix::ix_bound(a.0); Ix::new_law(a.i() as usize); Ix::ix_inj(a.0, Ix::spec_new(a.i() as usize));
    }
}

//@ item src/matrix_graph.rs | - | impl<'a, N, E, S: BuildHasher, Ty: EdgeType, Null: Nullable<Wrapped = E>, Ix: IndexType> IntoEdges for &'a MatrixGraph<N, E, S, Ty, Null, Ix>
impl<'a, N, E, S: BuildHasher, Ty: EdgeType, Null: Nullable<Wrapped = E>, Ix: IndexType> IntoEdges
    for &'a MatrixGraph<N, E, S, Ty, Null, Ix>
{
    type Edges = Edges<'a, Ty, Null, Ix>;
    /*+*/
    open spec fn edges_of(self, a: NodeIndex<Ix>) -> Seq<(NodeIndex<Ix>, NodeIndex<Ix>, &'a E)> { mscan::<Null, Ix>(self.node_adjacencies@, self.d(), self.cap(), false, a.i(), 0) }
    proof fn edges_law(self, a: NodeIndex<Ix>) { self.lemma_row_edges(a); }
    /*-*/
    fn edges(self, a: Self::NodeId) -> Self::Edges {
        MatrixGraph::edges(self, a)
    }
}
//@ end

impl<N, E, S: BuildHasher, Null: Nullable<Wrapped = E>, Ix: IndexType> MatrixGraph<N, E, S, Directed, Null, Ix> {
    /// the column scan of a ends every edge at a itself
    pub proof fn lemma_col_edges(&self, a: NodeIndex<Ix>)
        requires self.wf()
        ensures ({ let s = mscan::<Null, Ix>(self.node_adjacencies@, true, self.cap(), true, 0, a.i());
            s.len() == self.col_nbrs(a.i()).len() && forall|i: int| 0 <= i < s.len() ==> (#[trigger] s[i]).1 == a && s[i].0 == self.col_nbrs(a.i())[i] })
    {
        lemma_mscan_is_mrows::<Null, Ix>(self.node_adjacencies@, self.cap(), a.i(), 0);
        Ix::ix_bound(a.0); Ix::new_law(a.i() as usize); Ix::ix_inj(a.0, Ix::spec_new(a.i() as usize));
    }
}

//@ item src/matrix_graph.rs | - | impl<'a, N, E, S: BuildHasher, Null: Nullable<Wrapped = E>, Ix: IndexType> IntoEdgesDirected for &'a MatrixGraph<N, E, S, Directed, Null, Ix>
impl<'a, N, E, S: BuildHasher, Null: Nullable<Wrapped = E>, Ix: IndexType> IntoEdgesDirected
    for &'a MatrixGraph<N, E, S, Directed, Null, Ix>
{
    type EdgesDirected = Edges<'a, Directed, Null, Ix>;

    /*+*/
    open spec fn edges_dir(self, a: NodeIndex<Ix>, d: Direction) -> Seq<(NodeIndex<Ix>, NodeIndex<Ix>, &'a E)> {
        if d == Direction::Outgoing { mscan::<Null, Ix>(self.node_adjacencies@, true, self.cap(), false, a.i(), 0) }
        else { mscan::<Null, Ix>(self.node_adjacencies@, true, self.cap(), true, 0, a.i()) }
    }
    proof fn edges_dir_law(self, a: NodeIndex<Ix>, d: Direction) { self.lemma_row_edges(a); self.lemma_col_edges(a); }
    /*-*/

    fn edges_directed(self, a: Self::NodeId, dir: Direction) -> Self::EdgesDirected {
        MatrixGraph::edges_directed(self, a, dir)
    }
}
//@ end
