// ======================================================================================
// fragment csr.rs - src/csr.rs under contract (property C05, Csr half)
//
// View: n nodes with weights; for each node a the strictly ascending row
// column[row[a] .. row[a+1]] of neighbours with parallel edge weights.
// ======================================================================================

// ASSUMED (std): `<[T]>::binary_search` on a slice that is sorted w.r.t. `Ord`
pub assume_specification<T: Ord>[ <[T]>::binary_search ](s: &[T], x: &T) -> (r: Result<usize, usize>)
    ensures
        T::obeys_cmp_spec() && (forall|i: int, j: int| 0 <= i < j < s@.len() ==> #[trigger] s@[i].cmp_spec(&s@[j]) == Ordering::Less) ==> match r {
            Ok(i) => i < s@.len() && s@[i as int].cmp_spec(x) == Ordering::Equal,
            Err(i) => i <= s@.len() && (forall|j: int| 0 <= j < i ==> #[trigger] s@[j].cmp_spec(x) == Ordering::Less)
                        && (forall|j: int| i <= j < s@.len() ==> #[trigger] s@[j].cmp_spec(x) == Ordering::Greater),
        };
//@ item src/csr.rs | - | type NodeIndex
/// Csr node index type, a plain integer.
pub type NodeIndex<Ix = DefaultIx> = Ix;
//@ end
//@ item src/csr.rs | - | const BINARY_SEARCH_CUTOFF
const BINARY_SEARCH_CUTOFF: usize = 32;
//@ end

//@ item src/csr.rs | - | enum CsrError
/// The error type for fallible operations with `Csr`.
#[derive(Debug, Clone, Copy, PartialEq, Eq)]
pub enum CsrError {
    /// Both vertex indexes went out of Csr bounds.
    IndicesOutBounds(usize, usize),
}
//@ end

//@ item src/csr.rs | - | struct Csr
pub struct Csr<N = (), E = (), Ty = Directed, Ix = DefaultIx> {
    /// Column of next nodes
    pub column: Vec<NodeIndex<Ix>>,
    /// weight of each edge; lock step with column
    pub edges: Vec<E>,
    /// Index of start of row Always node_count + 1 long.
    /// Last element is always equal to column.len()
    pub row: Vec<usize>,
    pub node_weights: Vec<N>,
    pub edge_count: usize,
    pub ty: PhantomData<Ty>,
}
//@ end

impl<N, E, Ty, Ix> Csr<N, E, Ty, Ix>
where
    Ty: EdgeType,
    Ix: IndexType,
{
    pub open spec fn n(&self) -> int { self.row@.len() - 1 }
    pub open spec fn col(&self, p: int) -> int { self.column@[p].ix() as int }
    pub open spec fn in_row(&self, a: int, p: int) -> bool { self.row@[a] <= p < self.row@[a + 1] }
    /// representation invariant
    pub open spec fn wf(&self) -> bool {
        &&& self.row@.len() >= 1 && self.node_weights@.len() == self.n()
        &&& self.column@.len() == self.edges@.len()
        &&& self.row@[0] == 0 && self.row@[self.n()] == self.column@.len()
        &&& forall|i: int, j: int| 0 <= i <= j <= self.n() ==> #[trigger] self.row@[i] <= #[trigger] self.row@[j]
        &&& forall|a: int, p: int, q: int| 0 <= a < self.n() && #[trigger] self.in_row(a, p) && #[trigger] self.in_row(a, q) && p < q ==> self.col(p) < self.col(q)   // each row strictly ascending
        &&& forall|p: int| 0 <= p < self.column@.len() ==> 0 <= #[trigger] self.col(p) < self.n()
        &&& self.n() <= Ix::spec_max() + 1
    }
    /// view: the row of node a as (neighbour, weight) pairs in ascending neighbour order
    pub open spec fn adj(&self, a: int) -> Seq<(int, E)> {
        Seq::new((self.row@[a + 1] - self.row@[a]) as nat, |i: int| (self.col(self.row@[a] + i), self.edges@[self.row@[a] + i]))
    }
    pub open spec fn has_edge(&self, a: int, b: int) -> bool {
        exists|p: int| self.row@[a] <= p < self.row@[a + 1] && #[trigger] self.col(p) == b
    }

//@ item src/csr.rs | impl<N, E, Ty, Ix> Csr<N, E, Ty, Ix> where Ty: EdgeType, Ix: IndexType | fn new
    /// Create an empty `Csr`.
    pub fn new() -> (r: Self)
        /*+*/ensures r.wf(), r.n() == 0, r.column@.len() == 0, r.edge_count == 0/*-*/,   // [new_empty]
    {
        Csr {
            column: vec![],
            edges: vec![],
            row: vec![0; 1],
            node_weights: vec![],
            edge_count: 0,
            ty: PhantomData,
        }
    }
//@ end

//@ item src/csr.rs | impl<N, E, Ty, Ix> Csr<N, E, Ty, Ix> where Ty: EdgeType, Ix: IndexType | fn node_count
    pub fn node_count(&self) -> (r: usize)
        /*+*/requires self.row@.len() >= 1
        ensures r == self.n()/*-*/
    {
        self.row.len() - 1
    }
//@ end

//@ item src/csr.rs | impl<N, E, Ty, Ix> Csr<N, E, Ty, Ix> where Ty: EdgeType, Ix: IndexType | fn is_directed
    pub fn is_directed(&self) -> (r: bool)
        /*+*/ensures r == Ty::spec_is_directed()/*-*/
    {
        Ty::is_directed()
    }
//@ end

//@ item src/csr.rs | impl<N, E, Ty, Ix> Csr<N, E, Ty, Ix> where Ty: EdgeType, Ix: IndexType | fn edge_count
    pub fn edge_count(&self) -> (r: usize)
        /*+*/ensures Ty::spec_is_directed() ==> r == self.column@.len(),   // [edge_count_directed]
                !Ty::spec_is_directed() ==> r == self.edge_count/*-*/,
    {
        if self.is_directed() {
            self.column.len()
        } else {
            self.edge_count
        }
    }
//@ end

//@ item src/csr.rs | impl<N, E, Ty, Ix> Csr<N, E, Ty, Ix> where Ty: EdgeType, Ix: IndexType | fn add_node
    pub fn add_node(&mut self, weight: N) -> (r: NodeIndex<Ix>)
        /*+*/requires old(self).wf(), old(self).n() <= Ix::spec_max(),   // the new index must be representable in Ix
        ensures final(self).wf(), r.ix() == old(self).n(), final(self).n() == old(self).n() + 1,   // [add_node_index]
            final(self).node_weights@ == old(self).node_weights@.push(weight),                      // [add_node_weight]
            final(self).column@ == old(self).column@, final(self).edges@ == old(self).edges@,
            forall|a: int| 0 <= a <= old(self).n() ==> #[trigger] final(self).row@[a] == old(self).row@[a],   // [add_node_rows_kept]
            final(self).row@[final(self).n()] == old(self).column@.len(), final(self).edge_count == old(self).edge_count/*-*/,
    {
        let i = self.row.len() - 1;
        self.row.insert(i, self.column.len());
        self.node_weights.insert(i, weight);
        /*+*/proof {
            assert(self.node_weights@ =~= old(self).node_weights@.push(weight));
            assert forall|x: int, y: int| 0 <= x <= y <= self.n() implies #[trigger] self.row@[x] <= #[trigger] self.row@[y] by {
                let last = old(self).row@[old(self).n()];
                // new row = old[0..i] ++ [last] ++ [last]
                if x < i { assert(self.row@[x] == old(self).row@[x]); assert(old(self).row@[x] <= old(self).row@[old(self).n()]); }
                if y < i { assert(self.row@[y] == old(self).row@[y]); assert(old(self).row@[x] <= old(self).row@[y]); }
                if x >= i { assert(self.row@[x] == last); }
                if y >= i { assert(self.row@[y] == last); }
            }
            assert forall|a: int, p: int, q: int| 0 <= a < self.n() && #[trigger] self.in_row(a, p) && #[trigger] self.in_row(a, q) && p < q implies self.col(p) < self.col(q) by {
                if a < i { assert(self.row@[a] == old(self).row@[a]); if a + 1 < i { assert(self.row@[a + 1] == old(self).row@[a + 1]); }
                    assert(old(self).in_row(a, p) && old(self).in_row(a, q)); assert(old(self).col(p) < old(self).col(q)); }
            }
            assert forall|p: int| 0 <= p < self.column@.len() implies 0 <= #[trigger] self.col(p) < self.n() by { assert(old(self).col(p) < old(self).n()); }
        }/*-*/
        Ix::new(i)
    }
//@ end

//@ item src/csr.rs | impl<N, E, Ty, Ix> Csr<N, E, Ty, Ix> where Ty: EdgeType, Ix: IndexType | fn neighbors_range
    fn neighbors_range(&self, a: NodeIndex<Ix>) -> (r: Range<usize>)
        /*+*/requires self.wf(), a.ix() <= self.n(),    // row[a.index()] panics beyond that
        ensures r.start == self.row@[a.ix() as int],
            a.ix() < self.n() ==> r.end == self.row@[a.ix() + 1],
            a.ix() == self.n() ==> r.end == self.column@.len(),
            r.start <= r.end <= self.column@.len()/*-*/,
    {
        /*+*/proof { assert(self.row@.len() == self.row.len()); }/*-*/
        let index = self.row[a.index()];
        let end = self
            .row
            .get(a.index() + 1)
            .cloned()
            .unwrap_or(self.column.len());
        index..end
    }
//@ end

//@ item src/csr.rs | impl<N, E, Ty, Ix> Csr<N, E, Ty, Ix> where Ty: EdgeType, Ix: IndexType | fn neighbors_of
    fn neighbors_of(&self, a: NodeIndex<Ix>) -> (r: (usize, &[Ix]))
        /*+*/requires self.wf(), a.ix() <= self.n(),
        ensures r.0 == self.row@[a.ix() as int],
            a.ix() < self.n() ==> r.1@ == self.column@.subrange(self.row@[a.ix() as int] as int, self.row@[a.ix() + 1] as int),
            a.ix() == self.n() ==> r.1@.len() == 0/*-*/,
    {
        let r = self.neighbors_range(a);
        (r.start, &self.column[r])
    }
//@ end

//@ item src/csr.rs | impl<N, E, Ty, Ix> Csr<N, E, Ty, Ix> where Ty: EdgeType, Ix: IndexType | fn out_degree
    #[track_caller]
    pub fn out_degree(&self, a: NodeIndex<Ix>) -> (r: usize)
        /*+*/requires self.wf(), a.ix() < self.n(),
        ensures r == self.adj(a.ix() as int).len()/*-*/   // [out_degree_view]
    {
        let r = self.neighbors_range(a);
        r.end - r.start
    }
//@ end

//@ item src/csr.rs | impl<N, E, Ty, Ix> Csr<N, E, Ty, Ix> where Ty: EdgeType, Ix: IndexType | fn find_edge_pos
    fn find_edge_pos(&self, a: NodeIndex<Ix>, b: NodeIndex<Ix>) -> (r: Result<usize, usize>)
        /*+*/requires self.wf(), a.ix() < self.n(),
        ensures ({ let lo = self.row@[a.ix() as int] as int; let hi = self.row@[a.ix() + 1] as int;
            match r {
                Ok(p) => lo <= p < hi && self.col(p as int) == b.ix(),                        // [find_pos_ok]
                Err(p) => lo <= p <= hi && (forall|q: int| lo <= q < p ==> #[trigger] self.col(q) < b.ix())     // [find_pos_err_insertion_point]
                            && (forall|q: int| p <= q < hi ==> #[trigger] self.col(q) > b.ix()),
            } })/*-*/
    {
        /*+*/proof { Ix::ord_law(); }/*-*/
        let (index, neighbors) = self.neighbors_of(a);
        /*+*/let ghost lo = self.row@[a.ix() as int] as int; let ghost hi = self.row@[a.ix() + 1] as int;
        proof {
            assert forall|i: int| 0 <= i < neighbors@.len() implies #[trigger] neighbors@[i] == self.column@[lo + i] by { }
        }/*-*/
        if neighbors.len() < BINARY_SEARCH_CUTOFF {
            /*R:D6 for (i, elt) in neighbors.iter().enumerate() */ let mut __i = 0usize; loop 
                invariant __i <= neighbors@.len(), index == lo, neighbors@.len() == hi - lo, Ix::obeys_cmp_spec(),
                    forall|i: int| 0 <= i < neighbors@.len() ==> #[trigger] neighbors@[i] == self.column@[lo + i],
                    forall|a: Ix, b: Ix| (#[trigger] a.cmp_spec(&b)) == (if a.ix() < b.ix() { Ordering::Less } else if a.ix() == b.ix() { Ordering::Equal } else { Ordering::Greater }),
                    forall|q: int| lo <= q < lo + __i ==> #[trigger] self.col(q) < b.ix(),
                    self.wf(), a.ix() < self.n(), lo == self.row@[a.ix() as int], hi == self.row@[a.ix() + 1],
                ensures __i >= neighbors@.len(),
                decreases neighbors@.len() - __i/*-*/
            {
                /*+*/if __i >= neighbors.len() { break; } let i = __i; let elt = &neighbors[i]; __i += 1;/*-*/
                match elt.cmp(&b) {
                    Ordering::Equal => return Ok(i + index),
                    Ordering::Greater => /*+*/{ proof {
                        assert forall|q: int| i + index <= q < hi implies #[trigger] self.col(q) > b.ix() by {
                            if q > i + index { assert(self.in_row(a.ix() as int, i + index) && self.in_row(a.ix() as int, q)); }
                        }
                    }/*-*/ return Err(i + index) /*+*/}/*-*/,
                    Ordering::Less => {}
                }
            }
            Err(neighbors.len() + index)
        } else {
            /*+*/proof {
                assert forall|i: int, j: int| 0 <= i < j < neighbors@.len() implies #[trigger] neighbors@[i].cmp_spec(&neighbors@[j]) == Ordering::Less by {
                    assert(self.in_row(a.ix() as int, lo + i) && self.in_row(a.ix() as int, lo + j));
                }
            }/*-*/
            match neighbors.binary_search(&b) {
                Ok(i) => Ok(i + index),
                Err(i) => /*+*/{ proof {
                    assert forall|q: int| lo <= q < i + index implies #[trigger] self.col(q) < b.ix() by { assert(neighbors@[q - lo].cmp_spec(&b) == Ordering::Less); }
                    assert forall|q: int| i + index <= q < hi implies #[trigger] self.col(q) > b.ix() by { assert(neighbors@[q - lo].cmp_spec(&b) == Ordering::Greater); }
                }/*-*/ Err(i + index) /*+*/}/*-*/,
            }
        }
    }
//@ end

//@ item src/csr.rs | impl<N, E, Ty, Ix> Csr<N, E, Ty, Ix> where Ty: EdgeType, Ix: IndexType | fn contains_edge
    #[track_caller]
    pub fn contains_edge(&self, a: NodeIndex<Ix>, b: NodeIndex<Ix>) -> (r: bool)
        /*+*/requires self.wf(), a.ix() < self.n(),
        ensures r == self.has_edge(a.ix() as int, b.ix() as int)/*-*/   // [contains_edge_view]
    {
        /*+*/let r = {/*-*/ self.find_edge_pos(a, b).is_ok() /*+*/};
        proof {
            let lo = self.row@[a.ix() as int] as int; let hi = self.row@[a.ix() + 1] as int;
            if r { } else {
                assert forall|p: int| lo <= p < hi implies #[trigger] self.col(p) != b.ix() by { }
            }
        }
        r/*-*/
    }
//@ end
}

impl<N, E, Ty, Ix> Csr<N, E, Ty, Ix>
where
    Ty: EdgeType,
    Ix: IndexType,
{
    /// undirected graphs store every edge in both rows
    pub open spec fn symmetric(&self) -> bool {
        forall|x: int, y: int| 0 <= x < self.n() && 0 <= y < self.n() && #[trigger] self.has_edge(x, y) ==> self.has_edge(y, x)
    }
    pub open spec fn wf_ty(&self) -> bool { self.wf() && (!Ty::spec_is_directed() ==> self.symmetric()) }

    /// effect of inserting (b, w) at position pos of row a
    pub open spec fn inserted(&self, o: &Self, a: int, b: Ix, w: E, pos: int) -> bool {
        &&& self.column@ == o.column@.insert(pos, b) && self.edges@ == o.edges@.insert(pos, w)
        &&& self.row@.len() == o.row@.len() && self.node_weights@ == o.node_weights@ && self.edge_count == o.edge_count
        &&& forall|i: int| 0 <= i < o.row@.len() ==> #[trigger] self.row@[i] == o.row@[i] + (if i > a { 1int } else { 0int })
    }

    pub proof fn lemma_frame(&self, o: &Self)
        requires o.wf(), self.column@ == o.column@, self.edges@ == o.edges@, self.row@ == o.row@, self.node_weights@ == o.node_weights@
        ensures self.wf(), self.n() == o.n(), forall|x: int, y: int| #[trigger] self.has_edge(x, y) == o.has_edge(x, y),
            o.symmetric() ==> self.symmetric(),
    {
        assert forall|p: int| 0 <= p < self.column@.len() implies self.col(p) == o.col(p) by { }
        assert forall|x: int, p: int, q: int| 0 <= x < self.n() && #[trigger] self.in_row(x, p) && #[trigger] self.in_row(x, q) && p < q implies self.col(p) < self.col(q) by {
            assert(o.in_row(x, p) && o.in_row(x, q));
        }
        assert forall|x: int, y: int| #[trigger] self.has_edge(x, y) == o.has_edge(x, y) by {
            if self.has_edge(x, y) { let p = choose|p: int| self.row@[x] <= p < self.row@[x + 1] && #[trigger] self.col(p) == y; assert(o.col(p) == y); }
            if o.has_edge(x, y) { let p = choose|p: int| o.row@[x] <= p < o.row@[x + 1] && #[trigger] o.col(p) == y; assert(self.col(p) == y); }
        }
    }
    pub proof fn lemma_inserted_wf(&self, o: &Self, a: int, b: Ix, w: E, pos: int)
        requires o.wf(), 0 <= a < o.n(), b.ix() < o.n(), self.inserted(o, a, b, w, pos),
            o.row@[a] <= pos <= o.row@[a + 1],
            forall|q: int| o.row@[a] <= q < pos ==> #[trigger] o.col(q) < b.ix(),
            forall|q: int| pos <= q < o.row@[a + 1] ==> #[trigger] o.col(q) > b.ix(),
        ensures self.wf(), self.n() == o.n(),
            forall|x: int, y: int| 0 <= x < o.n() ==> (#[trigger] self.has_edge(x, y) <==> (o.has_edge(x, y) || (x == a && y == b.ix()))),   // exactly one edge gained
    {
        // position map: old p -> new p + (p >= pos)
        assert forall|p: int| 0 <= p < self.column@.len() implies 0 <= #[trigger] self.col(p) < self.n() by {
            if p < pos { assert(self.col(p) == o.col(p)); } else if p > pos { assert(self.col(p) == o.col(p - 1)); }
        }
        assert forall|i: int, j: int| 0 <= i <= j <= self.n() implies #[trigger] self.row@[i] <= #[trigger] self.row@[j] by {
            assert(o.row@[i] <= o.row@[j]);
        }
        assert forall|x: int, p: int, q: int| 0 <= x < self.n() && #[trigger] self.in_row(x, p) && #[trigger] self.in_row(x, q) && p < q implies self.col(p) < self.col(q) by {
            if x < a {
                assert(o.row@[x + 1] <= o.row@[a]);
                assert(o.in_row(x, p) && o.in_row(x, q));
                assert(self.col(p) == o.col(p) && self.col(q) == o.col(q));
            } else if x > a {
                assert(o.row@[a + 1] <= o.row@[x]);
                assert(o.in_row(x, p - 1) && o.in_row(x, q - 1));
                assert(self.col(p) == o.col(p - 1) && self.col(q) == o.col(q - 1));
            } else {
                let op = if p < pos { p } else { p - 1 }; let oq = if q < pos { q } else { q - 1 };
                if p == pos { assert(self.col(q) == o.col(q - 1)); assert(o.col(q - 1) > b.ix()); }
                else if q == pos { assert(self.col(p) == o.col(p)); assert(o.col(p) < b.ix()); }
                else { assert(o.in_row(a, op) && o.in_row(a, oq)); assert(self.col(p) == o.col(op) && self.col(q) == o.col(oq)); }
            }
        }
        assert(self.row@[self.n()] == self.column@.len());
        assert forall|x: int, y: int| 0 <= x < o.n() implies (#[trigger] self.has_edge(x, y) <==> (o.has_edge(x, y) || (x == a && y == b.ix()))) by {
            if o.has_edge(x, y) {
                let p = choose|p: int| o.row@[x] <= p < o.row@[x + 1] && #[trigger] o.col(p) == y;
                let np = if p < pos { p } else { p + 1 };
                    if x < a { assert(o.row@[x + 1] <= o.row@[a]); } else if x > a { assert(o.row@[a + 1] <= o.row@[x]); }
                assert(self.col(np) == y);
                assert(self.row@[x] <= np < self.row@[x + 1]);
            }
            if x == a && y == b.ix() { assert(self.col(pos) == y); assert(self.row@[a] <= pos < self.row@[a + 1]); }
            if self.has_edge(x, y) {
                let p = choose|p: int| self.row@[x] <= p < self.row@[x + 1] && #[trigger] self.col(p) == y;
                    if x < a { assert(o.row@[x + 1] <= o.row@[a]); } else if x > a { assert(o.row@[a + 1] <= o.row@[x]); }
                if p == pos && x == a { } else {
                    let op = if p < pos { p } else { p - 1 };
                    assert(o.col(op) == y);
                    assert(o.row@[x] <= op < o.row@[x + 1]);
                }
            }
        }
    }

//@ item src/csr.rs | impl<N, E, Ty, Ix> Csr<N, E, Ty, Ix> where Ty: EdgeType, Ix: IndexType | fn add_edge_
    // Return false if the edge already exists
    fn add_edge_(
        &mut self,
        a: NodeIndex<Ix>,
        b: NodeIndex<Ix>,
        weight: E,
    ) -> (res: Result<bool, CsrError>)
        /*+*/requires old(self).wf()
        ensures final(self).wf(), final(self).n() == old(self).n(),
            res is Err <==> (a.ix() >= old(self).n() || b.ix() >= old(self).n()),    // [add_edge_err_iff_oob]
            (res is Err || res == Ok::<bool, CsrError>(false)) ==> final(self).column@ == old(self).column@ && final(self).edges@ == old(self).edges@
                && final(self).row@ == old(self).row@ && final(self).node_weights@ == old(self).node_weights@ && final(self).edge_count == old(self).edge_count
                && (forall|x: int, y: int| #[trigger] final(self).has_edge(x, y) == old(self).has_edge(x, y)),   // [add_edge_no_change]
            res is Ok ==> (res == Ok::<bool, CsrError>(false) <==> old(self).has_edge(a.ix() as int, b.ix() as int)),   // [add_edge_false_iff_present]
            res == Ok::<bool, CsrError>(true) ==> exists|pos: int| old(self).row@[a.ix() as int] <= pos <= old(self).row@[a.ix() + 1]
                && #[trigger] final(self).inserted(old(self), a.ix() as int, b, weight, pos)                                             // [add_edge_inserted_in_order]
                && (forall|x: int, y: int| 0 <= x < old(self).n() ==> (#[trigger] final(self).has_edge(x, y) <==> (old(self).has_edge(x, y) || (x == a.ix() && y == b.ix()))))/*-*/,
    {
        if !(a.index() < self.node_count() && b.index() < self.node_count()) {
            return Err(CsrError::IndicesOutBounds(a.index(), b.index()));
        }
        // a x b is at (a, b) in the matrix

        // find current range of edges from a
        let pos = match self.find_edge_pos(a, b) {
            Ok(_) => return Ok(false), /* already exists */
            Err(i) => i,
        };
        /*+*/proof {
            let lo = self.row@[a.ix() as int] as int; let hi = self.row@[a.ix() + 1] as int;
            assert(!self.has_edge(a.ix() as int, b.ix() as int)) by {
                assert forall|p: int| lo <= p < hi implies #[trigger] self.col(p) != b.ix() by { }
            }
            assert(self.row@[a.ix() + 1] <= self.row@[self.n()]);
        }/*-*/
        self.column.insert(pos, b);
        self.edges.insert(pos, weight);
        // update row vector
        /*R:D6 for r in &mut self.row[a.index() + 1..] */ let mut __i = a.index() + 1; loop 
            invariant a.ix() + 1 <= __i <= self.row@.len(), self.row@.len() == old(self).row@.len(),
                self.column@ == old(self).column@.insert(pos as int, b), self.edges@ == old(self).edges@.insert(pos as int, weight),
                self.node_weights@ == old(self).node_weights@, self.edge_count == old(self).edge_count, old(self).wf(),
                forall|i: int| 0 <= i < __i ==> #[trigger] self.row@[i] == old(self).row@[i] + (if i > a.ix() { 1int } else { 0int }),
                forall|i: int| __i <= i < self.row@.len() ==> #[trigger] self.row@[i] == old(self).row@[i],
            ensures __i >= self.row@.len(),
            decreases self.row@.len() - __i/*-*/
        {
            /*+*/if __i >= self.row.len() { break; } proof { assert(old(self).row@[__i as int] <= old(self).row@[old(self).n()]); assert(self.column@.len() == self.column.len()); } let r = &mut self.row[__i]; __i += 1;/*-*/
            *r += 1;
        }
        /*+*/proof {
            assert(self.inserted(old(self), a.ix() as int, b, weight, pos as int));
            self.lemma_inserted_wf(old(self), a.ix() as int, b, weight, pos as int);
        }/*-*/
        Ok(true)
    }
//@ end

//@ item src/csr.rs | impl<N, E, Ty, Ix> Csr<N, E, Ty, Ix> where Ty: EdgeType, Ix: IndexType | fn try_add_edge
    pub fn try_add_edge(
        &mut self,
        a: NodeIndex<Ix>,
        b: NodeIndex<Ix>,
        weight: E,
    ) -> (res: Result<bool, CsrError>)
    where
        E: Clone/*+*/,
        requires old(self).wf_ty(), !Ty::spec_is_directed() ==> old(self).edge_count < usize::MAX,
        ensures final(self).wf_ty(), final(self).n() == old(self).n(), final(self).node_weights@ == old(self).node_weights@,
            res is Err <==> (a.ix() >= old(self).n() || b.ix() >= old(self).n()),                       // [try_add_edge_err_iff_oob]
            (res is Err || res == Ok::<bool, CsrError>(false)) ==> final(self).column@ == old(self).column@ && final(self).edges@ == old(self).edges@
                && final(self).row@ == old(self).row@ && final(self).edge_count == old(self).edge_count,   // [try_add_edge_no_change]
            res is Ok ==> (res == Ok::<bool, CsrError>(false) <==> old(self).has_edge(a.ix() as int, b.ix() as int)),   // [try_add_edge_false_iff_present]
            res == Ok::<bool, CsrError>(true) ==> (forall|x: int, y: int| 0 <= x < old(self).n() ==> (#[trigger] final(self).has_edge(x, y) <==>
                (old(self).has_edge(x, y) || (x == a.ix() && y == b.ix()) || (!Ty::spec_is_directed() && x == b.ix() && y == a.ix()))))   // [try_add_edge_exactly_this_edge]
                && (!Ty::spec_is_directed() ==> final(self).edge_count == old(self).edge_count + 1)/*-*/,
    {
        /*+*/proof { Ix::eq_law(); }
        let ghost w0 = weight;/*-*/
        let ret = self.add_edge_(a, b, weight.clone())?;
        /*+*/let ghost mid = *self;/*-*/
        if ret && !self.is_directed() {
            self.edge_count += 1;
        }
        if ret && !self.is_directed() && a != b {
            /*+*/proof {
                // symmetry of the old graph: (b, a) was absent because (a, b) was
                if old(self).has_edge(b.ix() as int, a.ix() as int) { assert(old(self).has_edge(a.ix() as int, b.ix() as int)); }
                assert(!mid.has_edge(b.ix() as int, a.ix() as int));
                self.lemma_frame(&mid);
            }
            let ghost mid2 = *self;/*-*/
            let _ret2 = self.add_edge_(b, a, weight)?;
            assert(ret == _ret2);
            /*+*/proof {
                assert forall|x: int, y: int| 0 <= x < old(self).n() implies (#[trigger] self.has_edge(x, y) <==>
                    (old(self).has_edge(x, y) || (x == a.ix() && y == b.ix()) || (x == b.ix() && y == a.ix()))) by {
                    assert(self.has_edge(x, y) <==> (mid2.has_edge(x, y) || (x == b.ix() && y == a.ix())));
                    assert(mid2.has_edge(x, y) == mid.has_edge(x, y));
                    assert(mid.has_edge(x, y) <==> (old(self).has_edge(x, y) || (x == a.ix() && y == b.ix())));
                }
            }/*-*/
        }
        /*+*/proof {
            if !Ty::spec_is_directed() && ret {
                if a.ix() == b.ix() { self.lemma_frame(&mid); }
                assert forall|x: int, y: int| 0 <= x < self.n() && 0 <= y < self.n() && #[trigger] self.has_edge(x, y) implies self.has_edge(y, x) by {
                    assert(self.has_edge(x, y) <==> (old(self).has_edge(x, y) || (x == a.ix() && y == b.ix()) || (x == b.ix() && y == a.ix())));
                    assert(self.has_edge(y, x) <==> (old(self).has_edge(y, x) || (y == a.ix() && x == b.ix()) || (y == b.ix() && x == a.ix())));
                    if old(self).has_edge(x, y) { assert(old(self).has_edge(y, x)); }
                }
            } else if !ret { } else { self.lemma_frame(&mid); }
        }/*-*/
        Ok(ret)
    }
//@ end

//@ item src/csr.rs | impl<N, E, Ty, Ix> Csr<N, E, Ty, Ix> where Ty: EdgeType, Ix: IndexType | fn add_edge
    #[track_caller]
    pub fn add_edge(&mut self, a: NodeIndex<Ix>, b: NodeIndex<Ix>, weight: E) -> (r: bool)
    where
        E: Clone/*+*/,
        requires old(self).wf_ty(), !Ty::spec_is_directed() ==> old(self).edge_count < usize::MAX,
            a.ix() < old(self).n() && b.ix() < old(self).n(),   // [add_edge_panics_iff_oob]
        ensures final(self).wf_ty(), final(self).n() == old(self).n(),
            r == !old(self).has_edge(a.ix() as int, b.ix() as int),   // [add_edge_false_iff_present]
            !r ==> final(self).column@ == old(self).column@ && final(self).edges@ == old(self).edges@ && final(self).row@ == old(self).row@,
            r ==> (forall|x: int, y: int| 0 <= x < old(self).n() ==> (#[trigger] final(self).has_edge(x, y) <==>
                (old(self).has_edge(x, y) || (x == a.ix() && y == b.ix()) || (!Ty::spec_is_directed() && x == b.ix() && y == a.ix()))))/*-*/,
    {
        self.try_add_edge(a, b, weight).unwrap()
    }
//@ end

//@ item src/csr.rs | impl<N, E, Ty, Ix> Csr<N, E, Ty, Ix> where Ty: EdgeType, Ix: IndexType | fn clear_edges
    /// Remove all edges
    pub fn clear_edges(&mut self)
        /*+*/requires old(self).wf()
        ensures final(self).wf_ty(), final(self).n() == old(self).n(), final(self).node_weights@ == old(self).node_weights@,
            final(self).column@.len() == 0,   // [clear_edges_empty]
            !Ty::spec_is_directed() ==> final(self).edge_count == 0/*-*/,
    {
        self.column.clear();
        self.edges.clear();
        /*R:D6 for r in &mut self.row */ let mut __i = 0usize; loop 
            invariant __i <= self.row@.len(), self.row@.len() == old(self).row@.len(),
                forall|i: int| 0 <= i < __i ==> #[trigger] self.row@[i] == 0,
            ensures __i >= self.row@.len(),
            decreases self.row@.len() - __i/*-*/
        {
            /*+*/if __i >= self.row.len() { break; } let r = &mut self.row[__i]; __i += 1;/*-*/
            *r = 0;
        }
        if !self.is_directed() {
            self.edge_count = 0;
        }
    }
//@ end

//@ item src/csr.rs | impl<N, E, Ty, Ix> Csr<N, E, Ty, Ix> where Ty: EdgeType, Ix: IndexType | fn neighbors_slice
    #[track_caller]
    pub fn neighbors_slice(&self, a: NodeIndex<Ix>) -> (r: &[NodeIndex<Ix>])
        /*+*/requires self.wf(), a.ix() < self.n(),
        ensures r@ == self.column@.subrange(self.row@[a.ix() as int] as int, self.row@[a.ix() + 1] as int)/*-*/,   // [neighbors_slice_is_row]
    {
        self.neighbors_of(a).1
    }
//@ end

//@ item src/csr.rs | impl<N, E, Ty, Ix> Csr<N, E, Ty, Ix> where Ty: EdgeType, Ix: IndexType | fn edges_slice
    #[track_caller]
    pub fn edges_slice(&self, a: NodeIndex<Ix>) -> (r: &[E])
        /*+*/requires self.wf(), a.ix() < self.n(),
        ensures r@ == self.edges@.subrange(self.row@[a.ix() as int] as int, self.row@[a.ix() + 1] as int)/*-*/,   // [edges_slice_is_row]
    {
        &self.edges[self.neighbors_range(a)]
    }
//@ end
}
