// ======================================================================================
// fragment stable_noderefs.rs - StableGraph: node_references (IntoNodeReferences) and its iterator, both ends (C02, C06):
// exactly the live nodes, ascending, each with its own weight - the same nodes, in the same order, as node_identifiers
// ======================================================================================

/// two filter-maps that accept the same elements yield sequences of the same length, related element by element
pub proof fn lemma_fm_parallel<A, B, C>(s: Seq<A>, f: spec_fn(A) -> Option<B>, g: spec_fn(A) -> Option<C>, rel: spec_fn(B, C) -> bool)
    requires forall|i: int| 0 <= i < s.len() ==> (f(#[trigger] s[i]) is Some <==> g(s[i]) is Some) && (f(s[i]) is Some ==> rel(f(s[i])->Some_0, g(s[i])->Some_0))
    ensures fm_seq(s, f).len() == fm_seq(s, g).len(),
        forall|k: int| 0 <= k < fm_seq(s, f).len() ==> rel(#[trigger] fm_seq(s, f)[k], fm_seq(s, g)[k])
    decreases s.len()
{
    if s.len() > 0 {
        let t = s.drop_first();
        assert forall|i: int| 0 <= i < t.len() implies (f(#[trigger] t[i]) is Some <==> g(t[i]) is Some) && (f(t[i]) is Some ==> rel(f(t[i])->Some_0, g(t[i])->Some_0)) by { assert(t[i] == s[i + 1]); }
        lemma_fm_parallel(t, f, g, rel);
        assert(f(s[0]) is Some <==> g(s[0]) is Some);
    }
}

pub open spec fn snref_f<'a, N, Ix: IndexType>() -> spec_fn((usize, &'a Node<Option<N>, Ix>)) -> Option<(NodeIndex<Ix>, &'a N)> {
    |t: (usize, &'a Node<Option<N>, Ix>)| match t.1.weight { Some(w) => Some((NodeIndex(Ix::spec_new(t.0)), &w)), None => None }
}
/// what node_references() yields
pub open spec fn live_nrefs<'a, N, Ix: IndexType>(ns: Seq<Node<Option<N>, Ix>>) -> Seq<(NodeIndex<Ix>, &'a N)> { fm_seq(enum_items(ns), snref_f::<N, Ix>()) }

//@ item src/graph_impl/stable_graph/mod.rs | - | struct NodeReferences
/// Iterator over all nodes of a graph.
/*+*/#[verifier::reject_recursive_types(N)]
#[verifier::reject_recursive_types(Ix)]/*-*/
pub struct NodeReferences<'a, N: 'a, Ix: IndexType = DefaultIx> {
    pub iter: iter::Enumerate<slice::Iter<'a, Node<Option<N>, Ix>>>,
}
//@ end

impl<'a, N, Ix: IndexType> NodeReferences<'a, N, Ix> {
    #[verifier::prophetic]
    pub open spec fn rem(&self) -> Seq<(NodeIndex<Ix>, &'a N)> { fm_seq(self.iter.remaining(), snref_f::<N, Ix>()) }
}
impl<'a, N, Ix: IndexType> vstd::std_specs::iter::IteratorSpecImpl for NodeReferences<'a, N, Ix> {
    open spec fn obeys_prophetic_iter_laws(&self) -> bool { self.iter.obeys_prophetic_iter_laws() }
    #[verifier::prophetic]
    open spec fn remaining(&self) -> Seq<(NodeIndex<Ix>, &'a N)> { self.rem() }
    open spec fn decrease(&self) -> Option<nat> { self.iter.decrease() }
    open spec fn will_return_none(&self) -> bool { true }
    open spec fn peek(&self, i: int) -> Option<(NodeIndex<Ix>, &'a N)> { None }
}
impl<'a, N, Ix: IndexType> vstd::std_specs::iter::DoubleEndedIteratorSpecImpl for NodeReferences<'a, N, Ix> {
    open spec fn peek_back(&self, i: int) -> Option<(NodeIndex<Ix>, &'a N)> { None }
}

//@ item src/graph_impl/stable_graph/mod.rs | - | impl<'a, N, Ix> Iterator for NodeReferences<'a, N, Ix> where Ix: IndexType
impl<'a, N, Ix> Iterator for NodeReferences<'a, N, Ix>
where
    Ix: IndexType,
{
    type Item = (NodeIndex<Ix>, &'a N);

    fn next(&mut self) -> Option<Self::Item> {
        /*+*/let ghost items = self.iter.remaining();
        let r = {/*-*/ self.iter
            .ex_find_map(|/*R:D10 (i, node) */ __t: (usize, &'a Node<Option<N>, Ix>) /*-*/| /*+*/-> (q: Option<(NodeIndex<Ix>, &'a N)>) ensures q == snref_f::<N, Ix>()(__t) { let (i, node) = __t;/*-*/ node.weight.as_ref().map(move |w/*+*/: &'a N/*-*/| /*+*/-> (x: (NodeIndex<Ix>, &'a N)) ensures x == (NodeIndex::<Ix>(Ix::spec_new(i)), w) {/*-*/ (node_index(i), w) /*+*/}/*-*/) /*+*/}/*-*/) /*+*/};
        proof { if old(self).iter.obeys_prophetic_iter_laws() { let g = snref_f::<N, Ix>(); match r { Some(b) => { assert(fm_seq(items, g) == seq![b] + fm_seq(self.iter.remaining(), g)); }, None => { assert(fm_seq(items, g).len() == 0); lemma_fm_none(self.iter.remaining(), g); } } } }
        r/*-*/
    }

    /*+*/#[verifier::external_body]/*-*/
    fn size_hint(&self) -> (usize, Option<usize>) {
        let (_, hi) = self.iter.size_hint();
        (0, hi)
    }
}
//@ end

//@ item src/graph_impl/stable_graph/mod.rs | - | impl<N, Ix> DoubleEndedIterator for NodeReferences<'_, N, Ix> where Ix: IndexType
impl</*R:D31 */ 'a, /*-*/N, Ix> DoubleEndedIterator for NodeReferences</*R:D31 '_ */ 'a /*-*/, N, Ix>
where
    Ix: IndexType,
{
    fn next_back(&mut self) -> Option<Self::Item> {
        /*+*/let ghost items = self.iter.remaining();
        let r = {/*-*/ self.iter
            .ex_rfind_map(|/*R:D10 (i, node) */ __t: (usize, &'a Node<Option<N>, Ix>) /*-*/| /*+*/-> (q: Option<(NodeIndex<Ix>, &'a N)>) ensures q == snref_f::<N, Ix>()(__t) { let (i, node) = __t;/*-*/ node.weight.as_ref().map(move |w/*+*/: &'a N/*-*/| /*+*/-> (x: (NodeIndex<Ix>, &'a N)) ensures x == (NodeIndex::<Ix>(Ix::spec_new(i)), w) {/*-*/ (node_index(i), w) /*+*/}/*-*/) /*+*/}/*-*/) /*+*/};
        proof { if old(self).iter.obeys_prophetic_iter_laws() { let g = snref_f::<N, Ix>(); match r { Some(b) => { assert(fm_seq(items, g) == fm_seq(self.iter.remaining(), g).push(b)); }, None => { assert(fm_seq(items, g).len() == 0); lemma_fm_none(self.iter.remaining(), g); } } } }
        r/*-*/
    }
}
//@ end

//@ item src/graph_impl/stable_graph/mod.rs | - | impl<'a, N, E, Ty, Ix> visit::IntoNodeReferences for &'a StableGraph<N, E, Ty, Ix> where Ty: EdgeType, Ix: IndexType
impl<'a, N, E, Ty, Ix> visit::IntoNodeReferences for &'a StableGraph<N, E, Ty, Ix>
where
    Ty: EdgeType,
    Ix: IndexType,
{
    type NodeRef = (NodeIndex<Ix>, &'a N);
    type NodeReferences = NodeReferences<'a, N, Ix>;
    fn node_references(self) -> /*+*/(r:/*-*/ Self::NodeReferences/*+*/)
        ensures r.remaining() == live_nrefs::<N, Ix>(self.ns()),
            // every yielded reference shows the weight stored at the node it names      [stable_node_references_show_own_weight]
            forall|k: int| 0 <= k < r.remaining().len() ==> ({ let x = #[trigger] r.remaining()[k];
                exists|j: int| 0 <= j < self.ns().len() && x.0 == NodeIndex::<Ix>(Ix::spec_new(j as usize)) && self.ns()[j].weight == Some(*x.1) })/*-*/
    {
        /*+*/let r = {/*-*/ NodeReferences {
            iter: /*R:D23 enumerate */ enumerate_slice /*-*/(self.raw_nodes()),
        } /*+*/};
        proof {
            assert(r.iter.remaining() =~= enum_items(self.ns()));
            let items = enum_items(self.ns());
            let rel = |x: (NodeIndex<Ix>, &'a N), y: NodeIndex<Ix>| x.0 == y;
            lemma_fm_parallel(items, snref_f::<N, Ix>(), snix_f::<N, Ix>(), rel);
            self.lemma_nrefs_weights();
        }
        r/*-*/
    }
}
//@ end

impl<N, E, Ty: EdgeType, Ix: IndexType> StableGraph<N, E, Ty, Ix> {
    /// each reference of live_nrefs comes from one slot: it carries that slot's position and weight
    pub proof fn lemma_nrefs_weights(&self)
        ensures forall|k: int| 0 <= k < live_nrefs::<N, Ix>(self.ns()).len() ==> ({ let x = #[trigger] live_nrefs::<N, Ix>(self.ns())[k];
            exists|j: int| 0 <= j < self.ns().len() && x.0 == NodeIndex::<Ix>(Ix::spec_new(j as usize)) && self.ns()[j].weight == Some(*x.1) })
    {
        lemma_fm_sources(enum_items(self.ns()), snref_f::<N, Ix>());
        let s = live_nrefs::<N, Ix>(self.ns());
        assert forall|k: int| 0 <= k < s.len() implies ({ let x = #[trigger] s[k];
            exists|j: int| 0 <= j < self.ns().len() && x.0 == NodeIndex::<Ix>(Ix::spec_new(j as usize)) && self.ns()[j].weight == Some(*x.1) }) by {
            let j = choose|j: int| 0 <= j < enum_items(self.ns()).len() && snref_f::<N, Ix>()(enum_items(self.ns())[j]) == Some(s[k]);
            assert(enum_items(self.ns())[j] == (j as usize, &self.ns()[j]));
        }
    }
}

/// every element of a filter-map comes from some element of the source
pub proof fn lemma_fm_sources<A, B>(s: Seq<A>, f: spec_fn(A) -> Option<B>)
    ensures forall|k: int| 0 <= k < fm_seq(s, f).len() ==> exists|j: int| 0 <= j < s.len() && f(s[j]) == Some(#[trigger] fm_seq(s, f)[k])
    decreases s.len()
{
    if s.len() > 0 {
        let t = s.drop_first();
        lemma_fm_sources(t, f);
        let h: Seq<B> = match f(s[0]) { Some(b) => seq![b], None => Seq::empty() };
        assert forall|k: int| 0 <= k < fm_seq(s, f).len() implies exists|j: int| 0 <= j < s.len() && f(s[j]) == Some(#[trigger] fm_seq(s, f)[k]) by {
            if k < h.len() { assert(f(s[0]) == Some(fm_seq(s, f)[k])); }
            else {
                let k2 = k - h.len();
                assert(fm_seq(s, f)[k] == fm_seq(t, f)[k2]);
                let j = choose|j: int| 0 <= j < t.len() && f(t[j]) == Some(fm_seq(t, f)[k2]);
                assert(t[j] == s[j + 1]);
            }
        }
    }
}
