// ======================================================================================
// fragment stable_convert.rs - `From<StableGraph> for Graph` under contract (C02): the conversion compacts the live
// nodes and edges in index order; no debug assertion fires, no index limit is hit, the result is well formed and has
// exactly node_count() nodes and edge_count() edges.
//   D17 : `From::from` is a std trait method and cannot state the precondition (the source graph's representation
//         invariant); its body is verified as a module-private associated function with that precondition.
//   D23b: `enumerate(V)` over an owned Vec -> the TRUSTED constructor enumerate_vec(V) (item k is (k, V[k]));
//   D11 : the two `for` loops over owned iterators are written as loops over `next()`; the tuple pattern `(i, node)` is
//         bound by a `let` (this Verus has no patterns in that position).
// ======================================================================================
use std::vec::IntoIter as VecIntoIter;

#[verifier::external_body]
pub fn enumerate_vec<T>(v: Vec<T>) -> (r: iter::Enumerate<VecIntoIter<T>>)
    ensures r.obeys_prophetic_iter_laws(), r.decrease() is Some,
        r.remaining().len() == v@.len(),
        forall|i: int| 0 <= i < v@.len() ==> (#[trigger] r.remaining()[i]).0 == i && r.remaining()[i].1 == v@[i]
{ v.into_iter().enumerate() }

/// number of live slots below k
pub open spec fn live_below<N, Ix: IndexType>(ns: Seq<Node<Option<N>, Ix>>, k: int) -> int { idx_where(nlive_p(ns), k).len() as int }
pub open spec fn elive_below<E, Ix: IndexType>(es: Seq<Edge<Option<E>, Ix>>, k: int) -> int { idx_where(elive_p(es), k).len() as int }

mod stable_convert {
    use super::*;

impl<N, E, Ty, Ix> Graph<N, E, Ty, Ix>
where
    Ty: EdgeType,
    Ix: IndexType,
{
//@ item src/graph_impl/stable_graph/mod.rs | impl<N, E, Ty, Ix> From<StableGraph<N, E, Ty, Ix>> for Graph<N, E, Ty, Ix> where Ty: EdgeType, Ix: IndexType | fn from
    fn from(graph: StableGraph<N, E, Ty, Ix>) -> (r: Self)
        /*+*/requires graph.wf()
        ensures r.wf(), r.n() == graph.node_count, r.m() == graph.edge_count,                                       // [stable_into_graph_compacts]
            // the live nodes in index order, with their weights                                                     [stable_into_graph_nodes_in_order]
            ({ let ln = idx_where(nlive_p(graph.ns()), graph.ns().len() as int);
               forall|j: int| 0 <= j < r.n() ==> #[trigger] r.view().nodes[j] == graph.ns()[ln[j]].weight->Some_0 }),
            // the live edges in index order, with their weights, between the new indices (= ranks) of their endpoints   [stable_into_graph_edges_renumbered]
            ({ let le = idx_where(elive_p(graph.es()), graph.es().len() as int);
               forall|j: int| 0 <= j < r.m() ==> #[trigger] r.view().edges[j] == (live_below(graph.ns(), graph.es()[le[j]].node[0].i()), live_below(graph.ns(), graph.es()[le[j]].node[1].i()), graph.es()[le[j]].weight->Some_0) })/*-*/
    {
        /*+*/let ghost ns = graph.ns(); let ghost es = graph.es(); let ghost n = ns.len() as int; let ghost m = es.len() as int;
        proof { graph.lemma_nbound(); graph.lemma_live_nodes(); graph.lemma_live_edges(); lemma_idx_where_len(nlive_p(ns), n); lemma_idx_where_len(elive_p(es), m); }/*-*/
        let mut result_g = Graph::with_capacity(graph.node_count(), graph.edge_count());
        // mapping from old node index to new node index
        let mut node_index_map = vec![NodeIndex::end(); graph.node_bound()];

        /*R:D11 for (i, node) in */ let mut __it = /*-*/ /*R:D23 enumerate */ enumerate_vec /*-*/(graph.g.nodes) /*R:D11 */; let ghost mut done: int = 0; loop
            invariant n == ns.len(), m == es.len(), __it.obeys_prophetic_iter_laws(), __it.decrease() is Some, 0 <= done <= n, __it.remaining().len() == n - done,
                forall|k: int| 0 <= k < n - done ==> (#[trigger] __it.remaining()[k]).0 == done + k && __it.remaining()[k].1 == ns[done + k],
                result_g.wf(), result_g.m() == 0, result_g.n() == live_below(ns, done), n <= end_ix::<Ix>(),
                node_index_map@.len() >= graph.nbound(), graph.nbound() <= n, forall|a: int| nlive(ns, a) ==> a < graph.nbound(),
                forall|a: int| 0 <= a < done && nlive(ns, a) ==> (#[trigger] node_index_map@[a]).i() < result_g.n() && node_index_map@[a].i() == live_below(ns, a),
                forall|j: int| 0 <= j < result_g.n() ==> #[trigger] result_g.view().nodes[j] == ns[idx_where(nlive_p(ns), done)[j]].weight->Some_0,
            ensures done == n
            decreases __it.decrease()->Some_0/*-*/
        { /*+*/let ghost rem0 = __it.remaining(); match __it.next() { None => { proof { assert(rem0.len() == 0); } break; }, Some(__p) => { let (i, node) = __p;
            proof { assert(rem0.len() > 0 && __p == rem0[0]); assert(i == done && node == ns[done]); lemma_idx_where_len(nlive_p(ns), done);
                assert(__it.remaining() == rem0.drop_first());
                assert forall|k: int| 0 <= k < n - (done + 1) implies (#[trigger] __it.remaining()[k]).0 == done + 1 + k && __it.remaining()[k].1 == ns[done + 1 + k] by { assert(__it.remaining()[k] == rem0[k + 1]); }
                assert((nlive_p(ns))(done) == nlive(ns, done));
                assert(idx_where(nlive_p(ns), done + 1) == (if nlive(ns, done) { idx_where(nlive_p(ns), done).push(done) } else { idx_where(nlive_p(ns), done) }));
                if node.weight is Some { assert(nlive(ns, done)); assert(done < graph.nbound()); } }/*-*/
            if let Some(nw) = node.weight {
                /*+*/let ghost g0 = result_g;/*-*/
                node_index_map[i] = result_g.add_node(nw);
                /*+*/proof { assert(result_g.view().edges.len() == g0.view().edges.len()); assert(result_g.m() == result_g.view().edges.len()); assert(g0.m() == g0.view().edges.len()); assert(result_g.n() == result_g.view().nodes.len()); assert(g0.n() == g0.view().nodes.len()); }/*-*/
            }
            /*+*/proof { done = done + 1; } } }/*-*/
        }
        /*+*/proof { assert(done == n); assert(result_g.n() == graph.node_count); }
        let ghost nodes1 = result_g.view().nodes;/*-*/
        /*+*/
        let ghost mut edone: int = 0;/*-*/
        /*R:D11 for edge in */ let mut __ie = /*-*/ graph.g.edges/*R:D11 */.into_iter(); loop
            invariant n == ns.len(), m == es.len(), __ie.obeys_prophetic_iter_laws(), __ie.decrease() is Some, 0 <= edone <= m, __ie.remaining() == es.skip(edone),
                result_g.wf(), result_g.n() == live_below(ns, n), result_g.m() == elive_below(es, edone), m <= end_ix::<Ix>(), graph.wf(), ns == graph.ns(), es == graph.es(),
                node_index_map@.len() >= graph.nbound(), forall|a: int| nlive(ns, a) ==> a < graph.nbound(),
                forall|a: int| 0 <= a < n && nlive(ns, a) ==> (#[trigger] node_index_map@[a]).i() < result_g.n() && node_index_map@[a].i() == live_below(ns, a),
                result_g.view().nodes == nodes1,
                forall|j: int| 0 <= j < result_g.m() ==> #[trigger] result_g.view().edges[j] == (live_below(ns, es[idx_where(elive_p(es), edone)[j]].node[0].i()), live_below(ns, es[idx_where(elive_p(es), edone)[j]].node[1].i()), es[idx_where(elive_p(es), edone)[j]].weight->Some_0),
            ensures edone == m
            decreases __ie.decrease()->Some_0/*-*/
        { /*+*/let ghost rem0 = __ie.remaining(); match __ie.next() { None => { proof { assert(rem0.len() == 0); assert(es.skip(edone).len() == m - edone); } break; }, Some(edge) => {
            proof { assert(rem0.len() > 0 && edge == rem0[0]); assert(es.skip(edone)[0] == es[edone]); assert(edge == es[edone]); assert(es.skip(edone).drop_first() =~= es.skip(edone + 1)); lemma_idx_where_len(elive_p(es), edone);
                assert((elive_p(es))(edone) == elive(es, edone));
                assert(idx_where(elive_p(es), edone + 1) == (if elive(es, edone) { idx_where(elive_p(es), edone).push(edone) } else { idx_where(elive_p(es), edone) })); }/*-*/
            let source_index = edge.source().index();
            let target_index = edge.target().index();
            if let Some(ew) = edge.weight {
                /*+*/proof { assert(elive(es, edone)); assert(nlive(ns, es[edone].node[0].i()) && nlive(ns, es[edone].node[1].i())); }/*-*/
                let source = node_index_map[source_index];
                let target = node_index_map[target_index];
                debug_assert!(source != NodeIndex::end());
                debug_assert!(target != NodeIndex::end());
                /*+*/let ghost g0 = result_g;/*-*/
                result_g.add_edge(source, target, ew);
                /*+*/proof { assert(result_g.m() == result_g.view().edges.len()); assert(g0.m() == g0.view().edges.len()); assert(result_g.n() == result_g.view().nodes.len()); assert(g0.n() == g0.view().nodes.len()); }/*-*/
            }
            /*+*/proof { edone = edone + 1; } } }/*-*/
        }
        result_g
    }
//@ end
}
}
