// ======================================================================================
// fragment adj_more.rs - src/adj.rs (adj::List), second part (C05): contains_edge / find_edge (the FIRST matching successor),
// get_edge_mut, edge_indices with the EdgeIndices iterator (every edge once, rows ascending, positions ascending within a row).
//   `row.iter().any(p)`: vstd specifies `any`; the predicate closure is bound to a local first so that the proof can name it (D33b).
//   `row.iter().enumerate().find(p)`: `enumerate_slice` (D23) and the trusted `ex_find` (D33) - the enumeration is bound to a local
//   because `find` consumes a temporary.
// ======================================================================================

impl<E, Ix: IndexType> List<E, Ix> {
//@ item src/adj.rs | impl<E, Ix: IndexType> List<E, Ix> | fn contains_edge
    /// Lookups whether there is an edge from `a` to `b`.
    ///
    /// Computes in **O(e')** time, where **e'** is the number of successors of `a`.
    pub fn contains_edge(&self, a: NodeIndex<Ix>, b: NodeIndex<Ix>) -> (r: bool)
        /*+*/ensures r == (a.ix() < self.n() && exists|i: int| 0 <= i < self.suc@[a.ix() as int]@.len() && (#[trigger] self.suc@[a.ix() as int]@[i]).suc.ix() == b.ix())/*-*/   // [contains_edge_iff_listed]
    {
        /*+*/proof { Ix::eq_law(); }/*-*/
        match self.suc.get(a.index()) {
            None => false,
            Some(row) => /*R:D33b row.iter().any( */ { let ghost rem = row@; let p = /*-*/ |x/*+*/: &WSuc<E, Ix>/*-*/| /*+*/-> (q: bool) ensures q == (x.suc.ix() == b.ix()) {/*-*/ x.suc == b /*+*/}/*-*/ /*R:D33b ) */ ; let ghost pg = p; let mut __it = row.iter(); let ghost items = __it.remaining(); let r = __it.any(p);
                proof {
                    assert(items.len() == rem.len() && forall|i: int| 0 <= i < rem.len() ==> *#[trigger] items[i] == rem[i]);
                    if r { let i = choose|i: int| 0 <= i < items.len() && pg.ensures((items[i],), true); assert(rem[i].suc.ix() == b.ix()); }
                    else { assert forall|i: int| 0 <= i < rem.len() implies (#[trigger] rem[i]).suc.ix() != b.ix() by { assert(pg.ensures((items[i],), false)); } }
                }
                r } /*-*/,
        }
    }
//@ end

//@ item src/adj.rs | impl<E, Ix: IndexType> List<E, Ix> | fn get_edge_mut
    fn get_edge_mut(&mut self, e: EdgeIndex<Ix>) -> (r: Option<&mut WSuc<E, Ix>>)
        /*+*/ensures
            r is Some <==> (e.from.ix() < old(self).n() && e.successor_index < old(self).suc@[e.from.ix() as int]@.len()),   // [get_edge_mut_some_iff_valid]
            final(self).suc@.len() == old(self).suc@.len(),
            r is None ==> forall|a: int| 0 <= a < old(self).suc@.len() ==> (#[trigger] final(self).suc@[a])@ == old(self).suc@[a]@,
            r is Some ==> *r.unwrap() == old(self).suc@[e.from.ix() as int]@[e.successor_index as int]
                && final(self).suc@[e.from.ix() as int]@ == old(self).suc@[e.from.ix() as int]@.update(e.successor_index as int, *final(r.unwrap()))
                && forall|a: int| 0 <= a < old(self).suc@.len() && a != e.from.ix() ==> #[trigger] final(self).suc@[a] == old(self).suc@[a]/*-*/,   // [get_edge_mut_own_slot_only]
    {
        self.suc
            .get_mut(e.from.index())
            .and_then(|row/*+*/: &mut Row<E, Ix>/*-*/| /*+*/-> (o: Option<&mut WSuc<E, Ix>>)
                ensures o is Some <==> e.successor_index < old(row)@.len(), o is None ==> final(row)@ == old(row)@,
                    o is Some ==> *o.unwrap() == old(row)@[e.successor_index as int] && final(row)@ == old(row)@.update(e.successor_index as int, *final(o.unwrap())) {/*-*/ row.get_mut(e.successor_index) /*+*/}/*-*/)
    }
//@ end
}

impl<E, Ix: IndexType> List<E, Ix> {
//@ item src/adj.rs | impl<E, Ix: IndexType> List<E, Ix> | fn find_edge
    /// Lookups whether there is an edge from `a` to `b`.
    ///
    /// Computes in **O(e')** time, where **e'** is the number of successors of `a`.
    pub fn find_edge(&self, a: NodeIndex<Ix>, b: NodeIndex<Ix>) -> (r: Option<EdgeIndex<Ix>>)
        /*+*/ensures
            r is Some ==> a.ix() < self.n() && r.unwrap().from == a && ({ let row = self.suc@[a.ix() as int]@; let i = r.unwrap().successor_index as int;
                0 <= i < row.len() && row[i].suc.ix() == b.ix() && forall|j: int| 0 <= j < i ==> (#[trigger] row[j]).suc.ix() != b.ix() }),   // [find_edge_first_match]
            r is None ==> !(a.ix() < self.n() && exists|i: int| 0 <= i < self.suc@[a.ix() as int]@.len() && (#[trigger] self.suc@[a.ix() as int]@[i]).suc.ix() == b.ix())/*-*/   // [find_edge_none_iff_absent]
    {
        /*+*/proof { Ix::eq_law(); }/*-*/
        self.suc.get(a.index()).and_then(|row/*+*/: &Row<E, Ix>/*-*/| /*+*/-> (o: Option<EdgeIndex<Ix>>)
            ensures o is Some ==> o.unwrap().from == a && ({ let i = o.unwrap().successor_index as int; 0 <= i < row@.len() && row@[i].suc.ix() == b.ix() && forall|j: int| 0 <= j < i ==> (#[trigger] row@[j]).suc.ix() != b.ix() }),
                o is None ==> forall|i: int| 0 <= i < row@.len() ==> (#[trigger] row@[i]).suc.ix() != b.ix()/*-*/
        {
            /*R:D33 row.iter()
                .enumerate()
                .find( */ { let mut __it = enumerate_slice(row.as_slice()); let ghost items = __it.remaining(); let p = /*-*/ |/*R:D10 (_, x) */ __t: &(usize, &WSuc<E, Ix>) /*-*/| /*+*/-> (q: bool) ensures q == (__t.1.suc.ix() == b.ix()) { let x = __t.1;/*-*/ x.suc == b /*+*/}/*-*/ /*R:D33 ) */ ; let ghost pg = p; let found = ex_find(&mut __it, p);
                proof {
                    match found {
                        Some(t) => { let k = choose|k: int| 0 <= k < items.len() && items[k] == t && #[trigger] pg.ensures((&items[k],), true) && (forall|j: int| 0 <= j < k ==> #[trigger] pg.ensures((&items[j],), false));
                            assert(items[k].0 == k && *items[k].1 == row@[k]);
                            assert forall|j: int| 0 <= j < k implies (#[trigger] row@[j]).suc.ix() != b.ix() by { assert(pg.ensures((&items[j],), false)); assert(*items[j].1 == row@[j]); } },
                        None => { assert forall|i: int| 0 <= i < row@.len() implies (#[trigger] row@[i]).suc.ix() != b.ix() by { assert(pg.ensures((&items[i],), false)); assert(*items[i].1 == row@[i]); } },
                    }
                }
                found } /*-*/
                .map(|/*R:D10 (i, _) */ __t: (usize, &WSuc<E, Ix>) /*-*/| /*+*/-> (x: EdgeIndex<Ix>) ensures x.from == a, x.successor_index == __t.0 { let (i, _w) = __t;/*-*/ EdgeIndex {
                    from: a,
                    successor_index: i,
                } /*+*/}/*-*/)
        })
    }
//@ end
}

// ---------------------------------------------------------------------------- edge_indices
/// the edge indices (from, lo), (from, lo + 1), .., (from, hi - 1)
pub open spec fn row_eix<Ix: IndexType>(from: usize, lo: int, hi: int) -> Seq<EdgeIndex<Ix>> {
    Seq::new((if hi >= lo { hi - lo } else { 0 }) as nat, |k: int| EdgeIndex { from: Ix::spec_new(from), successor_index: (lo + k) as usize })
}
/// all edge indices of the enumerated rows, row after row
pub open spec fn rows_eix<'a, E, Ix: IndexType>(items: Seq<(usize, &'a Row<E, Ix>)>) -> Seq<EdgeIndex<Ix>>
    decreases items.len()
{
    if items.len() == 0 { Seq::empty() } else { row_eix::<Ix>(items[0].0, 0, items[0].1@.len() as int) + rows_eix(items.drop_first()) }
}

//@ item src/adj.rs | - | struct EdgeIndices
/*+*/#[verifier::reject_recursive_types(E)]
#[verifier::reject_recursive_types(Ix)]/*-*/
pub struct EdgeIndices<'a, E, Ix: IndexType> {
    pub rows: core::iter::Enumerate<core::slice::Iter<'a, Row<E, Ix>>>,
    pub row_index: usize,
    pub row_len: usize,
    pub cur: usize,
}
//@ end

impl<'a, E, Ix: IndexType> EdgeIndices<'a, E, Ix> {
    /// what is left: the rest of the current row, then every row still to come
    #[verifier::prophetic]
    pub open spec fn rem(&self) -> Seq<EdgeIndex<Ix>> { row_eix::<Ix>(self.row_index, self.cur as int, self.row_len as int) + rows_eix(self.rows.remaining()) }
}
impl<'a, E, Ix: IndexType> vstd::std_specs::iter::IteratorSpecImpl for EdgeIndices<'a, E, Ix> {
    open spec fn obeys_prophetic_iter_laws(&self) -> bool { self.rows.obeys_prophetic_iter_laws() }
    #[verifier::prophetic]
    open spec fn remaining(&self) -> Seq<EdgeIndex<Ix>> { self.rem() }
    /// (no termination measure is offered: rows may be empty, so one call can consume any number of rows)
    open spec fn decrease(&self) -> Option<nat> { None }
    open spec fn will_return_none(&self) -> bool { true }
    open spec fn peek(&self, i: int) -> Option<EdgeIndex<Ix>> { None }
}

//@ item src/adj.rs | - | impl<E, Ix: IndexType> Iterator for EdgeIndices<'_, E, Ix>
impl<E, Ix: IndexType> Iterator for EdgeIndices<'_, E, Ix> {
    type Item = EdgeIndex<Ix>;
    // termination NOT verified (it depends on the wrapped Enumerate obeying its laws; no precondition is available on Iterator::next)
    /*+*/#[verifier::exec_allows_no_decreases_clause]/*-*/
    fn next(&mut self) -> Option<EdgeIndex<Ix>> {
        loop
            /*+*/invariant self.rows.obeys_prophetic_iter_laws() == old(self).rows.obeys_prophetic_iter_laws(),
                self.rows.obeys_prophetic_iter_laws() ==> self.rem() == old(self).rem(),/*-*/
        {
            if self.cur < self.row_len {
                let res = self.cur;
                /*+*/let ghost before = *self;/*-*/
                self.cur += 1;
                /*+*/proof { if self.rows.obeys_prophetic_iter_laws() {
                    let x = EdgeIndex::<Ix> { from: Ix::spec_new(self.row_index), successor_index: res };
                    assert(row_eix::<Ix>(self.row_index, res as int, self.row_len as int) =~= seq![x] + row_eix::<Ix>(self.row_index, res as int + 1, self.row_len as int));
                    assert(before.rem() =~= seq![x] + self.rem());
                    assert((seq![x] + self.rem()).drop_first() =~= self.rem());
                } }/*-*/
                return Some(EdgeIndex {
                    from: Ix::new(self.row_index),
                    successor_index: res,
                });
            } else {
                /*+*/let ghost items = self.rows.remaining(); let ghost before = *self;/*-*/
                match self.rows.next() {
                    Some((index, row)) => {
                        self.row_index = index;
                        self.cur = 0;
                        self.row_len = row.len();
                        /*+*/proof { if self.rows.obeys_prophetic_iter_laws() {
                            assert(items.len() > 0 && items[0] == (index, row)); assert(self.rows.remaining() == items.drop_first());
                            assert(row_eix::<Ix>(before.row_index, before.cur as int, before.row_len as int) =~= Seq::<EdgeIndex<Ix>>::empty());
                            assert(before.rem() =~= self.rem());
                        } }/*-*/
                    }
                    None => /*+*/{ proof { if self.rows.obeys_prophetic_iter_laws() {
                            assert(items.len() == 0);
                            assert(row_eix::<Ix>(before.row_index, before.cur as int, before.row_len as int) =~= Seq::<EdgeIndex<Ix>>::empty());
                            assert(self.rem() =~= Seq::<EdgeIndex<Ix>>::empty());
                        } }/*-*/ return None /*+*/}/*-*/,
                }
            }
        }
    }
}
//@ end

impl<E, Ix: IndexType> List<E, Ix> {
    /// every (a, i) with i a position of row a: all edges of the list, rows ascending, positions ascending
    pub open spec fn all_eix(&self) -> Seq<EdgeIndex<Ix>> { rows_eix(Seq::new(self.suc@.len(), |i: int| (i as usize, &self.suc@[i]))) }

//@ item src/adj.rs | impl<E, Ix: IndexType> List<E, Ix> | fn edge_indices
    /// Returns an iterator over all edge indices of the graph.
    ///
    /// Consuming the whole iterator take **O(|V| + |E|)**.
    pub fn edge_indices(&self) -> (r: EdgeIndices<E, Ix>)
        /*+*/ensures r.obeys_prophetic_iter_laws(), r.remaining() == self.all_eix()/*-*/   // [edge_indices_every_edge_once_in_order]
    {
        /*+*/let r = {/*-*/ EdgeIndices {
            rows: /*R:D23 self.suc.iter().enumerate() */ enumerate_slice(self.suc.as_slice()) /*-*/,
            row_index: 0,
            row_len: 0,
            cur: 0,
        } /*+*/};
        proof {
            assert(r.rows.remaining() =~= Seq::new(self.suc@.len(), |i: int| (i as usize, &self.suc@[i])));
            assert(row_eix::<Ix>(0, 0, 0) =~= Seq::<EdgeIndex<Ix>>::empty());
            assert(r.rem() =~= self.all_eix());
        }
        r/*-*/
    }
//@ end
}

// ---- DataMap / DataMapMut / Build for List: trait-impl methods presented as inherent methods so that they can carry a contract (D17)
impl<E, Ix: IndexType> List<E, Ix> {
    /// e names an edge
    pub open spec fn valid_eix(&self, e: EdgeIndex<Ix>) -> bool { e.from.ix() < self.n() && e.successor_index < self.suc@[e.from.ix() as int]@.len() }

//@ item src/adj.rs | impl<E, Ix: IndexType> DataMap for List<E, Ix> | fn edge_weight
    /// Accesses the weight of edge `e`
    ///
    /// Computes in **O(1)**
    fn edge_weight(&self, e: EdgeIndex<Ix>) -> (r: Option<&E>)
        /*+*/ensures r is Some <==> self.valid_eix(e),                                                               // [edge_weight_some_iff_valid]
            r is Some ==> *r.unwrap() == self.suc@[e.from.ix() as int]@[e.successor_index as int].weight/*-*/      // [edge_weight_own_slot]
    {
        self.get_edge(e).map(|x/*+*/: &WSuc<E, Ix>/*-*/| /*+*/-> (w: &E) ensures *w == x.weight {/*-*/ &x.weight /*+*/}/*-*/)
    }
//@ end

//@ item src/adj.rs | impl<E, Ix: IndexType> DataMapMut for List<E, Ix> | fn edge_weight_mut
    /// Accesses the weight of edge `e`
    ///
    /// Computes in **O(1)**
    fn edge_weight_mut(&mut self, e: EdgeIndex<Ix>) -> (r: Option<&mut E>)
        /*+*/ensures r is Some <==> old(self).valid_eix(e),                                                          // [edge_weight_mut_some_iff_valid]
            final(self).suc@.len() == old(self).suc@.len(),
            r is None ==> forall|a: int| 0 <= a < old(self).suc@.len() ==> (#[trigger] final(self).suc@[a])@ == old(self).suc@[a]@,
            r is Some ==> *r.unwrap() == old(self).suc@[e.from.ix() as int]@[e.successor_index as int].weight
                && final(self).suc@[e.from.ix() as int]@ == old(self).suc@[e.from.ix() as int]@.update(e.successor_index as int,
                       WSuc { suc: old(self).suc@[e.from.ix() as int]@[e.successor_index as int].suc, weight: *final(r.unwrap()) })
                && forall|a: int| 0 <= a < old(self).suc@.len() && a != e.from.ix() ==> #[trigger] final(self).suc@[a] == old(self).suc@[a]/*-*/   // [edge_weight_mut_own_weight_only]
    {
        self.get_edge_mut(e).map(|x/*+*/: &mut WSuc<E, Ix>/*-*/| /*+*/-> (w: &mut E) ensures *w == old(x).weight, final(x).suc == old(x).suc, final(x).weight == *final(w) {/*-*/ &mut x.weight /*+*/}/*-*/)
    }
//@ end

//@ item src/adj.rs | impl<E, Ix: IndexType> DataMap for List<E, Ix> | fn node_weight
    fn node_weight(&self, n: /*R:D17 Self::NodeId */ NodeIndex<Ix> /*-*/) -> (r: Option<&()>)
        /*+*/ensures r is Some <==> n.ix() < self.n()/*-*/   // [node_weight_some_iff_node]
    {
        if n.index() < self.suc.len() {
            Some(&())
        } else {
            None
        }
    }
//@ end
}
