// ======================================================================================
// fragment graph_ops3.rs - add_edge, update_edge, *_weight_mut, next_edge, clear_edges (C01)
// ======================================================================================

impl<N, E, Ty, Ix> Graph<N, E, Ty, Ix>
where
    Ty: EdgeType,
    Ix: IndexType,
{
//@ item src/graph_impl/mod.rs | impl<N, E, Ty, Ix> Graph<N, E, Ty, Ix> where Ty: EdgeType, Ix: IndexType | fn node_weight_mut
    pub fn node_weight_mut(&mut self, a: NodeIndex<Ix>) -> (r: Option<&mut N>)
        /*+*/requires old(self).wf()
        ensures
            a.i() >= old(self).n() <==> r is None,                                   // [node_weight_mut_none_iff_absent]
            r is None ==> final(self).nodes@ == old(self).nodes@ && final(self).edges@ == old(self).edges@,
            r is Some ==> *r.unwrap() == old(self).view().nodes[a.i()] && final(self).wf()
                && final(self).view() == old(self).view().set_node_weight(a.i(), *final(r.unwrap()))/*-*/,   // [node_weight_mut_view]
    {
        /*+*/let r = {/*-*/ self.nodes.get_mut(a.index()).map(|n/*+*/: &mut Node<N, Ix>/*-*/| /*+*/-> (w: &mut N) ensures *w == old(n).weight, final(n).next == old(n).next, final(n).weight == *final(w) {/*-*/ &mut n.weight /*+*/}/*-*/) /*+*/};
        proof {
            if a.i() < old(self).n() {
                let fin = *final(self);
                fin.lemma_weights_only(old(self));
                assert(fin.node_ws() =~= old(self).node_ws().update(a.i(), *final(r.unwrap())));
                assert(fin.edge_ps() =~= old(self).edge_ps());
            }
        }
        r/*-*/
    }
//@ end

//@ item src/graph_impl/mod.rs | impl<N, E, Ty, Ix> Graph<N, E, Ty, Ix> where Ty: EdgeType, Ix: IndexType | fn next_edge
    pub fn next_edge(&self, e: EdgeIndex<Ix>, dir: Direction) -> (r: Option<EdgeIndex<Ix>>)
        /*+*/requires self.wf()
        ensures
            e.i() >= self.m() ==> r is None,
            e.i() < self.m() ==> ({
                let a = if dir.k() == 0 { self.view().edges[e.i()].0 } else { self.view().edges[e.i()].1 };
                let l = if dir.k() == 0 { self.view().out[a] } else { self.view().inn[a] };
                let q = pos_of(l, e.i());
                0 <= q < l.len() && l[q] == e.i() && if q + 1 < l.len() { r is Some && r.unwrap().i() == l[q + 1] } else { r is None }   // [next_edge_view]
            })/*-*/,
    {
        /*+*/proof {
            if e.i() < self.m() {
                let k = dir.k();
                let a = self.edges@[e.i()].node[k].i();
                let l = if k == 0 { self.outs()[a] } else { self.inns()[a] };
                assert(l.contains(e.i()));
                let q = pos_of(l, e.i());
                lemma_slist_is_tchain(self.edges@, self.nodes@[a].next[k], k, l);
                lemma_tchain_succ(self.edges@, self.nodes@[a].next[k], k, l, end_ix::<Ix>() as int, q);
            }
        }/*-*/
        match self.edges.get(e.index()) {
            None => None,
            Some(node) => {
                let edix = node.next[dir.index()];
                if edix == EdgeIndex::end() {
                    None
                } else {
                    Some(edix)
                }
            }
        }
    }
//@ end

//@ item src/graph_impl/mod.rs | impl<N, E, Ty, Ix> Graph<N, E, Ty, Ix> where Ty: EdgeType, Ix: IndexType | fn try_update_edge
    pub fn try_update_edge(
        &mut self,
        a: NodeIndex<Ix>,
        b: NodeIndex<Ix>,
        weight: E,
    ) -> (res: Result<EdgeIndex<Ix>, GraphError>)
        /*+*/requires old(self).wf()
        ensures
            final(self).wf(),
            match old(self).view().find(Ty::spec_is_directed(), a.i(), b.i()) {
                Some((ev, d)) => res is Ok && res->Ok_0.i() == ev && final(self).view() == old(self).view().set_edge_weight(ev, weight),   // [update_edge_existing]
                None => {
                    &&& res is Err ==> final(self).nodes@ == old(self).nodes@ && final(self).edges@ == old(self).edges@          // [update_edge_err_unchanged]
                    &&& res is Err <==> (a.i() >= old(self).n() || b.i() >= old(self).n() || (end_ix::<Ix>() != usize::MAX && old(self).m() == end_ix::<Ix>()))
                    &&& res is Ok ==> res->Ok_0.i() == old(self).m() && final(self).view() == old(self).view().add_edge(a.i(), b.i(), weight)   // [update_edge_new]
                }
            }/*-*/
    {
        if let Some(ix) = self.find_edge(a, b) {
            if let Some(ed) = self.edge_weight_mut(ix) {
                *ed = weight;
                return Ok(ix);
            }
        }
        self.try_add_edge(a, b, weight)
    }
//@ end

//@ item src/graph_impl/mod.rs | impl<N, E, Ty, Ix> Graph<N, E, Ty, Ix> where Ty: EdgeType, Ix: IndexType | fn update_edge
    #[track_caller]
    pub fn update_edge(&mut self, a: NodeIndex<Ix>, b: NodeIndex<Ix>, weight: E) -> (r: EdgeIndex<Ix>)
        /*+*/requires old(self).wf(),
            old(self).view().find(Ty::spec_is_directed(), a.i(), b.i()) is None ==>
                a.i() < old(self).n() && b.i() < old(self).n() && (end_ix::<Ix>() == usize::MAX || old(self).m() < end_ix::<Ix>()),   // [update_edge_panics_iff]
        ensures
            final(self).wf(),
            match old(self).view().find(Ty::spec_is_directed(), a.i(), b.i()) {
                Some((ev, d)) => r.i() == ev && final(self).view() == old(self).view().set_edge_weight(ev, weight),
                None => r.i() == old(self).m() && final(self).view() == old(self).view().add_edge(a.i(), b.i(), weight),
            }/*-*/
    {
        self.try_update_edge(a, b, weight).unwrap()
    }
//@ end

//@ item src/graph_impl/mod.rs | impl<N, E, Ty, Ix> Graph<N, E, Ty, Ix> where Ty: EdgeType, Ix: IndexType | fn edge_weight_mut
    pub fn edge_weight_mut(&mut self, e: EdgeIndex<Ix>) -> (r: Option<&mut E>)
        /*+*/requires old(self).wf()
        ensures
            e.i() >= old(self).m() <==> r is None,                                   // [edge_weight_mut_none_iff_absent]
            r is None ==> final(self).nodes@ == old(self).nodes@ && final(self).edges@ == old(self).edges@,
            r is Some ==> *r.unwrap() == old(self).view().edges[e.i()].2 && final(self).wf()
                && final(self).view() == old(self).view().set_edge_weight(e.i(), *final(r.unwrap()))/*-*/,   // [edge_weight_mut_view]
    {
        /*+*/let r = {/*-*/ self.edges.get_mut(e.index()).map(|ed/*+*/: &mut Edge<E, Ix>/*-*/| /*+*/-> (w: &mut E) ensures *w == old(ed).weight, final(ed).next == old(ed).next, final(ed).node == old(ed).node, final(ed).weight == *final(w) {/*-*/ &mut ed.weight /*+*/}/*-*/) /*+*/};
        proof {
            if e.i() < old(self).m() {
                let fin = *final(self);
                fin.lemma_weights_only(old(self));
                assert(fin.node_ws() =~= old(self).node_ws());
                assert(fin.edge_ps() =~= old(self).edge_ps().update(e.i(), (old(self).edge_ps()[e.i()].0, old(self).edge_ps()[e.i()].1, *final(r.unwrap()))));
            }
        }
        r/*-*/
    }
//@ end

//@ item src/graph_impl/mod.rs | impl<N, E, Ty, Ix> Graph<N, E, Ty, Ix> where Ty: EdgeType, Ix: IndexType | fn clear_edges
    pub fn clear_edges(&mut self)
        /*+*/requires old(self).wf()
        ensures final(self).wf(), final(self).view().nodes == old(self).view().nodes, final(self).view().edges.len() == 0,   // [clear_edges_view]
            forall|a: int| 0 <= a < final(self).n() ==> (#[trigger] final(self).view().out[a]).len() == 0 && final(self).view().inn[a].len() == 0/*-*/,
    {
        self.edges.clear();
        /*+*/let ghost n0 = self.nodes@;/*-*/
        /*R:D6 for node in &mut self.nodes */ let mut __i = 0usize; loop 
            invariant __i <= self.nodes@.len(), self.nodes@.len() == n0.len(), self.edges@.len() == 0,
                n0.len() <= end_ix::<Ix>(),
                forall|a: int| 0 <= a < n0.len() ==> (#[trigger] self.nodes@[a]).weight == n0[a].weight,
                forall|a: int| 0 <= a < __i ==> (#[trigger] self.nodes@[a]).next[0].0.ix() == end_ix::<Ix>() && self.nodes@[a].next[1].0.ix() == end_ix::<Ix>(),
            ensures __i >= self.nodes@.len(),
            decreases self.nodes@.len() - __i/*-*/
        {
            /*+*/if __i >= self.nodes.len() { break; } let node = &mut self.nodes[__i]; __i += 1;/*-*/
            node.next = [EdgeIndex::end(), EdgeIndex::end()];
        }
        /*+*/proof {
            let e = Seq::new(self.nodes@.len(), |a: int| Seq::<int>::empty());
            assert(lists_ok(self.nodes@, self.edges@, 0, e));
            assert(lists_ok(self.nodes@, self.edges@, 1, e));
            assert(self.wf_with(e, e));
            self.lemma_wf_unique(e, e);
            assert(self.node_ws() =~= old(self).node_ws());
        }/*-*/
    }
//@ end
}

