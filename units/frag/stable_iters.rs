// ======================================================================================
// fragment stable_iters.rs - StableGraph's whole-graph iterators NodeIndices, EdgeIndices, EdgeReferences
// (both ends) and their constructors (C02, C06).  Each wraps `iter::Enumerate<slice::Iter<..>>` and skips
// vacant slots with the crate's `ex_find_map` / `ex_rfind_map` (fragment iter_utils.rs).  What is left to
// yield is `fm_seq` (filter-map) of what the wrapped enumeration has left; the only ASSUMPTION is what
// `slice.iter().enumerate()` yields (`enumerate_slice`, D23).
//   D10: a closure parameter pattern `|(i, x)|` is written `|__t: (usize, &T)| .. { let (i, x) = __t; BODY }`
//        (this Verus accepts only variables as closure parameters) and gets its type and `ensures`.
// ======================================================================================

/// the items `S.iter().enumerate()` yields
pub open spec fn enum_items<'a, T>(s: Seq<T>) -> Seq<(usize, &'a T)> { Seq::new(s.len(), |i: int| (i as usize, &s[i])) }

pub open spec fn snix_f<'a, N, Ix: IndexType>() -> spec_fn((usize, &'a Node<Option<N>, Ix>)) -> Option<NodeIndex<Ix>> {
    |t: (usize, &'a Node<Option<N>, Ix>)| if t.1.weight is Some { Some(NodeIndex(Ix::spec_new(t.0))) } else { None }
}
pub open spec fn seix_f<'a, E, Ix: IndexType>() -> spec_fn((usize, &'a Edge<Option<E>, Ix>)) -> Option<EdgeIndex<Ix>> {
    |t: (usize, &'a Edge<Option<E>, Ix>)| if t.1.weight is Some { Some(EdgeIndex(Ix::spec_new(t.0))) } else { None }
}

// ---- node_bound: one past the last live node (0 when there is none)
pub open spec fn sbound<N, Ix: IndexType>(ns: Seq<Node<Option<N>, Ix>>, k: int) -> int
    decreases k
{
    if k <= 0 { 0 } else if ns[k - 1].weight is Some { k } else { sbound(ns, k - 1) }
}
pub proof fn lemma_sbound<N, Ix: IndexType>(ns: Seq<Node<Option<N>, Ix>>, k: int)
    requires 0 <= k <= ns.len()
    ensures 0 <= sbound(ns, k) <= k,
        forall|a: int| 0 <= a < k && nlive(ns, a) ==> a < sbound(ns, k),
        sbound(ns, k) > 0 ==> nlive(ns, sbound(ns, k) - 1),
    decreases k
{
    if k > 0 && !(ns[k - 1].weight is Some) { lemma_sbound(ns, k - 1); }
}


// ---- edge_bound: one past the last live edge (0 when there is none)
pub open spec fn sebound<E, Ix: IndexType>(es: Seq<Edge<Option<E>, Ix>>, k: int) -> int
    decreases k
{
    if k <= 0 { 0 } else if es[k - 1].weight is Some { k } else { sebound(es, k - 1) }
}
pub proof fn lemma_sebound<E, Ix: IndexType>(es: Seq<Edge<Option<E>, Ix>>, k: int)
    requires 0 <= k <= es.len()
    ensures 0 <= sebound(es, k) <= k,
        forall|e: int| 0 <= e < k && elive(es, e) ==> e < sebound(es, k),
        sebound(es, k) > 0 ==> elive(es, sebound(es, k) - 1),
    decreases k
{
    if k > 0 && !(es[k - 1].weight is Some) { lemma_sebound(es, k - 1); }
}


// ---------------------------------------------------------------------------- NodeIndices
//@ item src/graph_impl/stable_graph/mod.rs | - | struct NodeIndices
/// Iterator over the node indices of a graph.
/*+*/#[verifier::reject_recursive_types(N)]
#[verifier::reject_recursive_types(Ix)]/*-*/
pub struct NodeIndices<'a, N: 'a, Ix: 'a = DefaultIx> {
    pub iter: iter::Enumerate<slice::Iter<'a, Node<Option<N>, Ix>>>,
}
//@ end

impl<'a, N, Ix: IndexType> NodeIndices<'a, N, Ix> {
    #[verifier::prophetic]
    pub open spec fn rem(&self) -> Seq<NodeIndex<Ix>> { fm_seq(self.iter.remaining(), snix_f::<N, Ix>()) }
}
impl<'a, N, Ix: IndexType> vstd::std_specs::iter::IteratorSpecImpl for NodeIndices<'a, N, Ix> {
    open spec fn obeys_prophetic_iter_laws(&self) -> bool { self.iter.obeys_prophetic_iter_laws() }
    #[verifier::prophetic]
    open spec fn remaining(&self) -> Seq<NodeIndex<Ix>> { self.rem() }
    open spec fn decrease(&self) -> Option<nat> { self.iter.decrease() }
    open spec fn will_return_none(&self) -> bool { true }
    open spec fn peek(&self, i: int) -> Option<NodeIndex<Ix>> { None }
}
impl<'a, N, Ix: IndexType> vstd::std_specs::iter::DoubleEndedIteratorSpecImpl for NodeIndices<'a, N, Ix> {
    open spec fn peek_back(&self, i: int) -> Option<NodeIndex<Ix>> { None }
}

//@ item src/graph_impl/stable_graph/mod.rs | - | impl<N, Ix: IndexType> Iterator for NodeIndices<'_, N, Ix>
impl<N, Ix: IndexType> Iterator for NodeIndices<'_, N, Ix> {
    type Item = NodeIndex<Ix>;

    fn next(&mut self) -> Option<Self::Item> {
        /*+*/let ghost items = self.iter.remaining();
        let r = {/*-*/ self.iter.ex_find_map(|/*R:D10 (i, node) */ __t: (usize, &Node<Option<N>, Ix>) /*-*/| /*+*/-> (q: Option<NodeIndex<Ix>>) ensures q == snix_f::<N, Ix>()(__t)/*-*/ { /*+*/let (i, node) = __t;/*-*/
            if node.weight.is_some() {
                Some(node_index(i))
            } else {
                None
            }
        }) /*+*/};
        proof { if old(self).iter.obeys_prophetic_iter_laws() { let g = snix_f::<N, Ix>(); match r { Some(b) => { assert(fm_seq(items, g) == seq![b] + fm_seq(self.iter.remaining(), g)); }, None => { assert(fm_seq(items, g).len() == 0); lemma_fm_none(self.iter.remaining(), g); } } } }
        r/*-*/
    }
    /*+*/#[verifier::external_body]/*-*/
    fn size_hint(&self) -> (usize, Option<usize>) {
        let (_, upper) = self.iter.size_hint();
        (0, upper)
    }
}
//@ end

//@ item src/graph_impl/stable_graph/mod.rs | - | impl<N, Ix: IndexType> DoubleEndedIterator for NodeIndices<'_, N, Ix>
impl<N, Ix: IndexType> DoubleEndedIterator for NodeIndices<'_, N, Ix> {
    fn next_back(&mut self) -> Option<Self::Item> {
        /*+*/let ghost items = self.iter.remaining();
        let r = {/*-*/ self.iter.ex_rfind_map(|/*R:D10 (i, node) */ __t: (usize, &Node<Option<N>, Ix>) /*-*/| /*+*/-> (q: Option<NodeIndex<Ix>>) ensures q == snix_f::<N, Ix>()(__t)/*-*/ { /*+*/let (i, node) = __t;/*-*/
            if node.weight.is_some() {
                Some(node_index(i))
            } else {
                None
            }
        }) /*+*/};
        proof { if old(self).iter.obeys_prophetic_iter_laws() { let g = snix_f::<N, Ix>(); match r { Some(b) => { assert(fm_seq(items, g) == fm_seq(self.iter.remaining(), g).push(b)); }, None => { assert(fm_seq(items, g).len() == 0); lemma_fm_none(self.iter.remaining(), g); } } } }
        r/*-*/
    }
}
//@ end


// ---------------------------------------------------------------------------- EdgeIndices
//@ item src/graph_impl/stable_graph/mod.rs | - | struct EdgeIndices
/// Iterator over the edge indices of a graph.
/*+*/#[verifier::reject_recursive_types(E)]
#[verifier::reject_recursive_types(Ix)]/*-*/
pub struct EdgeIndices<'a, E: 'a, Ix: 'a = DefaultIx> {
    pub iter: iter::Enumerate<slice::Iter<'a, Edge<Option<E>, Ix>>>,
}
//@ end

impl<'a, E, Ix: IndexType> EdgeIndices<'a, E, Ix> {
    #[verifier::prophetic]
    pub open spec fn rem(&self) -> Seq<EdgeIndex<Ix>> { fm_seq(self.iter.remaining(), seix_f::<E, Ix>()) }
}
impl<'a, E, Ix: IndexType> vstd::std_specs::iter::IteratorSpecImpl for EdgeIndices<'a, E, Ix> {
    open spec fn obeys_prophetic_iter_laws(&self) -> bool { self.iter.obeys_prophetic_iter_laws() }
    #[verifier::prophetic]
    open spec fn remaining(&self) -> Seq<EdgeIndex<Ix>> { self.rem() }
    open spec fn decrease(&self) -> Option<nat> { self.iter.decrease() }
    open spec fn will_return_none(&self) -> bool { true }
    open spec fn peek(&self, i: int) -> Option<EdgeIndex<Ix>> { None }
}
impl<'a, E, Ix: IndexType> vstd::std_specs::iter::DoubleEndedIteratorSpecImpl for EdgeIndices<'a, E, Ix> {
    open spec fn peek_back(&self, i: int) -> Option<EdgeIndex<Ix>> { None }
}

//@ item src/graph_impl/stable_graph/mod.rs | - | impl<E, Ix: IndexType> Iterator for EdgeIndices<'_, E, Ix>
impl<E, Ix: IndexType> Iterator for EdgeIndices<'_, E, Ix> {
    type Item = EdgeIndex<Ix>;

    fn next(&mut self) -> Option<Self::Item> {
        /*+*/let ghost items = self.iter.remaining();
        let r = {/*-*/ self.iter.ex_find_map(|/*R:D10 (i, node) */ __t: (usize, &Edge<Option<E>, Ix>) /*-*/| /*+*/-> (q: Option<EdgeIndex<Ix>>) ensures q == seix_f::<E, Ix>()(__t)/*-*/ { /*+*/let (i, node) = __t;/*-*/
            if node.weight.is_some() {
                Some(edge_index(i))
            } else {
                None
            }
        }) /*+*/};
        proof { if old(self).iter.obeys_prophetic_iter_laws() { let g = seix_f::<E, Ix>(); match r { Some(b) => { assert(fm_seq(items, g) == seq![b] + fm_seq(self.iter.remaining(), g)); }, None => { assert(fm_seq(items, g).len() == 0); lemma_fm_none(self.iter.remaining(), g); } } } }
        r/*-*/
    }
    /*+*/#[verifier::external_body]/*-*/
    fn size_hint(&self) -> (usize, Option<usize>) {
        let (_, upper) = self.iter.size_hint();
        (0, upper)
    }
}
//@ end

//@ item src/graph_impl/stable_graph/mod.rs | - | impl<E, Ix: IndexType> DoubleEndedIterator for EdgeIndices<'_, E, Ix>
impl<E, Ix: IndexType> DoubleEndedIterator for EdgeIndices<'_, E, Ix> {
    fn next_back(&mut self) -> Option<Self::Item> {
        /*+*/let ghost items = self.iter.remaining();
        let r = {/*-*/ self.iter.ex_rfind_map(|/*R:D10 (i, node) */ __t: (usize, &Edge<Option<E>, Ix>) /*-*/| /*+*/-> (q: Option<EdgeIndex<Ix>>) ensures q == seix_f::<E, Ix>()(__t)/*-*/ { /*+*/let (i, node) = __t;/*-*/
            if node.weight.is_some() {
                Some(edge_index(i))
            } else {
                None
            }
        }) /*+*/};
        proof { if old(self).iter.obeys_prophetic_iter_laws() { let g = seix_f::<E, Ix>(); match r { Some(b) => { assert(fm_seq(items, g) == fm_seq(self.iter.remaining(), g).push(b)); }, None => { assert(fm_seq(items, g).len() == 0); lemma_fm_none(self.iter.remaining(), g); } } } }
        r/*-*/
    }
}
//@ end


// ---------------------------------------------------------------------------- what the constructors yield
/// the indices below k that satisfy p, ascending
pub open spec fn idx_where(p: spec_fn(int) -> bool, k: int) -> Seq<int>
    decreases k
{
    if k <= 0 { Seq::empty() } else if p(k - 1) { idx_where(p, k - 1).push(k - 1) } else { idx_where(p, k - 1) }
}
pub proof fn lemma_idx_where(p: spec_fn(int) -> bool, k: int)
    requires 0 <= k
    ensures
        forall|i: int| 0 <= i < idx_where(p, k).len() ==> 0 <= #[trigger] idx_where(p, k)[i] < k && p(idx_where(p, k)[i]),
        forall|x: int| 0 <= x < k && p(x) ==> idx_where(p, k).contains(x),
        forall|i: int, j: int| 0 <= i < j < idx_where(p, k).len() ==> idx_where(p, k)[i] < idx_where(p, k)[j],     // ascending, hence duplicate-free
    decreases k
{
    if k > 0 {
        lemma_idx_where(p, k - 1);
        let t = idx_where(p, k - 1);
        if p(k - 1) {
            let s = t.push(k - 1);
            assert(s[t.len() as int] == k - 1);
            assert forall|x: int| 0 <= x < k && p(x) implies s.contains(x) by {
                if x < k - 1 { assert(t.contains(x)); let i = choose|i: int| 0 <= i < t.len() && t[i] == x; assert(s[i] == x); }
            }
        }
    }
}
pub proof fn lemma_idx_split(p: spec_fn(int) -> bool, q: spec_fn(int) -> bool, k: int)
    requires 0 <= k, forall|x: int| 0 <= x < k ==> (#[trigger] q(x) == !p(x))
    ensures idx_where(p, k).len() + idx_where(q, k).len() == k
    decreases k
{
    if k > 0 { lemma_idx_split(p, q, k - 1); assert(q(k - 1) == !p(k - 1)); }
}
/// two duplicate-free sequences with the same elements have the same length
pub proof fn lemma_same_elems_same_len(a: Seq<int>, b: Seq<int>)
    requires no_dup(a), no_dup(b), forall|x: int| a.contains(x) <==> b.contains(x)
    ensures a.len() == b.len()
{
    assert(a.no_duplicates());
    assert(b.no_duplicates());
    a.unique_seq_to_set();
    b.unique_seq_to_set();
    assert(a.to_set() =~= b.to_set());
}
/// filter-map of the first k enumerated items, one step
pub proof fn lemma_fm_take_step<A, B>(s: Seq<A>, f: spec_fn(A) -> Option<B>, k: int)
    requires 0 < k <= s.len()
    ensures fm_seq(s.take(k), f) == fm_seq(s.take(k - 1), f) + (match f(s[k - 1]) { Some(b) => seq![b], None => Seq::<B>::empty() })
{
    let m = seq![s[k - 1]];
    assert(s.take(k) =~= s.take(k - 1) + m);
    lemma_fm_append(s.take(k - 1), m, f);
    assert(m.drop_first() =~= Seq::<A>::empty());
    assert(fm_seq(m.drop_first(), f) =~= Seq::<B>::empty());
    assert(fm_seq(m, f) =~= (match f(s[k - 1]) { Some(b) => seq![b], None => Seq::<B>::empty() }));
}

pub open spec fn nlive_p<N, Ix: IndexType>(ns: Seq<Node<Option<N>, Ix>>) -> spec_fn(int) -> bool { |a: int| nlive(ns, a) }
pub open spec fn elive_p<E, Ix: IndexType>(es: Seq<Edge<Option<E>, Ix>>) -> spec_fn(int) -> bool { |e: int| elive(es, e) }
/// what node_indices() yields: the live node indices, ascending
pub open spec fn live_nix<N, Ix: IndexType>(ns: Seq<Node<Option<N>, Ix>>) -> Seq<NodeIndex<Ix>> { fm_seq(enum_items(ns), snix_f::<N, Ix>()) }
/// what edge_indices() yields: the live edge indices, ascending
pub open spec fn live_eix<E, Ix: IndexType>(es: Seq<Edge<Option<E>, Ix>>) -> Seq<EdgeIndex<Ix>> { fm_seq(enum_items(es), seix_f::<E, Ix>()) }

pub proof fn lemma_live_nix_prefix<N, Ix: IndexType>(ns: Seq<Node<Option<N>, Ix>>, k: int)
    requires 0 <= k <= ns.len()
    ensures ({ let a = fm_seq(enum_items(ns).take(k), snix_f::<N, Ix>()); let b = idx_where(nlive_p(ns), k);
        a.len() == b.len() && forall|i: int| 0 <= i < b.len() ==> #[trigger] a[i] == NodeIndex::<Ix>(Ix::spec_new(b[i] as usize)) })
    decreases k
{
    if k > 0 {
        lemma_live_nix_prefix(ns, k - 1);
        lemma_fm_take_step(enum_items(ns), snix_f::<N, Ix>(), k);
        assert(enum_items(ns)[k - 1] == ((k - 1) as usize, &ns[k - 1]));
    } else {
        assert(enum_items(ns).take(0) =~= Seq::<(usize, &Node<Option<N>, Ix>)>::empty());
    }
}
pub proof fn lemma_live_eix_prefix<E, Ix: IndexType>(es: Seq<Edge<Option<E>, Ix>>, k: int)
    requires 0 <= k <= es.len()
    ensures ({ let a = fm_seq(enum_items(es).take(k), seix_f::<E, Ix>()); let b = idx_where(elive_p(es), k);
        a.len() == b.len() && forall|i: int| 0 <= i < b.len() ==> #[trigger] a[i] == EdgeIndex::<Ix>(Ix::spec_new(b[i] as usize)) })
    decreases k
{
    if k > 0 {
        lemma_live_eix_prefix(es, k - 1);
        lemma_fm_take_step(enum_items(es), seix_f::<E, Ix>(), k);
        assert(enum_items(es)[k - 1] == ((k - 1) as usize, &es[k - 1]));
    } else {
        assert(enum_items(es).take(0) =~= Seq::<(usize, &Edge<Option<E>, Ix>)>::empty());
    }
}

impl<N, E, Ty, Ix> Graph<N, E, Ty, Ix>
where
    Ty: EdgeType,
    Ix: IndexType,
{
//@ item src/graph_impl/mod.rs | impl<N, E, Ty, Ix> Graph<N, E, Ty, Ix> where Ty: EdgeType, Ix: IndexType | fn raw_nodes
    /// Access the internal node array.
    pub fn raw_nodes(&self) -> (r: &[Node<N, Ix>])
        /*+*/ensures r@ == self.nodes@/*-*/
    {
        &self.nodes
    }
//@ end

//@ item src/graph_impl/mod.rs | impl<N, E, Ty, Ix> Graph<N, E, Ty, Ix> where Ty: EdgeType, Ix: IndexType | fn raw_edges
    /// Access the internal edge array.
    pub fn raw_edges(&self) -> (r: &[Edge<E, Ix>])
        /*+*/ensures r@ == self.edges@/*-*/
    {
        &self.edges
    }
//@ end
}

impl<N, E, Ty, Ix> StableGraph<N, E, Ty, Ix>
where
    Ty: EdgeType,
    Ix: IndexType,
{
//@ item src/graph_impl/stable_graph/mod.rs | impl<N, E, Ty, Ix> StableGraph<N, E, Ty, Ix> where Ty: EdgeType, Ix: IndexType | fn raw_nodes
    fn raw_nodes(&self) -> (r: &[Node<Option<N>, Ix>])
        /*+*/ensures r@ == self.ns()/*-*/
    {
        self.g.raw_nodes()
    }
//@ end

//@ item src/graph_impl/stable_graph/mod.rs | impl<N, E, Ty, Ix> StableGraph<N, E, Ty, Ix> where Ty: EdgeType, Ix: IndexType | fn raw_edges
    fn raw_edges(&self) -> (r: &[Edge<Option<E>, Ix>])
        /*+*/ensures r@ == self.es()/*-*/
    {
        self.g.raw_edges()
    }
//@ end

    /// node_indices() yields every live node once, in ascending order, node_count of them            (C02/C06)
    pub proof fn lemma_live_nodes(&self)
        requires self.wf()
        ensures ({ let s = live_nix::<N, Ix>(self.ns()); let b = idx_where(nlive_p(self.ns()), self.ns().len() as int);
            &&& s.len() == self.node_count && s.len() == b.len()                                                      // [node_indices_count_is_node_count]
            &&& forall|i: int| 0 <= i < s.len() ==> (#[trigger] s[i]).i() == b[i] && nlive(self.ns(), s[i].i())
            &&& forall|i: int, j: int| 0 <= i < j < s.len() ==> s[i].i() < s[j].i()                                   // [node_indices_each_once_ascending]
            &&& forall|a: NodeIndex<Ix>| nlive(self.ns(), a.i()) ==> s.contains(a) })                                  // [node_indices_all_live_nodes]
    {
        let ns = self.ns(); let n = ns.len() as int; let p = nlive_p(ns); let q = |a: int| !nlive(ns, a);
        let s = live_nix::<N, Ix>(ns); let b = idx_where(p, n); let v = idx_where(q, n); let fl = self.fnodes();
        assert(enum_items(ns).take(n) =~= enum_items(ns));
        lemma_live_nix_prefix(ns, n);
        lemma_idx_where(p, n); lemma_idx_where(q, n);
        lemma_idx_split(p, q, n);
        assert forall|x: int| v.contains(x) <==> fl.contains(x) by {
            if v.contains(x) { let i = choose|i: int| 0 <= i < v.len() && v[i] == x; assert(q(v[i])); }
            if fl.contains(x) { let i = choose|i: int| 0 <= i < fl.len() && fl[i] == x; assert(!nlive(ns, fl[i])); assert(q(x)); }
        }
        lemma_same_elems_same_len(v, fl);
        assert forall|i: int| 0 <= i < s.len() implies (#[trigger] s[i]).i() == b[i] && nlive(ns, s[i].i()) by { Ix::new_law(b[i] as usize); assert(p(b[i])); }
        assert forall|a: NodeIndex<Ix>| nlive(ns, a.i()) implies s.contains(a) by {
            assert(p(a.i())); assert(b.contains(a.i()));
            let i = choose|i: int| 0 <= i < b.len() && b[i] == a.i(); assert(0 <= b[i] < n && n <= end_ix::<Ix>());
            Ix::new_law(b[i] as usize); Ix::ix_inj(a.0, s[i].0);
        }
    }
    /// edge_indices() yields every live edge once, in ascending order, edge_count of them
    pub proof fn lemma_live_edges(&self)
        requires self.wf()
        ensures ({ let s = live_eix::<E, Ix>(self.es()); let b = idx_where(elive_p(self.es()), self.es().len() as int);
            &&& s.len() == self.edge_count && s.len() == b.len()                                                      // [edge_indices_count_is_edge_count]
            &&& forall|i: int| 0 <= i < s.len() ==> (#[trigger] s[i]).i() == b[i] && elive(self.es(), s[i].i())
            &&& forall|i: int, j: int| 0 <= i < j < s.len() ==> s[i].i() < s[j].i()                                   // [edge_indices_each_once_ascending]
            &&& forall|e: EdgeIndex<Ix>| elive(self.es(), e.i()) ==> s.contains(e) })                                  // [edge_indices_all_live_edges]
    {
        let es = self.es(); let n = es.len() as int; let p = elive_p(es); let q = |e: int| !elive(es, e);
        let s = live_eix::<E, Ix>(es); let b = idx_where(p, n); let v = idx_where(q, n); let fe = self.fedges();
        assert(enum_items(es).take(n) =~= enum_items(es));
        lemma_live_eix_prefix(es, n);
        lemma_idx_where(p, n); lemma_idx_where(q, n);
        lemma_idx_split(p, q, n);
        assert forall|x: int| v.contains(x) <==> fe.contains(x) by {
            if v.contains(x) { let i = choose|i: int| 0 <= i < v.len() && v[i] == x; assert(q(v[i])); }
            if fe.contains(x) { let i = choose|i: int| 0 <= i < fe.len() && fe[i] == x; assert(!elive(es, fe[i])); assert(q(x)); }
        }
        lemma_same_elems_same_len(v, fe);
        assert forall|i: int| 0 <= i < s.len() implies (#[trigger] s[i]).i() == b[i] && elive(es, s[i].i()) by { Ix::new_law(b[i] as usize); assert(p(b[i])); }
        assert forall|e: EdgeIndex<Ix>| elive(es, e.i()) implies s.contains(e) by {
            assert(p(e.i())); assert(b.contains(e.i()));
            let i = choose|i: int| 0 <= i < b.len() && b[i] == e.i(); assert(0 <= b[i] < n && n <= end_ix::<Ix>());
            Ix::new_law(b[i] as usize); Ix::ix_inj(e.0, s[i].0);
        }
    }

//@ item src/graph_impl/stable_graph/mod.rs | impl<N, E, Ty, Ix> StableGraph<N, E, Ty, Ix> where Ty: EdgeType, Ix: IndexType | fn node_indices
    /// Return an iterator over the node indices of the graph
    pub fn node_indices(&self) -> (r: NodeIndices<N, Ix>)
        /*+*/ensures r.obeys_prophetic_iter_laws(), r.decrease() is Some, r.remaining() == live_nix::<N, Ix>(self.ns())/*-*/   // [stable_node_indices_is_live_nodes]
    {
        /*+*/let r = {/*-*/ NodeIndices {
            iter: /*R:D23 enumerate */ enumerate_slice /*-*/(self.raw_nodes()),
        } /*+*/};
        proof { assert(r.iter.remaining() =~= enum_items(self.ns())); }
        r/*-*/
    }
//@ end

//@ item src/graph_impl/stable_graph/mod.rs | impl<N, E, Ty, Ix> StableGraph<N, E, Ty, Ix> where Ty: EdgeType, Ix: IndexType | fn edge_indices
    /// Return an iterator over the edge indices of the graph
    pub fn edge_indices(&self) -> (r: EdgeIndices<E, Ix>)
        /*+*/ensures r.obeys_prophetic_iter_laws(), r.decrease() is Some, r.remaining() == live_eix::<E, Ix>(self.es())/*-*/   // [stable_edge_indices_is_live_edges]
    {
        /*+*/let r = {/*-*/ EdgeIndices {
            iter: /*R:D23 enumerate */ enumerate_slice /*-*/(self.raw_edges()),
        } /*+*/};
        proof { assert(r.iter.remaining() =~= enum_items(self.es())); }
        r/*-*/
    }
//@ end
}

// ---------------------------------------------------------------------------- Externals
pub open spec fn sext_f<'a, N, Ix: IndexType>(k: int, directed: bool) -> spec_fn((usize, &'a Node<Option<N>, Ix>)) -> Option<NodeIndex<Ix>> {
    |t: (usize, &'a Node<Option<N>, Ix>)| if t.1.weight is Some && t.1.next[k].0.ix() == end_ix::<Ix>() && (directed || t.1.next[1 - k].0.ix() == end_ix::<Ix>()) { Some(NodeIndex(Ix::spec_new(t.0))) } else { None }
}

//@ item src/graph_impl/stable_graph/mod.rs | - | struct Externals
/// An iterator over either the nodes without edges to them or from them.
/*+*/#[verifier::reject_recursive_types(N)]
#[verifier::reject_recursive_types(Ix)]/*-*/
pub struct Externals<'a, N: 'a, Ty, Ix: IndexType = DefaultIx> {
    pub iter: iter::Enumerate<slice::Iter<'a, Node<Option<N>, Ix>>>,
    pub dir: Direction,
    pub ty: PhantomData<Ty>,
}
//@ end

impl<'a, N: 'a, Ty: EdgeType, Ix: IndexType> Externals<'a, N, Ty, Ix> {
    #[verifier::prophetic]
    pub open spec fn rem(&self) -> Seq<NodeIndex<Ix>> { fm_seq(self.iter.remaining(), sext_f::<N, Ix>(self.dir.k(), Ty::spec_is_directed())) }
}
impl<'a, N: 'a, Ty: EdgeType, Ix: IndexType> vstd::std_specs::iter::IteratorSpecImpl for Externals<'a, N, Ty, Ix> {
    open spec fn obeys_prophetic_iter_laws(&self) -> bool { self.iter.obeys_prophetic_iter_laws() }
    #[verifier::prophetic]
    open spec fn remaining(&self) -> Seq<NodeIndex<Ix>> { self.rem() }
    open spec fn decrease(&self) -> Option<nat> { self.iter.decrease() }
    open spec fn will_return_none(&self) -> bool { true }
    open spec fn peek(&self, i: int) -> Option<NodeIndex<Ix>> { None }
}

//@ item src/graph_impl/stable_graph/mod.rs | - | impl<'a, N: 'a, Ty, Ix> Iterator for Externals<'a, N, Ty, Ix> where Ty: EdgeType, Ix: IndexType
impl<'a, N: 'a, Ty, Ix> Iterator for Externals<'a, N, Ty, Ix>
where
    Ty: EdgeType,
    Ix: IndexType,
{
    type Item = NodeIndex<Ix>;
    // termination is NOT verified (it depends on the wrapped iterator obeying its laws)
    /*+*/#[verifier::exec_allows_no_decreases_clause]/*-*/
    fn next(&mut self) -> Option<NodeIndex<Ix>> {
        let k = self.dir.index();
        /*+*/let ghost f = sext_f::<N, Ix>(self.dir.k(), Ty::spec_is_directed());/*-*/
        loop
            /*+*/invariant k == self.dir.k(), self.dir == old(self).dir, f == sext_f::<N, Ix>(self.dir.k(), Ty::spec_is_directed()),
                self.iter.obeys_prophetic_iter_laws() == old(self).iter.obeys_prophetic_iter_laws(),
                self.iter.obeys_prophetic_iter_laws() ==> (self.iter.decrease() is Some <==> old(self).iter.decrease() is Some),
                self.iter.obeys_prophetic_iter_laws() ==> fm_seq(self.iter.remaining(), f) == fm_seq(old(self).iter.remaining(), f),
                self.iter.obeys_prophetic_iter_laws() && old(self).iter.decrease() is Some ==> self.iter.decrease()->Some_0 <= old(self).iter.decrease()->Some_0,/*-*/
        {
            /*+*/let ghost items = self.iter.remaining();/*-*/
            match self.iter.next() {
                None => /*+*/{ proof { if self.iter.obeys_prophetic_iter_laws() { assert(items.len() == 0); assert(fm_seq(items, f).len() == 0); lemma_fm_none(self.iter.remaining(), f); } }/*-*/ return None /*+*/}/*-*/,
                Some((index, node)) => {
                    /*+*/proof { Ix::eq_law(); if self.iter.obeys_prophetic_iter_laws() { assert(items.len() > 0 && items[0] == (index, node)); assert(self.iter.remaining() == items.drop_first()); } }/*-*/
                    if node.weight.is_some()
                        && node.next[k] == EdgeIndex::end()
                        && (Ty::is_directed() || node.next[1 - k] == EdgeIndex::end())
                    {
                        return Some(NodeIndex::new(index));
                    } else {
                        continue;
                    }
                }
            }
        }
    }
    /*+*/#[verifier::external_body]/*-*/
    fn size_hint(&self) -> (usize, Option<usize>) {
        let (_, upper) = self.iter.size_hint();
        (0, upper)
    }
}
//@ end

impl<N, E, Ty, Ix> StableGraph<N, E, Ty, Ix>
where
    Ty: EdgeType,
    Ix: IndexType,
{
//@ item src/graph_impl/stable_graph/mod.rs | impl<N, E, Ty, Ix> StableGraph<N, E, Ty, Ix> where Ty: EdgeType, Ix: IndexType | fn externals
    /// Return an iterator over either the nodes without edges to them
    /// (`Incoming`) or from them (`Outgoing`).
    pub fn externals(&self, dir: Direction) -> (r: Externals<N, Ty, Ix>)
        /*+*/requires self.wf()
        ensures r.obeys_prophetic_iter_laws(), r.decrease() is Some,
            // exactly the live nodes without edges in direction dir (without any edge if the graph is undirected)
            forall|a: NodeIndex<Ix>| r.remaining().contains(a) <==> (nlive(self.ns(), a.i())
                && (if dir.k() == 0 { self.outs(-1)[a.i()].len() == 0 } else { self.inns(-1)[a.i()].len() == 0 })
                && (Ty::spec_is_directed() || (self.outs(-1)[a.i()].len() == 0 && self.inns(-1)[a.i()].len() == 0)))/*-*/   // [stable_externals_exactly_live_nodes_without_edges]
    {
        /*+*/let r = {/*-*/ Externals {
            iter: /*R:D23 self.raw_nodes().iter().enumerate() */ enumerate_slice(self.raw_nodes()) /*-*/,
            dir,
            ty: PhantomData,
        } /*+*/};
        proof {
            let items = r.iter.remaining(); let k = dir.k(); let directed = Ty::spec_is_directed(); let f = sext_f::<N, Ix>(k, directed);
            let ns = self.ns(); let es = self.es(); let o = self.outs(-1); let i_ = self.inns(-1);
            assert(items =~= enum_items(ns));
            assert forall|x: int| nlive(ns, x) implies (o[x].len() == 0 <==> ns[x].next[0].0.ix() == end_ix::<Ix>()) && (i_[x].len() == 0 <==> ns[x].next[1].0.ix() == end_ix::<Ix>()) by {
                assert(slist(es, ns[x].next[0], 0, o[x])); assert(slist(es, ns[x].next[1], 1, i_[x]));
                if o[x].len() > 0 { lemma_slist_range(es, ns[x].next[0], 0, o[x]); }
                if i_[x].len() > 0 { lemma_slist_range(es, ns[x].next[1], 1, i_[x]); }
            }
            assert forall|a: NodeIndex<Ix>| r.remaining().contains(a) <==> (nlive(ns, a.i())
                && (if dir.k() == 0 { o[a.i()].len() == 0 } else { i_[a.i()].len() == 0 })
                && (directed || (o[a.i()].len() == 0 && i_[a.i()].len() == 0))) by {
                lemma_fm_contains(items, f, a);
                if r.remaining().contains(a) {
                    let j = choose|j: int| 0 <= j < items.len() && f(#[trigger] items[j]) == Some(a);
                    Ix::new_law(j as usize); assert(items[j] == (j as usize, &ns[j])); assert(a.i() == j);
                }
                if nlive(ns, a.i()) { let j = a.i(); Ix::new_law(j as usize); Ix::ix_inj(a.0, Ix::spec_new(j as usize)); assert(items[j] == (j as usize, &ns[j])); }
            }
        }
        r/*-*/
    }
//@ end
}
