// ======================================================================================
// fragment visit_graph.rs - the visit-trait impls of Graph proved against the trait contracts of
// visit_traits.rs (property C06, partial)
// ======================================================================================
//@ item src/graph_impl/mod.rs | - | impl<N, E, Ty, Ix> visit::GraphBase for Graph<N, E, Ty, Ix> where Ix: IndexType
impl<N, E, Ty, Ix> visit::GraphBase for Graph<N, E, Ty, Ix>
where
    Ix: IndexType,
{
    type NodeId = NodeIndex<Ix>;
    type EdgeId = EdgeIndex<Ix>;
}
//@ end

//@ item src/graph_impl/mod.rs | - | impl<N, E, Ty, Ix> visit::NodeCount for Graph<N, E, Ty, Ix> where Ty: EdgeType, Ix: IndexType
impl<N, E, Ty, Ix> visit::NodeCount for Graph<N, E, Ty, Ix>
where
    Ty: EdgeType,
    Ix: IndexType,
{
    /*+*/open spec fn ncount(&self) -> usize { self.nodes.len() }/*-*/
    fn node_count(&self) -> usize {
        self.node_count()
    }
}
//@ end

//@ item src/graph_impl/mod.rs | - | impl<N, E, Ty, Ix> visit::EdgeCount for Graph<N, E, Ty, Ix> where Ty: EdgeType, Ix: IndexType
impl<N, E, Ty, Ix> visit::EdgeCount for Graph<N, E, Ty, Ix>
where
    Ty: EdgeType,
    Ix: IndexType,
{
    /*+*/open spec fn ecount(&self) -> usize { self.edges.len() }/*-*/
    #[inline]
    fn edge_count(&self) -> usize {
        self.edge_count()
    }
}
//@ end

//@ item src/graph_impl/mod.rs | - | impl<N, E, Ty, Ix> visit::NodeIndexable for Graph<N, E, Ty, Ix> where Ty: EdgeType, Ix: IndexType
impl<N, E, Ty, Ix> visit::NodeIndexable for Graph<N, E, Ty, Ix>
where
    Ty: EdgeType,
    Ix: IndexType,
{
    /*+*/
    open spec fn is_nid(&self, a: NodeIndex<Ix>) -> bool { a.i() < self.nodes@.len() }
    open spec fn nbound(&self) -> usize { self.nodes.len() }
    open spec fn ix_of(&self, a: NodeIndex<Ix>) -> usize { a.0.ix() }
    proof fn ix_inj_law(&self, a: NodeIndex<Ix>, b: NodeIndex<Ix>) { Ix::ix_inj(a.0, b.0); }
    /*-*/
    #[inline]
    fn node_bound(&self) -> usize {
        self.node_count()
    }
    #[inline]
    fn to_index(&self, ix: NodeIndex<Ix>) -> usize {
        ix.index()
    }
    #[inline]
    fn from_index(&self, ix: usize) -> Self::NodeId {
        /*+*/let r = {/*-*/ NodeIndex::new(ix) /*+*/};
        proof { assert forall|a: NodeIndex<Ix>| self.is_nid(a) && self.ix_of(a) == ix implies r == a by { Ix::ix_bound(a.0); Ix::ix_inj(a.0, r.0); } }
        r/*-*/
    }
}
//@ end

//@ item src/graph_impl/mod.rs | - | impl<N, E, Ty, Ix> visit::Visitable for Graph<N, E, Ty, Ix> where Ty: EdgeType, Ix: IndexType
impl<N, E, Ty, Ix> visit::Visitable for Graph<N, E, Ty, Ix>
where
    Ty: EdgeType,
    Ix: IndexType,
{
    type Map = FixedBitSet;
    /*+*/open spec fn vis_node(&self, a: NodeIndex<Ix>) -> bool { a.i() < self.nodes@.len() }/*-*/
    fn visit_map(&self) -> FixedBitSet {
        /*+*/let r = {/*-*/ FixedBitSet::with_capacity(self.node_count()) /*+*/};
        proof { assert(r.vset() =~= ISet::<NodeIndex<Ix>>::empty()); }
        r/*-*/
    }

    fn reset_map(&self, map: &mut Self::Map) {
        map.clear();
        map.grow(self.node_count());
        /*+*/proof { assert(map.vset() =~= ISet::<NodeIndex<Ix>>::empty()); }/*-*/
    }
}
//@ end

/// the bit-set VisitMap keyed by NodeIndex (the repository implements VisitMap<Ix> for FixedBitSet for every Ix: IndexType;
/// NodeIndex<Ix> is such an Ix through `unsafe impl IndexType for NodeIndex<Ix>`)
//@ item src/graph_impl/mod.rs | - | struct EdgeReference
/// Reference to a `Graph` edge.
pub struct EdgeReference<'a, E: 'a, Ix = DefaultIx> {
    pub index: EdgeIndex<Ix>,
    pub node: [NodeIndex<Ix>; 2],
    pub weight: &'a E,
}
//@ end

//@ item src/graph_impl/mod.rs | - | impl<E, Ix: IndexType> Clone for EdgeReference<'_, E, Ix>
impl<E, Ix: IndexType> Clone for EdgeReference<'_, E, Ix> {
    fn clone(&self) -> Self {
        *self
    }
}
//@ end

//@ item src/graph_impl/mod.rs | - | impl<E, Ix: IndexType> Copy for EdgeReference<'_, E, Ix>
impl<E, Ix: IndexType> Copy for EdgeReference<'_, E, Ix> {}
//@ end

//@ item src/graph_impl/mod.rs | - | impl<Ix, E> visit::EdgeRef for EdgeReference<'_, E, Ix> where Ix: IndexType
impl<Ix, E> visit::EdgeRef for EdgeReference<'_, E, Ix>
where
    Ix: IndexType,
{
    type NodeId = NodeIndex<Ix>;
    type EdgeId = EdgeIndex<Ix>;
    type Weight = E;

    /*+*/open spec fn src(&self) -> NodeIndex<Ix> { self.node[0] }
    open spec fn tgt(&self) -> NodeIndex<Ix> { self.node[1] }
    open spec fn eid(&self) -> EdgeIndex<Ix> { self.index }/*-*/
    fn source(&self) -> Self::NodeId {
        self.node[0]
    }
    fn target(&self) -> Self::NodeId {
        self.node[1]
    }
    fn weight(&self) -> &E {
        self.weight
    }
    fn id(&self) -> Self::EdgeId {
        self.index
    }
}
//@ end

// `EdgeReferences` wraps `iter::Enumerate<slice::Iter<Edge>>`; the only ASSUMPTION is what `slice.iter().enumerate()` yields
// (`enumerate_slice`, D23).  What is left to yield is the image of what the wrapped enumeration has left.
pub open spec fn geref_of<'a, E, Ix: IndexType>(t: (usize, &'a Edge<E, Ix>)) -> EdgeReference<'a, E, Ix> {
    EdgeReference { index: EdgeIndex(Ix::spec_new(t.0)), node: t.1.node, weight: &t.1.weight }
}
pub open spec fn gerefs_of<'a, E, Ix: IndexType>(s: Seq<(usize, &'a Edge<E, Ix>)>) -> Seq<EdgeReference<'a, E, Ix>> { Seq::new(s.len(), |k: int| geref_of(s[k])) }
//@ item src/graph_impl/mod.rs | - | struct EdgeReferences
/// Iterator over all edges of a graph.
/*+*/#[verifier::reject_recursive_types(E)]
#[verifier::reject_recursive_types(Ix)]/*-*/
pub struct EdgeReferences<'a, E: 'a, Ix: IndexType = DefaultIx> {
    pub iter: iter::Enumerate<slice::Iter<'a, Edge<E, Ix>>>,
}
//@ end

impl<'a, E, Ix: IndexType> EdgeReferences<'a, E, Ix> {
    #[verifier::prophetic]
    pub open spec fn rest(&self) -> Seq<EdgeReference<'a, E, Ix>> { gerefs_of(self.iter.remaining()) }
}
impl<'a, E, Ix: IndexType> vstd::std_specs::iter::IteratorSpecImpl for EdgeReferences<'a, E, Ix> {
    open spec fn obeys_prophetic_iter_laws(&self) -> bool { self.iter.obeys_prophetic_iter_laws() }
    #[verifier::prophetic]
    open spec fn remaining(&self) -> Seq<EdgeReference<'a, E, Ix>> { self.rest() }
    open spec fn decrease(&self) -> Option<nat> { self.iter.decrease() }
    open spec fn will_return_none(&self) -> bool { true }
    open spec fn peek(&self, i: int) -> Option<EdgeReference<'a, E, Ix>> { None }
}
impl<'a, E, Ix: IndexType> vstd::std_specs::iter::DoubleEndedIteratorSpecImpl for EdgeReferences<'a, E, Ix> {
    open spec fn peek_back(&self, i: int) -> Option<EdgeReference<'a, E, Ix>> { None }
}

//@ item src/graph_impl/mod.rs | - | impl<'a, E, Ix> Iterator for EdgeReferences<'a, E, Ix> where Ix: IndexType
impl<'a, E, Ix> Iterator for EdgeReferences<'a, E, Ix>
where
    Ix: IndexType,
{
    type Item = EdgeReference<'a, E, Ix>;

    fn next(&mut self) -> Option<Self::Item> {
        /*+*/let ghost items = self.iter.remaining();
        let r = {/*-*/ self.iter.next().map(|/*R:D10 (i, edge) */ __t: (usize, &'a Edge<E, Ix>) /*-*/| /*+*/-> (x: EdgeReference<'a, E, Ix>) ensures x == geref_of(__t) { let (i, edge) = __t;/*-*/ EdgeReference {
            index: edge_index(i),
            node: edge.node,
            weight: &edge.weight,
        } /*+*/}/*-*/) /*+*/};
        proof { if old(self).iter.obeys_prophetic_iter_laws() {
            if r is Some { assert(items.len() > 0 && r.unwrap() == geref_of(items[0])); assert(self.iter.remaining() == items.drop_first()); assert(old(self).rest() =~= seq![r.unwrap()] + self.rest()); }
            else { assert(self.rest() =~= Seq::<EdgeReference<'a, E, Ix>>::empty()); } } }
        r/*-*/
    }

    /*+*/#[verifier::external_body]/*-*/
    fn size_hint(&self) -> (usize, Option<usize>) {
        self.iter.size_hint()
    }
}
//@ end

//@ item src/graph_impl/mod.rs | - | impl<E, Ix> DoubleEndedIterator for EdgeReferences<'_, E, Ix> where Ix: IndexType
impl</*R:D31 */ 'a, /*-*/E, Ix> DoubleEndedIterator for EdgeReferences</*R:D31 '_ */ 'a /*-*/, E, Ix>
where
    Ix: IndexType,
{
    fn next_back(&mut self) -> Option<Self::Item> {
        /*+*/let ghost items = self.iter.remaining();
        let r = {/*-*/ self.iter.next_back().map(|/*R:D10 (i, edge) */ __t: (usize, &'a Edge<E, Ix>) /*-*/| /*+*/-> (x: EdgeReference<'a, E, Ix>) ensures x == geref_of(__t) { let (i, edge) = __t;/*-*/ EdgeReference {
            index: edge_index(i),
            node: edge.node,
            weight: &edge.weight,
        } /*+*/}/*-*/) /*+*/};
        proof { if old(self).iter.obeys_prophetic_iter_laws() {
            if r is Some { assert(items.len() > 0 && r.unwrap() == geref_of(items.last())); assert(self.iter.remaining() == items.drop_last()); assert(old(self).rest() =~= self.rest().push(r.unwrap())); }
            else { assert(self.rest() =~= Seq::<EdgeReference<'a, E, Ix>>::empty()); } } }
        r/*-*/
    }
}
//@ end

impl<N, E, Ty, Ix> Graph<N, E, Ty, Ix>
where
    Ty: EdgeType,
    Ix: IndexType,
{
//@ item src/graph_impl/mod.rs | impl<N, E, Ty, Ix> Graph<N, E, Ty, Ix> where Ty: EdgeType, Ix: IndexType | fn edge_references
    /// Create an iterator over all edges, in indexed order.
    ///
    /// Iterator element type is `EdgeReference<E, Ix>`.
    pub fn edge_references(&self) -> (r: EdgeReferences<E, Ix>)
        /*+*/ensures r.obeys_prophetic_iter_laws(), r.decrease() is Some, r.rest().len() == self.edges@.len(),
            forall|k: int| 0 <= k < self.edges@.len() ==> (#[trigger] r.rest()[k]).node == self.edges@[k].node
                && r.rest()[k].index == EdgeIndex::<Ix>(Ix::spec_new(k as usize)) && (k <= Ix::spec_max() ==> r.rest()[k].index.i() == k) && *r.rest()[k].weight == self.edges@[k].weight/*-*/     // [edge_references_every_edge_once_in_index_order]
    {
        /*+*/let r = {/*-*/ EdgeReferences {
            iter: /*R:D23 self.edges.iter().enumerate() */ enumerate_slice(self.edges.as_slice()) /*-*/,
        } /*+*/};
        proof { assert forall|k: int| 0 <= k < self.edges@.len() && k <= Ix::spec_max() implies (#[trigger] r.rest()[k]).index.i() == k by { Ix::new_law(k as usize); } }
        r/*-*/
    }
//@ end

    /// "an edge a -> b exists (either orientation when undirected)" over the abstract multigraph
    pub open spec fn has_edge(&self, a: int, b: int) -> bool {
        exists|k: int| 0 <= k < self.view().edges.len() && #[trigger] edge_joins(self.view().edges[k], a, b, Ty::spec_is_directed())
    }
}
//@ item src/traits_graph.rs | - | impl<N, E, Ty, Ix> GetAdjacencyMatrix for Graph<N, E, Ty, Ix> where Ty: EdgeType, Ix: IndexType
/// The adjacency matrix for **Graph** is a bitmap that's computed by
/// `.adjacency_matrix()`.
impl<N, E, Ty, Ix> GetAdjacencyMatrix for Graph<N, E, Ty, Ix>
where
    Ty: EdgeType,
    Ix: IndexType,
{
    type AdjMatrix = FixedBitSet;

    /*+*/
    open spec fn adj(&self, a: NodeIndex<Ix>, b: NodeIndex<Ix>) -> bool { self.has_edge(a.i(), b.i()) }
    open spec fn adj_node(&self, a: NodeIndex<Ix>) -> bool { a.i() < self.nodes@.len() }
    open spec fn adj_pre(&self) -> bool { self.wf() && self.nodes@.len() * self.nodes@.len() <= usize::MAX }
    open spec fn is_matrix(&self, m: &FixedBitSet) -> bool {
        let n = self.nodes@.len() as int;
        &&& self.wf()
        &&& m.blen() == n * n
        &&& forall|a: int, b: int| 0 <= a < n && 0 <= b < n ==> (m.bits().contains((n * a + b) as usize) <==> #[trigger] self.has_edge(a, b))
    }
    /*-*/

    fn adjacency_matrix(&self) -> FixedBitSet {
        let n = self.node_count();
        let mut matrix = FixedBitSet::with_capacity(n * n);
        /*R:D11 for edge in */ let mut __it = /*-*/ self.edge_references() /*R:D11 */; let ghost all = __it.remaining(); let ghost mut done: int = 0; let ghost dir = Ty::spec_is_directed(); loop
            invariant
                __it.obeys_prophetic_iter_laws(), __it.decrease() is Some,
                0 <= done <= all.len(), __it.remaining() == all.skip(done),
                self.wf(), n == self.nodes@.len(), n * n <= usize::MAX, all.len() == self.edges@.len(), dir == Ty::spec_is_directed(),
                forall|k: int| 0 <= k < all.len() ==> (#[trigger] all[k]).node == self.edges@[k].node,
                matrix.blen() == n * n,
                forall|bit: usize| matrix.bits().contains(bit) <==> (exists|k: int| 0 <= k < done && #[trigger] cell_of(self.view().edges[k], n as int, bit as int, dir)),
            ensures done == all.len(),
            decreases __it.decrease()->Some_0/*-*/
        { /*+*/match __it.next() { None => { break; }, Some(edge) => {
            let ghost bits0 = matrix.bits(); let ghost e = self.view().edges[done];
            proof { assert(edge == all[done]); self.lemma_endpoints(done); assert(edge.node[0].i() == e.0 && edge.node[1].i() == e.1);
                lemma_cell_bound(n as int, edge.node[0].i(), edge.node[1].i()); lemma_cell_bound(n as int, edge.node[1].i(), edge.node[0].i()); }/*-*/
            let i = edge.source().index() * n + edge.target().index();
            matrix.put(i);
            /*+*/let ghost bits1 = matrix.bits(); proof { assert(i == e.0 * n + e.1); }/*-*/
            if !self.is_directed() {
                let j = edge.source().index() + n * edge.target().index();
                matrix.put(j);
                /*+*/proof { assert(j == e.0 + n * e.1); }/*-*/
            }
            /*+*/proof {
                assert(matrix.bits() == if dir { bits1 } else { bits1.insert((e.0 + n * e.1) as usize) });
                assert(bits1 == bits0.insert((e.0 * n + e.1) as usize));
                assert forall|bit: usize| matrix.bits().contains(bit) <==> (exists|k: int| 0 <= k < done + 1 && #[trigger] cell_of(self.view().edges[k], n as int, bit as int, dir)) by {
                    if matrix.bits().contains(bit) {
                        if bits0.contains(bit) {
                            let k = choose|k: int| 0 <= k < done && #[trigger] cell_of(self.view().edges[k], n as int, bit as int, dir);
                            assert(0 <= k < done + 1 && cell_of(self.view().edges[k], n as int, bit as int, dir));
                        } else {
                            assert(cell_of(e, n as int, bit as int, dir));
                        }
                    }
                    if exists|k: int| 0 <= k < done + 1 && #[trigger] cell_of(self.view().edges[k], n as int, bit as int, dir) {
                        let k = choose|k: int| 0 <= k < done + 1 && #[trigger] cell_of(self.view().edges[k], n as int, bit as int, dir);
                        if k < done { assert(bits0.contains(bit)); } else { assert(k == done); }
                    }
                }
                assert(all.skip(done).skip(1) =~= all.skip(done + 1));
                done = done + 1;
            }
        } }/*-*/ }
        /*+*/proof {
            let nn = n as int;
            assert forall|a: int, b: int| 0 <= a < nn && 0 <= b < nn implies (matrix.bits().contains((nn * a + b) as usize) <==> #[trigger] self.has_edge(a, b)) by {
                lemma_cell_bound(nn, a, b);
                let bit = (nn * a + b) as usize;
                if matrix.bits().contains(bit) {
                    let k = choose|k: int| 0 <= k < done && #[trigger] cell_of(self.view().edges[k], nn, bit as int, dir);
                    self.lemma_endpoints(k);
                    let e = self.view().edges[k];
                    lemma_cell_bound(nn, e.0, e.1); lemma_cell_bound(nn, e.1, e.0);
                    if e.0 * nn + e.1 == bit { lemma_cell_unique(nn, e.0, e.1, a, b); }
                    else { lemma_cell_unique(nn, e.1, e.0, a, b); }
                    assert(edge_joins(e, a, b, dir));
                }
                if self.has_edge(a, b) {
                    let k = choose|k: int| 0 <= k < self.view().edges.len() && #[trigger] edge_joins(self.view().edges[k], a, b, dir);
                    let e = self.view().edges[k];
                    assert(cell_of(e, nn, bit as int, dir));
                }
            }
        }/*-*/
        matrix
    }

    fn is_adjacent(&self, matrix: &FixedBitSet, a: NodeIndex<Ix>, b: NodeIndex<Ix>) -> bool {
        let n = self.node_count();
        /*+*/proof { lemma_cell_bound(n as int, a.i(), b.i()); }/*-*/
        let index = n * a.index() + b.index();
        matrix.contains(index)
    }
}
//@ end

/// the bits that `adjacency_matrix` sets for edge `e`: source*n + target, and source + n*target when undirected
impl<N, E, Ty, Ix> Graph<N, E, Ty, Ix>
where
    Ty: EdgeType,
    Ix: IndexType,
{
    /// endpoints of a stored edge are nodes (part of wf)
    pub proof fn lemma_endpoints(&self, k: int)
        requires self.wf(), 0 <= k < self.edges@.len()
        ensures 0 <= self.view().edges[k].0 < self.nodes@.len(), 0 <= self.view().edges[k].1 < self.nodes@.len(),
            self.view().edges[k].0 == self.edges@[k].node[0].i(), self.view().edges[k].1 == self.edges@[k].node[1].i(),
    {
    }
}

// ======================================================================================
// node identifiers: NodeIndices, IntoNodeIdentifiers for &Graph, NodeCompactIndexable
// ======================================================================================
//@ item src/graph_impl/mod.rs | - | impl<'a, N, E: 'a, Ty, Ix> visit::IntoNodeIdentifiers for &'a Graph<N, E, Ty, Ix> where Ty: EdgeType, Ix: IndexType
impl<'a, N, E: 'a, Ty, Ix> visit::IntoNodeIdentifiers for &'a Graph<N, E, Ty, Ix>
where
    Ty: EdgeType,
    Ix: IndexType,
{
    type NodeIdentifiers = NodeIndices<Ix>;
    /*+*/open spec fn node_ids(self) -> Seq<NodeIndex<Ix>> { nix_range::<Ix>(0, self.nodes@.len() as int) }/*-*/
    fn node_identifiers(self) -> NodeIndices<Ix> {
        Graph::node_indices(self)
    }
}
//@ end

//@ item src/graph_impl/mod.rs | - | impl<N, E, Ty, Ix> visit::NodeCompactIndexable for Graph<N, E, Ty, Ix> where Ty: EdgeType, Ix: IndexType
impl<N, E, Ty, Ix> visit::NodeCompactIndexable for Graph<N, E, Ty, Ix>
where
    Ty: EdgeType,
    Ix: IndexType,
{
    /*+*/
    open spec fn node_at(&self, i: usize) -> NodeIndex<Ix> { NodeIndex(Ix::spec_new(i)) }
    open spec fn compact_inv(&self) -> bool { self.wf() }
    proof fn compact_law(&self) {
        assert forall|i: usize| i < self.nbound() implies self.is_nid(#[trigger] self.node_at(i)) && self.ix_of(self.node_at(i)) == i by {
            Ix::new_law(i);
        }
    }
    /*-*/
}
//@ end

impl<N, E, Ty, Ix> Graph<N, E, Ty, Ix>
where
    Ty: EdgeType,
    Ix: IndexType,
{
    /// C06: `node_identifiers` yields each node exactly once - node_count identifiers, the k-th one with index k
    pub proof fn lemma_node_ids(&self)
        requires self.wf()
        ensures (&self).node_ids().len() == self.ncount(),
            forall|k: int| 0 <= k < self.nodes@.len() ==> self.is_nid(#[trigger] (&self).node_ids()[k]) && self.ix_of((&self).node_ids()[k]) == k,
            forall|j: int, k: int| 0 <= j < k < self.nodes@.len() ==> (&self).node_ids()[j] != (&self).node_ids()[k],
    {
        assert forall|k: int| 0 <= k < self.nodes@.len() implies self.is_nid(#[trigger] (&self).node_ids()[k]) && self.ix_of((&self).node_ids()[k]) == k by {
            Ix::new_law(k as usize);
        }
    }
}

