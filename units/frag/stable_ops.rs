// ======================================================================================
// fragment stable_ops.rs - StableGraph operations under contract (property C02)
// ======================================================================================

/// slist frame: same next[k] on the members (the array may have grown)
pub proof fn lemma_slist_frame<E, Ix: IndexType>(es: Seq<Edge<E, Ix>>, es2: Seq<Edge<E, Ix>>, head: EdgeIndex<Ix>, k: int, s: Seq<int>)
    requires slist(es, head, k, s), es.len() <= end_ix::<Ix>(), es2.len() <= end_ix::<Ix>(),
        forall|i: int| 0 <= i < s.len() ==> (#[trigger] s[i]) < es2.len() && es2[s[i]].next[k] == es[s[i]].next[k],
    ensures slist(es2, head, k, s)
{
    lemma_slist_is_tchain(es, head, k, s);
    lemma_tchain_frame(es, es2, head, k, s, end_ix::<Ix>() as int);
    lemma_tchain_is_slist(es2, head, k, s);
}

/// pigeonhole: a duplicate-free sequence of indices below m has at most m elements
pub proof fn lemma_nodup_bound(s: Seq<int>, m: int)
    requires no_dup(s), m >= 0, forall|i: int| 0 <= i < s.len() ==> 0 <= #[trigger] s[i] < m
    ensures s.len() <= m
    decreases m
{
    if m == 0 { if s.len() > 0 { let x = s[0]; assert(0 <= x < m); } }
    else if s.contains(m - 1) {
        let q = choose|q: int| 0 <= q < s.len() && s[q] == m - 1;
        lemma_no_dup_remove(s, q);
        let t = s.remove(q);
        assert forall|i: int| 0 <= i < t.len() implies 0 <= #[trigger] t[i] < m - 1 by { assert(s.contains(t[i])); let j = choose|j: int| 0 <= j < s.len() && s[j] == t[i]; assert(t[i] != m - 1); }
        lemma_nodup_bound(t, m - 1);
    } else {
        assert forall|i: int| 0 <= i < s.len() implies 0 <= #[trigger] s[i] < m - 1 by { if s[i] == m - 1 { assert(s.contains(m - 1)); } }
        lemma_nodup_bound(s, m - 1);
    }
}
/// ... and strictly fewer when some index below m is not in it
pub proof fn lemma_nodup_bound_excl(s: Seq<int>, m: int, e: int)
    requires no_dup(s), 0 <= e < m, !s.contains(e), forall|i: int| 0 <= i < s.len() ==> 0 <= #[trigger] s[i] < m
    ensures s.len() < m
{
    let t = s.push(e);
    assert forall|i: int, j: int| 0 <= i < j < t.len() implies t[i] != t[j] by { if j == s.len() { assert(t[i] == s[i]); if s[i] == e { assert(s.contains(e)); } } else { assert(t[i] == s[i] && t[j] == s[j]); } }
    assert forall|i: int| 0 <= i < t.len() implies 0 <= #[trigger] t[i] < m by { if i < s.len() { assert(t[i] == s[i]); } }
    lemma_nodup_bound(t, m);
}
pub proof fn lemma_first_link_range<E, Ix: IndexType>(es: Seq<Edge<E, Ix>>, k: int, s: Seq<int>, e: EdgeIndex<Ix>)
    ensures 0 <= first_link(es, k, s, e) <= s.len()
    decreases s.len()
{
    if s.len() > 0 { lemma_first_link_range(es, k, s.drop_first(), e); }
}

/// unlinking edge ev from the k-list of its endpoint a = es0[ev].node[k] (what Graph::change_edge_links did for
/// direction k), stated for the live-restricted lists of a StableGraph; the slot ev itself is not yet recycled.
#[verifier::spinoff_prover]
pub proof fn lemma_sunlink_dir<N, E, Ix: IndexType>(ns0: Seq<Node<Option<N>, Ix>>, es0: Seq<Edge<Option<E>, Ix>>, ns1: Seq<Node<Option<N>, Ix>>, es1: Seq<Edge<Option<E>, Ix>>,
        k: int, ls: Seq<Seq<int>>, p: int, ev: EdgeIndex<Ix>, q: int)
    requires
        0 <= k < 2, slists_ok(ns0, es0, k, ls, p), es0.len() <= end_ix::<Ix>(), elive(es0, ev.0.ix() as int),
        0 <= q < ls[es0[ev.0.ix() as int].node[k].0.ix() as int].len(),
        ls[es0[ev.0.ix() as int].node[k].0.ix() as int][q] == ev.0.ix(),
        payload_same(ns0, es0, ns1, es1),
        dir_done(ns0, es0, ns1, es1, es0[ev.0.ix() as int].node[k].0.ix() as int, ev, es0[ev.0.ix() as int].next[k], k,
                 ls[es0[ev.0.ix() as int].node[k].0.ix() as int]),
    ensures ({
        let e = ev.0.ix() as int; let a = es0[e].node[k].0.ix() as int; let ls1 = ls.update(a, ls[a].remove(q));
        // the lists of (ns1, es1) are ls1; e is in none of them any more, all other memberships are kept
        &&& ls1.len() == ns1.len()
        &&& forall|x: int| 0 <= x < ns1.len() && listed(ns0, p, x) ==> slist(es1, ns1[x].next[k], k, #[trigger] ls1[x]) && no_dup(ls1[x]) && !ls1[x].contains(e)
        &&& forall|x: int| 0 <= x < ns1.len() && !listed(ns0, p, x) ==> (#[trigger] ls1[x]).len() == 0
        &&& forall|x: int, i: int| 0 <= x < ns1.len() && 0 <= i < ls1[x].len() ==> elive(es0, #[trigger] ls1[x][i]) && ls1[x][i] != e && es0[ls1[x][i]].node[k].0.ix() == x
        &&& forall|j: int| elive(es0, j) && j != e ==> (#[trigger] ls1[es0[j].node[k].0.ix() as int]).contains(j)
    }),
{
    let e = ev.0.ix() as int;
    let a = es0[e].node[k].0.ix() as int;
    let s = ls[a];
    let t = end_ix::<Ix>() as int;
    let repl = es0[e].next[k];
    let ls1 = ls.update(a, s.remove(q));
    assert(listed(ns0, p, a));
    lemma_no_dup_remove(s, q);
    lemma_slist_is_tchain(es0, ns0[a].next[k], k, s);
    lemma_tchain_range(es0, ns0[a].next[k], k, s, t);
    // which single pointer changed
    if q == 0 {
        assert(ns0[a].next[k].0.ix() == e);
    } else {
        assert(ns0[a].next[k].0.ix() == s[0]);
        assert(s[0] != s[q]);
        lemma_first_link_pred(es0, ns0[a].next[k], k, s, t, ev, q);
    }
    // own list
    if q == 0 {
        lemma_tchain_succ(es0, ns0[a].next[k], k, s, t, 0);
        let rest = s.subrange(1, s.len() as int);
        assert(s.remove(0) =~= rest);
        assert forall|i: int| 0 <= i < rest.len() implies (#[trigger] rest[i]) < es1.len() && es1[rest[i]].next[k] == es0[rest[i]].next[k] by { assert(rest[i] == s[i + 1]); }
        lemma_tchain_frame(es0, es1, repl, k, rest, t);
        lemma_tchain_is_slist(es1, ns1[a].next[k], k, rest);
    } else {
        lemma_tunlink_inner(es0, es1, ns0[a].next[k], k, s, t, q);
        lemma_tchain_is_slist(es1, ns1[a].next[k], k, s.remove(q));
    }
    // other lists
    assert forall|x: int| 0 <= x < ns1.len() && listed(ns0, p, x) implies slist(es1, ns1[x].next[k], k, #[trigger] ls1[x]) && no_dup(ls1[x]) && !ls1[x].contains(e) by {
        if x != a {
            let sx = ls[x];
            lemma_slist_is_tchain(es0, ns0[x].next[k], k, sx);
            lemma_tchain_range(es0, ns0[x].next[k], k, sx, t);
            assert forall|i: int| 0 <= i < sx.len() implies (#[trigger] sx[i]) < es1.len() && es1[sx[i]].next[k] == es0[sx[i]].next[k] by {
                assert(es0[sx[i]].node[k].0.ix() == x);
                if q > 0 { assert(es0[s[q - 1]].node[k].0.ix() == a); }
            }
            lemma_tchain_frame(es0, es1, ns0[x].next[k], k, sx, t);
            lemma_tchain_is_slist(es1, ns1[x].next[k], k, sx);
            if sx.contains(e) { let i = choose|i: int| 0 <= i < sx.len() && sx[i] == e; assert(es0[sx[i]].node[k].0.ix() == x); assert(false); }
        }
    }
    assert forall|x: int, i: int| 0 <= x < ns1.len() && 0 <= i < ls1[x].len() implies elive(es0, #[trigger] ls1[x][i]) && ls1[x][i] != e && es0[ls1[x][i]].node[k].0.ix() == x by {
        if x == a { let i2 = if i < q { i } else { i + 1 }; assert(ls1[a][i] == s[i2]); }
        else { if ls[x][i] == e { assert(es0[ls[x][i]].node[k].0.ix() == x); } }
    }
    assert forall|j: int| elive(es0, j) && j != e implies (#[trigger] ls1[es0[j].node[k].0.ix() as int]).contains(j) by {
        let x = es0[j].node[k].0.ix() as int;
        assert(ls[x].contains(j));
    }
}

impl<N, E, Ty, Ix> StableGraph<N, E, Ty, Ix>
where
    Ty: EdgeType,
    Ix: IndexType,
{
//@ item src/graph_impl/stable_graph/mod.rs | impl<N, E, Ty, Ix> StableGraph<N, E, Ty, Ix> where Ty: EdgeType, Ix: IndexType | fn node_count
    /// Return the number of nodes (also called vertices) in the graph.
    ///
    /// Computes in **O(1)** time.
    pub fn node_count(&self) -> (r: usize)
        /*+*/ensures r == self.view().node_count/*-*/
    {
        self.node_count
    }
//@ end

//@ item src/graph_impl/stable_graph/mod.rs | impl<N, E, Ty, Ix> StableGraph<N, E, Ty, Ix> where Ty: EdgeType, Ix: IndexType | fn edge_count
    /// Return the number of edges in the graph.
    ///
    /// Computes in **O(1)** time.
    pub fn edge_count(&self) -> (r: usize)
        /*+*/ensures r == self.view().edge_count/*-*/
    {
        self.edge_count
    }
//@ end

//@ item src/graph_impl/stable_graph/mod.rs | impl<N, E, Ty, Ix> StableGraph<N, E, Ty, Ix> where Ty: EdgeType, Ix: IndexType | fn remove_edge
    /// Remove an edge and return its edge weight, or `None` if it didn't exist.
    ///
    /// Invalidates the edge index `e` but no other.
    ///
    /// Computes in **O(e')** time, where **e'** is the number of edges
    /// connected to the same endpoints as `e`.
    pub fn remove_edge(&mut self, e: EdgeIndex<Ix>) -> (r: Option<E>)
        /*+*/requires exists|p: int| #[trigger] old(self).wf_p(p)
        ensures
            forall|p: int| #[trigger] old(self).wf_p(p) ==> final(self).wf_p(p),
            !elive(old(self).es(), e.i()) ==> r is None && final(self).ns() == old(self).ns() && final(self).es() == old(self).es()
                && final(self).node_count == old(self).node_count && final(self).edge_count == old(self).edge_count
                && final(self).free_node == old(self).free_node && final(self).free_edge == old(self).free_edge,           // [remove_edge_absent_unchanged]
            elive(old(self).es(), e.i()) ==> ({
                let a = old(self).es()[e.i()].node[0].i(); let b = old(self).es()[e.i()].node[1].i();
                &&& r == old(self).es()[e.i()].weight                                                                     // [remove_edge_returns_weight]
                &&& final(self).ns().len() == old(self).ns().len() && final(self).es().len() == old(self).es().len()      // bounds unchanged
                &&& forall|x: int| 0 <= x < old(self).ns().len() ==> (#[trigger] final(self).ns()[x]).weight == old(self).ns()[x].weight     // [remove_edge_nodes_untouched]
                &&& forall|j: int| 0 <= j < old(self).es().len() && j != e.i() ==> (#[trigger] final(self).es()[j]).weight == old(self).es()[j].weight && final(self).es()[j].node == old(self).es()[j].node   // [remove_edge_other_edges_keep_index]
                &&& final(self).es()[e.i()].weight is None
                &&& final(self).node_count == old(self).node_count && final(self).edge_count == old(self).edge_count - 1  // [remove_edge_counts]
                &&& final(self).free_node == old(self).free_node
                &&& forall|p: int| #[trigger] old(self).wf_p(p) ==>
                        final(self).outs(p) == old(self).outs(p).update(a, old(self).outs(p)[a].remove(pos_of(old(self).outs(p)[a], e.i())))
                     && final(self).inns(p) == old(self).inns(p).update(b, old(self).inns(p)[b].remove(pos_of(old(self).inns(p)[b], e.i())))    // [remove_edge_lists]
                     && final(self).fnodes() == old(self).fnodes()
            })/*-*/,
    {
        // every edge is part of two lists,
        // outgoing and incoming edges.
        // Remove it from both
        let (is_edge, edge_node, edge_next) = match self.g.edges.get(e.index()) {
            None => return None,
            Some(x) => (x.weight.is_some(), x.node, x.next),
        };
        if !is_edge {
            return None;
        }
        /*+*/let ghost ns0 = self.ns(); let ghost es0 = self.es(); let ghost ei = e.i();
        let ghost a0 = es0[ei].node[0].i(); let ghost a1 = es0[ei].node[1].i();
        proof {
            let p = choose|p: int| #[trigger] old(self).wf_p(p);
            let out = self.outs(p); let inn = self.inns(p);
            assert(out[a0].contains(ei)); assert(inn[a1].contains(ei));
            assert(listed(ns0, p, a0) && listed(ns0, p, a1));
            lemma_slist_is_chain(es0, ns0[a0].next[0], 0, out[a0]);
            lemma_slist_is_chain(es0, ns0[a1].next[1], 1, inn[a1]);
            // edge_count >= 1: the vacant slots are duplicate-free, below the bound, and e is not one of them
            let fe = self.fedges();
            if fe.contains(ei) { let i = choose|i: int| 0 <= i < fe.len() && fe[i] == ei; assert(!elive(es0, fe[i])); }
            lemma_nodup_bound_excl(fe, es0.len() as int, ei);
        }/*-*/

        // Remove the edge from its in and out lists by replacing it with
        // a link to the next in the list.
        self.g.change_edge_links(edge_node, e, edge_next);
        /*+*/let ghost ns1 = self.ns(); let ghost es1 = self.es();/*-*/

        // Clear the edge and put it in the free list
        let edge = &mut self.g.edges[e.index()];
        edge.next = [self.free_edge, EdgeIndex::end()];
        edge.node = [NodeIndex::end(), NodeIndex::end()];
        self.free_edge = e;
        self.edge_count -= 1;
        /*+*/let r = {/*-*/ edge.weight.take() /*+*/};
        proof {
            assert forall|p: int| #[trigger] old(self).wf_p(p) implies self.wf_p(p)
                     && self.outs(p) == old(self).outs(p).update(a0, old(self).outs(p)[a0].remove(pos_of(old(self).outs(p)[a0], ei)))
                     && self.inns(p) == old(self).inns(p).update(a1, old(self).inns(p)[a1].remove(pos_of(old(self).inns(p)[a1], ei)))
                     && self.fnodes() == old(self).fnodes() by {
                self.lemma_remove_edge_post(old(self), ns1, es1, e, p);
            }
        }
        r/*-*/
    }
//@ end

    /// the post-state of remove_edge: (ns1, es1) is the state after change_edge_links, self the final state
    pub proof fn lemma_remove_edge_post(&self, o: &Self, ns1: Seq<Node<Option<N>, Ix>>, es1: Seq<Edge<Option<E>, Ix>>, e: EdgeIndex<Ix>, p: int)
        requires o.wf_p(p), elive(o.es(), e.i()),
            payload_same(o.ns(), o.es(), ns1, es1),
            dir_done(o.ns(), o.es(), ns1, es1, o.es()[e.i()].node[0].i(), e, o.es()[e.i()].next[0], 0, chain_of(o.es(), o.ns()[o.es()[e.i()].node[0].i()].next[0], 0)),
            dir_done(o.ns(), o.es(), ns1, es1, o.es()[e.i()].node[1].i(), e, o.es()[e.i()].next[1], 1, chain_of(o.es(), o.ns()[o.es()[e.i()].node[1].i()].next[1], 1)),
            self.ns() == ns1, self.es().len() == es1.len(),
            forall|j: int| 0 <= j < es1.len() && j != e.i() ==> #[trigger] self.es()[j] == es1[j],
            self.es()[e.i()].weight is None, self.es()[e.i()].next[0] == o.free_edge,
            self.free_edge == e, self.free_node == o.free_node, self.node_count == o.node_count, self.edge_count == o.edge_count - 1,
        ensures self.wf_p(p),
            self.outs(p) == o.outs(p).update(o.es()[e.i()].node[0].i(), o.outs(p)[o.es()[e.i()].node[0].i()].remove(pos_of(o.outs(p)[o.es()[e.i()].node[0].i()], e.i()))),
            self.inns(p) == o.inns(p).update(o.es()[e.i()].node[1].i(), o.inns(p)[o.es()[e.i()].node[1].i()].remove(pos_of(o.inns(p)[o.es()[e.i()].node[1].i()], e.i()))),
            self.fnodes() == o.fnodes(),
    {
        let ns0 = o.ns(); let es0 = o.es(); let ei = e.i();
        let a0 = es0[ei].node[0].i(); let a1 = es0[ei].node[1].i();
        let out = o.outs(p); let inn = o.inns(p); let fl = o.fnodes(); let fe = o.fedges();
        assert(out[a0].contains(ei)); assert(inn[a1].contains(ei));
        let q0 = pos_of(out[a0], ei); let q1 = pos_of(inn[a1], ei);
        assert(listed(ns0, p, a0) && listed(ns0, p, a1));
        lemma_slist_is_chain(es0, ns0[a0].next[0], 0, out[a0]); lemma_chain_of(es0, ns0[a0].next[0], 0, out[a0]);
        lemma_slist_is_chain(es0, ns0[a1].next[1], 1, inn[a1]); lemma_chain_of(es0, ns0[a1].next[1], 1, inn[a1]);
        lemma_sunlink_dir(ns0, es0, ns1, es1, 0, out, p, e, q0);
        lemma_sunlink_dir(ns0, es0, ns1, es1, 1, inn, p, e, q1);
        let out1 = out.update(a0, out[a0].remove(q0)); let inn1 = inn.update(a1, inn[a1].remove(q1));
        let es2 = self.es(); let ns2 = self.ns();
        let fe2 = seq![ei] + fe;
        // liveness in the final state
        assert forall|x: int| nlive(ns2, x) == nlive(ns0, x) by { if 0 <= x < ns0.len() { assert(ns1[x].weight == ns0[x].weight); } }
        assert forall|j: int| elive(es2, j) == (elive(es0, j) && j != ei) by { if 0 <= j < es0.len() && j != ei { assert(es2[j] == es1[j]); assert(es1[j].weight == es0[j].weight); } }
        // incidence lists survive the recycling of slot e (no list contains e)
        assert(slists_ok(ns2, es2, 0, out1, p)) by { Self::lemma_lists_after_recycle(ns0, es0, ns1, es1, es2, 0, out1, p, ei); }
        assert(slists_ok(ns2, es2, 1, inn1, p)) by { Self::lemma_lists_after_recycle(ns0, es0, ns1, es1, es2, 1, inn1, p, ei); }
        // node free list: node slots changed only in next[k] of listed nodes (heads), vacant slots untouched
        assert(free_nodes_ok(ns2, self.free_node.0.ix() as int, fl, p)) by {
            assert forall|i: int| 0 <= i < fl.len() implies ns2[#[trigger] fl[i]].next == ns0[fl[i]].next by {
                let x = fl[i];
                assert(!listed(ns0, p, x));
                assert(x != a0 && x != a1);
                assert(ns1[x].next[0] == node_next_after(ns0, x, a0, e, es0[ei].next[0], 0));
                assert(ns1[x].next[1] == node_next_after(ns0, x, a1, e, es0[ei].next[1], 1));
                assert(ns1[x].next =~= ns0[x].next);
            }
            lemma_nchain_frame(ns0, ns2, o.free_node.0.ix() as int, fl);
        }
        // edge free list: e pushed in front
        assert(free_edges_ok(es2, self.free_edge, fe2)) by {
            lemma_slist_range(es0, o.free_edge, 0, fe);
            assert forall|i: int| 0 <= i < fe.len() implies (#[trigger] fe[i]) < es2.len() && es2[fe[i]].next[0] == es0[fe[i]].next[0] by {
                let x = fe[i]; assert(!elive(es0, x)); assert(x != ei);
                assert(es2[x] == es1[x]);
                assert(es1[x].next[0] == edge_next_after(ns0, es0, x, a0, e, es0[ei].next[0], 0, out[a0]));
                // the only rewritten edge slot of direction 0 is a member of out[a0], hence live
                let pp = first_link(es0, 0, out[a0], e);
                lemma_first_link_range(es0, 0, out[a0], e);
                if ns0[a0].next[0].0.ix() != e.0.ix() && pp < out[a0].len() && x == out[a0][pp] { assert(elive(es0, out[a0][pp])); }
            }
            lemma_slist_frame(es0, es2, o.free_edge, 0, fe);
            assert(fe2.drop_first() =~= fe);
            assert(slist(es2, e, 0, fe2));
            assert forall|i: int, j: int| 0 <= i < j < fe2.len() implies fe2[i] != fe2[j] by {
                if i == 0 { assert(fe2[j] == fe[j - 1]); assert(!elive(es0, fe[j - 1])); } else { assert(fe2[i] == fe[i - 1]); assert(fe2[j] == fe[j - 1]); }
            }
            assert forall|i: int| 0 <= i < fe2.len() implies 0 <= #[trigger] fe2[i] < es2.len() && !elive(es2, fe2[i]) by { if i > 0 { assert(fe2[i] == fe[i - 1]); } }
            assert forall|j: int| 0 <= j < es2.len() && !elive(es2, j) implies #[trigger] fe2.contains(j) by {
                if j == ei { assert(fe2[0] == j); } else { assert(!elive(es0, j)); assert(fe.contains(j)); let i = choose|i: int| 0 <= i < fe.len() && fe[i] == j; assert(fe2[i + 1] == j); }
            }
        }
        assert(self.wf_with(out1, inn1, fl, fe2, p));
        self.lemma_wf_unique(out1, inn1, fl, fe2, p);
    }

    /// after the unlink (ns1, es1) the slot e is overwritten (es2): lists that do not contain e are unaffected
    pub proof fn lemma_lists_after_recycle(ns0: Seq<Node<Option<N>, Ix>>, es0: Seq<Edge<Option<E>, Ix>>, ns1: Seq<Node<Option<N>, Ix>>, es1: Seq<Edge<Option<E>, Ix>>,
            es2: Seq<Edge<Option<E>, Ix>>, k: int, ls1: Seq<Seq<int>>, p: int, e: int)
        requires 0 <= k < 2, es0.len() <= end_ix::<Ix>(), es1.len() == es0.len(), es2.len() == es0.len(), ns1.len() == ns0.len(), elive(es0, e),
            forall|x: int| 0 <= x < ns0.len() ==> (#[trigger] ns1[x]).weight == ns0[x].weight,
            forall|j: int| 0 <= j < es0.len() ==> (#[trigger] es1[j]).weight == es0[j].weight && es1[j].node == es0[j].node,
            forall|j: int| 0 <= j < es0.len() && j != e ==> #[trigger] es2[j] == es1[j],
            es2[e].weight is None,
            forall|j: int| elive(es0, j) ==> (#[trigger] es0[j]).node[k].0.ix() < ns0.len() && listed(ns0, p, es0[j].node[k].0.ix() as int),
            ls1.len() == ns1.len(),
            forall|x: int| 0 <= x < ns1.len() && listed(ns0, p, x) ==> slist(es1, ns1[x].next[k], k, #[trigger] ls1[x]) && no_dup(ls1[x]) && !ls1[x].contains(e),
            forall|x: int| 0 <= x < ns1.len() && !listed(ns0, p, x) ==> (#[trigger] ls1[x]).len() == 0,
            forall|x: int, i: int| 0 <= x < ns1.len() && 0 <= i < ls1[x].len() ==> elive(es0, #[trigger] ls1[x][i]) && ls1[x][i] != e && es0[ls1[x][i]].node[k].0.ix() == x,
            forall|j: int| elive(es0, j) && j != e ==> (#[trigger] ls1[es0[j].node[k].0.ix() as int]).contains(j),
        ensures slists_ok(ns1, es2, k, ls1, p)
    {
        assert forall|x: int| listed(ns1, p, x) == listed(ns0, p, x) by { }
        assert forall|x: int| 0 <= x < ns1.len() && listed(ns1, p, x) implies slist(es2, ns1[x].next[k], k, #[trigger] ls1[x]) && no_dup(ls1[x]) by {
            let sx = ls1[x];
            lemma_slist_range(es1, ns1[x].next[k], k, sx);
            assert forall|i: int| 0 <= i < sx.len() implies (#[trigger] sx[i]) < es2.len() && es2[sx[i]].next[k] == es1[sx[i]].next[k] by { assert(sx[i] != e); }
            lemma_slist_frame(es1, es2, ns1[x].next[k], k, sx);
        }
        assert forall|x: int, i: int| 0 <= x < ns1.len() && 0 <= i < ls1[x].len() implies elive(es2, #[trigger] ls1[x][i]) && es2[ls1[x][i]].node[k].0.ix() == x by {
            let j = ls1[x][i]; assert(es2[j] == es1[j]);
        }
        assert forall|j: int| elive(es2, j) implies (#[trigger] es2[j]).node[k].0.ix() < ns1.len() && listed(ns1, p, es2[j].node[k].0.ix() as int) by { assert(j != e); assert(es2[j] == es1[j]); assert(elive(es0, j)); }
        assert forall|j: int| elive(es2, j) implies (#[trigger] ls1[es2[j].node[k].0.ix() as int]).contains(j) by { assert(j != e); assert(es2[j] == es1[j]); assert(elive(es0, j)); }
    }
}

/// linking a new live edge e (pushed at the end, or written into a vacant slot) at the head of node x's k-list
pub proof fn lemma_slink_head<N, E, Ix: IndexType>(ns0: Seq<Node<Option<N>, Ix>>, es0: Seq<Edge<Option<E>, Ix>>, ns1: Seq<Node<Option<N>, Ix>>, es1: Seq<Edge<Option<E>, Ix>>,
        k: int, ls: Seq<Seq<int>>, p: int, x: int, e: int)
    requires
        0 <= k < 2, slists_ok(ns0, es0, k, ls, p), nlive(ns0, x),
        es0.len() <= end_ix::<Ix>(), es1.len() <= end_ix::<Ix>(), e < end_ix::<Ix>(),
        (e == es0.len() && es1.len() == es0.len() + 1) || (0 <= e < es0.len() && !elive(es0, e) && es1.len() == es0.len()),
        forall|j: int| 0 <= j < es0.len() && j != e ==> #[trigger] es1[j] == es0[j],
        es1[e].weight is Some, es1[e].node[k].0.ix() == x, es1[e].next[k] == ns0[x].next[k],
        ns1.len() == ns0.len(), ns1[x].next[k].0.ix() == e,
        forall|y: int| 0 <= y < ns0.len() ==> (#[trigger] ns1[y]).weight == ns0[y].weight,
        forall|y: int| 0 <= y < ns0.len() && y != x ==> (#[trigger] ns1[y]).next[k] == ns0[y].next[k],
    ensures slists_ok(ns1, es1, k, ls.update(x, seq![e] + ls[x]), p)
{
    let ls1 = ls.update(x, seq![e] + ls[x]);
    assert forall|y: int| listed(ns1, p, y) == listed(ns0, p, y) by { if 0 <= y < ns0.len() { assert(ns1[y].weight == ns0[y].weight); } }
    assert forall|j: int| elive(es1, j) == (elive(es0, j) || j == e) by { if 0 <= j < es0.len() && j != e { assert(es1[j] == es0[j]); } }
    // no existing list contains e
    assert forall|y: int, i: int| 0 <= y < ns0.len() && 0 <= i < ls[y].len() implies #[trigger] ls[y][i] != e by { assert(elive(es0, ls[y][i])); }
    assert forall|y: int| 0 <= y < ns1.len() && listed(ns1, p, y) implies slist(es1, ns1[y].next[k], k, #[trigger] ls1[y]) && no_dup(ls1[y]) by {
        let sy = ls[y];
        lemma_slist_range(es0, ns0[y].next[k], k, sy);
        assert forall|i: int| 0 <= i < sy.len() implies (#[trigger] sy[i]) < es1.len() && es1[sy[i]].next[k] == es0[sy[i]].next[k] by { assert(ls[y][i] != e); assert(es1[sy[i]] == es0[sy[i]]); }
        lemma_slist_frame(es0, es1, ns0[y].next[k], k, sy);
        if y == x {
            let t = seq![e] + sy;
            assert(t.drop_first() =~= sy);
            assert(slist(es1, ns1[x].next[k], k, t));
            assert forall|i: int, j: int| 0 <= i < j < t.len() implies t[i] != t[j] by {
                if i == 0 { assert(t[j] == sy[j - 1]); assert(ls[y][j - 1] != e); } else { assert(t[i] == sy[i - 1]); assert(t[j] == sy[j - 1]); }
            }
        } else { assert(ls1[y] == ls[y]); }
    }
    assert forall|y: int| 0 <= y < ns1.len() && !listed(ns1, p, y) implies (#[trigger] ls1[y]).len() == 0 by { assert(y != x); assert(ls1[y] == ls[y]); }
    assert forall|y: int, i: int| 0 <= y < ns1.len() && 0 <= i < ls1[y].len() implies elive(es1, #[trigger] ls1[y][i]) && es1[ls1[y][i]].node[k].0.ix() == y by {
        if y == x { if i > 0 { assert(ls1[y][i] == ls[y][i - 1]); assert(ls[y][i - 1] != e); assert(es1[ls[y][i - 1]] == es0[ls[y][i - 1]]); } }
        else { assert(ls1[y] == ls[y]); assert(ls[y][i] != e); assert(es1[ls[y][i]] == es0[ls[y][i]]); }
    }
    assert forall|j: int| elive(es1, j) implies (#[trigger] es1[j]).node[k].0.ix() < ns1.len() && listed(ns1, p, es1[j].node[k].0.ix() as int) by { if j != e { assert(es1[j] == es0[j]); } }
    assert forall|j: int| elive(es1, j) implies (#[trigger] ls1[es1[j].node[k].0.ix() as int]).contains(j) by {
        if j == e { assert(ls1[x][0] == e); }
        else {
            assert(es1[j] == es0[j]);
            let y = es0[j].node[k].0.ix() as int;
            assert(ls[y].contains(j));
            let i = choose|i: int| 0 <= i < ls[y].len() && ls[y][i] == j;
            if y == x { assert(ls1[y][i + 1] == j); } else { assert(ls1[y][i] == j); }
        }
    }
}

impl<N, E, Ty, Ix> StableGraph<N, E, Ty, Ix>
where
    Ty: EdgeType,
    Ix: IndexType,
{
//@ item src/graph_impl/stable_graph/mod.rs | impl<N, E, Ty, Ix> StableGraph<N, E, Ty, Ix> where Ty: EdgeType, Ix: IndexType | fn missing_endpoint
    /// The index `try_add_edge` reports in `NodeMissed` for the endpoints `a`, `b`,
    /// or `None` if both are nodes of the graph.
    fn missing_endpoint(&self, a: NodeIndex<Ix>, b: NodeIndex<Ix>) -> (r: Option<usize>)
        /*+*/ensures r is None <==> (nlive(self.ns(), a.i()) && nlive(self.ns(), b.i())),
            r is Some ==> r.unwrap() == self.missing_spec(a.i(), b.i())/*-*/,
    {
        if cmp::max(a.index(), b.index()) >= self.g.nodes.len() {
            Some(cmp::max(a.index(), b.index()))
        } else if self.g.nodes[a.index()].weight.is_none() {
            Some(a.index())
        } else if self.g.nodes[b.index()].weight.is_none() {
            Some(b.index())
        } else {
            None
        }
    }
//@ end

    /// equal raw state -> equal invariant and canonical witnesses
    pub proof fn lemma_same_state(&self, o: &Self, p: int)
        requires o.wf_p(p), self.ns() == o.ns(), self.es() == o.es(), self.node_count == o.node_count, self.edge_count == o.edge_count,
            self.free_node == o.free_node, self.free_edge == o.free_edge,
        ensures self.wf_p(p), self.outs(p) == o.outs(p), self.inns(p) == o.inns(p), self.fnodes() == o.fnodes(), self.fedges() == o.fedges()
    {
        assert(self.wf_with(o.outs(p), o.inns(p), o.fnodes(), o.fedges(), p));
        self.lemma_wf_unique(o.outs(p), o.inns(p), o.fnodes(), o.fedges(), p);
    }

    /// which index NodeMissed carries: the larger one if either is out of bounds, else the first vacant endpoint
    pub open spec fn missing_spec(&self, a: int, b: int) -> int {
        if a >= self.ns().len() || b >= self.ns().len() { if a >= b { a } else { b } }
        else if self.ns()[a].weight is None { a } else { b }
    }

//@ item src/graph_impl/stable_graph/mod.rs | impl<N, E, Ty, Ix> StableGraph<N, E, Ty, Ix> where Ty: EdgeType, Ix: IndexType | fn try_add_edge
    /// Try to add an edge from `a` to `b` to the graph, with its associated
    /// data `weight`.
    pub fn try_add_edge(
        &mut self,
        a: NodeIndex<Ix>,
        b: NodeIndex<Ix>,
        weight: E,
    ) -> (res: Result<EdgeIndex<Ix>, GraphError>)
        /*+*/requires old(self).wf(), old(self).edge_count < usize::MAX,
        ensures
            final(self).wf(),
            // C02: a reported error leaves every observable aspect unchanged - split by case so that a finding masks one clause only
            old(self).free_edge.i() == end_ix::<Ix>() ==> (res is Err ==> final(self).ns() == old(self).ns() && final(self).es() == old(self).es()
                && final(self).node_count == old(self).node_count && final(self).edge_count == old(self).edge_count && final(self).free_node == old(self).free_node && final(self).free_edge == old(self).free_edge),   // [try_add_edge_err_unchanged_pushed]
            old(self).free_edge.i() != end_ix::<Ix>() ==> (res is Err ==> final(self).ns() == old(self).ns() && final(self).es() == old(self).es()
                && final(self).node_count == old(self).node_count && final(self).edge_count == old(self).edge_count && final(self).free_node == old(self).free_node && final(self).free_edge == old(self).free_edge),   // [try_add_edge_err_unchanged_reused]
            res is Err <==> (!nlive(old(self).ns(), a.i()) || !nlive(old(self).ns(), b.i())
                || (old(self).free_edge.i() == end_ix::<Ix>() && end_ix::<Ix>() != usize::MAX && old(self).es().len() == end_ix::<Ix>())),   // [try_add_edge_err_iff]
            res is Ok ==> ({ let e = res->Ok_0.i();
                &&& e == (if old(self).free_edge.i() != end_ix::<Ix>() { old(self).free_edge.i() } else { old(self).es().len() as int })
                &&& !elive(old(self).es(), e)                                                                             // [new_edge_never_gets_a_live_index]
                &&& final(self).view() == old(self).view().add_edge_at(e, a.i(), b.i(), weight)                           // [try_add_edge_view]
            })/*-*/,
    {
        /*+*/proof { assert(!0usize == 0xffff_ffff_ffff_ffffusize) by (bit_vector); }
        let ghost out = self.outs(-1); let ghost inn = self.inns(-1); let ghost fl = self.fnodes(); let ghost fe = self.fedges();
        let ghost ns0 = self.ns(); let ghost es0 = self.es();/*-*/
        let edge_idx;
        let mut new_edge = None::<Edge<_, _>>;
        /*+*/let ghost mut en: Edge<Option<E>, Ix>;/*-*/
        {
            let edge: &mut Edge<_, _>;

            if self.free_edge != EdgeIndex::end() {
                // An error must leave the graph unchanged: check the endpoints
                // before the vacant edge slot is taken off the free list.
                if let Some(i) = self.missing_endpoint(a, b) {
                    return Err(GraphError::NodeMissed(i));
                }
                edge_idx = self.free_edge;
                /*+*/proof { assert(fe.len() > 0 && fe[0] == edge_idx.i()); assert(!elive(es0, fe[0])); }/*-*/
                edge = &mut self.g.edges[edge_idx.index()];
                let _old = replace(&mut edge.weight, Some(weight));
                assert(_old.is_none());
                self.free_edge = edge.next[0];
                edge.node = [a, b];
            } else {
                edge_idx = EdgeIndex::new(self.g.edges.len());
                if !(<Ix as IndexType>::max().index() == !0 || EdgeIndex::end() != edge_idx) {
                    return Err(GraphError::EdgeIxLimit);
                }
                new_edge = Some(Edge {
                    weight: Some(weight),
                    node: [a, b],
                    next: [EdgeIndex::end(); 2],
                });
                edge = new_edge.as_mut().unwrap();
            }

            let wrong_index = match index_twice(&mut self.g.nodes, a.index(), b.index()) {
                Pair::None => Some(cmp::max(a.index(), b.index())),
                Pair::One(an) => {
                    if an.weight.is_none() {
                        Some(a.index())
                    } else {
                        edge.next = an.next;
                        an.next[0] = edge_idx;
                        an.next[1] = edge_idx;
                        None
                    }
                }
                Pair::Both(an, bn) => {
                    // a and b are different indices
                    if an.weight.is_none() {
                        Some(a.index())
                    } else if bn.weight.is_none() {
                        Some(b.index())
                    } else {
                        edge.next = [an.next[0], bn.next[1]];
                        an.next[0] = edge_idx;
                        bn.next[1] = edge_idx;
                        None
                    }
                }
            };
            /*+*/proof { en = *edge; }/*-*/
            if let Some(i) = wrong_index {
                /*+*/proof { assert(self.ns() =~= ns0); if self.es() =~= es0 && self.free_edge == old(self).free_edge && self.edge_count == old(self).edge_count { self.lemma_same_state(old(self), -1); } }/*-*/
                return Err(GraphError::NodeMissed(i));
            }
            self.edge_count += 1;
        }
        if let Some(edge) = new_edge {
            self.g.edges.push(edge);
        }
        /*+*/proof {
            let e = edge_idx.i(); let ai = a.i(); let bi = b.i();
            let ns1 = self.ns(); let es1 = self.es();
            assert(self.g.edges@.len() == self.g.edges.len());
            lemma_slink_head(ns0, es0, ns1, es1, 0, out, -1, ai, e);
            lemma_slink_head(ns0, es0, ns1, es1, 1, inn, -1, bi, e);
            let out1 = out.update(ai, seq![e] + out[ai]); let inn1 = inn.update(bi, seq![e] + inn[bi]);
            // node free list untouched (vacant slots are neither a nor b)
            assert(free_nodes_ok(ns1, self.free_node.0.ix() as int, fl, -1)) by {
                assert forall|i: int| 0 <= i < fl.len() implies ns1[#[trigger] fl[i]] == ns0[fl[i]] by { assert(!nlive(ns0, fl[i])); }
                lemma_nchain_frame(ns0, ns1, old(self).free_node.0.ix() as int, fl);
                assert forall|x: int| nlive(ns1, x) == nlive(ns0, x) by { if 0 <= x < ns0.len() { assert(ns1[x].weight == ns0[x].weight); } }
            }
            let fe1 = if old(self).free_edge.i() != end_ix::<Ix>() { fe.drop_first() } else { fe };
            assert(free_edges_ok(es1, self.free_edge, fe1)) by {
                lemma_slist_range(es0, old(self).free_edge, 0, fe);
                assert forall|j: int| elive(es1, j) == (elive(es0, j) || j == e) by { if 0 <= j < es0.len() && j != e { assert(es1[j] == es0[j]); } }
                assert forall|i: int| 0 <= i < fe1.len() implies (#[trigger] fe1[i]) < es1.len() && fe1[i] != e && es1[fe1[i]].next[0] == es0[fe1[i]].next[0] by {
                    if old(self).free_edge.i() != end_ix::<Ix>() { assert(fe1[i] == fe[i + 1]); assert(fe[0] != fe[i + 1]); } else { assert(fe1[i] == fe[i]); }
                    assert(es1[fe1[i]] == es0[fe1[i]]);
                }
                if old(self).free_edge.i() != end_ix::<Ix>() {
                    assert(slist(es0, es0[fe[0]].next[0], 0, fe.drop_first()));
                    lemma_slist_frame(es0, es1, es0[fe[0]].next[0], 0, fe1);
                } else { lemma_slist_frame(es0, es1, old(self).free_edge, 0, fe1); }
                assert forall|i: int, j: int| 0 <= i < j < fe1.len() implies fe1[i] != fe1[j] by {
                    if old(self).free_edge.i() != end_ix::<Ix>() { assert(fe1[i] == fe[i + 1] && fe1[j] == fe[j + 1]); }
                }
                assert forall|i: int| 0 <= i < fe1.len() implies 0 <= #[trigger] fe1[i] < es1.len() && !elive(es1, fe1[i]) by {
                    if old(self).free_edge.i() != end_ix::<Ix>() { assert(fe1[i] == fe[i + 1]); } else { assert(fe1[i] == fe[i]); }
                }
                assert forall|j: int| 0 <= j < es1.len() && !elive(es1, j) implies #[trigger] fe1.contains(j) by {
                    assert(j != e); assert(!elive(es0, j)); assert(fe.contains(j));
                    let i = choose|i: int| 0 <= i < fe.len() && fe[i] == j;
                    if old(self).free_edge.i() != end_ix::<Ix>() { assert(i > 0); assert(fe1[i - 1] == j); } else { assert(fe1[i] == j); }
                }
            }
            assert(self.wf_with(out1, inn1, fl, fe1, -1));
            self.lemma_wf_unique(out1, inn1, fl, fe1, -1);
            // the view
            let v0 = old(self).view(); let v1 = self.view();
            assert(v1.nodes =~= v0.nodes);
            assert(v1.edges =~= v0.add_edge_at(e, ai, bi, weight).edges);
        }/*-*/
        Ok(edge_idx)
    }
//@ end
}


/// what occupy_vacant_node(x) does to the node array: slot x = fl[q] becomes live with empty lists, its free-list neighbours are relinked
pub open spec fn occupied<N, Ix: IndexType>(ns0: Seq<Node<Option<N>, Ix>>, ns1: Seq<Node<Option<N>, Ix>>, fl: Seq<int>, x: int, q: int) -> bool {
    &&& ns1.len() == ns0.len() && 0 <= q < fl.len() && fl[q] == x
    &&& ns1[x].weight is Some && ns1[x].next[0].0.ix() == end_ix::<Ix>() && ns1[x].next[1].0.ix() == end_ix::<Ix>()
    &&& forall|y: int| 0 <= y < ns0.len() && y != x ==> (#[trigger] ns1[y]).weight == ns0[y].weight
    &&& forall|y: int| 0 <= y < ns0.len() && y != x && !(q > 0 && y == fl[q - 1]) ==> (#[trigger] ns1[y]).next[0] == ns0[y].next[0]
    &&& forall|y: int| 0 <= y < ns0.len() && y != x && !(q + 1 < fl.len() && y == fl[q + 1]) ==> (#[trigger] ns1[y]).next[1] == ns0[y].next[1]
    &&& q > 0 ==> ns1[fl[q - 1]].next[0] == ns0[x].next[0]
    &&& q + 1 < fl.len() ==> ns1[fl[q + 1]].next[1] == ns0[x].next[1]
}
pub proof fn lemma_occupy_freelist<N, Ix: IndexType>(ns0: Seq<Node<Option<N>, Ix>>, ns1: Seq<Node<Option<N>, Ix>>, head: int, fl: Seq<int>, x: int, q: int)
    requires free_nodes_ok(ns0, head, fl, -1), ns0.len() <= end_ix::<Ix>(), occupied(ns0, ns1, fl, x, q),
    ensures free_nodes_ok(ns1, if q == 0 { ns0[x].next[0].0.ix() as int } else { head }, fl.remove(q), -1)
{
    let fl1 = fl.remove(q);
    lemma_nchain_range(ns0, head, fl);
    lemma_no_dup_remove(fl, q);
    assert forall|i: int| 0 <= i < fl.len() && i != q && i != q - 1 implies ns1[#[trigger] fl[i]].next[0] == ns0[fl[i]].next[0] by {
        if i < q { assert(fl[i] != fl[q]); assert(fl[i] != fl[q - 1]); } else { assert(fl[q] != fl[i]); if q > 0 { assert(fl[q - 1] != fl[i]); } }
    }
    lemma_nchain_unlink(ns0, ns1, head, fl, q);
    assert forall|i: int| 0 <= i < fl1.len() implies 0 <= #[trigger] fl1[i] < ns1.len() && !nlive(ns1, fl1[i]) && fl1[i] != -1 by {
        let i2 = if i < q { i } else { i + 1 };
        assert(fl1[i] == fl[i2]);
        if i2 < q { assert(fl[i2] != fl[q]); } else { assert(fl[q] != fl[i2]); }
        assert(ns1[fl[i2]].weight == ns0[fl[i2]].weight);
    }
    // back links of the shortened list
    if fl1.len() > 0 {
        if q == 0 { assert(fl1[0] == fl[1]); assert(ns0[fl[1]].next[1].0.ix() == fl[0]); assert(ns1[fl[1]].next[1] == ns0[x].next[1]); }
        else { assert(fl1[0] == fl[0]); assert(fl[0] != fl[q]); if q == 1 && 2 < fl.len() { } assert(ns1[fl[0]].next[1] == ns0[fl[0]].next[1]) by { if q + 1 < fl.len() { assert(fl[0] != fl[q + 1]); } } }
    }
    assert forall|i: int, j: int| 0 <= i && j == i + 1 && j < fl1.len() implies ns1[#[trigger] fl1[j]].next[1].0.ix() == #[trigger] fl1[i] by {
        let i2 = if i < q { i } else { i + 1 }; let j2 = if j < q { j } else { j + 1 };
        assert(fl1[i] == fl[i2] && fl1[j] == fl[j2]);
        if j2 == q + 1 {
            // j is the successor of the removed slot: its back link now names the removed slot's predecessor
            assert(i2 == q - 1);
            assert(ns1[fl[q + 1]].next[1] == ns0[x].next[1]);
            assert(ns0[fl[q]].next[1].0.ix() == fl[q - 1]);
        } else {
            assert(j2 == i2 + 1);
            if j2 < q { assert(fl[j2] != fl[q]); } else { assert(fl[q] != fl[j2]); assert(fl[q + 1] != fl[j2]); }
            assert(ns1[fl[j2]].next[1] == ns0[fl[j2]].next[1]);
            assert(ns0[fl[j2]].next[1].0.ix() == fl[i2]);
        }
    }
    assert forall|a: int| 0 <= a < ns1.len() && !nlive(ns1, a) && a != -1 implies #[trigger] fl1.contains(a) by {
        assert(a != x); assert(ns1[a].weight == ns0[a].weight); assert(fl.contains(a));
    }
}
pub proof fn lemma_occupy_lists<N, E, Ix: IndexType>(ns0: Seq<Node<Option<N>, Ix>>, ns1: Seq<Node<Option<N>, Ix>>, es: Seq<Edge<Option<E>, Ix>>, k: int, ls: Seq<Seq<int>>, fl: Seq<int>, x: int, q: int)
    requires 0 <= k < 2, slists_ok(ns0, es, k, ls, -1), occupied(ns0, ns1, fl, x, q), 0 <= x < ns0.len(), !nlive(ns0, x),
        forall|i: int| 0 <= i < fl.len() ==> 0 <= #[trigger] fl[i] < ns0.len() && !nlive(ns0, fl[i]),
    ensures slists_ok(ns1, es, k, ls, -1)
{
    assert forall|y: int| nlive(ns1, y) == (nlive(ns0, y) || y == x) by { if 0 <= y < ns0.len() && y != x { assert(ns1[y].weight == ns0[y].weight); } }
    assert forall|a: int| 0 <= a < ns1.len() && listed(ns1, -1, a) implies slist(es, ns1[a].next[k], k, #[trigger] ls[a]) && no_dup(ls[a]) by {
        if a == x { assert(ls[a].len() == 0); } else {
            assert(nlive(ns0, a));
            if q > 0 { assert(!nlive(ns0, fl[q - 1])); } if q + 1 < fl.len() { assert(!nlive(ns0, fl[q + 1])); }
            assert(ns1[a].next[0] == ns0[a].next[0] && ns1[a].next[1] == ns0[a].next[1]);
        }
    }
    assert forall|a: int| 0 <= a < ns1.len() && !listed(ns1, -1, a) implies (#[trigger] ls[a]).len() == 0 by { }
    assert forall|e: int| elive(es, e) implies (#[trigger] es[e]).node[k].0.ix() < ns1.len() && listed(ns1, -1, es[e].node[k].0.ix() as int) by { }
}

/// taking position q out of the doubly linked free list of node slots
pub proof fn lemma_nchain_unlink<N, Ix: IndexType>(ns0: Seq<Node<Option<N>, Ix>>, ns1: Seq<Node<Option<N>, Ix>>, head: int, fl: Seq<int>, q: int)
    requires nchain(ns0, head, fl), no_dup(fl), 0 <= q < fl.len(), ns1.len() == ns0.len(), ns0.len() <= end_ix::<Ix>(),
        q > 0 ==> ns1[fl[q - 1]].next[0] == ns0[fl[q]].next[0],
        forall|i: int| 0 <= i < fl.len() && i != q && i != q - 1 ==> ns1[#[trigger] fl[i]].next[0] == ns0[fl[i]].next[0],
    ensures nchain(ns1, if q == 0 { ns0[fl[0]].next[0].0.ix() as int } else { head }, fl.remove(q))
    decreases q
{
    let r = fl.drop_first();
    let res = fl.remove(q);
    assert(no_dup(r)) by { assert forall|i: int, j: int| 0 <= i < j < r.len() implies r[i] != r[j] by { assert(r[i] == fl[i + 1]); assert(r[j] == fl[j + 1]); } }
    if q == 0 {
        assert(res =~= r);
        assert forall|i: int| 0 <= i < r.len() implies ns1[#[trigger] r[i]].next[0] == ns0[r[i]].next[0] by { assert(r[i] == fl[i + 1]); }
        lemma_nchain_frame(ns0, ns1, ns0[fl[0]].next[0].0.ix() as int, r);
    } else {
        assert(res[0] == fl[0]);
        assert(res.drop_first() =~= r.remove(q - 1));
        assert(r[q - 1] == fl[q]);
        if q == 1 {
            // fl[0] now points past fl[1]
            assert(r[0] == fl[1]); assert(nchain(ns0, ns0[fl[0]].next[0].0.ix() as int, r));
            assert(nchain(ns0, ns0[fl[1]].next[0].0.ix() as int, r.drop_first()));
            let post = r.drop_first();
            assert forall|i: int| 0 <= i < post.len() implies ns1[#[trigger] post[i]].next[0] == ns0[post[i]].next[0] by { assert(post[i] == fl[i + 2]); }
            lemma_nchain_frame(ns0, ns1, ns0[fl[1]].next[0].0.ix() as int, post);
            assert(r.remove(0) =~= post);
            assert(ns1[fl[0]].next[0] == ns0[fl[1]].next[0]);
        } else {
            assert(r[q - 2] == fl[q - 1]);
            assert forall|i: int| 0 <= i < r.len() && i != q - 1 && i != q - 2 implies ns1[#[trigger] r[i]].next[0] == ns0[r[i]].next[0] by { assert(r[i] == fl[i + 1]); }
            lemma_nchain_unlink(ns0, ns1, ns0[fl[0]].next[0].0.ix() as int, r, q - 1);
            assert(ns1[fl[0]].next[0] == ns0[fl[0]].next[0]);
        }
    }
}
pub proof fn lemma_nchain_range<N, Ix: IndexType>(ns: Seq<Node<Option<N>, Ix>>, head: int, fl: Seq<int>)
    requires nchain(ns, head, fl)
    ensures forall|i: int| 0 <= i < fl.len() ==> 0 <= #[trigger] fl[i] < ns.len(),
        fl.len() > 0 ==> head == fl[0], fl.len() == 0 ==> head == end_ix::<Ix>(),
    decreases fl.len()
{
    if fl.len() > 0 {
        let r = fl.drop_first();
        lemma_nchain_range(ns, ns[fl[0]].next[0].0.ix() as int, r);
        assert forall|i: int| 0 <= i < fl.len() implies 0 <= #[trigger] fl[i] < ns.len() by { if i > 0 { assert(fl[i] == r[i - 1]); } }
    }
}
/// the forward link of the i-th free slot (stated per index: as a quantified fact it would be a matching loop)
pub proof fn lemma_nchain_succ<N, Ix: IndexType>(ns: Seq<Node<Option<N>, Ix>>, head: int, fl: Seq<int>, i: int)
    requires nchain(ns, head, fl), 0 <= i < fl.len()
    ensures ns[fl[i]].next[0].0.ix() == (if i + 1 < fl.len() { fl[i + 1] } else { end_ix::<Ix>() as int }), 0 <= fl[i] < ns.len(),
    decreases i
{
    let r = fl.drop_first();
    assert(nchain(ns, ns[fl[0]].next[0].0.ix() as int, r));
    if i == 0 { if r.len() > 0 { assert(r[0] == fl[1]); assert(ns[fl[0]].next[0].0.ix() == r[0]); } else { assert(fl.len() == 1); assert(ns[fl[0]].next[0].0.ix() == end_ix::<Ix>()); } }
    else { lemma_nchain_succ(ns, ns[fl[0]].next[0].0.ix() as int, r, i - 1); assert(r[i - 1] == fl[i]); if i + 1 < fl.len() { assert(r[i] == fl[i + 1]); } }
}

impl<N, E, Ty, Ix> StableGraph<N, E, Ty, Ix>
where
    Ty: EdgeType,
    Ix: IndexType,
{
//@ item src/graph_impl/stable_graph/mod.rs | impl<N, E, Ty, Ix> StableGraph<N, E, Ty, Ix> where Ty: EdgeType, Ix: IndexType | fn occupy_vacant_node
    /// Create a new node using a vacant position,
    /// updating the free nodes doubly linked list.
    fn occupy_vacant_node(&mut self, node_idx: NodeIndex<Ix>, weight: N)
        /*+*/requires old(self).wf(), node_idx.i() < old(self).ns().len(), !nlive(old(self).ns(), node_idx.i()), old(self).node_count < usize::MAX,
        ensures final(self).wf(),
            final(self).ns().len() == old(self).ns().len(), final(self).es() == old(self).es(), final(self).edge_count == old(self).edge_count, final(self).free_edge == old(self).free_edge,
            final(self).ns()[node_idx.i()].weight == Some(weight),                                                                   // [occupy_sets_weight]
            forall|x: int| 0 <= x < old(self).ns().len() && x != node_idx.i() ==> (#[trigger] final(self).ns()[x]).weight == old(self).ns()[x].weight,   // [occupy_other_nodes_keep_index]
            final(self).node_count == old(self).node_count + 1,
            final(self).outs(-1) == old(self).outs(-1) && final(self).inns(-1) == old(self).inns(-1),                                 // [reused_id_starts_without_edges] (vacant slots have empty lists)
            final(self).fnodes() == old(self).fnodes().remove(pos_of(old(self).fnodes(), node_idx.i()))/*-*/,
    {
        /*+*/let ghost ns0 = self.ns(); let ghost fl = self.fnodes(); let ghost x = node_idx.i();
        proof { assert(fl.contains(x)); lemma_nchain_range(ns0, self.free_node.0.ix() as int, fl); }
        let ghost q = pos_of(fl, x);
        proof { lemma_nchain_succ(ns0, self.free_node.0.ix() as int, fl, q); if q > 0 { lemma_nchain_succ(ns0, self.free_node.0.ix() as int, fl, q - 1); } }/*-*/
        let node_slot = &mut self.g.nodes[node_idx.index()];
        let _old = replace(&mut node_slot.weight, Some(weight));
        assert(_old.is_none());
        let previous_node = node_slot.next[1];
        let next_node = node_slot.next[0];
        node_slot.next = [EdgeIndex::end(), EdgeIndex::end()];
        /*+*/proof { if q > 0 { assert(fl[q - 1] != fl[q]); assert(0 <= fl[q - 1] < ns0.len()); } if q + 1 < fl.len() { assert(fl[q] != fl[q + 1]); assert(0 <= fl[q + 1] < ns0.len()); } }/*-*/
        if previous_node != EdgeIndex::end() {
            self.g.nodes[previous_node.index()].next[0] = next_node;
        }
        if next_node != EdgeIndex::end() {
            self.g.nodes[next_node.index()].next[1] = previous_node;
        }
        if self.free_node == node_idx {
            self.free_node = next_node._into_node();
        }
        self.node_count += 1;
        /*+*/proof { assert(occupied(ns0, self.ns(), fl, x, q)); self.lemma_occupy_post(old(self), node_idx, weight); }/*-*/
    }
//@ end

    pub proof fn lemma_occupy_post(&self, o: &Self, node_idx: NodeIndex<Ix>, weight: N)
        requires o.wf(), node_idx.i() < o.ns().len(), !nlive(o.ns(), node_idx.i()),
            self.ns().len() == o.ns().len(), self.es() == o.es(), self.edge_count == o.edge_count, self.free_edge == o.free_edge, self.node_count == o.node_count + 1,
            occupied(o.ns(), self.ns(), o.fnodes(), node_idx.i(), pos_of(o.fnodes(), node_idx.i())),
            self.free_node.i() == (if pos_of(o.fnodes(), node_idx.i()) == 0 { o.ns()[node_idx.i()].next[0].i() } else { o.free_node.i() }),
        ensures self.wf(), self.outs(-1) == o.outs(-1), self.inns(-1) == o.inns(-1), self.fnodes() == o.fnodes().remove(pos_of(o.fnodes(), node_idx.i())),
    {
        let fl = o.fnodes(); let x = node_idx.i();
        assert(fl.contains(x));
        let q = pos_of(fl, x);
        lemma_occupy_freelist(o.ns(), self.ns(), o.free_node.0.ix() as int, fl, x, q);
        lemma_occupy_lists(o.ns(), self.ns(), o.es(), 0, o.outs(-1), fl, x, q);
        lemma_occupy_lists(o.ns(), self.ns(), o.es(), 1, o.inns(-1), fl, x, q);
        lemma_no_dup_remove(fl, q);
        assert(fl.remove(q).len() == fl.len() - 1);
        assert(self.wf_with(o.outs(-1), o.inns(-1), fl.remove(q), o.fedges(), -1));
        self.lemma_wf_unique(o.outs(-1), o.inns(-1), fl.remove(q), o.fedges(), -1);
    }

//@ item src/graph_impl/stable_graph/mod.rs | impl<N, E, Ty, Ix> StableGraph<N, E, Ty, Ix> where Ty: EdgeType, Ix: IndexType | fn try_add_node
    /// Try to add a node (also called vertex) with associated data `weight` to the graph.
    pub fn try_add_node(&mut self, weight: N) -> (res: Result<NodeIndex<Ix>, GraphError>)
        /*+*/requires old(self).wf(), old(self).node_count < usize::MAX,
        ensures final(self).wf(),
            res is Err ==> final(self).ns() == old(self).ns() && final(self).es() == old(self).es() && final(self).node_count == old(self).node_count
                && final(self).edge_count == old(self).edge_count && final(self).free_node == old(self).free_node && final(self).free_edge == old(self).free_edge,   // [try_add_node_err_unchanged]
            res is Err <==> (old(self).free_node.i() == end_ix::<Ix>() && end_ix::<Ix>() != usize::MAX && old(self).ns().len() == end_ix::<Ix>()),   // [try_add_node_err_iff_full]
            res is Ok ==> ({ let i = res->Ok_0.i();
                &&& !nlive(old(self).ns(), i) && nlive(final(self).ns(), i) && final(self).ns()[i].weight == Some(weight)                // [new_node_never_gets_a_live_index]
                &&& i == (if old(self).free_node.i() != end_ix::<Ix>() { old(self).free_node.i() } else { old(self).ns().len() as int })
                &&& forall|x: int| 0 <= x < old(self).ns().len() && x != i ==> (#[trigger] final(self).ns()[x]).weight == old(self).ns()[x].weight   // [add_node_other_nodes_keep_index]
                &&& final(self).es() == old(self).es() && final(self).node_count == old(self).node_count + 1 && final(self).edge_count == old(self).edge_count
                &&& final(self).outs(-1) == (if i < old(self).ns().len() { old(self).outs(-1) } else { old(self).outs(-1).push(Seq::empty()) })
                &&& final(self).inns(-1) == (if i < old(self).ns().len() { old(self).inns(-1) } else { old(self).inns(-1).push(Seq::empty()) })
            })/*-*/,
    {
        if self.free_node != NodeIndex::end() {
            let node_idx = self.free_node;
            /*+*/proof { let fl = self.fnodes(); lemma_nchain_range(self.ns(), self.free_node.0.ix() as int, fl); assert(fl.len() > 0 && fl[0] == node_idx.i()); }/*-*/
            self.occupy_vacant_node(node_idx, weight);
            Ok(node_idx)
        } else {
            let node_idx = self.g.try_add_node(Some(weight))?;
            self.node_count += 1;
            /*+*/proof { self.lemma_pushed_node_post(old(self)); }/*-*/
            Ok(node_idx)
        }
    }
//@ end

    /// a live node with two empty lists was appended to the node array
    pub proof fn lemma_pushed_node_post(&self, o: &Self)
        requires o.wf(), self.es() == o.es(), self.edge_count == o.edge_count, self.free_edge == o.free_edge, self.free_node == o.free_node, self.node_count == o.node_count + 1,
            self.ns().len() == o.ns().len() + 1, self.ns().len() <= end_ix::<Ix>(), forall|i: int| 0 <= i < o.ns().len() ==> #[trigger] self.ns()[i] == o.ns()[i],
            self.ns()[o.ns().len() as int].weight is Some, self.ns()[o.ns().len() as int].next[0].i() == end_ix::<Ix>(), self.ns()[o.ns().len() as int].next[1].i() == end_ix::<Ix>(),
        ensures self.wf(), self.outs(-1) == o.outs(-1).push(Seq::empty()), self.inns(-1) == o.inns(-1).push(Seq::empty()), self.fnodes() == o.fnodes(),
    {
        let ns0 = o.ns(); let ns1 = self.ns(); let es = o.es(); let n = ns0.len() as int;
        let out1 = o.outs(-1).push(Seq::empty()); let inn1 = o.inns(-1).push(Seq::empty()); let fl = o.fnodes();
        assert forall|y: int| nlive(ns1, y) == (nlive(ns0, y) || y == n) by { if 0 <= y < n { assert(ns1[y] == ns0[y]); } }
        assert forall|k: int, ls: Seq<Seq<int>>| 0 <= k < 2 && #[trigger] slists_ok(ns0, es, k, ls, -1) implies slists_ok(ns1, es, k, ls.push(Seq::empty()), -1) by {
            let l1 = ls.push(Seq::<int>::empty());
            assert forall|a: int| 0 <= a < ns1.len() && listed(ns1, -1, a) implies slist(es, ns1[a].next[k], k, #[trigger] l1[a]) && no_dup(l1[a]) by {
                if a < n { assert(ns1[a] == ns0[a]); assert(l1[a] == ls[a]); }
            }
            assert forall|a: int| 0 <= a < ns1.len() && !listed(ns1, -1, a) implies (#[trigger] l1[a]).len() == 0 by { assert(a < n); assert(l1[a] == ls[a]); }
            assert forall|a: int, i: int| 0 <= a < ns1.len() && 0 <= i < l1[a].len() implies elive(es, #[trigger] l1[a][i]) && es[l1[a][i]].node[k].0.ix() == a by { assert(a < n); assert(l1[a] == ls[a]); }
            assert forall|e: int| elive(es, e) implies (#[trigger] l1[es[e].node[k].0.ix() as int]).contains(e) by { let a = es[e].node[k].0.ix() as int; assert(l1[a] == ls[a]); }
        }
        assert(free_nodes_ok(ns1, self.free_node.0.ix() as int, fl, -1)) by {
            lemma_nchain_range(ns0, o.free_node.0.ix() as int, fl);
            assert forall|i: int| 0 <= i < fl.len() implies ns1[#[trigger] fl[i]].next[0] == ns0[fl[i]].next[0] by { assert(ns1[fl[i]] == ns0[fl[i]]); }
            lemma_nchain_frame(ns0, ns1, o.free_node.0.ix() as int, fl);
            assert forall|i: int| 0 <= i < fl.len() implies ns1[#[trigger] fl[i]] == ns0[fl[i]] by { }
        }
        assert(self.wf_with(out1, inn1, fl, o.fedges(), -1));
        self.lemma_wf_unique(out1, inn1, fl, o.fedges(), -1);
    }

//@ item src/graph_impl/stable_graph/mod.rs | impl<N, E, Ty, Ix> StableGraph<N, E, Ty, Ix> where Ty: EdgeType, Ix: IndexType | fn add_node
    /// Add a node (also called vertex) with associated data `weight` to the graph.
    #[track_caller]
    pub fn add_node(&mut self, weight: N) -> (r: NodeIndex<Ix>)
        /*+*/requires old(self).wf(), old(self).node_count < usize::MAX,
            old(self).free_node.i() != end_ix::<Ix>() || end_ix::<Ix>() == usize::MAX || old(self).ns().len() < end_ix::<Ix>(),   // [add_node_panics_iff_full]
        ensures final(self).wf(), !nlive(old(self).ns(), r.i()) && nlive(final(self).ns(), r.i()) && final(self).ns()[r.i()].weight == Some(weight),
            forall|x: int| 0 <= x < old(self).ns().len() && x != r.i() ==> (#[trigger] final(self).ns()[x]).weight == old(self).ns()[x].weight,
            final(self).es() == old(self).es() && final(self).node_count == old(self).node_count + 1 && final(self).edge_count == old(self).edge_count/*-*/,
    {
        self.try_add_node(weight).unwrap()
    }
//@ end
}

impl<N, E, Ty, Ix> StableGraph<N, E, Ty, Ix>
where
    Ty: EdgeType,
    Ix: IndexType,
{
    /// taking the weight of live node a turns wf() into wf_p(a) with the same lists
    pub proof fn lemma_begin_removal(&self, o: &Self, a: int)
        requires o.wf(), nlive(o.ns(), a), self.es() == o.es(), self.node_count == o.node_count, self.edge_count == o.edge_count,
            self.free_node == o.free_node, self.free_edge == o.free_edge, self.ns().len() == o.ns().len(),
            self.ns()[a].weight is None, self.ns()[a].next == o.ns()[a].next,
            forall|x: int| 0 <= x < o.ns().len() && x != a ==> #[trigger] self.ns()[x] == o.ns()[x],
        ensures self.wf_p(a), self.outs(a) == o.outs(-1), self.inns(a) == o.inns(-1), self.fnodes() == o.fnodes(),
    {
        let ns0 = o.ns(); let ns1 = self.ns(); let es = o.es(); let fl = o.fnodes();
        assert forall|x: int| listed(ns1, a, x) == listed(ns0, -1, x) by { if 0 <= x < ns0.len() && x != a { assert(ns1[x] == ns0[x]); } }
        assert forall|k: int, ls: Seq<Seq<int>>| 0 <= k < 2 && #[trigger] slists_ok(ns0, es, k, ls, -1) implies slists_ok(ns1, es, k, ls, a) by {
            assert forall|x: int| 0 <= x < ns1.len() && listed(ns1, a, x) implies slist(es, ns1[x].next[k], k, #[trigger] ls[x]) && no_dup(ls[x]) by { if x != a { assert(ns1[x] == ns0[x]); } }
        }
        assert(free_nodes_ok(ns1, self.free_node.0.ix() as int, fl, a)) by {
            lemma_nchain_range(ns0, o.free_node.0.ix() as int, fl);
            assert forall|i: int| 0 <= i < fl.len() implies ns1[#[trigger] fl[i]] == ns0[fl[i]] by { assert(!nlive(ns0, fl[i])); }
            lemma_nchain_frame(ns0, ns1, o.free_node.0.ix() as int, fl);
            assert forall|x: int| 0 <= x < ns1.len() && !nlive(ns1, x) && x != a implies #[trigger] fl.contains(x) by { assert(ns1[x] == ns0[x]); }
        }
        assert(self.wf_with(o.outs(-1), o.inns(-1), fl, o.fedges(), a));
        self.lemma_wf_unique(o.outs(-1), o.inns(-1), fl, o.fedges(), a);
    }

    /// the pending node a has no incident edge left: it is pushed onto the free list
    pub proof fn lemma_finish_removal(&self, m: &Self, a: int)
        requires m.wf_p(a), 0 <= a < m.ns().len(), !nlive(m.ns(), a), m.outs(a)[a].len() == 0, m.inns(a)[a].len() == 0, m.node_count >= 1,
            self.es() == m.es(), self.edge_count == m.edge_count, self.free_edge == m.free_edge, self.node_count == m.node_count - 1,
            self.ns().len() == m.ns().len(), self.free_node.i() == a,
            self.ns()[a].weight is None, self.ns()[a].next[0].i() == m.free_node.i(), self.ns()[a].next[1].i() == end_ix::<Ix>(),
            forall|x: int| 0 <= x < m.ns().len() && x != a ==> (#[trigger] self.ns()[x]).weight == m.ns()[x].weight && self.ns()[x].next[0] == m.ns()[x].next[0],
            forall|x: int| 0 <= x < m.ns().len() && x != a && x != m.free_node.i() ==> (#[trigger] self.ns()[x]).next[1] == m.ns()[x].next[1],
            m.free_node.i() != end_ix::<Ix>() ==> self.ns()[m.free_node.i()].next[1].i() == a,
        ensures self.wf(), self.outs(-1) == m.outs(a), self.inns(-1) == m.inns(a),
    {
        let ns0 = m.ns(); let ns1 = self.ns(); let es = m.es(); let fl = m.fnodes(); let fl1 = seq![a] + fl;
        let out = m.outs(a); let inn = m.inns(a);
        lemma_nchain_range(ns0, m.free_node.0.ix() as int, fl);
        assert forall|x: int| nlive(ns1, x) == nlive(ns0, x) by { if 0 <= x < ns0.len() && x != a { assert(ns1[x].weight == ns0[x].weight); } }
        assert forall|k: int, ls: Seq<Seq<int>>| 0 <= k < 2 && #[trigger] slists_ok(ns0, es, k, ls, a) && ls[a].len() == 0 implies slists_ok(ns1, es, k, ls, -1) by {
            assert forall|x: int| 0 <= x < ns1.len() && listed(ns1, -1, x) implies slist(es, ns1[x].next[k], k, #[trigger] ls[x]) && no_dup(ls[x]) by {
                assert(x != a); assert(nlive(ns0, x));
                // a live node is not the head of the free list
                if x == m.free_node.i() { assert(fl.len() > 0 && fl[0] == x); assert(!nlive(ns0, fl[0])); }
                assert(ns1[x].next[0] == ns0[x].next[0] && ns1[x].next[1] == ns0[x].next[1]);
            }
            assert forall|x: int| 0 <= x < ns1.len() && !listed(ns1, -1, x) implies (#[trigger] ls[x]).len() == 0 by { }
            assert forall|e: int| elive(es, e) implies (#[trigger] es[e]).node[k].0.ix() < ns1.len() && listed(ns1, -1, es[e].node[k].0.ix() as int) by {
                let x = es[e].node[k].0.ix() as int;
                assert(ls[x].contains(e));
                assert(x != a);
            }
        }
        assert(free_nodes_ok(ns1, a, fl1, -1)) by {
            assert forall|i: int| 0 <= i < fl.len() implies ns1[#[trigger] fl[i]].next[0] == ns0[fl[i]].next[0] by { assert(fl[i] != a); }
            lemma_nchain_frame(ns0, ns1, m.free_node.0.ix() as int, fl);
            assert(fl1.drop_first() =~= fl);
            assert(nchain(ns1, a, fl1));
            assert forall|i: int, j: int| 0 <= i < j < fl1.len() implies fl1[i] != fl1[j] by { if i == 0 { assert(fl1[j] == fl[j - 1]); } else { assert(fl1[i] == fl[i - 1] && fl1[j] == fl[j - 1]); } }
            assert forall|i: int| 0 <= i < fl1.len() implies 0 <= #[trigger] fl1[i] < ns1.len() && !nlive(ns1, fl1[i]) && fl1[i] != -1 by { if i > 0 { assert(fl1[i] == fl[i - 1]); } }
            assert forall|i: int, j: int| 0 <= i && j == i + 1 && j < fl1.len() implies ns1[#[trigger] fl1[j]].next[1].0.ix() == #[trigger] fl1[i] by {
                if i == 0 { assert(fl1[1] == fl[0]); assert(fl[0] == m.free_node.i()); }
                else { assert(fl1[i] == fl[i - 1] && fl1[j] == fl[j - 1]); assert(fl[j - 1] != fl[0]); assert(ns1[fl[j - 1]].next[1] == ns0[fl[j - 1]].next[1]); assert(ns0[fl[j - 1]].next[1].0.ix() == fl[i - 1]); }
            }
            assert forall|x: int| 0 <= x < ns1.len() && !nlive(ns1, x) && x != -1 implies #[trigger] fl1.contains(x) by {
                if x == a { assert(fl1[0] == a); } else { assert(fl.contains(x)); let i = choose|i: int| 0 <= i < fl.len() && fl[i] == x; assert(fl1[i + 1] == x); }
            }
        }
        assert(self.wf_with(out, inn, fl1, m.fedges(), -1));
        self.lemma_wf_unique(out, inn, fl1, m.fedges(), -1);
    }

//@ item src/graph_impl/stable_graph/mod.rs | impl<N, E, Ty, Ix> StableGraph<N, E, Ty, Ix> where Ty: EdgeType, Ix: IndexType | fn remove_node
    /// Remove `a` from the graph if it exists, and return its weight.
    /// If it doesn't exist in the graph, return `None`.
    ///
    /// The node index `a` is invalidated, but none other.
    /// Edge indices are invalidated as they would be following the removal of
    /// each edge with an endpoint in `a`.
    ///
    /// Computes in **O(e')** time, where **e'** is the number of affected
    /// edges, including *n* calls to `.remove_edge()` where *n* is the number
    /// of edges with an endpoint in `a`.
    /*+*/#[verifier::spinoff_prover]/*-*/
    pub fn remove_node(&mut self, a: NodeIndex<Ix>) -> (r: Option<N>)
        /*+*/requires old(self).wf()
        ensures final(self).wf(),
            !nlive(old(self).ns(), a.i()) ==> r is None && final(self).ns() == old(self).ns() && final(self).es() == old(self).es()
                && final(self).node_count == old(self).node_count && final(self).edge_count == old(self).edge_count
                && final(self).free_node == old(self).free_node && final(self).free_edge == old(self).free_edge,                      // [remove_node_absent_unchanged]
            nlive(old(self).ns(), a.i()) ==> ({
                &&& r == old(self).ns()[a.i()].weight                                                                                // [remove_node_returns_weight]
                &&& final(self).ns().len() == old(self).ns().len() && final(self).es().len() == old(self).es().len()
                &&& final(self).ns()[a.i()].weight is None
                &&& forall|x: int| 0 <= x < old(self).ns().len() && x != a.i() ==> (#[trigger] final(self).ns()[x]).weight == old(self).ns()[x].weight   // [remove_node_other_nodes_keep_index]
                &&& forall|e: int| elive(final(self).es(), e) ==> elive(old(self).es(), e) && (#[trigger] final(self).es()[e]).weight == old(self).es()[e].weight && final(self).es()[e].node == old(self).es()[e].node   // [remove_node_surviving_edges_keep_index]
                &&& forall|e: int| elive(old(self).es(), e) ==> (elive(final(self).es(), e) <==> ((#[trigger] old(self).es()[e]).node[0].i() != a.i() && old(self).es()[e].node[1].i() != a.i()))   // [remove_node_takes_exactly_incident_edges]
                &&& final(self).node_count == old(self).node_count - 1                                                               // [remove_node_count]
            })/*-*/,
    {
        /*+*/let ghost ai = a.i(); let ghost o = *self;/*-*/
        let node_weight = /*R:D16 self.g.nodes.get_mut(a.index())?.weight.take()? */ match self.g.nodes.get_mut(a.index()) { None => { return None; }, Some(__n) => match __n.weight.take() { None => { proof { assert(self.ns() =~= o.ns()); self.lemma_same_state(&o, -1); } return None; }, Some(__w) => __w } } /*-*/;
        /*+*/proof { self.lemma_begin_removal(&o, ai); }/*-*/
        for d in /*+*/it:/*-*/ &DIRECTIONS
            /*+*/invariant it.seq().len() == 2, it.seq()[0].k() == 0, it.seq()[1].k() == 1,
                self.wf_p(ai), 0 <= ai < self.ns().len(), !nlive(self.ns(), ai), o.wf(), nlive(o.ns(), ai), a.i() == ai,
                self.ns().len() == o.ns().len() && self.es().len() == o.es().len(), self.node_count == o.node_count,
                forall|x: int| 0 <= x < o.ns().len() && x != ai ==> (#[trigger] self.ns()[x]).weight == o.ns()[x].weight,
                forall|e: int| elive(self.es(), e) ==> elive(o.es(), e) && (#[trigger] self.es()[e]).weight == o.es()[e].weight && self.es()[e].node == o.es()[e].node,
                forall|e: int| elive(o.es(), e) && (#[trigger] o.es()[e]).node[0].i() != ai && o.es()[e].node[1].i() != ai ==> elive(self.es(), e),
                it.index@ >= 1 ==> self.outs(ai)[ai].len() == 0,
                it.index@ >= 2 ==> self.inns(ai)[ai].len() == 0,/*-*/
        {
            let k = d.index();
            /*+*/proof { assert(*d == it.seq()[it.index@]); assert(k == it.index@); }/*-*/

            // Remove all edges from and to this node.
            loop
                /*+*/invariant k < 2, k == 0 || k == 1,
                    self.wf_p(ai), 0 <= ai < self.ns().len(), !nlive(self.ns(), ai), o.wf(), nlive(o.ns(), ai), a.i() == ai,
                    self.ns().len() == o.ns().len() && self.es().len() == o.es().len(), self.node_count == o.node_count,
                    forall|x: int| 0 <= x < o.ns().len() && x != ai ==> (#[trigger] self.ns()[x]).weight == o.ns()[x].weight,
                    forall|e: int| elive(self.es(), e) ==> elive(o.es(), e) && (#[trigger] self.es()[e]).weight == o.es()[e].weight && self.es()[e].node == o.es()[e].node,
                    forall|e: int| elive(o.es(), e) && (#[trigger] o.es()[e]).node[0].i() != ai && o.es()[e].node[1].i() != ai ==> elive(self.es(), e),
                    k == 1 ==> self.outs(ai)[ai].len() == 0,
                ensures (if k == 0 { self.outs(ai)[ai] } else { self.inns(ai)[ai] }).len() == 0,
                decreases (if k == 0 { self.outs(ai)[ai] } else { self.inns(ai)[ai] }).len()/*-*/
            {
                let next = self.g.nodes[a.index()].next[k];
                /*+*/let ghost lst = if k == 0 { self.outs(ai)[ai] } else { self.inns(ai)[ai] };
                proof { assert(listed(self.ns(), ai, ai)); assert(slist(self.es(), self.ns()[ai].next[k as int], k as int, lst)); }/*-*/
                if next == EdgeIndex::end() {
                    break;
                }
                /*+*/let ghost m0 = *self;
                proof { assert(lst.len() > 0 && lst[0] == next.i()); assert(elive(self.es(), lst[0])); assert(self.es()[next.i()].node[k as int].i() == ai); }/*-*/
                let ret = self.remove_edge(next);
                assert(ret.is_some());
                let _ = ret;
                /*+*/proof {
                    assert(m0.wf_p(ai));
                    let e = next.i(); let x0 = m0.es()[e].node[0].i(); let x1 = m0.es()[e].node[1].i();
                    assert(m0.outs(ai)[x0].contains(e)); assert(m0.inns(ai)[x1].contains(e));
                    lemma_no_dup_remove(m0.outs(ai)[x0], pos_of(m0.outs(ai)[x0], e));
                    lemma_no_dup_remove(m0.inns(ai)[x1], pos_of(m0.inns(ai)[x1], e));
                    assert forall|j: int| elive(self.es(), j) implies elive(o.es(), j) && (#[trigger] self.es()[j]).weight == o.es()[j].weight && self.es()[j].node == o.es()[j].node by {
                        assert(j != e); assert(elive(m0.es(), j));
                    }
                    assert forall|j: int| elive(o.es(), j) && (#[trigger] o.es()[j]).node[0].i() != ai && o.es()[j].node[1].i() != ai implies elive(self.es(), j) by {
                        assert(elive(m0.es(), j)); assert(m0.es()[j].node == o.es()[j].node); assert(j != e);
                    }
                }/*-*/
            }
        }

        /*+*/let ghost m1 = *self;
        proof {
            // node_count >= 1: the free slots are duplicate-free, below the bound, and a is not one of them
            let fl = self.fnodes();
            if fl.contains(ai) { let i = choose|i: int| 0 <= i < fl.len() && fl[i] == ai; }
            lemma_nodup_bound_excl(fl, self.ns().len() as int, ai);
            lemma_nchain_range(self.ns(), self.free_node.0.ix() as int, fl);
            if fl.len() > 0 { assert(fl[0] != ai); }
        }/*-*/
        let node_slot = &mut self.g.nodes[a.index()];
        //let node_weight = replace(&mut self.g.nodes[a.index()].weight, Entry::Empty(self.free_node));
        //self.g.nodes[a.index()].next = [EdgeIndex::end(), EdgeIndex::end()];
        node_slot.next = [self.free_node._into_edge(), EdgeIndex::end()];
        if self.free_node != NodeIndex::end() {
            self.g.nodes[self.free_node.index()].next[1] = a._into_edge();
        }
        self.free_node = a;
        self.node_count -= 1;
        /*+*/proof {
            self.lemma_finish_removal(&m1, ai);
            // no live edge touches a any more
            assert forall|e: int| elive(o.es(), e) implies (elive(self.es(), e) <==> ((#[trigger] o.es()[e]).node[0].i() != ai && o.es()[e].node[1].i() != ai)) by {
                if elive(m1.es(), e) {
                    assert(m1.es()[e].node == o.es()[e].node);
                    let x0 = m1.es()[e].node[0].i(); let x1 = m1.es()[e].node[1].i();
                    assert(m1.outs(ai)[x0].contains(e)); assert(m1.inns(ai)[x1].contains(e));
                }
            }
        }/*-*/

        Some(node_weight)
    }
//@ end
}

/// following next[k2] in es2 is following next[k] in es on the members (reverse swaps the two link fields)
pub proof fn lemma_slist_swapdir<E, Ix: IndexType>(es: Seq<Edge<E, Ix>>, es2: Seq<Edge<E, Ix>>, head: EdgeIndex<Ix>, k: int, s: Seq<int>)
    requires 0 <= k < 2, slist(es, head, k, s), es2.len() == es.len(),
        forall|i: int| 0 <= i < s.len() ==> es2[#[trigger] s[i]].next[1 - k] == es[s[i]].next[k],
    ensures slist(es2, head, 1 - k, s)
    decreases s.len()
{
    if s.len() > 0 {
        let t = s.drop_first();
        assert forall|i: int| 0 <= i < t.len() implies es2[#[trigger] t[i]].next[1 - k] == es[t[i]].next[k] by { assert(t[i] == s[i + 1]); }
        assert(es2[s[0]].next[1 - k] == es[s[0]].next[k]);
        lemma_slist_swapdir(es, es2, es[s[0]].next[k], k, t);
    }
}
/// the effect of `reverse` on one list family
pub proof fn lemma_reverse_lists<N, E, Ix: IndexType>(ns0: Seq<Node<Option<N>, Ix>>, es0: Seq<Edge<Option<E>, Ix>>, ns1: Seq<Node<Option<N>, Ix>>, es1: Seq<Edge<Option<E>, Ix>>, k: int, ls: Seq<Seq<int>>)
    requires 0 <= k < 2, slists_ok(ns0, es0, k, ls, -1), ns1.len() == ns0.len(), es1.len() == es0.len(),
        forall|x: int| 0 <= x < ns0.len() ==> (#[trigger] ns1[x]).weight == ns0[x].weight && (nlive(ns0, x) ==> ns1[x].next[1 - k] == ns0[x].next[k]),
        forall|j: int| 0 <= j < es0.len() ==> (#[trigger] es1[j]).weight == es0[j].weight && (elive(es0, j) ==> es1[j].next[1 - k] == es0[j].next[k] && es1[j].node[1 - k] == es0[j].node[k]),
    ensures slists_ok(ns1, es1, 1 - k, ls, -1)
{
    assert forall|x: int| #[trigger] listed(ns1, -1, x) == listed(ns0, -1, x) by { }
    assert forall|j: int| #[trigger] elive(es1, j) == elive(es0, j) by { }
    assert forall|x: int| 0 <= x < ns1.len() && listed(ns1, -1, x) implies slist(es1, ns1[x].next[1 - k], 1 - k, #[trigger] ls[x]) && no_dup(ls[x]) by {
        let s = ls[x];
        assert forall|i: int| 0 <= i < s.len() implies es1[#[trigger] s[i]].next[1 - k] == es0[s[i]].next[k] by { assert(elive(es0, ls[x][i])); }
        lemma_slist_swapdir(es0, es1, ns0[x].next[k], k, s);
    }
    assert forall|x: int, i: int| 0 <= x < ns1.len() && 0 <= i < ls[x].len() implies elive(es1, #[trigger] ls[x][i]) && es1[ls[x][i]].node[1 - k].0.ix() == x by { assert(elive(es0, ls[x][i])); }
    assert forall|e: int| elive(es1, e) implies (#[trigger] es1[e]).node[1 - k].0.ix() < ns1.len() && listed(ns1, -1, es1[e].node[1 - k].0.ix() as int) by { assert(elive(es0, e)); }
    assert forall|e: int| elive(es1, e) implies (#[trigger] ls[es1[e].node[1 - k].0.ix() as int]).contains(e) by { assert(elive(es0, e)); }
}

impl<N, E, Ty, Ix> StableGraph<N, E, Ty, Ix>
where
    Ty: EdgeType,
    Ix: IndexType,
{
//@ item src/graph_impl/stable_graph/mod.rs | impl<N, E, Ty, Ix> StableGraph<N, E, Ty, Ix> where Ty: EdgeType, Ix: IndexType | fn reverse
    /// Reverse the direction of all edges
    pub fn reverse(&mut self)
        /*+*/requires old(self).wf()
        ensures final(self).wf(),                                                                                   // [reverse_keeps_bookkeeping] (both free lists survive)
            final(self).ns().len() == old(self).ns().len() && final(self).es().len() == old(self).es().len(),
            final(self).node_count == old(self).node_count && final(self).edge_count == old(self).edge_count,
            forall|x: int| 0 <= x < old(self).ns().len() ==> (#[trigger] final(self).ns()[x]).weight == old(self).ns()[x].weight,      // [reverse_keeps_nodes]
            forall|j: int| 0 <= j < old(self).es().len() ==> (#[trigger] final(self).es()[j]).weight == old(self).es()[j].weight,
            forall|j: int| elive(old(self).es(), j) ==> (#[trigger] final(self).es()[j]).node[0] == old(self).es()[j].node[1] && final(self).es()[j].node[1] == old(self).es()[j].node[0],   // [reverse_swaps_endpoints]
            final(self).outs(-1) == old(self).inns(-1) && final(self).inns(-1) == old(self).outs(-1)/*-*/,                 // [reverse_swaps_lists]
    {
        // swap edge endpoints,
        // edge incoming / outgoing lists,
        // node incoming / outgoing lists
        // vacant slots are skipped: their `next` fields link the free lists
        /*+*/let ghost es0 = self.es(); let ghost ns0 = self.ns();/*-*/
        /*R:D6 for edge in &mut self.g.edges */ let mut __i = 0usize; loop 
            invariant __i <= self.g.edges@.len(), self.g.edges@.len() == es0.len(), self.g.nodes@ == ns0,
                self.node_count == old(self).node_count, self.edge_count == old(self).edge_count, self.free_node == old(self).free_node, self.free_edge == old(self).free_edge,
                forall|j: int| 0 <= j < __i ==> (#[trigger] self.g.edges@[j]).weight == es0[j].weight
                    && (if es0[j].weight is Some { self.g.edges@[j].node[0] == es0[j].node[1] && self.g.edges@[j].node[1] == es0[j].node[0] && self.g.edges@[j].next[0] == es0[j].next[1] && self.g.edges@[j].next[1] == es0[j].next[0] } else { self.g.edges@[j] == es0[j] }),
                forall|j: int| __i <= j < es0.len() ==> #[trigger] self.g.edges@[j] == es0[j],
            ensures __i >= self.g.edges@.len(),
            decreases self.g.edges@.len() - __i/*-*/
        {
            /*+*/if __i >= self.g.edges.len() { break; } let edge = &mut self.g.edges[__i]; __i += 1;/*-*/
            if edge.weight.is_some() {
                edge.node.swap(0, 1);
                edge.next.swap(0, 1);
            }
        }
        /*+*/let ghost es1 = self.es();/*-*/
        /*R:D6 for node in &mut self.g.nodes */ let mut __i = 0usize; loop 
            invariant __i <= self.g.nodes@.len(), self.g.nodes@.len() == ns0.len(), self.g.edges@ == es1,
                self.node_count == old(self).node_count, self.edge_count == old(self).edge_count, self.free_node == old(self).free_node, self.free_edge == old(self).free_edge,
                forall|x: int| 0 <= x < __i ==> (#[trigger] self.g.nodes@[x]).weight == ns0[x].weight
                    && (if ns0[x].weight is Some { self.g.nodes@[x].next[0] == ns0[x].next[1] && self.g.nodes@[x].next[1] == ns0[x].next[0] } else { self.g.nodes@[x] == ns0[x] }),
                forall|x: int| __i <= x < ns0.len() ==> #[trigger] self.g.nodes@[x] == ns0[x],
            ensures __i >= self.g.nodes@.len(),
            decreases self.g.nodes@.len() - __i/*-*/
        {
            /*+*/if __i >= self.g.nodes.len() { break; } let node = &mut self.g.nodes[__i]; __i += 1;/*-*/
            if node.weight.is_some() {
                node.next.swap(0, 1);
            }
        }
        /*+*/proof {
            let ns1 = self.ns(); let out = old(self).outs(-1); let inn = old(self).inns(-1); let fl = old(self).fnodes(); let fe = old(self).fedges();
            lemma_reverse_lists(ns0, es0, ns1, es1, 0, out);
            lemma_reverse_lists(ns0, es0, ns1, es1, 1, inn);
            assert(free_nodes_ok(ns1, self.free_node.0.ix() as int, fl, -1)) by {
                assert forall|i: int| 0 <= i < fl.len() implies ns1[#[trigger] fl[i]] == ns0[fl[i]] by { assert(!nlive(ns0, fl[i])); }
                lemma_nchain_frame(ns0, ns1, old(self).free_node.0.ix() as int, fl);
                assert forall|x: int| #[trigger] nlive(ns1, x) == nlive(ns0, x) by { }
            }
            assert(free_edges_ok(es1, self.free_edge, fe)) by {
                lemma_slist_range(es0, old(self).free_edge, 0, fe);
                assert forall|i: int| 0 <= i < fe.len() implies (#[trigger] fe[i]) < es1.len() && es1[fe[i]].next[0] == es0[fe[i]].next[0] by { assert(!elive(es0, fe[i])); assert(es1[fe[i]] == es0[fe[i]]); }
                lemma_slist_frame(es0, es1, old(self).free_edge, 0, fe);
                assert forall|j: int| #[trigger] elive(es1, j) == elive(es0, j) by { }
            }
            assert(self.wf_with(inn, out, fl, fe, -1));
            self.lemma_wf_unique(inn, out, fl, fe, -1);
        }/*-*/
    }
//@ end
}

impl<N, E, Ty, Ix> StableGraph<N, E, Ty, Ix>
where
    Ty: EdgeType,
    Ix: IndexType,
{
//@ item src/graph_impl/stable_graph/mod.rs | impl<N, E, Ty, Ix> StableGraph<N, E, Ty, Ix> where Ty: EdgeType, Ix: IndexType | fn node_weight
    /// Access the weight for node `a`.
    ///
    /// Also available with indexing syntax: `&graph[a]`.
    pub fn node_weight(&self, a: NodeIndex<Ix>) -> (r: Option<&N>)
        /*+*/ensures r is Some <==> nlive(self.ns(), a.i()),                      // [node_weight_none_iff_absent_or_vacant]
            r is Some ==> Some(*r.unwrap()) == self.view().nodes[a.i()]/*-*/,       // [node_weight_view]
    {
        match self.g.nodes.get(a.index()) {
            Some(no) => no.weight.as_ref(),
            None => None,
        }
    }
//@ end

//@ item src/graph_impl/stable_graph/mod.rs | impl<N, E, Ty, Ix> StableGraph<N, E, Ty, Ix> where Ty: EdgeType, Ix: IndexType | fn edge_weight
    /// Access the weight for edge `e`.
    ///
    /// Also available with indexing syntax: `&graph[e]`.
    pub fn edge_weight(&self, e: EdgeIndex<Ix>) -> (r: Option<&E>)
        /*+*/ensures r is Some <==> elive(self.es(), e.i()),                      // [edge_weight_none_iff_absent_or_vacant]
            r is Some ==> Some(*r.unwrap()) == self.es()[e.i()].weight/*-*/,        // [edge_weight_view]
    {
        match self.g.edges.get(e.index()) {
            Some(ed) => ed.weight.as_ref(),
            None => None,
        }
    }
//@ end

//@ item src/graph_impl/stable_graph/mod.rs | impl<N, E, Ty, Ix> StableGraph<N, E, Ty, Ix> where Ty: EdgeType, Ix: IndexType | fn add_edge
    /// Add an edge from `a` to `b` to the graph, with its associated
    /// data `weight`.
    #[track_caller]
    pub fn add_edge(&mut self, a: NodeIndex<Ix>, b: NodeIndex<Ix>, weight: E) -> (r: EdgeIndex<Ix>)
        /*+*/requires old(self).wf(), old(self).edge_count < usize::MAX,
            nlive(old(self).ns(), a.i()) && nlive(old(self).ns(), b.i()),                                                        // [add_edge_panics_iff_node_missing]
            !(old(self).free_edge.i() == end_ix::<Ix>() && end_ix::<Ix>() != usize::MAX && old(self).es().len() == end_ix::<Ix>()),   // [add_edge_panics_iff_full]
        ensures final(self).wf(), !elive(old(self).es(), r.i()),
            final(self).view() == old(self).view().add_edge_at(r.i(), a.i(), b.i(), weight)/*-*/,     // [add_edge_view]
    {
        let res = self.try_add_edge(a, b, weight);
        if let Err(GraphError::NodeMissed(i)) = res {
            panic!(
                "StableGraph::add_edge: node index {} is not a node in the graph",
                i
            );
        }
        res.unwrap()
    }
//@ end

//@ item src/graph_impl/stable_graph/mod.rs | impl<N, E, Ty, Ix> StableGraph<N, E, Ty, Ix> where Ty: EdgeType, Ix: IndexType | fn clear
    /// Remove all nodes and edges
    pub fn clear(&mut self)
        /*+*/ensures final(self).wf(), final(self).ns().len() == 0, final(self).es().len() == 0, final(self).node_count == 0, final(self).edge_count == 0/*-*/,   // [clear_empty]
    {
        self.node_count = 0;
        self.edge_count = 0;
        self.free_node = NodeIndex::end();
        self.free_edge = EdgeIndex::end();
        self.g.clear();
        /*+*/proof {
            let e = Seq::<Seq<int>>::empty(); let n = Seq::<int>::empty();
            assert(self.wf_with(e, e, n, n, -1));
            self.lemma_wf_unique(e, e, n, n, -1);
        }/*-*/
    }
//@ end

//@ item src/graph_impl/stable_graph/mod.rs | impl<N, E, Ty, Ix> StableGraph<N, E, Ty, Ix> where Ty: EdgeType, Ix: IndexType | fn with_capacity
    /// Create a new `StableGraph` with estimated capacity.
    pub fn with_capacity(nodes: usize, edges: usize) -> (r: Self)
        /*+*/ensures r.wf(), r.ns().len() == 0, r.es().len() == 0, r.node_count == 0, r.edge_count == 0/*-*/,   // [new_is_empty]
    {
        /*+*/let r = {/*-*/ StableGraph {
            g: Graph::with_capacity(nodes, edges),
            node_count: 0,
            edge_count: 0,
            free_node: NodeIndex::end(),
            free_edge: EdgeIndex::end(),
        } /*+*/};
        proof {
            let e = Seq::<Seq<int>>::empty(); let n = Seq::<int>::empty();
            assert(r.wf_with(e, e, n, n, -1));
            r.lemma_wf_unique(e, e, n, n, -1);
        }
        r/*-*/
    }
//@ end
}
