// fragment indices.rs - NodeIndex / EdgeIndex newtypes (src/graph_impl/mod.rs)
//@ item src/graph_impl/mod.rs | - | struct NodeIndex
/// Node identifier.
#[derive(Copy, Clone, Default, PartialEq, PartialOrd, Eq, Ord, Hash, Debug)]
pub struct NodeIndex<Ix = DefaultIx>(pub Ix);
//@ end

//@ item src/graph_impl/mod.rs | - | struct EdgeIndex
/// Edge identifier.
#[derive(Copy, Clone, Default, PartialEq, PartialOrd, Eq, Ord, Hash)]
pub struct EdgeIndex<Ix = DefaultIx>(pub Ix);
//@ end


// D9: the derived PartialEq on the index newtypes is structural (trusted derive output)
impl<Ix: IndexType> PartialEqSpecImpl for NodeIndex<Ix> {
    open spec fn obeys_eq_spec() -> bool { true }
    open spec fn eq_spec(&self, other: &Self) -> bool { self.0.ix() == other.0.ix() }
}
pub open spec fn ix_order(a: usize, b: usize) -> Ordering { if a < b { Ordering::Less } else if a == b { Ordering::Equal } else { Ordering::Greater } }
impl<Ix: IndexType> vstd::std_specs::cmp::PartialOrdSpecImpl for NodeIndex<Ix> {
    open spec fn obeys_partial_cmp_spec() -> bool { true }
    open spec fn partial_cmp_spec(&self, other: &Self) -> Option<Ordering> { Some(ix_order(self.0.ix(), other.0.ix())) }
}
impl<Ix: IndexType> vstd::std_specs::cmp::OrdSpecImpl for NodeIndex<Ix> {
    open spec fn obeys_cmp_spec() -> bool { true }
    open spec fn cmp_spec(&self, other: &Self) -> Ordering { ix_order(self.0.ix(), other.0.ix()) }
}
impl<Ix: IndexType> PartialEqSpecImpl for EdgeIndex<Ix> {
    open spec fn obeys_eq_spec() -> bool { true }
    open spec fn eq_spec(&self, other: &Self) -> bool { self.0.ix() == other.0.ix() }
}

impl<Ix: IndexType> NodeIndex<Ix> {
    pub open spec fn i(self) -> int { self.0.ix() as int }
//@ item src/graph_impl/mod.rs | impl<Ix: IndexType> NodeIndex<Ix> | fn new
    #[inline]
    pub fn new(x: usize) -> (r: Self)
        /*+*/ensures r == NodeIndex(Ix::spec_new(x)), x <= Ix::spec_max() ==> r.0.ix() == x/*-*/
    {
        NodeIndex(IndexType::new(x))
    }
//@ end
//@ item src/graph_impl/mod.rs | impl<Ix: IndexType> NodeIndex<Ix> | fn index
    #[inline]
    pub fn index(self) -> (r: usize)
        /*+*/ensures r == self.0.ix(), r <= Ix::spec_max()/*-*/
    {
        self.0.index()
    }
//@ end
//@ item src/graph_impl/mod.rs | impl<Ix: IndexType> NodeIndex<Ix> | fn end
    #[inline]
    pub fn end() -> (r: Self)
        /*+*/ensures r.0.ix() == Ix::spec_max()/*-*/
    {
        NodeIndex(IndexType::max())
    }
//@ end
}

impl<Ix: IndexType> NodeIndex<Ix> {
//@ item src/graph_impl/mod.rs | impl<Ix: IndexType> NodeIndex<Ix> | fn _into_edge
    fn _into_edge(self) -> (r: EdgeIndex<Ix>)
        /*+*/ensures r.0 == self.0/*-*/
    {
        EdgeIndex(self.0)
    }
//@ end
}
impl<Ix: IndexType> EdgeIndex<Ix> {
//@ item src/graph_impl/mod.rs | impl<Ix: IndexType> EdgeIndex<Ix> | fn _into_node
    fn _into_node(self) -> (r: NodeIndex<Ix>)
        /*+*/ensures r.0 == self.0/*-*/
    {
        NodeIndex(self.0)
    }
//@ end
}
impl<Ix: IndexType> EdgeIndex<Ix> {
    pub open spec fn i(self) -> int { self.0.ix() as int }
//@ item src/graph_impl/mod.rs | impl<Ix: IndexType> EdgeIndex<Ix> | fn new
    #[inline]
    pub fn new(x: usize) -> (r: Self)
        /*+*/ensures r == EdgeIndex(Ix::spec_new(x)), x <= Ix::spec_max() ==> r.0.ix() == x/*-*/
    {
        EdgeIndex(IndexType::new(x))
    }
//@ end
//@ item src/graph_impl/mod.rs | impl<Ix: IndexType> EdgeIndex<Ix> | fn index
    #[inline]
    pub fn index(self) -> (r: usize)
        /*+*/ensures r == self.0.ix(), r <= Ix::spec_max()/*-*/
    {
        self.0.index()
    }
//@ end
//@ item src/graph_impl/mod.rs | impl<Ix: IndexType> EdgeIndex<Ix> | fn end
    /// An invalid `EdgeIndex` used to denote absence of an edge, for example
    /// to end an adjacency list.
    #[inline]
    pub fn end() -> (r: Self)
        /*+*/ensures r.0.ix() == Ix::spec_max()/*-*/
    {
        EdgeIndex(IndexType::max())
    }
//@ end
}

