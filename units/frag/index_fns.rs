// ======================================================================================
// fragment index_fns.rs - the free functions node_index / edge_index (src/graph_impl/mod.rs)
// ======================================================================================
//@ item src/graph_impl/mod.rs | - | fn node_index
/// Short version of `NodeIndex::new`
pub fn node_index<Ix: IndexType>(index: usize) -> (r: NodeIndex<Ix>)
    /*+*/ensures r == NodeIndex(Ix::spec_new(index)), index <= Ix::spec_max() ==> r.0.ix() == index/*-*/
{
    NodeIndex::new(index)
}
//@ end

//@ item src/graph_impl/mod.rs | - | fn edge_index
/// Short version of `EdgeIndex::new`
pub fn edge_index<Ix: IndexType>(index: usize) -> (r: EdgeIndex<Ix>)
    /*+*/ensures r == EdgeIndex(Ix::spec_new(index)), index <= Ix::spec_max() ==> r.0.ix() == index/*-*/
{
    EdgeIndex::new(index)
}
//@ end
