// ======================================================================================
// fragment matrix_visitable.rs - MatrixGraph as a Visitable (C06): the visit map has room for every node id below node_bound
// ======================================================================================

//@ item src/matrix_graph.rs | - | impl<N, E, S, Ty: EdgeType, Null: Nullable<Wrapped = E>, Ix: IndexType> Visitable for MatrixGraph<N, E, S, Ty, Null, Ix>
impl<N, E, S/*+*/: BuildHasher/*-*/, Ty: EdgeType, Null: Nullable<Wrapped = E>, Ix: IndexType> Visitable
    for MatrixGraph<N, E, S, Ty, Null, Ix>
{
    type Map = FixedBitSet;

    /*+*/open spec fn vis_node(&self, a: NodeIndex<Ix>) -> bool { a.i() < self.nodes.upper_bound }/*-*/

    fn visit_map(&self) -> FixedBitSet {
        /*+*/let r = {/*-*/ FixedBitSet::with_capacity(self.node_bound()) /*+*/};
        proof { assert(r.vset() =~= ISet::<NodeIndex<Ix>>::empty()); }
        r/*-*/
    }

    fn reset_map(&self, map: &mut Self::Map) {
        map.clear();
        map.grow(self.node_bound());
        /*+*/proof { assert(map.vset() =~= ISet::<NodeIndex<Ix>>::empty()); }/*-*/
    }
}
//@ end
