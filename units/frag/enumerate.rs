// ======================================================================================
// fragment enumerate.rs - stand-in for `iter::Enumerate` and the trusted constructor `enumerate_slice` (D23)
// ======================================================================================
// `iter::Enumerate` has no vstd specification.  The type is declared external; its `next` is then covered by vstd's generic
// prophetic `Iterator::next` contract, and the only ASSUMPTION is what the constructor yields (D23):
// `S.iter().enumerate()` -> `enumerate_slice(&S)`: the items of S in order, each paired with its index.
#[verifier::external_type_specification]
#[verifier::external_body]
#[verifier::reject_recursive_types(I)]
pub struct ExEnumerate<I>(iter::Enumerate<I>);
#[verifier::external_body]
pub fn enumerate_slice<'a, T>(s: &'a [T]) -> (r: iter::Enumerate<slice::Iter<'a, T>>)
    ensures r.obeys_prophetic_iter_laws(), r.decrease() is Some,
        r.remaining().len() == s@.len(),
        forall|i: int| 0 <= i < s@.len() ==> (#[trigger] r.remaining()[i]).0 == i && *r.remaining()[i].1 == s@[i]
{ s.iter().enumerate() }

// the crate's own helper `enumerate(x)` (src/util.rs) is what D23 reads as `x.into_iter().enumerate()`: pinned by hash
//@ pin src/util.rs | - | fn enumerate | 4ba4843d0d
