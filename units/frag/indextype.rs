// fragment indextype.rs - the repository's `IndexType` trait under contract (src/graph_impl/mod.rs)
//@ item src/graph_impl/mod.rs | - | trait IndexType
pub unsafe trait IndexType: Copy + Default + Hash + Ord + fmt::Debug + 'static {
    /*+*/
    spec fn ix(&self) -> usize;
    spec fn spec_max() -> usize;
    /// `==` on the index type is equality of the represented index (consequence of
    /// "faithfully preserve"); needed to reason about `x == y` in generic code.
    proof fn eq_law()
        ensures Self::obeys_eq_spec(),
                forall|a: Self, b: Self| #[trigger] a.eq_spec(&b) <==> a.ix() == b.ix();
    /// distinct values represent distinct indices
    proof fn ix_inj(a: Self, b: Self)
        ensures a.ix() == b.ix() ==> a == b;
    /// the value `new(x)` returns (a function of x: conversions are deterministic)
    spec fn spec_new(x: usize) -> Self;
    /// `new` preserves every index up to `max`
    proof fn new_law(x: usize)
        requires x <= Self::spec_max()
        ensures Self::spec_new(x).ix() == x;
    /// every value represents an index up to `max`
    proof fn ix_bound(a: Self)
        ensures a.ix() <= Self::spec_max();
    /// `Ord` on the index type is the order of the represented indices
    proof fn ord_law()
        ensures Self::obeys_cmp_spec(),
                forall|a: Self, b: Self| (#[trigger] a.cmp_spec(&b)) == (if a.ix() < b.ix() { Ordering::Less } else if a.ix() == b.ix() { Ordering::Equal } else { Ordering::Greater });
    /*-*/
    fn new(x: usize) -> (r: Self)
        /*+*/ensures r == Self::spec_new(x), x <= Self::spec_max() ==> r.ix() == x /*-*/;
    fn index(&self) -> (r: usize)
        /*+*/ensures r == self.ix(), r <= Self::spec_max() /*-*/;
    fn max() -> (r: Self)
        /*+*/ensures r.ix() == Self::spec_max() /*-*/;
}
//@ end

//@ item src/graph_impl/mod.rs | - | impl IndexType for usize
unsafe impl IndexType for usize {
    /*+*/
    open spec fn spec_new(x: usize) -> Self { x }
    proof fn new_law(x: usize) {}
    open spec fn ix(&self) -> usize { *self }
    open spec fn spec_max() -> usize { usize::MAX }
    proof fn eq_law() {}
    proof fn ix_inj(a: Self, b: Self) {}
    proof fn ix_bound(a: Self) {}
    proof fn ord_law() {}
    /*-*/
    #[inline(always)]
    fn new(x: usize) -> Self {
        x
    }
    #[inline(always)]
    fn index(&self) -> Self {
        *self
    }
    #[inline(always)]
    fn max() -> Self {
        usize::MAX
    }
}
//@ end

//@ item src/graph_impl/mod.rs | - | impl IndexType for u32
unsafe impl IndexType for u32 {
    /*+*/
    open spec fn spec_new(x: usize) -> Self { x as u32 }
    proof fn new_law(x: usize) {}
    open spec fn ix(&self) -> usize { *self as usize }
    open spec fn spec_max() -> usize { u32::MAX as usize }
    proof fn eq_law() {}
    proof fn ix_inj(a: Self, b: Self) {}
    proof fn ix_bound(a: Self) {}
    proof fn ord_law() {}
    /*-*/
    #[inline(always)]
    fn new(x: usize) -> Self {
        x as u32
    }
    #[inline(always)]
    fn index(&self) -> usize {
        *self as usize
    }
    #[inline(always)]
    fn max() -> Self {
        u32::MAX
    }
}
//@ end

//@ item src/graph_impl/mod.rs | - | impl IndexType for u16
unsafe impl IndexType for u16 {
    /*+*/
    open spec fn spec_new(x: usize) -> Self { x as u16 }
    proof fn new_law(x: usize) {}
    open spec fn ix(&self) -> usize { *self as usize }
    open spec fn spec_max() -> usize { u16::MAX as usize }
    proof fn eq_law() {}
    proof fn ix_inj(a: Self, b: Self) {}
    proof fn ix_bound(a: Self) {}
    proof fn ord_law() {}
    /*-*/
    #[inline(always)]
    fn new(x: usize) -> Self {
        x as u16
    }
    #[inline(always)]
    fn index(&self) -> usize {
        *self as usize
    }
    #[inline(always)]
    fn max() -> Self {
        u16::MAX
    }
}
//@ end

//@ item src/graph_impl/mod.rs | - | impl IndexType for u8
unsafe impl IndexType for u8 {
    /*+*/
    open spec fn spec_new(x: usize) -> Self { x as u8 }
    proof fn new_law(x: usize) {}
    open spec fn ix(&self) -> usize { *self as usize }
    open spec fn spec_max() -> usize { u8::MAX as usize }
    proof fn eq_law() {}
    proof fn ix_inj(a: Self, b: Self) {}
    proof fn ix_bound(a: Self) {}
    proof fn ord_law() {}
    /*-*/
    #[inline(always)]
    fn new(x: usize) -> Self {
        x as u8
    }
    #[inline(always)]
    fn index(&self) -> usize {
        *self as usize
    }
    #[inline(always)]
    fn max() -> Self {
        u8::MAX
    }
}
//@ end
