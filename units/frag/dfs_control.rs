// ======================================================================================
// fragment dfs_control.rs - src/visit/dfsvisit.rs: the control-flow vocabulary of depth_first_search under contract (C08):
// `Control`, the `ControlFlow` trait and its three impls, `Time` and its post-increment.  "For `Result`, upon encountering an `E` it
// will break, otherwise acting the same as `C`"; `()` always continues; `continuing()` neither breaks nor prunes.
// (depth_first_search / dfs_visitor themselves - recursion through `&mut FnMut` visitors inside the try_control! macro - are NOT under contract.)
// ======================================================================================

//@ item src/visit/dfsvisit.rs | - | struct Time
/// Strictly monotonically increasing event time for a depth first search.
#[derive(Copy, Clone)]
pub struct Time(pub usize);
//@ end

//@ item src/visit/dfsvisit.rs | - | enum Control
/// Control flow for `depth_first_search` callbacks.
#[derive(Copy, Clone)]
pub enum Control<B> {
    /// Continue the DFS traversal as normal.
    Continue,
    /// Prune the current node from the DFS traversal. No more edges from this
    /// node will be reported to the callback. A `DfsEvent::Finish` for this
    /// node will still be reported. This can be returned in response to any
    /// `DfsEvent`, except `Finish`, which will panic.
    Prune,
    /// Stop the DFS traversal and return the provided value.
    Break(B),
}
//@ end

impl<B> Control<B> {
//@ item src/visit/dfsvisit.rs | impl<B> Control<B> | fn breaking
    pub fn breaking() -> (r: Control<()>)
        /*+*/ensures r == Control::Break(())/*-*/
    {
        Control::Break(())
    }
//@ end
//@ item src/visit/dfsvisit.rs | impl<B> Control<B> | fn break_value
    /// Get the value in `Control::Break(_)`, if present.
    pub fn break_value(self) -> (r: Option<B>)
        /*+*/ensures r == (match self { Control::Break(b) => Some(b), _ => None })/*-*/   // [break_value_is_the_break_payload]
    {
        match self {
            Control::Continue | Control::Prune => None,
            Control::Break(b) => Some(b),
        }
    }
//@ end
}

//@ item src/visit/dfsvisit.rs | - | trait ControlFlow
/// Control flow for callbacks.
///
/// The empty return value `()` is equivalent to continue.
pub trait ControlFlow/*+*/: Sized/*-*/ {   // (D26: `fn continuing() -> Self` already requires it of every implementor)
    /*+*/
    /// "stop the whole search" / "do not descend from this node"
    spec fn brk(&self) -> bool;
    spec fn prn(&self) -> bool;
    /*-*/
    fn continuing() -> (r: Self)
        /*+*/ensures !r.brk() && !r.prn()/*-*/;   // [continuing_neither_breaks_nor_prunes]
    fn should_break(&self) -> (r: bool)
        /*+*/ensures r == self.brk()/*-*/;
    fn should_prune(&self) -> (r: bool)
        /*+*/ensures r == self.prn()/*-*/;
}
//@ end

//@ item src/visit/dfsvisit.rs | - | impl ControlFlow for ()
impl ControlFlow for () {
    /*+*/
    open spec fn brk(&self) -> bool { false }
    open spec fn prn(&self) -> bool { false }
    /*-*/
    fn continuing() {}
    #[inline]
    fn should_break(&self) -> bool {
        false
    }
    #[inline]
    fn should_prune(&self) -> bool {
        false
    }
}
//@ end

//@ item src/visit/dfsvisit.rs | - | impl<B> ControlFlow for Control<B>
impl<B> ControlFlow for Control<B> {
    /*+*/
    open spec fn brk(&self) -> bool { *self is Break }
    open spec fn prn(&self) -> bool { *self is Prune }
    /*-*/
    fn continuing() -> Self {
        Control::Continue
    }
    fn should_break(&self) -> bool {
        matches!(*self, Control::Break(_))
    }
    fn should_prune(&self) -> bool {
        matches!(*self, Control::Prune)
    }
}
//@ end

//@ item src/visit/dfsvisit.rs | - | impl<C: ControlFlow, E> ControlFlow for Result<C, E>
impl<C: ControlFlow, E> ControlFlow for Result<C, E> {
    /*+*/
    /// an error breaks; otherwise as the wrapped value says
    open spec fn brk(&self) -> bool { match *self { Ok(c) => c.brk(), Err(_) => true } }
    open spec fn prn(&self) -> bool { match *self { Ok(c) => c.prn(), Err(_) => false } }
    /*-*/
    fn continuing() -> Self {
        Ok(C::continuing())
    }
    fn should_break(&self) -> bool {
        if let Ok(ref c) = *self {
            c.should_break()
        } else {
            true
        }
    }
    fn should_prune(&self) -> bool {
        if let Ok(ref c) = *self {
            c.should_prune()
        } else {
            false
        }
    }
}
//@ end

//@ item src/visit/dfsvisit.rs | - | impl<B> Default for Control<B>
/// The default is `Continue`.
impl<B> Default for Control<B> {
    fn default() -> /*+*/(r:/*-*/ Self/*+*/)
        ensures r is Continue/*-*/
    {
        Control::Continue
    }
}
//@ end

//@ item src/visit/dfsvisit.rs | - | fn time_post_inc
fn time_post_inc(x: &mut Time) -> (v: Time)
    /*+*/requires old(x).0 < usize::MAX
    ensures v == *old(x), final(x).0 == old(x).0 + 1/*-*/   // [time_post_inc_returns_old_and_advances_by_one]
{
    let v = *x;
    x.0 += 1;
    v
}
//@ end
