// ======================================================================================
// fragment traversal_post.rs - src/visit/traversal.rs: DfsPostOrder (property C08)
// emitted = finished; each node is emitted once; at exhaustion finished = discovered = reachable set.
// NOT decided here: the post-order property itself (a node after its successors) and termination.
// ======================================================================================

//@ item src/visit/traversal.rs | - | struct DfsPostOrder
/// Visit nodes in a depth-first-search (DFS) emitting nodes in postorder
/// (each node after all its descendants have been emitted).
#[derive(Clone, Debug)]
pub struct DfsPostOrder<N, VM> {
    /// The stack of nodes to visit
    pub stack: Vec<N>,
    /// The map of discovered nodes
    pub discovered: VM,
    /// The map of finished nodes
    pub finished: VM,
}
//@ end

impl<N, VM> DfsPostOrder<N, VM>
where
    N: Copy + PartialEq,
    VM: VisitMap<N>,
{
    /// representation invariant: both maps have room for every node, only nodes are stacked, finished nodes are
    /// discovered, and every discovered node that is not finished yet waits on the stack
    pub open spec fn pinv<G: IntoNeighbors<NodeId = N>>(&self, g: G) -> bool {
        &&& g.inv()
        &&& forall|a: N| g.is_node(a) ==> #[trigger] self.discovered.holds(a)
        &&& forall|a: N| g.is_node(a) ==> #[trigger] self.finished.holds(a)
        &&& forall|i: int| 0 <= i < self.stack@.len() ==> g.is_node(#[trigger] self.stack@[i])
        &&& forall|x: N| #[trigger] self.finished.vset().contains(x) ==> self.discovered.vset().contains(x)
        &&& forall|x: N| #[trigger] self.discovered.vset().contains(x) && !self.finished.vset().contains(x) ==> self.stack@.contains(x)
    }
    pub open spec fn closed<G: IntoNeighbors<NodeId = N>>(&self, g: G) -> bool { closed_of(g, self.discovered.vset(), self.stack@) }
    pub open spec fn within<G: IntoNeighbors<NodeId = N>>(&self, g: G, s: ISet<N>) -> bool { within_of(g, self.discovered.vset(), self.stack@, s) }
    pub open spec fn covers(&self, s: ISet<N>) -> bool { covers_of(self.discovered.vset(), self.stack@, s) }

    /// THEOREM (C08, DfsPostOrder): when the traversal is exhausted, the emitted (= finished) set is exactly the set
    /// reachable from the start set
    pub proof fn lemma_exhausted_is_reach<G: IntoNeighbors<NodeId = N>>(&self, g: G, s: ISet<N>)
        requires self.pinv(g), self.closed(g), self.within(g, s), self.covers(s), self.stack@.len() == 0
        ensures forall|x: N| self.finished.vset().contains(x) <==> reach(g, s, x)
    {
        let d = self.discovered.vset();
        assert forall|x: N| reach(g, s, x) implies self.finished.vset().contains(x) by {
            let k = choose|k: nat| reach_in(g, s, x, k);
            assert(s.subset_of(d));
            lemma_reach_closed(g, s, d, x, k);
            if !self.finished.vset().contains(x) { assert(self.stack@.contains(x)); }
        }
    }

//@ item src/visit/traversal.rs | impl<N, VM> DfsPostOrder<N, VM> where N: Copy + PartialEq, VM: VisitMap<N> | fn new
    /// Create a new `DfsPostOrder` using the graph's visitor map, and put
    /// `start` in the stack of nodes to visit.
    pub fn new<G>(graph: G, start: N) -> (r: Self)
    where
        G: GraphRef + Visitable<NodeId = N, Map = VM>/*+*/,
        ensures r.stack@ == seq![start], r.discovered.vset() == ISet::<N>::empty(), r.finished.vset() == ISet::<N>::empty(),
            forall|a: N| graph.vis_node(a) ==> #[trigger] r.discovered.holds(a) && r.finished.holds(a)/*-*/,   // [post_new_starts_at_start]
    {
        let mut dfs = Self::empty(graph);
        dfs.move_to(start);
        dfs
    }
//@ end

//@ item src/visit/traversal.rs | impl<N, VM> DfsPostOrder<N, VM> where N: Copy + PartialEq, VM: VisitMap<N> | fn empty
    /// Create a new `DfsPostOrder` using the graph's visitor map, and no stack.
    pub fn empty<G>(graph: G) -> (r: Self)
    where
        G: GraphRef + Visitable<NodeId = N, Map = VM>/*+*/,
        ensures r.stack@.len() == 0, r.discovered.vset() == ISet::<N>::empty(), r.finished.vset() == ISet::<N>::empty(),
            forall|a: N| graph.vis_node(a) ==> #[trigger] r.discovered.holds(a) && r.finished.holds(a)/*-*/,
    {
        DfsPostOrder {
            stack: Vec::new(),
            discovered: graph.visit_map(),
            finished: graph.visit_map(),
        }
    }
//@ end

//@ item src/visit/traversal.rs | impl<N, VM> DfsPostOrder<N, VM> where N: Copy + PartialEq, VM: VisitMap<N> | fn reset
    /// Clear the visit state
    pub fn reset<G>(&mut self, graph: G)
    where
        G: GraphRef + Visitable<NodeId = N, Map = VM>/*+*/,
        ensures final(self).stack@.len() == 0, final(self).discovered.vset() == ISet::<N>::empty(), final(self).finished.vset() == ISet::<N>::empty(),
            forall|a: N| graph.vis_node(a) ==> #[trigger] final(self).discovered.holds(a) && final(self).finished.holds(a)/*-*/,   // [post_reset_clears_both_maps]
    {
        graph.reset_map(&mut self.discovered);
        graph.reset_map(&mut self.finished);
        self.stack.clear();
    }
//@ end

//@ item src/visit/traversal.rs | impl<N, VM> DfsPostOrder<N, VM> where N: Copy + PartialEq, VM: VisitMap<N> | fn move_to
    /// Keep the discovered and finished map, but clear the visit stack and restart
    /// the dfs from a particular node.
    pub fn move_to(&mut self, start: N)
        /*+*/ensures final(self).stack@ == seq![start], final(self).discovered == old(self).discovered, final(self).finished == old(self).finished/*-*/   // [post_move_to_restarts_keeping_maps]
    {
        self.stack.clear();
        self.stack.push(start);
    }
//@ end

//@ item src/visit/traversal.rs | impl<N, VM> DfsPostOrder<N, VM> where N: Copy + PartialEq, VM: VisitMap<N> | fn next
    /// Return the next node in the traversal, or `None` if the traversal is done.
    #[verifier::exec_allows_no_decreases_clause]   // termination is NOT verified (needs finiteness of the node set)
    pub fn next<G>(&mut self, graph: G) -> (r: Option<N>)
    where
        G: IntoNeighbors<NodeId = N>/*+*/,
        requires old(self).pinv(graph)
        ensures
            final(self).pinv(graph),
            old(self).closed(graph) ==> final(self).closed(graph),                                                   // [post_next_keeps_frontier_invariant]
            forall|s: ISet<N>| #[trigger] old(self).within(graph, s) ==> final(self).within(graph, s),               // [post_next_emits_only_reachable]
            forall|s: ISet<N>| #[trigger] old(self).covers(s) ==> final(self).covers(s),
            match r {
                Some(x) => !old(self).finished.vset().contains(x) && final(self).finished.vset() == old(self).finished.vset().insert(x),   // [post_next_each_node_once]
                None => final(self).stack@.len() == 0 && final(self).finished.vset() == old(self).finished.vset(),                         // [post_next_none_means_exhausted]
            }/*-*/
    {
        while let Some(/*R:D5 &nx */ __nx /*-*/) = self.stack.last()
            /*+*/invariant
                self.pinv(graph),
                old(self).closed(graph) ==> self.closed(graph),
                forall|s: ISet<N>| #[trigger] old(self).within(graph, s) ==> self.within(graph, s),
                forall|s: ISet<N>| #[trigger] old(self).covers(s) ==> self.covers(s),
                self.finished.vset() == old(self).finished.vset(),
            ensures self.stack@.len() == 0/*-*/
        { /*+*/let nx = *__nx;
            let ghost before = *self; let ghost pre = self.stack@; let ghost disc0 = self.discovered.vset(); let ghost fin0 = self.finished.vset();
            proof { assert(pre.len() > 0 && pre[pre.len() - 1] == nx); assert(graph.is_node(nx)); }/*-*/
            if self.discovered.visit(nx) {
                // First time visiting `nx`: Push neighbors, don't pop `nx`
                /*+*/let ghost disc1 = self.discovered.vset();/*-*/
                /*R:D11 for succ in */ let mut __it = /*-*/ graph.neighbors(nx) /*R:D11 */; let ghost all = __it.remaining(); let ghost mut done: int = 0; proof { graph.succ_law(nx); } loop
                    invariant
                        __it.obeys_prophetic_iter_laws(), __it.decrease() is Some,
                        0 <= done <= all.len(), __it.remaining() == all.skip(done),
                        all == graph.succ(nx),
                        self.discovered.vset() == disc1, self.finished == before.finished,
                        forall|a: N| graph.is_node(a) ==> #[trigger] self.discovered.holds(a),
                        forall|i: int| 0 <= i < all.len() ==> graph.is_node(#[trigger] all[i]),
                        forall|i: int| 0 <= i < pre.len() ==> self.stack@.contains(#[trigger] pre[i]),
                        forall|i: int| 0 <= i < self.stack@.len() ==> pre.contains(#[trigger] self.stack@[i]) || (exists|j: int| 0 <= j < done && all[j] == self.stack@[i]),
                        forall|i: int| 0 <= i < done ==> disc1.contains(#[trigger] all[i]) || self.stack@.contains(all[i]),
                    ensures done == all.len(),
                    decreases __it.decrease()->Some_0/*-*/
                { /*+*/match __it.next() { None => { break; }, Some(succ) => {
                    let ghost stk = self.stack@;
                    proof { assert(succ == all[done]); }/*-*/
                    if !self.discovered.is_visited(&succ) {
                        self.stack.push(succ);
                    }
                    /*+*/proof {
                        assert forall|i: int| 0 <= i < pre.len() implies self.stack@.contains(#[trigger] pre[i]) by {
                            let j = choose|j: int| 0 <= j < stk.len() && stk[j] == pre[i];
                            assert(self.stack@[j] == pre[i]);
                        }
                        assert forall|i: int| 0 <= i < self.stack@.len() implies pre.contains(#[trigger] self.stack@[i]) || (exists|j: int| 0 <= j < done + 1 && all[j] == self.stack@[i]) by {
                            if i < stk.len() { assert(self.stack@[i] == stk[i]);
                                if !pre.contains(stk[i]) { let j = choose|j: int| 0 <= j < done && all[j] == stk[i]; assert(0 <= j < done + 1 && all[j] == self.stack@[i]); } }
                            else { assert(self.stack@[i] == succ); assert(all[done] == succ); }
                        }
                        assert forall|i: int| 0 <= i < done + 1 implies disc1.contains(#[trigger] all[i]) || self.stack@.contains(all[i]) by {
                            if i < done {
                                if !disc1.contains(all[i]) {
                                    let j = choose|j: int| 0 <= j < stk.len() && stk[j] == all[i];
                                    assert(self.stack@[j] == all[i]);
                                }
                            } else {
                                if !disc1.contains(succ) { assert(self.stack@[self.stack@.len() - 1] == succ); }
                            }
                        }
                        assert(all.skip(done).skip(1) =~= all.skip(done + 1));
                        done = done + 1;
                    }
                } } /*-*/ }
                /*+*/proof {
                    assert(self.finished.vset() == fin0);
                    assert forall|i: int| 0 <= i < self.stack@.len() implies graph.is_node(#[trigger] self.stack@[i]) by {
                        if pre.contains(self.stack@[i]) { let j = choose|j: int| 0 <= j < pre.len() && pre[j] == self.stack@[i]; assert(before.stack@[j] == pre[j]); }
                        else { let j = choose|j: int| 0 <= j < done && all[j] == self.stack@[i]; }
                    }
                    assert forall|x: N| #[trigger] self.discovered.vset().contains(x) && !self.finished.vset().contains(x) implies self.stack@.contains(x) by {
                        if x == nx { assert(self.stack@.contains(pre[pre.len() - 1])); }
                        else { assert(disc0.contains(x)); assert(pre.contains(x)); let j = choose|j: int| 0 <= j < pre.len() && pre[j] == x; assert(self.stack@.contains(pre[j])); }
                    }
                    if old(self).closed(graph) {
                        assert forall|u: N, i: int| self.discovered.vset().contains(u) && 0 <= i < graph.succ(u).len() implies
                            self.discovered.vset().contains(#[trigger] graph.succ(u)[i]) || self.stack@.contains(graph.succ(u)[i]) by {
                            let v = graph.succ(u)[i];
                            if u == nx { assert(v == all[i]); }
                            else {
                                assert(disc0.contains(u));
                                assert(disc0.contains(v) || pre.contains(v));
                                if !disc0.contains(v) { let j = choose|j: int| 0 <= j < pre.len() && pre[j] == v; assert(self.stack@.contains(pre[j])); }
                            }
                        }
                    }
                    assert forall|s: ISet<N>| #[trigger] old(self).within(graph, s) implies self.within(graph, s) by {
                        assert(within_of(graph, disc0, pre, s));
                        assert(reach(graph, s, nx)) by { assert(pre[pre.len() - 1] == nx); }
                        assert forall|i: int| 0 <= i < self.stack@.len() implies reach(graph, s, #[trigger] self.stack@[i]) by {
                            if pre.contains(self.stack@[i]) { let j = choose|j: int| 0 <= j < pre.len() && pre[j] == self.stack@[i]; }
                            else { let j = choose|j: int| 0 <= j < done && all[j] == self.stack@[i]; lemma_reach_succ(graph, s, nx, j); }
                        }
                    }
                    assert forall|s: ISet<N>| #[trigger] old(self).covers(s) implies self.covers(s) by {
                        assert(covers_of(disc0, pre, s));
                        assert forall|x: N| s.contains(x) implies self.discovered.vset().contains(x) || self.stack@.contains(x) by {
                            if !disc0.contains(x) { let j = choose|j: int| 0 <= j < pre.len() && pre[j] == x; assert(self.stack@.contains(pre[j])); }
                        }
                    }
                }/*-*/
            } else {
                self.stack.pop();
                /*+*/let ghost st1 = self.stack@;
                proof {
                    assert(disc0.contains(nx)); assert(self.discovered.vset() =~= disc0);
                    assert(st1 =~= pre.drop_last());
                    assert forall|x: N| pre.contains(x) && x != nx implies st1.contains(x) by {
                        let j = choose|j: int| 0 <= j < pre.len() && pre[j] == x; assert(j < pre.len() - 1); assert(st1[j] == x);
                    }
                    assert forall|i: int| 0 <= i < st1.len() implies pre.contains(#[trigger] st1[i]) by { assert(pre[i] == st1[i]); }
                }/*-*/
                if self.finished.visit(nx) {
                    // Second time: All reachable nodes must have been finished
                    /*+*/proof {
                        assert forall|i: int| 0 <= i < st1.len() implies graph.is_node(#[trigger] st1[i]) by { assert(pre[i] == st1[i]); }
                        if old(self).closed(graph) {
                            assert forall|u: N, i: int| disc0.contains(u) && 0 <= i < graph.succ(u).len() implies disc0.contains(#[trigger] graph.succ(u)[i]) || st1.contains(graph.succ(u)[i]) by {
                                let v = graph.succ(u)[i]; assert(disc0.contains(v) || pre.contains(v));
                            }
                        }
                        assert forall|s: ISet<N>| #[trigger] old(self).within(graph, s) implies self.within(graph, s) by {
                            assert(within_of(graph, disc0, pre, s));
                            assert forall|i: int| 0 <= i < st1.len() implies reach(graph, s, #[trigger] st1[i]) by { assert(pre[i] == st1[i]); }
                        }
                        assert forall|s: ISet<N>| #[trigger] old(self).covers(s) implies self.covers(s) by { assert(covers_of(disc0, pre, s)); }
                    }/*-*/
                    return Some(nx);
                }
                /*+*/proof {
                    assert(fin0.contains(nx)); assert(self.finished.vset() =~= fin0);
                    assert forall|i: int| 0 <= i < st1.len() implies graph.is_node(#[trigger] st1[i]) by { assert(pre[i] == st1[i]); }
                    if old(self).closed(graph) {
                        assert forall|u: N, i: int| disc0.contains(u) && 0 <= i < graph.succ(u).len() implies disc0.contains(#[trigger] graph.succ(u)[i]) || st1.contains(graph.succ(u)[i]) by {
                            let v = graph.succ(u)[i]; assert(disc0.contains(v) || pre.contains(v));
                        }
                    }
                    assert forall|s: ISet<N>| #[trigger] old(self).within(graph, s) implies self.within(graph, s) by {
                        assert(within_of(graph, disc0, pre, s));
                        assert forall|i: int| 0 <= i < st1.len() implies reach(graph, s, #[trigger] st1[i]) by { assert(pre[i] == st1[i]); }
                    }
                    assert forall|s: ISet<N>| #[trigger] old(self).covers(s) implies self.covers(s) by { assert(covers_of(disc0, pre, s)); }
                }/*-*/
            }
        }
        None
    }
//@ end
}
