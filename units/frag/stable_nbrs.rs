// ======================================================================================
// fragment stable_nbrs.rs - the Neighbors iterator of StableGraph and its constructors (properties C02 / C06):
// neighbors*(a) yield exactly the far endpoints of the matching incidence lists of a live node a, in list order;
// the iterator only ever touches live edge slots (its `debug_assert!`s are proved from a type invariant)
// ======================================================================================

/// every edge on the list is a live slot
pub open spec fn all_live<E, Ix: IndexType>(es: Seq<Edge<Option<E>, Ix>>, s: Seq<int>) -> bool { forall|i: int| 0 <= i < s.len() ==> elive(es, #[trigger] s[i]) }

/// both pointers head chains of live edge slots
pub open spec fn nb_inv<E, Ix: IndexType>(es: Seq<Edge<Option<E>, Ix>>, n0: EdgeIndex<Ix>, n1: EdgeIndex<Ix>) -> bool {
    &&& has_chain(es, n0, 0) && has_chain(es, n1, 1)
    &&& all_live(es, chain_of(es, n0, 0))
    &&& all_live(es, chain_of(es, n1, 1))
}

//@ item src/graph_impl/stable_graph/mod.rs | - | struct Neighbors
/// Iterator over the neighbors of a node.
///
/// Iterator element type is `NodeIndex`.
pub struct Neighbors<'a, E: 'a, Ix: /*R:D24 'a */ 'a + IndexType /*-*/ = DefaultIx> {
    /// starting node to skip over
    skip_start: NodeIndex<Ix>,
    edges: &'a [Edge<Option<E>, Ix>],
    next: [EdgeIndex<Ix>; 2],
}
//@ end

impl<'a, E, Ix: IndexType> Neighbors<'a, E, Ix> {
    pub closed spec fn ev(&self) -> Seq<Edge<Option<E>, Ix>> { self.edges@ }
    pub closed spec fn skp(&self) -> NodeIndex<Ix> { self.skip_start }
    pub closed spec fn nx(&self) -> [EdgeIndex<Ix>; 2] { self.next }
    pub closed spec fn rest0(&self) -> Seq<int> { chain_of(self.edges@, self.next[0], 0) }
    pub closed spec fn rest1(&self) -> Seq<int> { chain_of(self.edges@, self.next[1], 1) }
    pub closed spec fn ok(&self) -> bool { has_chain(self.edges@, self.next[0], 0) && has_chain(self.edges@, self.next[1], 1) }
    pub closed spec fn rem(&self) -> Seq<NodeIndex<Ix>> { nb_out(self.edges@, self.rest0()) + nb_in(self.edges@, self.rest1(), self.skip_start.0.ix() as int) }
    /// TYPE INVARIANT: both pointers head chains of live edge slots (established by StableGraph::neighbors_undirected from wf())
    #[verifier::type_invariant]
    closed spec fn tinv(self) -> bool { nb_inv(self.edges@, self.next[0], self.next[1]) }
}
impl<'a, E, Ix: IndexType> vstd::std_specs::iter::IteratorSpecImpl for Neighbors<'a, E, Ix> {
    closed spec fn obeys_prophetic_iter_laws(&self) -> bool { self.ok() }
    closed spec fn remaining(&self) -> Seq<NodeIndex<Ix>> { self.rem() }
    closed spec fn decrease(&self) -> Option<nat> { Some((self.rest0().len() + self.rest1().len()) as nat) }
    closed spec fn will_return_none(&self) -> bool { true }
    closed spec fn peek(&self, i: int) -> Option<NodeIndex<Ix>> { None }
}

//@ item src/graph_impl/stable_graph/mod.rs | - | impl<E, Ix> Iterator for Neighbors<'_, E, Ix> where Ix: IndexType
impl<E, Ix> Iterator for Neighbors<'_, E, Ix>
where
    Ix: IndexType,
{
    type Item = NodeIndex<Ix>;

    fn next(&mut self) -> Option<NodeIndex<Ix>> {
        /*+*/proof { use_type_invariant(&*self); lemma_chain_step(self.edges@, self.next[0], 0); }/*-*/
        // First any outgoing edges
        match self.edges.get(self.next[0].index()) {
            None => {}
            Some(edge) => {
                /*+*/proof { let r0 = self.rest0(); assert(r0[0] == self.next[0].0.ix()); assert(elive(self.edges@, r0[0]));
                    let t0 = chain_of(self.edges@, edge.next[0], 0);
                    assert(r0 == seq![self.next[0].0.ix() as int] + t0);
                    assert(all_live(self.edges@, t0)) by { assert forall|i: int| 0 <= i < t0.len() implies elive(self.edges@, #[trigger] t0[i]) by { assert(r0[i + 1] == t0[i]); } } }/*-*/
                debug_assert!(edge.weight.is_some());
                self.next[0] = edge.next[0];
                /*+*/proof {
                    let r0 = old(self).rest0();
                    assert(r0 == seq![old(self).next[0].0.ix() as int] + self.rest0());
                    assert(nb_out(self.edges@, r0) =~= seq![edge.node[1]] + nb_out(self.edges@, self.rest0()));
                    assert(old(self).rem() =~= seq![edge.node[1]] + self.rem());
                    assert((seq![edge.node[1]] + self.rem()).drop_first() =~= self.rem());
                    assert forall|i: int| 0 <= i < self.rest0().len() implies elive(self.edges@, #[trigger] self.rest0()[i]) by { assert(r0[i + 1] == self.rest0()[i]); }
                }/*-*/
                return Some(edge.node[1]);
            }
        }
        // Then incoming edges
        // For an "undirected" iterator (traverse both incoming
        // and outgoing edge lists), make sure we don't double
        // count selfloops by skipping them in the incoming list.
        /*+*/proof { assert(nb_out(self.edges@, self.rest0()) =~= Seq::<NodeIndex<Ix>>::empty()); lemma_chain_step(self.edges@, self.next[1], 1); }/*-*/
        while let Some(edge) = self.edges.get(self.next[1].index())
            /*+*/invariant self.edges == old(self).edges, self.skip_start == old(self).skip_start, self.next[0] == old(self).next[0],
                self.next[0].0.ix() >= self.edges@.len(), self.tinv(), old(self).ok(),
                self.rem() == old(self).rem() && self.rest1().len() <= old(self).rest1().len() && self.rest0().len() == 0 && old(self).rest0().len() == 0,
            ensures self.next[1].0.ix() >= self.edges@.len(),
            decreases self.rest1().len()/*-*/
        {
            /*+*/let ghost before = *self;
            proof { lemma_chain_step(self.edges@, self.next[1], 1); Ix::eq_law(); let r1 = self.rest1(); assert(r1[0] == self.next[1].0.ix()); assert(elive(self.edges@, r1[0]));
                let t1 = chain_of(self.edges@, edge.next[1], 1);
                assert(r1 == seq![self.next[1].0.ix() as int] + t1);
                assert(all_live(self.edges@, t1)) by { assert forall|i: int| 0 <= i < t1.len() implies elive(self.edges@, #[trigger] t1[i]) by { assert(r1[i + 1] == t1[i]); } } }/*-*/
            debug_assert!(edge.weight.is_some());
            self.next[1] = edge.next[1];
            /*+*/proof {
                lemma_chain_step(self.edges@, self.next[0], 0);
                let r1 = before.rest1();
                assert(r1 == seq![before.next[1].0.ix() as int] + self.rest1());
                assert(r1.drop_first() =~= self.rest1());
                assert(self.rest0() == before.rest0());
                assert forall|i: int| 0 <= i < self.rest1().len() implies elive(self.edges@, #[trigger] self.rest1()[i]) by { assert(r1[i + 1] == self.rest1()[i]); }
            }/*-*/
            if edge.node[0] != self.skip_start {
                /*+*/proof {
                    assert(before.rem() =~= seq![edge.node[0]] + self.rem());
                    assert((seq![edge.node[0]] + self.rem()).drop_first() =~= self.rem());
                }/*-*/
                return Some(edge.node[0]);
            }
            /*+*/proof { assert(before.rem() =~= self.rem()); }/*-*/
        }
        /*+*/proof {
            lemma_chain_step(self.edges@, self.next[1], 1); lemma_chain_step(self.edges@, self.next[0], 0);
            assert(self.rem() =~= Seq::<NodeIndex<Ix>>::empty());
        }/*-*/
        None
    }
}
//@ end

impl<N, E, Ty, Ix> StableGraph<N, E, Ty, Ix>
where
    Ty: EdgeType,
    Ix: IndexType,
{
    /// what `neighbors_directed(a, dir)` yields (nothing for a vacant or out-of-range a)
    pub open spec fn nbrs_of(&self, a: int, k: int) -> Seq<NodeIndex<Ix>> {
        if !nlive(self.ns(), a) { Seq::empty() }
        else if Ty::spec_is_directed() {
            if k == 0 { nb_out(self.es(), self.outs(-1)[a]) } else { Seq::new(self.inns(-1)[a].len(), |i: int| self.es()[self.inns(-1)[a][i]].node[0]) }
        } else {
            nb_out(self.es(), self.outs(-1)[a]) + nb_in(self.es(), self.inns(-1)[a], a)
        }
    }

//@ item src/graph_impl/stable_graph/mod.rs | impl<N, E, Ty, Ix> StableGraph<N, E, Ty, Ix> where Ty: EdgeType, Ix: IndexType | fn neighbors
    pub fn neighbors(&self, a: NodeIndex<Ix>) -> (r: Neighbors<E, Ix>)
        /*+*/requires self.wf()
        ensures r.obeys_prophetic_iter_laws(), r.decrease() is Some, r.remaining() == self.nbrs_of(a.i(), 0)/*-*/   // [stable_neighbors_is_outgoing_list]
    {
        self.neighbors_directed(a, Outgoing)
    }
//@ end

//@ item src/graph_impl/stable_graph/mod.rs | impl<N, E, Ty, Ix> StableGraph<N, E, Ty, Ix> where Ty: EdgeType, Ix: IndexType | fn neighbors_directed
    pub fn neighbors_directed(&self, a: NodeIndex<Ix>, dir: Direction) -> (r: Neighbors<E, Ix>)
        /*+*/requires self.wf()
        ensures r.obeys_prophetic_iter_laws(), r.decrease() is Some, r.remaining() == self.nbrs_of(a.i(), dir.k())/*-*/   // [stable_neighbors_directed_is_matching_list]
    {
        let mut iter = self.neighbors_undirected(a);
        if self.is_directed() {
            let k = dir.index();
            /*+*/proof {
                use_type_invariant(&iter);
                let es = self.es();
                assert(iter.ev() == es);
                assert forall|h: EdgeIndex<Ix>, kk: int| h.0.ix() == end_ix::<Ix>() && 0 <= kk < 2 implies has_chain(es, h, kk) && (#[trigger] chain_of(es, h, kk)).len() == 0 && all_live(es, chain_of(es, h, kk)) by { lemma_chain_step(es, h, kk); }
                assert(nb_inv(es, iter.nx()[0], iter.nx()[1]));
                assert forall|h: EdgeIndex<Ix>| h.0.ix() == end_ix::<Ix>() implies #[trigger] nb_inv(es, h, iter.nx()[1]) by { lemma_chain_step(es, h, 0); }
                assert forall|h: EdgeIndex<Ix>| h.0.ix() == end_ix::<Ix>() implies #[trigger] nb_inv(es, iter.nx()[0], h) by { lemma_chain_step(es, h, 1); }
            }/*-*/
            iter.next[1 - k] = EdgeIndex::end();
            iter.skip_start = NodeIndex::end();
            /*+*/proof {
                let es = self.es(); let ai = a.i();
                lemma_chain_step(es, iter.next[1 - k as int], 1 - k as int);
                if nlive(self.ns(), ai) {
                    let o = self.outs(-1)[ai]; let i_ = self.inns(-1)[ai];
                    if k == 0 {
                        assert(iter.rest0() == o); assert(iter.rest1().len() == 0);
                        assert(nb_in(es, iter.rest1(), iter.skip_start.0.ix() as int) =~= Seq::<NodeIndex<Ix>>::empty());
                        assert(iter.rem() =~= nb_out(es, o));
                    } else {
                        assert(iter.rest1() == i_); assert(iter.rest0().len() == 0);
                        assert(nb_out(es, iter.rest0()) =~= Seq::<NodeIndex<Ix>>::empty());
                        lemma_slist_range(es, self.ns()[ai].next[1], 1, i_);
                        assert forall|j: int| 0 <= j < i_.len() implies 0 <= #[trigger] i_[j] < es.len() && es[i_[j]].node[0].0.ix() != end_ix::<Ix>() by { assert(elive(es, i_[j])); assert(es[i_[j]].node[0].0.ix() < self.ns().len()); }
                        lemma_nb_in_all(es, i_, end_ix::<Ix>() as int);
                        assert(iter.rem() =~= Seq::new(i_.len(), |j: int| es[i_[j]].node[0]));
                    }
                } else {
                    lemma_chain_step(es, iter.next[k as int], k as int);
                    assert(nb_out(es, iter.rest0()) =~= Seq::<NodeIndex<Ix>>::empty());
                    assert(iter.rem() =~= Seq::<NodeIndex<Ix>>::empty());
                }
            }/*-*/
        }
        iter
    }
//@ end

//@ item src/graph_impl/stable_graph/mod.rs | impl<N, E, Ty, Ix> StableGraph<N, E, Ty, Ix> where Ty: EdgeType, Ix: IndexType | fn neighbors_undirected
    pub fn neighbors_undirected(&self, a: NodeIndex<Ix>) -> (r: Neighbors<E, Ix>)
        /*+*/requires self.wf()
        ensures r.obeys_prophetic_iter_laws(), r.decrease() is Some, r.ev() == self.es(), r.skp() == a,
            nlive(self.ns(), a.i()) ==> r.nx() == self.ns()[a.i()].next && r.rest0() == self.outs(-1)[a.i()] && r.rest1() == self.inns(-1)[a.i()],
            !nlive(self.ns(), a.i()) ==> r.nx()[0].0.ix() >= self.es().len() && r.nx()[1].0.ix() >= self.es().len() && r.remaining() == Seq::<NodeIndex<Ix>>::empty(),
            nlive(self.ns(), a.i()) ==> r.remaining() == nb_out(self.es(), self.outs(-1)[a.i()]) + nb_in(self.es(), self.inns(-1)[a.i()], a.i())/*-*/   // [stable_neighbors_undirected_both_lists_loops_once]
    {
        /*+*/proof {
            let es = self.es(); let ai = a.i();
            if nlive(self.ns(), ai) {
                let o = self.outs(-1)[ai]; let i_ = self.inns(-1)[ai];
                lemma_slist_is_chain(es, self.ns()[ai].next[0], 0, o); lemma_chain_of(es, self.ns()[ai].next[0], 0, o);
                lemma_slist_is_chain(es, self.ns()[ai].next[1], 1, i_); lemma_chain_of(es, self.ns()[ai].next[1], 1, i_);
                assert(all_live(es, o)) by { assert forall|j: int| 0 <= j < o.len() implies elive(es, #[trigger] o[j]) by { assert(elive(es, self.outs(-1)[ai][j])); } }
                assert(all_live(es, i_)) by { assert forall|j: int| 0 <= j < i_.len() implies elive(es, #[trigger] i_[j]) by { assert(elive(es, self.inns(-1)[ai][j])); } }
            }
            assert forall|h: EdgeIndex<Ix>, kk: int| h.0.ix() == end_ix::<Ix>() && 0 <= kk < 2 implies has_chain(es, h, kk) && (#[trigger] chain_of(es, h, kk)).len() == 0 && all_live(es, chain_of(es, h, kk)) by { lemma_chain_step(es, h, kk); }
            if nlive(self.ns(), ai) { assert(nb_inv(es, self.ns()[ai].next[0], self.ns()[ai].next[1])); }
            assert forall|h0: EdgeIndex<Ix>, h1: EdgeIndex<Ix>| h0.0.ix() == end_ix::<Ix>() && h1.0.ix() == end_ix::<Ix>() implies #[trigger] nb_inv(es, h0, h1) by { lemma_chain_step(es, h0, 0); lemma_chain_step(es, h1, 1); }
        }
        let r = {/*-*/ Neighbors {
            skip_start: a,
            edges: &self.g.edges,
            next: match self.get_node(a) {
                None => [EdgeIndex::end(), EdgeIndex::end()],
                Some(n) => n.next,
            },
        } /*+*/};
        proof {
            let es = self.es(); let ai = a.i();
            if !nlive(self.ns(), ai) {
                lemma_chain_step(es, r.next[0], 0); lemma_chain_step(es, r.next[1], 1);
                assert(nb_out(es, r.rest0()) =~= Seq::<NodeIndex<Ix>>::empty());
                assert(r.rem() =~= Seq::<NodeIndex<Ix>>::empty());
            }
        }
        r/*-*/
    }
//@ end
}
