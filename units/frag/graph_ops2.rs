// ======================================================================================
// fragment graph_ops2.rs - Graph lookups, weights, update_edge, clear*, first/next_edge (C01)
// ======================================================================================

impl<N, E> MG<N, E> {
    /// `find_edge(a, b)` on the mathematical multigraph: directed - the most recently added a->b edge;
    /// undirected - first the out-list of a (targets), then the in-list of a (sources)
    pub open spec fn tgt_is(self, b: int) -> spec_fn(int) -> bool { |e: int| self.edges[e].1 == b }
    pub open spec fn src_is(self, b: int) -> spec_fn(int) -> bool { |e: int| self.edges[e].0 == b }
    pub open spec fn find(self, directed: bool, a: int, b: int) -> Option<(int, Direction)> {
        if !(0 <= a < self.nodes.len()) { None }
        else {
            match first_with(self.out[a], self.tgt_is(b)) {
                Some(e) => Some((e, Direction::Outgoing)),
                None => if directed { None } else {
                    match first_with(self.inn[a], self.src_is(b)) {
                        Some(e) => Some((e, Direction::Incoming)),
                        None => None,
                    }
                }
            }
        }
    }
}

impl<N, E, Ty, Ix> Graph<N, E, Ty, Ix>
where
    Ty: EdgeType,
    Ix: IndexType,
{
    /// concrete-level statement of the k-list lookup, bridged to the view by lemma_find_bridge
    pub open spec fn first_k(&self, a: int, k: int, b: int) -> Option<int> {
        first_with(if k == 0 { self.outs()[a] } else { self.inns()[a] }, endpoint_is(self.edges@, 1 - k, b))
    }
    pub proof fn lemma_find_bridge(&self, a: int, b: int)
        requires self.wf(), 0 <= a < self.n()
        ensures
            first_with(self.view().out[a], self.view().tgt_is(b)) == self.first_k(a, 0, b),
            first_with(self.view().inn[a], self.view().src_is(b)) == self.first_k(a, 1, b),
    {
        let v = self.view();
        lemma_slist_range(self.edges@, self.nodes@[a].next[0], 0, self.outs()[a]);
        lemma_slist_range(self.edges@, self.nodes@[a].next[1], 1, self.inns()[a]);
        lemma_first_with_ext(self.outs()[a], v.tgt_is(b), endpoint_is(self.edges@, 1, b));
        lemma_first_with_ext(self.inns()[a], v.src_is(b), endpoint_is(self.edges@, 0, b));
    }
    pub proof fn lemma_node_lists(&self, a: int)
        requires self.wf(), 0 <= a < self.n()
        ensures
            slist(self.edges@, self.nodes@[a].next[0], 0, self.outs()[a]), list_of(self.edges@, self.nodes@[a].next[0], 0) == self.outs()[a],
            slist(self.edges@, self.nodes@[a].next[1], 1, self.inns()[a]), list_of(self.edges@, self.nodes@[a].next[1], 1) == self.inns()[a],
    {
    }
    pub proof fn lemma_first_k_in_range(&self, a: int, k: int, b: int)
        requires self.wf(), 0 <= a < self.n(), 0 <= k < 2
        ensures self.first_k(a, k, b) is Some ==> 0 <= self.first_k(a, k, b).unwrap() < self.m()
    {
        let s = if k == 0 { self.outs()[a] } else { self.inns()[a] };
        lemma_slist_range(self.edges@, self.nodes@[a].next[k], k, s);
        lemma_first_with_member(s, endpoint_is(self.edges@, 1 - k, b));
    }

//@ item src/graph_impl/mod.rs | impl<N, E, Ty, Ix> Graph<N, E, Ty, Ix> where Ty: EdgeType, Ix: IndexType | fn node_weight
    pub fn node_weight(&self, a: NodeIndex<Ix>) -> (r: Option<&N>)
        /*+*/ensures
            a.i() >= self.n() <==> r is None,                          // [node_weight_none_iff_absent]
            r is Some ==> *r.unwrap() == self.view().nodes[a.i()]/*-*/,     // [node_weight_view]
    {
        self.nodes.get(a.index()).map(|n/*+*/: &Node<N, Ix>/*-*/| /*+*/-> (w: &N) ensures *w == n.weight {/*-*/ &n.weight /*+*/}/*-*/)
    }
//@ end

//@ item src/graph_impl/mod.rs | impl<N, E, Ty, Ix> Graph<N, E, Ty, Ix> where Ty: EdgeType, Ix: IndexType | fn edge_weight
    pub fn edge_weight(&self, e: EdgeIndex<Ix>) -> (r: Option<&E>)
        /*+*/ensures
            e.i() >= self.m() <==> r is None,                          // [edge_weight_none_iff_absent]
            r is Some ==> *r.unwrap() == self.view().edges[e.i()].2/*-*/,   // [edge_weight_view]
    {
        self.edges.get(e.index()).map(|ed/*+*/: &Edge<E, Ix>/*-*/| /*+*/-> (w: &E) ensures *w == ed.weight {/*-*/ &ed.weight /*+*/}/*-*/)
    }
//@ end

//@ item src/graph_impl/mod.rs | impl<N, E, Ty, Ix> Graph<N, E, Ty, Ix> where Ty: EdgeType, Ix: IndexType | fn edge_endpoints
    pub fn edge_endpoints(&self, e: EdgeIndex<Ix>) -> (r: Option<(NodeIndex<Ix>, NodeIndex<Ix>)>)
        /*+*/ensures
            e.i() >= self.m() <==> r is None,                          // [edge_endpoints_none_iff_absent]
            r is Some ==> r.unwrap().0.i() == self.view().edges[e.i()].0 && r.unwrap().1.i() == self.view().edges[e.i()].1/*-*/,   // [edge_endpoints_view]
    {
        self.edges
            .get(e.index())
            .map(|ed/*+*/: &Edge<E, Ix>/*-*/| /*+*/-> (p: (NodeIndex<Ix>, NodeIndex<Ix>)) ensures p.0 == ed.node[0], p.1 == ed.node[1] {/*-*/ (ed.source(), ed.target()) /*+*/}/*-*/)
    }
//@ end

//@ item src/graph_impl/mod.rs | impl<N, E, Ty, Ix> Graph<N, E, Ty, Ix> where Ty: EdgeType, Ix: IndexType | fn contains_edge
    pub fn contains_edge(&self, a: NodeIndex<Ix>, b: NodeIndex<Ix>) -> (r: bool)
        /*+*/requires self.wf()
        ensures r == (self.view().find(Ty::spec_is_directed(), a.i(), b.i()) is Some)/*-*/   // [contains_edge_view]
    {
        self.find_edge(a, b).is_some()
    }
//@ end

//@ item src/graph_impl/mod.rs | impl<N, E, Ty, Ix> Graph<N, E, Ty, Ix> where Ty: EdgeType, Ix: IndexType | fn find_edge
    pub fn find_edge(&self, a: NodeIndex<Ix>, b: NodeIndex<Ix>) -> (r: Option<EdgeIndex<Ix>>)
        /*+*/requires self.wf()
        ensures
            match (r, self.view().find(Ty::spec_is_directed(), a.i(), b.i())) {
                (Some(e), Some((ev, d))) => e.i() == ev && ev < self.m(),   // [find_edge_view]
                (None, None) => true,
                _ => false,
            }/*-*/
    {
        if !self.is_directed() {
            self.find_edge_undirected(a, b).map(|/*R:D10 (ix, _) */ t: (EdgeIndex<Ix>, Direction) /*-*/| /*+*/-> (x: EdgeIndex<Ix>) ensures x == t.0 {/*-*/ /*R:D10 ix */ t.0  }/*-*/)
        } else {
            match self.nodes.get(a.index()) {
                None => None,
                Some(node) => /*+*/{ proof { self.lemma_find_bridge(a.i(), b.i()); self.lemma_first_k_in_range(a.i(), 0, b.i()); self.lemma_node_lists(a.i()); }/*-*/ self.find_edge_directed_from_node(node, b) /*+*/}/*-*/,
            }
        }
    }
//@ end

//@ item src/graph_impl/mod.rs | impl<N, E, Ty, Ix> Graph<N, E, Ty, Ix> where Ty: EdgeType, Ix: IndexType | fn find_edge_undirected
    pub fn find_edge_undirected(
        &self,
        a: NodeIndex<Ix>,
        b: NodeIndex<Ix>,
    ) -> (r: Option<(EdgeIndex<Ix>, Direction)>)
        /*+*/requires self.wf()
        ensures
            match (r, self.view().find(false, a.i(), b.i())) {
                (Some((e, d)), Some((ev, dv))) => e.i() == ev && d == dv && ev < self.m(),   // [find_edge_undirected_view]
                (None, None) => true,
                _ => false,
            }/*-*/
    {
        match self.nodes.get(a.index()) {
            None => None,
            Some(node) => /*+*/{ proof { self.lemma_find_bridge(a.i(), b.i()); self.lemma_first_k_in_range(a.i(), 0, b.i()); self.lemma_first_k_in_range(a.i(), 1, b.i()); self.lemma_node_lists(a.i()); }/*-*/ self.find_edge_undirected_from_node(node, b) /*+*/}/*-*/,
        }
    }
//@ end

//@ item src/graph_impl/mod.rs | impl<N, E, Ty, Ix> Graph<N, E, Ty, Ix> where Ty: EdgeType, Ix: IndexType | fn find_edge_undirected_from_node
    fn find_edge_undirected_from_node(
        &self,
        node: &Node<N, Ix>,
        b: NodeIndex<Ix>,
    ) -> (r: Option<(EdgeIndex<Ix>, Direction)>)
        /*+*/requires
            self.m() <= end_ix::<Ix>(),
            exists|s: Seq<int>| slist(self.edges@, node.next[0], 0, s),
            exists|s: Seq<int>| slist(self.edges@, node.next[1], 1, s),
        ensures
            ({ let s0 = list_of(self.edges@, node.next[0], 0);
               let s1 = list_of(self.edges@, node.next[1], 1);
               let f0 = first_with(s0, endpoint_is(self.edges@, 1, b.i()));
               let f1 = first_with(s1, endpoint_is(self.edges@, 0, b.i()));
               match r {
                    Some((e, d)) => (d == Direction::Outgoing && f0 == Some(e.i())) || (d == Direction::Incoming && f0 is None && f1 == Some(e.i())),
                    None => f0 is None && f1 is None,
               } })/*-*/
    {
        /*+*/let ghost l0 = list_of(self.edges@, node.next[0], 0);
        let ghost l1 = list_of(self.edges@, node.next[1], 1);/*-*/
        for /*R:D5 &d */ __d /*-*/ in /*+*/it:/*-*/ &DIRECTIONS
            /*+*/invariant
                it.seq().len() == 2, it.seq()[0] == Direction::Outgoing, it.seq()[1] == Direction::Incoming,
                self.m() <= end_ix::<Ix>(),
                l0 == list_of(self.edges@, node.next[0], 0), l1 == list_of(self.edges@, node.next[1], 1),
                slist(self.edges@, node.next[0], 0, l0), slist(self.edges@, node.next[1], 1, l1),
                it.index@ >= 1 ==> first_with(l0, endpoint_is(self.edges@, 1, b.i())) is None,
                it.index@ >= 2 ==> first_with(l1, endpoint_is(self.edges@, 0, b.i())) is None/*-*/,
        { /*+*/let d = *__d;/*-*/
            let k = d.index();
            /*+*/let ghost s0: Seq<int> = if k == 0 { l0 } else { l1 };
            let ghost mut rest: Seq<int> = s0;
            let ghost mut done: int = 0;
            proof { assert(d == it.seq()[it.index@]); assert(k == it.index@);
                    lemma_slist_is_chain(self.edges@, node.next[k as int], k as int, s0); assert(s0.subrange(0, s0.len() as int) =~= s0); }/*-*/
            let mut edix = node.next[k];
            while let Some(edge) = self.edges.get(edix.index())
                /*+*/invariant
                    0 <= done <= s0.len(), k < 2, k == d.k(),
                    s0 == (if k == 0 { l0 } else { l1 }),
                    l0 == list_of(self.edges@, node.next[0], 0), l1 == list_of(self.edges@, node.next[1], 1),
                    k == 1 ==> first_with(l0, endpoint_is(self.edges@, 1, b.i())) is None,
                    chain(self.edges@, node.next[k as int], k as int, s0),
                    rest == s0.subrange(done, s0.len() as int),
                    chain(self.edges@, edix, k as int, rest),
                    forall|j: int| 0 <= j < done ==> self.edges@[s0[j]].node[1 - k as int].0.ix() != b.0.ix(),
                ensures edix.0.ix() >= self.edges@.len(), done == s0.len(),
                    forall|j: int| 0 <= j < done ==> self.edges@[s0[j]].node[1 - k as int].0.ix() != b.0.ix(),
                decreases rest.len()/*-*/
            {
                /*+*/proof {
                    assert(rest.len() > 0);
                    assert(rest[0] == edix.0.ix());
                }/*-*/
                if edge.node[1 - k] == b {
                    /*+*/proof {
                        assert(s0[done] == rest[0]);
                        assert(0 <= s0[done] < self.edges@.len());
                        lemma_first_with_some(s0, endpoint_is(self.edges@, 1 - k as int, b.i()), done);
                    }/*-*/
                    return Some((edix, d));
                }
                edix = edge.next[k];
                /*+*/proof {
                    assert(s0[done] == rest[0]);
                    rest = rest.drop_first();
                    done = done + 1;
                    assert(rest =~= s0.subrange(done, s0.len() as int));
                }/*-*/
            }
            /*+*/proof { lemma_first_with_none(s0, endpoint_is(self.edges@, 1 - k as int, b.i())); }/*-*/
        }
        None
    }
//@ end

//@ item src/graph_impl/mod.rs | impl<N, E, Ty, Ix> Graph<N, E, Ty, Ix> where Ty: EdgeType, Ix: IndexType | fn first_edge
    pub fn first_edge(&self, a: NodeIndex<Ix>, dir: Direction) -> (r: Option<EdgeIndex<Ix>>)
        /*+*/requires self.wf()
        ensures ({ let l = if dir.k() == 0 { self.view().out } else { self.view().inn };
            if a.i() < self.n() && l[a.i()].len() > 0 { r is Some && r.unwrap().i() == l[a.i()][0] } else { r is None } })/*-*/   // [first_edge_view]
    {
        match self.nodes.get(a.index()) {
            None => None,
            Some(node) => {
                let edix = node.next[dir.index()];
                if edix == EdgeIndex::end() {
                    None
                } else {
                    Some(edix)
                }
            }
        }
    }
//@ end

//@ item src/graph_impl/mod.rs | impl<N, E, Ty, Ix> Graph<N, E, Ty, Ix> where Ty: EdgeType, Ix: IndexType | fn clear
    pub fn clear(&mut self)
        /*+*/ensures final(self).wf(), final(self).view().nodes.len() == 0, final(self).view().edges.len() == 0/*-*/,   // [clear_empty]
    {
        self.nodes.clear();
        self.edges.clear();
        /*+*/proof { assert(self.wf_with(Seq::empty(), Seq::empty())); self.lemma_wf_unique(Seq::empty(), Seq::empty()); }/*-*/
    }
//@ end
}
