// ======================================================================================
// fragment data_build_trait.rs - src/data.rs: the construction traits Build and Create under contract (C01, C14).
// What "one more node / one more edge / the edge a -> b now carries w" mean is the implementor's business (abstract spec
// functions); the trait fixes which method promises which of them, and `add_edge` promises a NEW edge whenever it answers Some.
//   D26: `Sized` added so that `unchanged` can be stated as equality; every implementor is a sized type.
//   D32: the provided body of `add_edge` - `Some(self.update_edge(a, b, weight))` - cannot meet that promise for a generic
//   implementor, and no implementor in the crate uses it.  It is cut from the trait in the verified text (pinned by the audit)
//   and written out, as the compiler does, inside every `impl Build` under contract that does not define `add_edge` itself
//   (item option `provided=`), where it is verified against that implementor's own specification.
// ======================================================================================

//@ item src/data.rs | - | trait Build
/// A graph that can be extended with further nodes and edges
pub trait Build: Data + NodeCount /*+*/+ Sized/*-*/ {
    /*+*/
    /// the documented "might panic" conditions, negated
    spec fn add_node_pre(&self) -> bool;
    spec fn add_edge_pre(&self, a: Self::NodeId, b: Self::NodeId) -> bool;
    spec fn update_edge_pre(&self, a: Self::NodeId, b: Self::NodeId) -> bool;
    /// `post` is `pre` plus one new node of weight w, n its id
    spec fn node_added(pre: &Self, w: Self::NodeWeight, post: &Self, n: Self::NodeId) -> bool;
    /// `post` is `pre` plus one NEW edge a -> b of weight w, e its id
    spec fn edge_added(pre: &Self, a: Self::NodeId, b: Self::NodeId, w: Self::EdgeWeight, post: &Self, e: Self::EdgeId) -> bool;
    /// `post` is `pre` with the edge a -> b carrying w - added if there was none, updated otherwise -, e its id
    spec fn edge_put(pre: &Self, a: Self::NodeId, b: Self::NodeId, w: Self::EdgeWeight, post: &Self, e: Self::EdgeId) -> bool;
    /*-*/
    fn add_node(&mut self, weight: Self::NodeWeight) -> (r: Self::NodeId)
        /*+*/requires old(self).add_node_pre(),
        ensures Self::node_added(old(self), weight, final(self), r)/*-*/;   // [build_add_node_adds_a_node]
    /// Add a new edge. If parallel edges (duplicate) are not allowed and
    /// the edge already exists, return `None`.
    ///
    /// Might panic if `a` or `b` are out of bounds.
    #[track_caller]
    fn add_edge(
        &mut self,
        a: Self::NodeId,
        b: Self::NodeId,
        weight: Self::EdgeWeight,
    ) -> (r: Option<Self::EdgeId>)
        /*+*/requires old(self).add_edge_pre(a, b),
        ensures match r { Some(e) => Self::edge_added(old(self), a, b, weight, final(self), e), None => *final(self) == *old(self) }/*-*/   // [build_add_edge_adds_a_new_edge_or_changes_nothing]
    /*R:D32 {
        Some(self.update_edge(a, b, weight))
    } */ ; /*-*/
    /// Add or update the edge from `a` to `b`. Return the id of the affected
    /// edge.
    ///
    /// Might panic if `a` or `b` are out of bounds.
    #[track_caller]
    fn update_edge(
        &mut self,
        a: Self::NodeId,
        b: Self::NodeId,
        weight: Self::EdgeWeight,
    ) -> (r: Self::EdgeId)
        /*+*/requires old(self).update_edge_pre(a, b),
        ensures Self::edge_put(old(self), a, b, weight, final(self), r)/*-*/;   // [build_update_edge_puts_the_edge]
}
//@ end

//@ item src/data.rs | - | trait Create
/// A graph that can be created
pub trait Create: Build + Default {
    /*+*/
    /// no nodes and no edges
    spec fn is_empty_graph(&self) -> bool;
    /*-*/
    fn with_capacity(nodes: usize, edges: usize) -> (g: Self)
        /*+*/ensures g.is_empty_graph()/*-*/;   // [create_with_capacity_is_empty]
}
//@ end

//@ item src/data.rs | - | trait DataMap
    /// Access node and edge weights (associated data).
#[allow(clippy::needless_arbitrary_self_type)]
pub trait DataMap : Data {
    /*+*/
    /// the weight shown for a node / edge id, None for an id that names nothing
    spec fn nweight(&self, id: Self::NodeId) -> Option<Self::NodeWeight>;
    spec fn eweight(&self, id: Self::EdgeId) -> Option<Self::EdgeWeight>;
    /*-*/
    fn node_weight(self: &Self, id: Self::NodeId) -> (r: Option<&Self::NodeWeight>)
        /*+*/ensures r is Some <==> self.nweight(id) is Some, r is Some ==> *r.unwrap() == self.nweight(id).unwrap()/*-*/;   // [datamap_node_weight]
    fn edge_weight(self: &Self, id: Self::EdgeId) -> (r: Option<&Self::EdgeWeight>)
        /*+*/ensures r is Some <==> self.eweight(id) is Some, r is Some ==> *r.unwrap() == self.eweight(id).unwrap()/*-*/;   // [datamap_edge_weight]
}
//@ end

//@ item src/data.rs | - | trait DataMapMut
    /// Access node and edge weights mutably.
#[allow(clippy::needless_arbitrary_self_type)]
pub trait DataMapMut : DataMap {
    /*+*/
    /// the graph's own invariant (mutable access must keep it)
    spec fn dm_inv(&self) -> bool;
    /*-*/
    fn node_weight_mut(self: &mut Self, id: Self::NodeId) -> (r: Option<&mut Self::NodeWeight>)
        /*+*/requires old(self).dm_inv(),
        ensures r is Some <==> old(self).nweight(id) is Some, r is Some ==> *r.unwrap() == old(self).nweight(id).unwrap(),
            final(self).dm_inv(), r is Some ==> final(self).nweight(id) == Some(*final(r.unwrap()))/*-*/;   // [datamapmut_node_weight_mut]
    fn edge_weight_mut(self: &mut Self, id: Self::EdgeId) -> (r: Option<&mut Self::EdgeWeight>)
        /*+*/requires old(self).dm_inv(),
        ensures r is Some <==> old(self).eweight(id) is Some, r is Some ==> *r.unwrap() == old(self).eweight(id).unwrap(),
            final(self).dm_inv(), r is Some ==> final(self).eweight(id) == Some(*final(r.unwrap()))/*-*/;   // [datamapmut_edge_weight_mut]
}
//@ end
