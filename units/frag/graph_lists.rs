// ======================================================================================
// fragment graph_lists.rs - specification layer for the intrusive incidence lists of Graph:
// chain / slist / tchain / pre_then predicates and their lemmas (no repository code here)
// ======================================================================================
// chain: indices visited following next[k] from head until the pointer leaves the array
pub open spec fn chain<E, Ix: IndexType>(edges: Seq<Edge<E, Ix>>, head: EdgeIndex<Ix>, k: int, s: Seq<int>) -> bool
    decreases s.len()
{
    if s.len() == 0 {
        head.0.ix() >= edges.len()
    } else {
        &&& head.0.ix() == s[0]
        &&& 0 <= s[0] < edges.len()
        &&& chain(edges, edges[s[0]].next[k], k, s.drop_first())
    }
}
// index in s of the first element whose next[k] is e, or s.len()
pub open spec fn first_link<E, Ix: IndexType>(edges: Seq<Edge<E, Ix>>, k: int, s: Seq<int>, e: EdgeIndex<Ix>) -> int
    decreases s.len()
{
    if s.len() == 0 { 0 }
    else if edges[s[0]].next[k].0.ix() == e.0.ix() { 0 }
    else { 1 + first_link(edges, k, s.drop_first(), e) }
}
pub open spec fn same_but_next<E, Ix: IndexType>(a: Edge<E, Ix>, b: Edge<E, Ix>, k: int) -> bool {
    a.weight == b.weight && a.node == b.node && a.next[1 - k] == b.next[1 - k]
}
pub open spec fn no_dup(s: Seq<int>) -> bool { forall|i: int, j: int| 0 <= i < j < s.len() ==> s[i] != s[j] }

// updating next[k] of an edge that is not in s leaves chain(.., s) intact
pub proof fn lemma_chain_frame<E, Ix: IndexType>(es: Seq<Edge<E, Ix>>, es2: Seq<Edge<E, Ix>>, head: EdgeIndex<Ix>, k: int, s: Seq<int>)
    requires
        chain(es, head, k, s), es2.len() == es.len(),
        forall|i: int| 0 <= i < s.len() ==> es2[#[trigger] s[i]].next[k] == es[s[i]].next[k],
    ensures chain(es2, head, k, s)
    decreases s.len()
{
    if s.len() > 0 {
        let t = s.drop_first();
        assert forall|i: int| 0 <= i < t.len() implies es2[#[trigger] t[i]].next[k] == es[t[i]].next[k] by {
            assert(t[i] == s[i + 1]);
        }
        lemma_chain_frame(es, es2, es[s[0]].next[k], k, t);
    }
}

pub proof fn lemma_chain_range<E, Ix: IndexType>(es: Seq<Edge<E, Ix>>, head: EdgeIndex<Ix>, k: int, s: Seq<int>)
    requires chain(es, head, k, s)
    ensures forall|i: int| 0 <= i < s.len() ==> 0 <= #[trigger] s[i] < es.len()
    decreases s.len()
{
    if s.len() > 0 {
        let t = s.drop_first();
        lemma_chain_range(es, es[s[0]].next[k], k, t);
        assert forall|i: int| 0 <= i < s.len() implies 0 <= #[trigger] s[i] < es.len() by {
            if i > 0 { assert(s[i] == t[i - 1]); }
        }
    }
}
// suffix of a chain is a chain from the corresponding pointer
pub proof fn lemma_chain_suffix<E, Ix: IndexType>(es: Seq<Edge<E, Ix>>, head: EdgeIndex<Ix>, k: int, s: Seq<int>, q: int)
    requires chain(es, head, k, s), 0 <= q < s.len()
    ensures chain(es, es[s[q]].next[k], k, s.subrange(q + 1, s.len() as int)),
            q == 0 ==> head.0.ix() == s[0],
            q > 0 ==> es[s[q - 1]].next[k].0.ix() == s[q],
    decreases q
{
    if q == 0 {
        assert(s.drop_first() =~= s.subrange(1, s.len() as int));
    } else {
        let t = s.drop_first();
        lemma_chain_suffix(es, es[s[0]].next[k], k, t, q - 1);
        assert(t.subrange(q, t.len() as int) =~= s.subrange(q + 1, s.len() as int));
        assert(t[q - 1] == s[q]);
        if q - 1 > 0 { assert(t[q - 2] == s[q - 1]); }
    }
}
pub proof fn lemma_list_unique<E, Ix: IndexType>(edges: Seq<Edge<E, Ix>>, head: EdgeIndex<Ix>, k: int, s: Seq<int>)
    requires chain(edges, head, k, s)
    ensures forall|t: Seq<int>| chain(edges, head, k, t) ==> t == s
    decreases s.len()
{
    assert forall|t: Seq<int>| chain(edges, head, k, t) implies t == s by {
        lemma_list_unique2(edges, head, k, s, t);
    }
}
pub proof fn lemma_list_unique2<E, Ix: IndexType>(edges: Seq<Edge<E, Ix>>, head: EdgeIndex<Ix>, k: int, s: Seq<int>, t: Seq<int>)
    requires chain(edges, head, k, s), chain(edges, head, k, t)
    ensures t == s
    decreases s.len()
{
    if s.len() == 0 {
        if t.len() > 0 { assert(false); }
        assert(t =~= s);
    } else {
        if t.len() == 0 { assert(false); }
        lemma_list_unique2(edges, edges[s[0]].next[k], k, s.drop_first(), t.drop_first());
        assert(t =~= seq![t[0]] + t.drop_first());
        assert(s =~= seq![s[0]] + s.drop_first());
    }
}
pub open spec fn node_next_after<N, Ix: IndexType>(old_n: Seq<Node<N, Ix>>, j: int, a: int, e: EdgeIndex<Ix>, repl: EdgeIndex<Ix>, k: int) -> EdgeIndex<Ix> {
    if j == a && old_n[a].next[k].0.ix() == e.0.ix() { repl } else { old_n[j].next[k] }
}
pub open spec fn edge_next_after<N, E, Ix: IndexType>(old_n: Seq<Node<N, Ix>>, old_e: Seq<Edge<E, Ix>>, j: int, a: int, e: EdgeIndex<Ix>, repl: EdgeIndex<Ix>, k: int, s: Seq<int>) -> EdgeIndex<Ix> {
    let p = first_link(old_e, k, s, e);
    if old_n[a].next[k].0.ix() != e.0.ix() && p < s.len() && j == s[p] { repl } else { old_e[j].next[k] }
}
pub open spec fn dir_done<N, E, Ix: IndexType>(old_n: Seq<Node<N, Ix>>, old_e: Seq<Edge<E, Ix>>, new_n: Seq<Node<N, Ix>>, new_e: Seq<Edge<E, Ix>>,
        a: int, e: EdgeIndex<Ix>, repl: EdgeIndex<Ix>, k: int, s: Seq<int>) -> bool {
    &&& forall|j: int| 0 <= j < old_n.len() ==> (#[trigger] new_n[j]).next[k] == node_next_after(old_n, j, a, e, repl, k)
    &&& forall|j: int| 0 <= j < old_e.len() ==> (#[trigger] new_e[j]).next[k] == edge_next_after(old_n, old_e, j, a, e, repl, k, s)
}
pub open spec fn dir_untouched<N, E, Ix: IndexType>(old_n: Seq<Node<N, Ix>>, old_e: Seq<Edge<E, Ix>>, new_n: Seq<Node<N, Ix>>, new_e: Seq<Edge<E, Ix>>, k: int) -> bool {
    &&& forall|j: int| 0 <= j < old_n.len() ==> (#[trigger] new_n[j]).next[k] == old_n[j].next[k]
    &&& forall|j: int| 0 <= j < old_e.len() ==> (#[trigger] new_e[j]).next[k] == old_e[j].next[k]
}
pub open spec fn step_ok<N, E, Ix: IndexType>(n1: Seq<Node<N, Ix>>, e1: Seq<Edge<E, Ix>>, n2: Seq<Node<N, Ix>>, e2: Seq<Edge<E, Ix>>,
        a: int, e: EdgeIndex<Ix>, repl: EdgeIndex<Ix>, k: int, s: Seq<int>) -> bool {
    payload_same(n1, e1, n2, e2) && dir_done(n1, e1, n2, e2, a, e, repl, k, s) && dir_untouched(n1, e1, n2, e2, 1 - k)
}
pub open spec fn payload_same<N, E, Ix: IndexType>(old_n: Seq<Node<N, Ix>>, old_e: Seq<Edge<E, Ix>>, new_n: Seq<Node<N, Ix>>, new_e: Seq<Edge<E, Ix>>) -> bool {
    &&& new_n.len() == old_n.len() && new_e.len() == old_e.len()
    &&& forall|j: int| 0 <= j < old_n.len() ==> (#[trigger] new_n[j]).weight == old_n[j].weight
    &&& forall|j: int| 0 <= j < old_e.len() ==> (#[trigger] new_e[j]).weight == old_e[j].weight && new_e[j].node == old_e[j].node
}
// first_link only reads next[k] of members of s
pub proof fn lemma_first_link_frame<E, Ix: IndexType>(es: Seq<Edge<E, Ix>>, es2: Seq<Edge<E, Ix>>, k: int, s: Seq<int>, e: EdgeIndex<Ix>)
    requires forall|i: int| 0 <= i < s.len() ==> es2[#[trigger] s[i]].next[k] == es[s[i]].next[k]
    ensures first_link(es2, k, s, e) == first_link(es, k, s, e)
    decreases s.len()
{
    if s.len() > 0 {
        let t = s.drop_first();
        assert forall|i: int| 0 <= i < t.len() implies es2[#[trigger] t[i]].next[k] == es[t[i]].next[k] by { assert(t[i] == s[i + 1]); }
        assert(es2[s[0]].next[k] == es[s[0]].next[k]);
        lemma_first_link_frame(es, es2, k, t, e);
    }
}
pub open spec fn end_ix<Ix: IndexType>() -> usize { Ix::spec_max() }

// list terminated by `end` exactly (strict variant of `chain`)
pub open spec fn slist<E, Ix: IndexType>(es: Seq<Edge<E, Ix>>, head: EdgeIndex<Ix>, k: int, s: Seq<int>) -> bool
    decreases s.len()
{
    if s.len() == 0 { head.0.ix() == end_ix::<Ix>() }
    else { head.0.ix() == s[0] && 0 <= s[0] < es.len() && slist(es, es[s[0]].next[k], k, s.drop_first()) }
}

pub open spec fn lists_ok<N, E, Ix: IndexType>(ns: Seq<Node<N, Ix>>, es: Seq<Edge<E, Ix>>, k: int, ls: Seq<Seq<int>>) -> bool {
    &&& ls.len() == ns.len()
    &&& forall|a: int| 0 <= a < ns.len() ==> slist(es, ns[a].next[k], k, #[trigger] ls[a]) && no_dup(ls[a])
    &&& forall|a: int, i: int| 0 <= a < ns.len() && 0 <= i < ls[a].len() ==> es[#[trigger] ls[a][i]].node[k].0.ix() == a
    &&& forall|e: int| 0 <= e < es.len() ==> (#[trigger] ls[es[e].node[k].0.ix() as int]).contains(e)
}
impl<N, E, Ty, Ix: IndexType> Graph<N, E, Ty, Ix> {
    pub open spec fn wf_with(&self, out: Seq<Seq<int>>, inn: Seq<Seq<int>>) -> bool {
        &&& self.nodes@.len() <= end_ix::<Ix>() && self.edges@.len() <= end_ix::<Ix>()
        &&& forall|e: int| 0 <= e < self.edges@.len() ==> (#[trigger] self.edges@[e]).node[0].0.ix() < self.nodes@.len() && self.edges@[e].node[1].0.ix() < self.nodes@.len()
        &&& lists_ok(self.nodes@, self.edges@, 0, out)
        &&& lists_ok(self.nodes@, self.edges@, 1, inn)
    }
}
// pushing a new edge and changing node heads does not disturb a list that does not contain the new index
pub proof fn lemma_slist_push<E, Ix: IndexType>(es: Seq<Edge<E, Ix>>, x: Edge<E, Ix>, head: EdgeIndex<Ix>, k: int, s: Seq<int>)
    requires slist(es, head, k, s), es.len() < end_ix::<Ix>()
    ensures slist(es.push(x), head, k, s)
    decreases s.len()
{
    if s.len() > 0 {
        assert(es.push(x)[s[0]] == es[s[0]]);
        lemma_slist_push(es, x, es[s[0]].next[k], k, s.drop_first());
    }
}
pub proof fn lemma_slist_range<E, Ix: IndexType>(es: Seq<Edge<E, Ix>>, head: EdgeIndex<Ix>, k: int, s: Seq<int>)
    requires slist(es, head, k, s)
    ensures forall|i: int| 0 <= i < s.len() ==> 0 <= #[trigger] s[i] < es.len()
    decreases s.len()
{
    if s.len() > 0 {
        let t = s.drop_first();
        lemma_slist_range(es, es[s[0]].next[k], k, t);
        assert forall|i: int| 0 <= i < s.len() implies 0 <= #[trigger] s[i] < es.len() by { if i > 0 { assert(s[i] == t[i - 1]); } }
    }
}


// effect of linking a new edge m (already pushed) at the head of node x's k-list
pub proof fn lemma_lists_after_add<N, E, Ix: IndexType>(ns0: Seq<Node<N, Ix>>, es0: Seq<Edge<E, Ix>>, ns1: Seq<Node<N, Ix>>, es1: Seq<Edge<E, Ix>>,
        k: int, ls: Seq<Seq<int>>, x: int, m: int)
    requires
        0 <= k < 2, lists_ok(ns0, es0, k, ls), m == es0.len(), m < end_ix::<Ix>(), 0 <= x < ns0.len(),
        ns1.len() == ns0.len(), es1.len() == m + 1,
        forall|j: int| 0 <= j < m ==> es1[j] == es0[j],
        es1[m].node[k].0.ix() == x, es1[m].next[k] == ns0[x].next[k],
        ns1[x].next[k].0.ix() == m,
        forall|j: int| 0 <= j < ns0.len() && j != x ==> ns1[j].next[k] == ns0[j].next[k],
    ensures lists_ok(ns1, es1, k, ls.update(x, seq![m] + ls[x]))
{
    let ls1 = ls.update(x, seq![m] + ls[x]);
    assert(es1 =~= es0.push(es1[m]));
    assert forall|a: int| 0 <= a < ns1.len() implies slist(es1, ns1[a].next[k], k, #[trigger] ls1[a]) && no_dup(ls1[a]) by {
        lemma_slist_push(es0, es1[m], ns0[a].next[k], k, ls[a]);
        lemma_slist_range(es0, ns0[a].next[k], k, ls[a]);
        if a == x {
            let t = seq![m] + ls[x];
            assert(t.drop_first() =~= ls[x]);
            assert(slist(es1, ns1[x].next[k], k, t));
            assert forall|i: int, j: int| 0 <= i < j < t.len() implies t[i] != t[j] by {
                if i == 0 { assert(t[j] == ls[x][j - 1]); } else { assert(t[i] == ls[x][i - 1]); assert(t[j] == ls[x][j - 1]); }
            }
        } else {
            assert(ls1[a] == ls[a]);
        }
    }
    assert forall|a: int, i: int| 0 <= a < ns1.len() && 0 <= i < ls1[a].len() implies es1[#[trigger] ls1[a][i]].node[k].0.ix() == a by {
        lemma_slist_range(es0, ns0[a].next[k], k, ls[a]);
        if a == x {
            if i > 0 { assert(ls1[a][i] == ls[a][i - 1]); }
        } else { assert(ls1[a] == ls[a]); }
    }
    assert forall|e: int| 0 <= e < es1.len() implies (#[trigger] ls1[es1[e].node[k].0.ix() as int]).contains(e) by {
        if e == m {
            assert(ls1[x][0] == m);
        } else {
            let a = es0[e].node[k].0.ix() as int;
            assert(ls[a].contains(e));
            let i = choose|i: int| 0 <= i < ls[a].len() && ls[a][i] == e;
            if a == x { assert(ls1[a][i + 1] == e); } else { assert(ls1[a][i] == e); }
        }
    }
}
// tchain: following next[k] from head visits exactly s and then reaches a pointer whose index is t (t must lie outside the array)
pub open spec fn tchain<E, Ix: IndexType>(es: Seq<Edge<E, Ix>>, head: EdgeIndex<Ix>, k: int, s: Seq<int>, t: int) -> bool
    decreases s.len()
{
    if s.len() == 0 { head.0.ix() == t && t >= es.len() }
    else { head.0.ix() == s[0] && 0 <= s[0] < es.len() && tchain(es, es[s[0]].next[k], k, s.drop_first(), t) }
}
pub proof fn lemma_tchain_is_chain<E, Ix: IndexType>(es: Seq<Edge<E, Ix>>, head: EdgeIndex<Ix>, k: int, s: Seq<int>, t: int)
    requires tchain(es, head, k, s, t)
    ensures chain(es, head, k, s)
    decreases s.len()
{
    if s.len() > 0 { lemma_tchain_is_chain(es, es[s[0]].next[k], k, s.drop_first(), t); }
}
pub proof fn lemma_slist_is_tchain<E, Ix: IndexType>(es: Seq<Edge<E, Ix>>, head: EdgeIndex<Ix>, k: int, s: Seq<int>)
    requires slist(es, head, k, s), es.len() <= end_ix::<Ix>()
    ensures tchain(es, head, k, s, end_ix::<Ix>() as int)
    decreases s.len()
{
    if s.len() > 0 { lemma_slist_is_tchain(es, es[s[0]].next[k], k, s.drop_first()); }
}
pub proof fn lemma_tchain_is_slist<E, Ix: IndexType>(es: Seq<Edge<E, Ix>>, head: EdgeIndex<Ix>, k: int, s: Seq<int>)
    requires tchain(es, head, k, s, end_ix::<Ix>() as int)
    ensures slist(es, head, k, s)
    decreases s.len()
{
    if s.len() > 0 { lemma_tchain_is_slist(es, es[s[0]].next[k], k, s.drop_first()); }
}
pub proof fn lemma_tchain_t<E, Ix: IndexType>(es: Seq<Edge<E, Ix>>, head: EdgeIndex<Ix>, k: int, s: Seq<int>, t: int)
    requires tchain(es, head, k, s, t)
    ensures t >= es.len()
    decreases s.len()
{
    if s.len() > 0 { lemma_tchain_t(es, es[s[0]].next[k], k, s.drop_first(), t); }
}
pub proof fn lemma_tchain_range<E, Ix: IndexType>(es: Seq<Edge<E, Ix>>, head: EdgeIndex<Ix>, k: int, s: Seq<int>, t: int)
    requires tchain(es, head, k, s, t)
    ensures forall|i: int| 0 <= i < s.len() ==> 0 <= #[trigger] s[i] < es.len()
    decreases s.len()
{
    if s.len() > 0 {
        let r = s.drop_first();
        lemma_tchain_range(es, es[s[0]].next[k], k, r, t);
        assert forall|i: int| 0 <= i < s.len() implies 0 <= #[trigger] s[i] < es.len() by { if i > 0 { assert(s[i] == r[i - 1]); } }
    }
}
// successor structure: s[i].next[k] is s[i+1], the last one points to t
pub proof fn lemma_tchain_succ<E, Ix: IndexType>(es: Seq<Edge<E, Ix>>, head: EdgeIndex<Ix>, k: int, s: Seq<int>, t: int, i: int)
    requires tchain(es, head, k, s, t), 0 <= i < s.len()
    ensures
        0 <= s[i] < es.len(),
        i + 1 < s.len() ==> es[s[i]].next[k].0.ix() == s[i + 1],
        i + 1 == s.len() ==> es[s[i]].next[k].0.ix() == t,
        tchain(es, es[s[i]].next[k], k, s.subrange(i + 1, s.len() as int), t),
    decreases i
{
    let r = s.drop_first();
    if i == 0 {
        assert(r =~= s.subrange(1, s.len() as int));
        assert(tchain(es, es[s[0]].next[k], k, r, t));
        if r.len() > 0 { assert(r[0] == s[1]); assert(es[s[0]].next[k].0.ix() == r[0]); }
        else { assert(es[s[0]].next[k].0.ix() == t); }
    } else {
        lemma_tchain_succ(es, es[s[0]].next[k], k, r, t, i - 1);
        assert(r[i - 1] == s[i]);
        if i + 1 < s.len() { assert(r[i] == s[i + 1]); }
        assert(r.subrange(i, r.len() as int) =~= s.subrange(i + 1, s.len() as int));
    }
}
// frame: same next[k] on the members (and same length, or a length that keeps members in range and t outside)
pub proof fn lemma_tchain_frame<E, Ix: IndexType>(es: Seq<Edge<E, Ix>>, es2: Seq<Edge<E, Ix>>, head: EdgeIndex<Ix>, k: int, s: Seq<int>, t: int)
    requires
        tchain(es, head, k, s, t), t >= es2.len(),
        forall|i: int| 0 <= i < s.len() ==> (#[trigger] s[i]) < es2.len() && es2[s[i]].next[k] == es[s[i]].next[k],
    ensures tchain(es2, head, k, s, t)
    decreases s.len()
{
    if s.len() > 0 {
        let r = s.drop_first();
        assert forall|i: int| 0 <= i < r.len() implies (#[trigger] r[i]) < es2.len() && es2[r[i]].next[k] == es[r[i]].next[k] by { assert(r[i] == s[i + 1]); }
        assert(s[0] < es2.len() && es2[s[0]].next[k] == es[s[0]].next[k]);
        lemma_tchain_frame(es, es2, es[s[0]].next[k], k, r, t);
    }
}
// concatenation: a chain reaching pointer value x (in range), then a chain from es[x] ...
pub proof fn lemma_tchain_splice<E, Ix: IndexType>(es: Seq<Edge<E, Ix>>, head: EdgeIndex<Ix>, k: int, pre: Seq<int>, mid: EdgeIndex<Ix>, rest: Seq<int>, t: int)
    requires
        // pre is followed by pointer `mid`, and from `mid` the chain `rest` leads to t
        pre_then(es, head, k, pre, mid), tchain(es, mid, k, rest, t),
    ensures tchain(es, head, k, pre + rest, t)
    decreases pre.len()
{
    if pre.len() == 0 {
        assert(pre + rest =~= rest);
    } else {
        lemma_tchain_splice(es, es[pre[0]].next[k], k, pre.drop_first(), mid, rest, t);
        assert((pre + rest).drop_first() =~= pre.drop_first() + rest);
        assert((pre + rest)[0] == pre[0]);
    }
}
// pre_then: following next[k] from head visits exactly pre (all in range) and the next pointer is `mid` (any value)
pub open spec fn pre_then<E, Ix: IndexType>(es: Seq<Edge<E, Ix>>, head: EdgeIndex<Ix>, k: int, pre: Seq<int>, mid: EdgeIndex<Ix>) -> bool
    decreases pre.len()
{
    if pre.len() == 0 { head == mid }
    else { head.0.ix() == pre[0] && 0 <= pre[0] < es.len() && pre_then(es, es[pre[0]].next[k], k, pre.drop_first(), mid) }
}
pub proof fn lemma_tchain_prefix<E, Ix: IndexType>(es: Seq<Edge<E, Ix>>, head: EdgeIndex<Ix>, k: int, s: Seq<int>, t: int, q: int)
    requires tchain(es, head, k, s, t), 0 <= q <= s.len()
    ensures
        q < s.len() ==> exists|mid: EdgeIndex<Ix>| mid.0.ix() == s[q] && pre_then(es, head, k, s.subrange(0, q), mid),
        q == s.len() ==> exists|mid: EdgeIndex<Ix>| mid.0.ix() == t && pre_then(es, head, k, s.subrange(0, q), mid),
    decreases q
{
    if q == 0 {
        assert(s.subrange(0, 0) =~= Seq::<int>::empty());
        assert(pre_then(es, head, k, s.subrange(0, 0), head));
    } else {
        let r = s.drop_first();
        lemma_tchain_prefix(es, es[s[0]].next[k], k, r, t, q - 1);
        let mid = if q < s.len() { choose|mid: EdgeIndex<Ix>| mid.0.ix() == r[q - 1] && pre_then(es, es[s[0]].next[k], k, r.subrange(0, q - 1), mid) }
                  else { choose|mid: EdgeIndex<Ix>| mid.0.ix() == t && pre_then(es, es[s[0]].next[k], k, r.subrange(0, q - 1), mid) };
        assert(s.subrange(0, q).drop_first() =~= r.subrange(0, q - 1));
        assert(s.subrange(0, q)[0] == s[0]);
        if q < s.len() { assert(r[q - 1] == s[q]); }
        assert(pre_then(es, head, k, s.subrange(0, q), mid));
    }
}

// ---------- unlink of e from its k-list, derived from change_edge_links' field-wise contract ----------
pub open spec fn lists_ok_except<N, E, Ix: IndexType>(ns: Seq<Node<N, Ix>>, es: Seq<Edge<E, Ix>>, k: int, ls: Seq<Seq<int>>, e: int) -> bool {
    &&& ls.len() == ns.len()
    &&& forall|a: int| 0 <= a < ns.len() ==> slist(es, ns[a].next[k], k, #[trigger] ls[a]) && no_dup(ls[a]) && !ls[a].contains(e)
    &&& forall|a: int, i: int| 0 <= a < ns.len() && 0 <= i < ls[a].len() ==> es[#[trigger] ls[a][i]].node[k].0.ix() == a
    &&& forall|j: int| 0 <= j < es.len() && j != e ==> (#[trigger] ls[es[j].node[k].0.ix() as int]).contains(j)
}

pub proof fn lemma_first_link_pred<E, Ix: IndexType>(es: Seq<Edge<E, Ix>>, head: EdgeIndex<Ix>, k: int, s: Seq<int>, t: int, ev: EdgeIndex<Ix>, q: int)
    requires tchain(es, head, k, s, t), no_dup(s), 1 <= q < s.len(), s[q] == ev.0.ix(), t != ev.0.ix()
    ensures first_link(es, k, s, ev) == q - 1
    decreases q
{
    let r = s.drop_first();
    lemma_tchain_succ(es, head, k, s, t, 0);
    assert(r[q - 1] == s[q]);
    assert(no_dup(r)) by { assert forall|i: int, j: int| 0 <= i < j < r.len() implies r[i] != r[j] by { assert(r[i] == s[i + 1]); assert(r[j] == s[j + 1]); } }
    if q == 1 {
        assert(es[s[0]].next[k].0.ix() == s[1]);
    } else {
        assert(es[s[0]].next[k].0.ix() == s[1]);
        assert(s[1] != s[q]);
        lemma_first_link_pred(es, es[s[0]].next[k], k, r, t, ev, q - 1);
    }
}

// tchain version of the inner unlink lemma
pub proof fn lemma_tunlink_inner<E, Ix: IndexType>(es: Seq<Edge<E, Ix>>, es2: Seq<Edge<E, Ix>>, head: EdgeIndex<Ix>, k: int, s: Seq<int>, t: int, q: int)
    requires
        tchain(es, head, k, s, t), no_dup(s), 1 <= q < s.len(), es2.len() == es.len(),
        es2[s[q - 1]].next[k] == es[s[q]].next[k],
        forall|j: int| 0 <= j < es.len() && j != s[q - 1] ==> es2[j].next[k] == es[j].next[k],
    ensures
        tchain(es2, head, k, s.remove(q), t),
    decreases q
{
    let r = s.drop_first();
    let res = s.remove(q);
    lemma_tchain_range(es, head, k, s, t);
    lemma_tchain_t(es, head, k, s, t);
    assert(res =~= s.subrange(0, q) + s.subrange(q + 1, s.len() as int));
    assert(res[0] == s[0]);
    assert(no_dup(r)) by { assert forall|i: int, j: int| 0 <= i < j < r.len() implies r[i] != r[j] by { assert(r[i] == s[i + 1]); assert(r[j] == s[j + 1]); } }
    if q == 1 {
        lemma_tchain_succ(es, head, k, s, t, 1);
        let post = s.subrange(2, s.len() as int);
        assert forall|i: int| 0 <= i < post.len() implies (#[trigger] post[i]) < es2.len() && es2[post[i]].next[k] == es[post[i]].next[k] by {
            assert(post[i] == s[i + 2]);
            assert(s[0] != s[i + 2]);
        }
        lemma_tchain_frame(es, es2, es[s[1]].next[k], k, post, t);
        assert(res.drop_first() =~= post);
    } else {
        assert(r[q - 2] == s[q - 1]);
        assert(r[q - 1] == s[q]);
        assert(s[0] != s[q - 1]);
        lemma_tunlink_inner(es, es2, es[s[0]].next[k], k, r, t, q - 1);
        assert(res.drop_first() =~= r.remove(q - 1));
        assert(es2[s[0]].next[k] == es[s[0]].next[k]);
    }
}

pub proof fn lemma_no_dup_remove(s: Seq<int>, q: int)
    requires no_dup(s), 0 <= q < s.len()
    ensures no_dup(s.remove(q)), !s.remove(q).contains(s[q]),
            forall|x: int| x != s[q] && s.contains(x) ==> s.remove(q).contains(x),
            forall|i: int| 0 <= i < s.remove(q).len() ==> s.contains(#[trigger] s.remove(q)[i]),
{
    let r = s.remove(q);
    assert forall|i: int, j: int| 0 <= i < j < r.len() implies r[i] != r[j] by {
        let i2 = if i < q { i } else { i + 1 }; let j2 = if j < q { j } else { j + 1 };
        assert(r[i] == s[i2]); assert(r[j] == s[j2]);
    }
    assert forall|i: int| 0 <= i < r.len() implies r[i] != s[q] && s.contains(#[trigger] r[i]) by {
        let i2 = if i < q { i } else { i + 1 };
        assert(r[i] == s[i2]);
    }
    assert forall|x: int| x != s[q] && s.contains(x) implies r.contains(x) by {
        let i = choose|i: int| 0 <= i < s.len() && s[i] == x;
        if i < q { assert(r[i] == x); } else { assert(r[i - 1] == x); }
    }
}

// raw facts: which single pointer changed
pub proof fn lemma_unlink_raw<N, E, Ix: IndexType>(ns0: Seq<Node<N, Ix>>, es0: Seq<Edge<E, Ix>>, ns1: Seq<Node<N, Ix>>, es1: Seq<Edge<E, Ix>>,
        k: int, ls: Seq<Seq<int>>, ev: EdgeIndex<Ix>, q: int)
    requires
        0 <= k < 2, lists_ok(ns0, es0, k, ls), es0.len() <= end_ix::<Ix>(),
        0 <= ev.0.ix() < es0.len(), es0[ev.0.ix() as int].node[k].0.ix() < ns0.len(),
        forall|j: int| 0 <= j < es0.len() ==> (#[trigger] es0[j]).node[k].0.ix() < ns0.len(),
        0 <= q < ls[es0[ev.0.ix() as int].node[k].0.ix() as int].len(),
        ls[es0[ev.0.ix() as int].node[k].0.ix() as int][q] == ev.0.ix(),
        payload_same(ns0, es0, ns1, es1),
        dir_done(ns0, es0, ns1, es1, es0[ev.0.ix() as int].node[k].0.ix() as int, ev, es0[ev.0.ix() as int].next[k], k,
                 ls[es0[ev.0.ix() as int].node[k].0.ix() as int]),
    ensures
        ({
            let e = ev.0.ix() as int; let a = es0[e].node[k].0.ix() as int; let s = ls[a];
            &&& q == 0 ==> ns1[a].next[k] == es0[e].next[k] && forall|j: int| 0 <= j < es0.len() ==> (#[trigger] es1[j]).next[k] == es0[j].next[k]
            &&& q > 0 ==> ns1[a].next[k] == ns0[a].next[k] && es1[s[q - 1]].next[k] == es0[e].next[k]
                          && forall|j: int| 0 <= j < es0.len() && j != s[q - 1] ==> (#[trigger] es1[j]).next[k] == es0[j].next[k]
            &&& forall|x: int| 0 <= x < ns0.len() && x != a ==> (#[trigger] ns1[x]).next[k] == ns0[x].next[k]
            &&& forall|i: int| 0 <= i < s.len() ==> 0 <= #[trigger] s[i] < es0.len()
        }),
{
    let e = ev.0.ix() as int;
    let a = es0[e].node[k].0.ix() as int;
    let s = ls[a];
    let t = end_ix::<Ix>() as int;
    let repl = es0[e].next[k];
    lemma_slist_is_tchain(es0, ns0[a].next[k], k, s);
    lemma_tchain_range(es0, ns0[a].next[k], k, s, t);
    if q == 0 {
        assert(ns0[a].next[k].0.ix() == e);
    } else {
        assert(ns0[a].next[k].0.ix() == s[0]);
        assert(s[0] != s[q]);
        lemma_first_link_pred(es0, ns0[a].next[k], k, s, t, ev, q);
    }
}

pub proof fn lemma_unlink_own<N, E, Ix: IndexType>(ns0: Seq<Node<N, Ix>>, es0: Seq<Edge<E, Ix>>, ns1: Seq<Node<N, Ix>>, es1: Seq<Edge<E, Ix>>,
        k: int, ls: Seq<Seq<int>>, ev: EdgeIndex<Ix>, q: int)
    requires
        0 <= k < 2, lists_ok(ns0, es0, k, ls), es0.len() <= end_ix::<Ix>(),
        0 <= ev.0.ix() < es0.len(), es0[ev.0.ix() as int].node[k].0.ix() < ns0.len(),
        forall|j: int| 0 <= j < es0.len() ==> (#[trigger] es0[j]).node[k].0.ix() < ns0.len(),
        0 <= q < ls[es0[ev.0.ix() as int].node[k].0.ix() as int].len(),
        ls[es0[ev.0.ix() as int].node[k].0.ix() as int][q] == ev.0.ix(),
        payload_same(ns0, es0, ns1, es1),
        dir_done(ns0, es0, ns1, es1, es0[ev.0.ix() as int].node[k].0.ix() as int, ev, es0[ev.0.ix() as int].next[k], k,
                 ls[es0[ev.0.ix() as int].node[k].0.ix() as int]),
    ensures
        ({
            let e = ev.0.ix() as int; let a = es0[e].node[k].0.ix() as int;
            slist(es1, ns1[a].next[k], k, ls[a].remove(q))
        }),
{
    let e = ev.0.ix() as int;
    let a = es0[e].node[k].0.ix() as int;
    let s = ls[a];
    let t = end_ix::<Ix>() as int;
    let repl = es0[e].next[k];
    lemma_unlink_raw(ns0, es0, ns1, es1, k, ls, ev, q);
    lemma_slist_is_tchain(es0, ns0[a].next[k], k, s);
    if q == 0 {
        lemma_tchain_succ(es0, ns0[a].next[k], k, s, t, 0);
        let rest = s.subrange(1, s.len() as int);
        assert(s.remove(0) =~= rest);
        assert forall|i: int| 0 <= i < rest.len() implies (#[trigger] rest[i]) < es1.len() && es1[rest[i]].next[k] == es0[rest[i]].next[k] by {
            assert(rest[i] == s[i + 1]);
        }
        lemma_tchain_frame(es0, es1, repl, k, rest, t);
        lemma_tchain_is_slist(es1, ns1[a].next[k], k, rest);
    } else {
        lemma_tunlink_inner(es0, es1, ns0[a].next[k], k, s, t, q);
        lemma_tchain_is_slist(es1, ns1[a].next[k], k, s.remove(q));
    }
}

pub proof fn lemma_unlink_other<N, E, Ix: IndexType>(ns0: Seq<Node<N, Ix>>, es0: Seq<Edge<E, Ix>>, ns1: Seq<Node<N, Ix>>, es1: Seq<Edge<E, Ix>>,
        k: int, ls: Seq<Seq<int>>, ev: EdgeIndex<Ix>, q: int, x: int)
    requires
        0 <= k < 2, lists_ok(ns0, es0, k, ls), es0.len() <= end_ix::<Ix>(),
        0 <= ev.0.ix() < es0.len(), es0[ev.0.ix() as int].node[k].0.ix() < ns0.len(),
        forall|j: int| 0 <= j < es0.len() ==> (#[trigger] es0[j]).node[k].0.ix() < ns0.len(),
        0 <= q < ls[es0[ev.0.ix() as int].node[k].0.ix() as int].len(),
        ls[es0[ev.0.ix() as int].node[k].0.ix() as int][q] == ev.0.ix(),
        payload_same(ns0, es0, ns1, es1),
        dir_done(ns0, es0, ns1, es1, es0[ev.0.ix() as int].node[k].0.ix() as int, ev, es0[ev.0.ix() as int].next[k], k,
                 ls[es0[ev.0.ix() as int].node[k].0.ix() as int]),
        0 <= x < ns0.len(), x != es0[ev.0.ix() as int].node[k].0.ix(),
    ensures slist(es1, ns1[x].next[k], k, ls[x]), !ls[x].contains(ev.0.ix() as int),
{
    let e = ev.0.ix() as int;
    let a = es0[e].node[k].0.ix() as int;
    let s = ls[a];
    let t = end_ix::<Ix>() as int;
    let repl = es0[e].next[k];
    lemma_unlink_raw(ns0, es0, ns1, es1, k, ls, ev, q);
    let sx = ls[x];
    lemma_slist_is_tchain(es0, ns0[x].next[k], k, sx);
    lemma_tchain_range(es0, ns0[x].next[k], k, sx, t);
    assert forall|i: int| 0 <= i < sx.len() implies (#[trigger] sx[i]) < es1.len() && es1[sx[i]].next[k] == es0[sx[i]].next[k] by {
        assert(es0[sx[i]].node[k].0.ix() == x);
        if q > 0 { assert(es0[s[q - 1]].node[k].0.ix() == a); }
    }
    lemma_tchain_frame(es0, es1, ns0[x].next[k], k, sx, t);
    lemma_tchain_is_slist(es1, ns1[x].next[k], k, sx);
    if sx.contains(e) {
        let i = choose|i: int| 0 <= i < sx.len() && sx[i] == e;
        assert(es0[sx[i]].node[k].0.ix() == x);
        assert(false);
    }
}

pub proof fn lemma_unlink_dir<N, E, Ix: IndexType>(ns0: Seq<Node<N, Ix>>, es0: Seq<Edge<E, Ix>>, ns1: Seq<Node<N, Ix>>, es1: Seq<Edge<E, Ix>>,
        k: int, ls: Seq<Seq<int>>, ev: EdgeIndex<Ix>, q: int)
    requires
        0 <= k < 2, lists_ok(ns0, es0, k, ls), es0.len() <= end_ix::<Ix>(),
        0 <= ev.0.ix() < es0.len(), es0[ev.0.ix() as int].node[k].0.ix() < ns0.len(),
        forall|j: int| 0 <= j < es0.len() ==> (#[trigger] es0[j]).node[k].0.ix() < ns0.len(),
        0 <= q < ls[es0[ev.0.ix() as int].node[k].0.ix() as int].len(),
        ls[es0[ev.0.ix() as int].node[k].0.ix() as int][q] == ev.0.ix(),
        payload_same(ns0, es0, ns1, es1),
        dir_done(ns0, es0, ns1, es1, es0[ev.0.ix() as int].node[k].0.ix() as int, ev, es0[ev.0.ix() as int].next[k], k,
                 ls[es0[ev.0.ix() as int].node[k].0.ix() as int]),
    ensures
        lists_ok_except(ns1, es1, k,
            ls.update(es0[ev.0.ix() as int].node[k].0.ix() as int, ls[es0[ev.0.ix() as int].node[k].0.ix() as int].remove(q)),
            ev.0.ix() as int),
{
    let e = ev.0.ix() as int;
    let a = es0[e].node[k].0.ix() as int;
    let s = ls[a];
    let t = end_ix::<Ix>() as int;
    let repl = es0[e].next[k];
    let ls1 = ls.update(a, s.remove(q));
    lemma_no_dup_remove(s, q);
    lemma_unlink_own(ns0, es0, ns1, es1, k, ls, ev, q);
    assert forall|x: int| 0 <= x < ns1.len() implies slist(es1, ns1[x].next[k], k, #[trigger] ls1[x]) && no_dup(ls1[x]) && !ls1[x].contains(e) by {
        if x != a { lemma_unlink_other(ns0, es0, ns1, es1, k, ls, ev, q, x); }
    }
    assert forall|x: int, i: int| 0 <= x < ns1.len() && 0 <= i < ls1[x].len() implies es1[#[trigger] ls1[x][i]].node[k].0.ix() == x by {
        if x == a {
            let i2 = if i < q { i } else { i + 1 };
            assert(ls1[a][i] == s[i2]);
        }
        lemma_slist_range(es0, ns0[x].next[k], k, ls[x]);
    }
    assert forall|j: int| 0 <= j < es1.len() && j != e implies (#[trigger] ls1[es1[j].node[k].0.ix() as int]).contains(j) by {
        let x = es0[j].node[k].0.ix() as int;
        assert(ls[x].contains(j));
    }
}

// ---------- e was the last edge: plain truncation ----------
pub proof fn lemma_truncate_dir<N, E, Ix: IndexType>(ns: Seq<Node<N, Ix>>, es: Seq<Edge<E, Ix>>, es2: Seq<Edge<E, Ix>>, k: int, ls: Seq<Seq<int>>)
    requires
        0 <= k < 2, es.len() >= 1, es.len() <= end_ix::<Ix>(),
        lists_ok_except(ns, es, k, ls, es.len() - 1),
        forall|j: int| 0 <= j < es.len() ==> (#[trigger] es[j]).node[k].0.ix() < ns.len(),
        es2.len() == es.len() - 1, forall|j: int| 0 <= j < es2.len() ==> es2[j] == es[j],
    ensures lists_ok(ns, es2, k, ls)
{
    let t = end_ix::<Ix>() as int;
    let e = es.len() - 1;
    assert forall|a: int| 0 <= a < ns.len() implies slist(es2, ns[a].next[k], k, #[trigger] ls[a]) && no_dup(ls[a]) by {
        let s = ls[a];
        lemma_slist_is_tchain(es, ns[a].next[k], k, s);
        lemma_tchain_range(es, ns[a].next[k], k, s, t);
        assert forall|i: int| 0 <= i < s.len() implies (#[trigger] s[i]) < es2.len() && es2[s[i]].next[k] == es[s[i]].next[k] by {
            if s[i] == e { assert(s.contains(e)); }
        }
        lemma_tchain_frame(es, es2, ns[a].next[k], k, s, t);
        lemma_tchain_is_slist(es2, ns[a].next[k], k, s);
    }
    assert forall|a: int, i: int| 0 <= a < ns.len() && 0 <= i < ls[a].len() implies es2[#[trigger] ls[a][i]].node[k].0.ix() == a by {
        lemma_slist_range(es, ns[a].next[k], k, ls[a]);
        if ls[a][i] == e { assert(ls[a].contains(e)); }
    }
    assert forall|j: int| 0 <= j < es2.len() implies (#[trigger] ls[es2[j].node[k].0.ix() as int]).contains(j) by { assert(es2[j] == es[j]); }
}

// ---------- pre_then helpers ----------
pub proof fn lemma_pre_then_frame<E, Ix: IndexType>(es: Seq<Edge<E, Ix>>, es2: Seq<Edge<E, Ix>>, head: EdgeIndex<Ix>, k: int, pre: Seq<int>, mid: EdgeIndex<Ix>)
    requires
        pre_then(es, head, k, pre, mid),
        forall|i: int| 0 <= i < pre.len() ==> (#[trigger] pre[i]) < es2.len() && es2[pre[i]].next[k] == es[pre[i]].next[k],
    ensures pre_then(es2, head, k, pre, mid)
    decreases pre.len()
{
    if pre.len() > 0 {
        let r = pre.drop_first();
        assert forall|i: int| 0 <= i < r.len() implies (#[trigger] r[i]) < es2.len() && es2[r[i]].next[k] == es[r[i]].next[k] by { assert(r[i] == pre[i + 1]); }
        assert(pre[0] < es2.len() && es2[pre[0]].next[k] == es[pre[0]].next[k]);
        lemma_pre_then_frame(es, es2, es[pre[0]].next[k], k, r, mid);
    }
}
// pre_then is a chain when the pointer after it leaves the array
pub proof fn lemma_pre_then_chain<E, Ix: IndexType>(es: Seq<Edge<E, Ix>>, head: EdgeIndex<Ix>, k: int, pre: Seq<int>, mid: EdgeIndex<Ix>)
    requires pre_then(es, head, k, pre, mid), mid.0.ix() >= es.len()
    ensures chain(es, head, k, pre)
    decreases pre.len()
{
    if pre.len() > 0 { lemma_pre_then_chain(es, es[pre[0]].next[k], k, pre.drop_first(), mid); }
}
// in a pre_then whose members' successors are members (hence different from tv) the first link equal to tv is the last one
pub proof fn lemma_first_link_pre<E, Ix: IndexType>(es: Seq<Edge<E, Ix>>, head: EdgeIndex<Ix>, k: int, pre: Seq<int>, mid: EdgeIndex<Ix>, tv: EdgeIndex<Ix>)
    requires
        pre_then(es, head, k, pre, mid), mid.0.ix() == tv.0.ix(), pre.len() >= 1,
        forall|i: int| 0 <= i < pre.len() ==> #[trigger] pre[i] != tv.0.ix(),
    ensures
        first_link(es, k, pre, tv) == pre.len() - 1,
        es[pre[pre.len() - 1]].next[k] == mid,
        0 <= pre[pre.len() - 1] < es.len(),
    decreases pre.len()
{
    let r = pre.drop_first();
    if pre.len() == 1 {
        assert(pre_then(es, es[pre[0]].next[k], k, r, mid));
        assert(es[pre[0]].next[k] == mid);
    } else {
        assert forall|i: int| 0 <= i < r.len() implies #[trigger] r[i] != tv.0.ix() by { assert(r[i] == pre[i + 1]); }
        lemma_first_link_pre(es, es[pre[0]].next[k], k, r, mid, tv);
        assert(pre_then(es, es[pre[0]].next[k], k, r, mid));
        assert(r.len() >= 1);
        assert(es[pre[0]].next[k].0.ix() == r[0]);
        assert(r[0] == pre[1]);
        assert(r[r.len() - 1] == pre[pre.len() - 1]);
    }
}
// replacing the pointer after `pre` (held by its last member, not otherwise touching members) gives pre_then with the new pointer
pub proof fn lemma_pre_then_retarget<E, Ix: IndexType>(es: Seq<Edge<E, Ix>>, es2: Seq<Edge<E, Ix>>, head: EdgeIndex<Ix>, k: int, pre: Seq<int>, mid: EdgeIndex<Ix>, mid2: EdgeIndex<Ix>)
    requires
        pre_then(es, head, k, pre, mid), pre.len() >= 1, no_dup(pre),
        forall|i: int| 0 <= i < pre.len() ==> (#[trigger] pre[i]) < es2.len(),
        es2[pre[pre.len() - 1]].next[k] == mid2,
        forall|i: int| 0 <= i < pre.len() - 1 ==> es2[#[trigger] pre[i]].next[k] == es[pre[i]].next[k],
    ensures pre_then(es2, head, k, pre, mid2)
    decreases pre.len()
{
    let r = pre.drop_first();
    if pre.len() == 1 {
        assert(pre_then(es2, mid2, k, r, mid2));
    } else {
        assert(no_dup(r)) by { assert forall|i: int, j: int| 0 <= i < j < r.len() implies r[i] != r[j] by { assert(r[i] == pre[i + 1]); assert(r[j] == pre[j + 1]); } }
        assert forall|i: int| 0 <= i < r.len() implies (#[trigger] r[i]) < es2.len() by { assert(r[i] == pre[i + 1]); }
        assert forall|i: int| 0 <= i < r.len() - 1 implies es2[#[trigger] r[i]].next[k] == es[r[i]].next[k] by { assert(r[i] == pre[i + 1]); }
        assert(r[r.len() - 1] == pre[pre.len() - 1]);
        assert(es2[pre[0]].next[k] == es[pre[0]].next[k]);
        lemma_pre_then_retarget(es, es2, es[pre[0]].next[k], k, r, mid, mid2);
    }
}

// ---------- the last edge L moved into slot e: rename L -> e in L's k-list ----------
// precondition for the second change_edge_links call: in es2 (after swap_remove) the part of L's list before L is a chain
pub proof fn lemma_rename_pre<N, E, Ix: IndexType>(ns1: Seq<Node<N, Ix>>, es1: Seq<Edge<E, Ix>>, es2: Seq<Edge<E, Ix>>, k: int, ls1: Seq<Seq<int>>, e: int, q: int)
    requires
        0 <= k < 2, es1.len() >= 2, es1.len() <= end_ix::<Ix>(), 0 <= e < es1.len() - 1,
        lists_ok_except(ns1, es1, k, ls1, e),
        forall|j: int| 0 <= j < es1.len() ==> (#[trigger] es1[j]).node[k].0.ix() < ns1.len(),
        es2.len() == es1.len() - 1, es2[e] == es1[es1.len() - 1],
        forall|j: int| 0 <= j < es2.len() && j != e ==> es2[j] == es1[j],
        0 <= q < ls1[es1[es1.len() - 1].node[k].0.ix() as int].len(),
        ls1[es1[es1.len() - 1].node[k].0.ix() as int][q] == es1.len() - 1,
    ensures
        chain(es2, ns1[es1[es1.len() - 1].node[k].0.ix() as int].next[k], k, ls1[es1[es1.len() - 1].node[k].0.ix() as int].subrange(0, q)),
        no_dup(ls1[es1[es1.len() - 1].node[k].0.ix() as int].subrange(0, q)),
{
    let l = es1.len() - 1;
    let al = es1[l].node[k].0.ix() as int;
    let s = ls1[al];
    let t = end_ix::<Ix>() as int;
    let pre = s.subrange(0, q);
    lemma_slist_is_tchain(es1, ns1[al].next[k], k, s);
    lemma_tchain_range(es1, ns1[al].next[k], k, s, t);
    lemma_tchain_prefix(es1, ns1[al].next[k], k, s, t, q);
    let mid = choose|mid: EdgeIndex<Ix>| mid.0.ix() == s[q] && pre_then(es1, ns1[al].next[k], k, pre, mid);
    assert forall|i: int| 0 <= i < pre.len() implies (#[trigger] pre[i]) < es2.len() && es2[pre[i]].next[k] == es1[pre[i]].next[k] by {
        assert(pre[i] == s[i]);
        assert(s[i] != s[q]);
        if s[i] == e { assert(s.contains(e)); }
    }
    lemma_pre_then_frame(es1, es2, ns1[al].next[k], k, pre, mid);
    lemma_pre_then_chain(es2, ns1[al].next[k], k, pre, mid);
    assert forall|i: int, j: int| 0 <= i < j < pre.len() implies pre[i] != pre[j] by { assert(pre[i] == s[i]); assert(pre[j] == s[j]); }
}

// raw consequences of the second relink for L's own list: the pointer that led to L now leads to e, nothing else on the list moved
pub proof fn lemma_rename_raw<N, E, Ix: IndexType>(ns1: Seq<Node<N, Ix>>, es1: Seq<Edge<E, Ix>>, es2: Seq<Edge<E, Ix>>, ns3: Seq<Node<N, Ix>>, es3: Seq<Edge<E, Ix>>,
        k: int, ls1: Seq<Seq<int>>, ev: EdgeIndex<Ix>, lv: EdgeIndex<Ix>, q: int)
    requires
        0 <= k < 2, es1.len() >= 2, es1.len() <= end_ix::<Ix>(), 0 <= ev.0.ix() < es1.len() - 1, lv.0.ix() == es1.len() - 1,
        lists_ok_except(ns1, es1, k, ls1, ev.0.ix() as int),
        forall|j: int| 0 <= j < es1.len() ==> (#[trigger] es1[j]).node[k].0.ix() < ns1.len(),
        es2.len() == es1.len() - 1, es2[ev.0.ix() as int] == es1[es1.len() - 1],
        forall|j: int| 0 <= j < es2.len() && j != ev.0.ix() ==> es2[j] == es1[j],
        0 <= q < ls1[es1[es1.len() - 1].node[k].0.ix() as int].len(),
        ls1[es1[es1.len() - 1].node[k].0.ix() as int][q] == es1.len() - 1,
        payload_same(ns1, es2, ns3, es3),
        dir_done(ns1, es2, ns3, es3, es1[es1.len() - 1].node[k].0.ix() as int, lv, ev, k,
                 ls1[es1[es1.len() - 1].node[k].0.ix() as int].subrange(0, q)),
    ensures
        ({
            let e = ev.0.ix() as int; let l = es1.len() - 1; let al = es1[l].node[k].0.ix() as int; let s = ls1[al];
            &&& forall|i: int| 0 <= i < s.len() && i != q ==> s[i] < l && s[i] != e && es2[#[trigger] s[i]] == es1[s[i]]
            &&& q == 0 ==> ns3[al].next[k] == ev
            &&& q > 0 ==> ns3[al].next[k] == ns1[al].next[k] && es3[s[q - 1]].next[k] == ev
            &&& forall|j: int| 0 <= j < es2.len() && !(q > 0 && j == s[q - 1]) ==> (#[trigger] es3[j]).next[k] == es2[j].next[k]
            &&& forall|x: int| 0 <= x < ns1.len() && x != al ==> (#[trigger] ns3[x]).next[k] == ns1[x].next[k]
        }),
{
    let e = ev.0.ix() as int;
    let l = es1.len() - 1;
    let al = es1[l].node[k].0.ix() as int;
    let s = ls1[al];
    let t = end_ix::<Ix>() as int;
    let pre = s.subrange(0, q);
    let suf = s.subrange(q + 1, s.len() as int);
    let s3 = s.update(q, e);
    lemma_slist_is_tchain(es1, ns1[al].next[k], k, s);
    lemma_tchain_range(es1, ns1[al].next[k], k, s, t);
    lemma_tchain_prefix(es1, ns1[al].next[k], k, s, t, q);
    let mid = choose|mid: EdgeIndex<Ix>| mid.0.ix() == s[q] && pre_then(es1, ns1[al].next[k], k, pre, mid);
    assert forall|i: int| 0 <= i < s.len() && i != q implies s[i] < l && s[i] != e && es2[#[trigger] s[i]] == es1[s[i]] by {
        if i < q { assert(s[i] != s[q]); } else { assert(s[q] != s[i]); }
        if s[i] == e { assert(s.contains(e)); }
    }
    assert forall|i: int| 0 <= i < pre.len() implies (#[trigger] pre[i]) < es2.len() && es2[pre[i]].next[k] == es1[pre[i]].next[k] by { assert(pre[i] == s[i]); }
    lemma_pre_then_frame(es1, es2, ns1[al].next[k], k, pre, mid);
    assert forall|i: int| 0 <= i < pre.len() implies #[trigger] pre[i] != lv.0.ix() by { assert(pre[i] == s[i]); }
    if q == 0 {
        assert(pre =~= Seq::<int>::empty());
        assert(ns1[al].next[k] == mid);
    } else {
        lemma_first_link_pre(es2, ns1[al].next[k], k, pre, mid, lv);
        assert(pre[pre.len() - 1] == s[q - 1]);
        assert(ns1[al].next[k].0.ix() == pre[0]);
    }
}

// L's own list after the rename, in three steps (kept as separate queries: one big query was unstable)
// (A) the part of the list before L now leads to slot e
pub proof fn lemma_rename_own_prefix<N, E, Ix: IndexType>(ns1: Seq<Node<N, Ix>>, es1: Seq<Edge<E, Ix>>, es2: Seq<Edge<E, Ix>>, ns3: Seq<Node<N, Ix>>, es3: Seq<Edge<E, Ix>>,
        k: int, ls1: Seq<Seq<int>>, ev: EdgeIndex<Ix>, lv: EdgeIndex<Ix>, q: int)
    requires
        0 <= k < 2, es1.len() >= 2, es1.len() <= end_ix::<Ix>(), 0 <= ev.0.ix() < es1.len() - 1, lv.0.ix() == es1.len() - 1,
        lists_ok_except(ns1, es1, k, ls1, ev.0.ix() as int),
        forall|j: int| 0 <= j < es1.len() ==> (#[trigger] es1[j]).node[k].0.ix() < ns1.len(),
        es2.len() == es1.len() - 1, es2[ev.0.ix() as int] == es1[es1.len() - 1],
        forall|j: int| 0 <= j < es2.len() && j != ev.0.ix() ==> es2[j] == es1[j],
        0 <= q < ls1[es1[es1.len() - 1].node[k].0.ix() as int].len(),
        ls1[es1[es1.len() - 1].node[k].0.ix() as int][q] == es1.len() - 1,
        payload_same(ns1, es2, ns3, es3),
        dir_done(ns1, es2, ns3, es3, es1[es1.len() - 1].node[k].0.ix() as int, lv, ev, k,
                 ls1[es1[es1.len() - 1].node[k].0.ix() as int].subrange(0, q)),
    ensures
        ({
            let e = ev.0.ix() as int; let l = es1.len() - 1; let al = es1[l].node[k].0.ix() as int; let s = ls1[al];
            pre_then(es3, ns3[al].next[k], k, s.subrange(0, q), ev) && no_dup(s.subrange(0, q))
        }),
{
    let e = ev.0.ix() as int;
    let l = es1.len() - 1;
    let al = es1[l].node[k].0.ix() as int;
    let s = ls1[al];
    let t = end_ix::<Ix>() as int;
    let pre = s.subrange(0, q);
    let suf = s.subrange(q + 1, s.len() as int);
    let s3 = s.update(q, e);
    lemma_rename_raw(ns1, es1, es2, ns3, es3, k, ls1, ev, lv, q);
    lemma_slist_is_tchain(es1, ns1[al].next[k], k, s);
    lemma_tchain_range(es1, ns1[al].next[k], k, s, t);
    lemma_tchain_prefix(es1, ns1[al].next[k], k, s, t, q);
    let mid = choose|mid: EdgeIndex<Ix>| mid.0.ix() == s[q] && pre_then(es1, ns1[al].next[k], k, pre, mid);
    assert(no_dup(pre)) by { assert forall|i: int, j: int| 0 <= i < j < pre.len() implies pre[i] != pre[j] by { assert(pre[i] == s[i]); assert(pre[j] == s[j]); } }
    if q == 0 {
        assert(pre =~= Seq::<int>::empty());
    } else {
        assert forall|i: int| 0 <= i < pre.len() implies (#[trigger] pre[i]) < es3.len() && es2[pre[i]].next[k] == es1[pre[i]].next[k] by { assert(pre[i] == s[i]); }
        lemma_pre_then_frame(es1, es2, ns1[al].next[k], k, pre, mid);
        assert(pre[pre.len() - 1] == s[q - 1]);
        assert forall|i: int| 0 <= i < pre.len() - 1 implies es3[#[trigger] pre[i]].next[k] == es2[pre[i]].next[k] by {
            assert(pre[i] == s[i]); assert(s[i] != s[q - 1]);
        }
        lemma_pre_then_retarget(es2, es3, ns1[al].next[k], k, pre, mid, ev);
    }
}
// (B) from slot e the old tail follows
pub proof fn lemma_rename_own_tail<N, E, Ix: IndexType>(ns1: Seq<Node<N, Ix>>, es1: Seq<Edge<E, Ix>>, es2: Seq<Edge<E, Ix>>, ns3: Seq<Node<N, Ix>>, es3: Seq<Edge<E, Ix>>,
        k: int, ls1: Seq<Seq<int>>, ev: EdgeIndex<Ix>, lv: EdgeIndex<Ix>, q: int)
    requires
        0 <= k < 2, es1.len() >= 2, es1.len() <= end_ix::<Ix>(), 0 <= ev.0.ix() < es1.len() - 1, lv.0.ix() == es1.len() - 1,
        lists_ok_except(ns1, es1, k, ls1, ev.0.ix() as int),
        forall|j: int| 0 <= j < es1.len() ==> (#[trigger] es1[j]).node[k].0.ix() < ns1.len(),
        es2.len() == es1.len() - 1, es2[ev.0.ix() as int] == es1[es1.len() - 1],
        forall|j: int| 0 <= j < es2.len() && j != ev.0.ix() ==> es2[j] == es1[j],
        0 <= q < ls1[es1[es1.len() - 1].node[k].0.ix() as int].len(),
        ls1[es1[es1.len() - 1].node[k].0.ix() as int][q] == es1.len() - 1,
        payload_same(ns1, es2, ns3, es3),
        dir_done(ns1, es2, ns3, es3, es1[es1.len() - 1].node[k].0.ix() as int, lv, ev, k,
                 ls1[es1[es1.len() - 1].node[k].0.ix() as int].subrange(0, q)),
    ensures
        ({
            let e = ev.0.ix() as int; let l = es1.len() - 1; let al = es1[l].node[k].0.ix() as int; let s = ls1[al];
            tchain(es3, ev, k, seq![e] + s.subrange(q + 1, s.len() as int), end_ix::<Ix>() as int)
        }),
{
    let e = ev.0.ix() as int;
    let l = es1.len() - 1;
    let al = es1[l].node[k].0.ix() as int;
    let s = ls1[al];
    let t = end_ix::<Ix>() as int;
    let pre = s.subrange(0, q);
    let suf = s.subrange(q + 1, s.len() as int);
    let s3 = s.update(q, e);
    lemma_rename_raw(ns1, es1, es2, ns3, es3, k, ls1, ev, lv, q);
    lemma_slist_is_tchain(es1, ns1[al].next[k], k, s);
    lemma_tchain_range(es1, ns1[al].next[k], k, s, t);
    lemma_tchain_succ(es1, ns1[al].next[k], k, s, t, q);
    assert(tchain(es3, es3[e].next[k], k, suf, t)) by {
        if q > 0 { assert(s[q - 1] != e); }
        assert(es3[e].next[k] == es2[e].next[k]);
        assert forall|i: int| 0 <= i < suf.len() implies (#[trigger] suf[i]) < es3.len() && es3[suf[i]].next[k] == es1[suf[i]].next[k] by {
            assert(suf[i] == s[q + 1 + i]);
            if q > 0 { assert(s[q - 1] != s[q + 1 + i]); }
        }
        lemma_tchain_frame(es1, es3, es1[l].next[k], k, suf, t);
    }
    let tail = seq![e] + suf;
    assert(tail.drop_first() =~= suf);
    assert(tail[0] == e);
}
// (C) together
pub proof fn lemma_rename_own<N, E, Ix: IndexType>(ns1: Seq<Node<N, Ix>>, es1: Seq<Edge<E, Ix>>, es2: Seq<Edge<E, Ix>>, ns3: Seq<Node<N, Ix>>, es3: Seq<Edge<E, Ix>>,
        k: int, ls1: Seq<Seq<int>>, ev: EdgeIndex<Ix>, lv: EdgeIndex<Ix>, q: int)
    requires
        0 <= k < 2, es1.len() >= 2, es1.len() <= end_ix::<Ix>(), 0 <= ev.0.ix() < es1.len() - 1, lv.0.ix() == es1.len() - 1,
        lists_ok_except(ns1, es1, k, ls1, ev.0.ix() as int),
        forall|j: int| 0 <= j < es1.len() ==> (#[trigger] es1[j]).node[k].0.ix() < ns1.len(),
        es2.len() == es1.len() - 1, es2[ev.0.ix() as int] == es1[es1.len() - 1],
        forall|j: int| 0 <= j < es2.len() && j != ev.0.ix() ==> es2[j] == es1[j],
        0 <= q < ls1[es1[es1.len() - 1].node[k].0.ix() as int].len(),
        ls1[es1[es1.len() - 1].node[k].0.ix() as int][q] == es1.len() - 1,
        payload_same(ns1, es2, ns3, es3),
        dir_done(ns1, es2, ns3, es3, es1[es1.len() - 1].node[k].0.ix() as int, lv, ev, k,
                 ls1[es1[es1.len() - 1].node[k].0.ix() as int].subrange(0, q)),
    ensures
        ({
            let e = ev.0.ix() as int; let l = es1.len() - 1; let al = es1[l].node[k].0.ix() as int; let s = ls1[al];
            slist(es3, ns3[al].next[k], k, s.update(q, e)) && no_dup(s.update(q, e))
        }),
{
    let e = ev.0.ix() as int;
    let l = es1.len() - 1;
    let al = es1[l].node[k].0.ix() as int;
    let s = ls1[al];
    let t = end_ix::<Ix>() as int;
    let pre = s.subrange(0, q);
    let suf = s.subrange(q + 1, s.len() as int);
    let s3 = s.update(q, e);
    lemma_rename_own_prefix(ns1, es1, es2, ns3, es3, k, ls1, ev, lv, q);
    lemma_rename_own_tail(ns1, es1, es2, ns3, es3, k, ls1, ev, lv, q);
    let tail = seq![e] + suf;
    lemma_tchain_splice(es3, ns3[al].next[k], k, pre, ev, tail, t);
    assert(pre + tail =~= s3);
    lemma_tchain_is_slist(es3, ns3[al].next[k], k, s3);
    lemma_slist_range(es1, ns1[al].next[k], k, s);
    assert forall|i: int, j: int| 0 <= i < j < s3.len() implies s3[i] != s3[j] by {
        if i == q { if s[j] == e { assert(s.contains(e)); } } else if j == q { if s[i] == e { assert(s.contains(e)); } }
    }
}

// every other list is untouched
pub proof fn lemma_rename_other<N, E, Ix: IndexType>(ns1: Seq<Node<N, Ix>>, es1: Seq<Edge<E, Ix>>, es2: Seq<Edge<E, Ix>>, ns3: Seq<Node<N, Ix>>, es3: Seq<Edge<E, Ix>>,
        k: int, ls1: Seq<Seq<int>>, ev: EdgeIndex<Ix>, lv: EdgeIndex<Ix>, q: int, x: int)
    requires
        0 <= k < 2, es1.len() >= 2, es1.len() <= end_ix::<Ix>(), 0 <= ev.0.ix() < es1.len() - 1, lv.0.ix() == es1.len() - 1,
        lists_ok_except(ns1, es1, k, ls1, ev.0.ix() as int),
        forall|j: int| 0 <= j < es1.len() ==> (#[trigger] es1[j]).node[k].0.ix() < ns1.len(),
        es2.len() == es1.len() - 1, es2[ev.0.ix() as int] == es1[es1.len() - 1],
        forall|j: int| 0 <= j < es2.len() && j != ev.0.ix() ==> es2[j] == es1[j],
        0 <= q < ls1[es1[es1.len() - 1].node[k].0.ix() as int].len(),
        ls1[es1[es1.len() - 1].node[k].0.ix() as int][q] == es1.len() - 1,
        payload_same(ns1, es2, ns3, es3),
        dir_done(ns1, es2, ns3, es3, es1[es1.len() - 1].node[k].0.ix() as int, lv, ev, k,
                 ls1[es1[es1.len() - 1].node[k].0.ix() as int].subrange(0, q)),
        0 <= x < ns1.len(), x != es1[es1.len() - 1].node[k].0.ix(),
    ensures slist(es3, ns3[x].next[k], k, ls1[x]),
{
    let e = ev.0.ix() as int;
    let l = es1.len() - 1;
    let al = es1[l].node[k].0.ix() as int;
    let s = ls1[al];
    let t = end_ix::<Ix>() as int;
    let pre = s.subrange(0, q);
    let suf = s.subrange(q + 1, s.len() as int);
    let s3 = s.update(q, e);
    lemma_rename_raw(ns1, es1, es2, ns3, es3, k, ls1, ev, lv, q);
    let sx = ls1[x];
    lemma_slist_is_tchain(es1, ns1[x].next[k], k, sx);
    lemma_tchain_range(es1, ns1[x].next[k], k, sx, t);
    lemma_slist_range(es1, ns1[al].next[k], k, s);
    assert forall|i: int| 0 <= i < sx.len() implies (#[trigger] sx[i]) < es3.len() && es3[sx[i]].next[k] == es1[sx[i]].next[k] by {
        assert(es1[sx[i]].node[k].0.ix() == x);
        if sx[i] == e { assert(sx.contains(e)); }
        if q > 0 { assert(es1[s[q - 1]].node[k].0.ix() == al); }
    }
    lemma_tchain_frame(es1, es3, ns1[x].next[k], k, sx, t);
    lemma_tchain_is_slist(es3, ns3[x].next[k], k, sx);
}

pub proof fn lemma_rename_dir<N, E, Ix: IndexType>(ns1: Seq<Node<N, Ix>>, es1: Seq<Edge<E, Ix>>, es2: Seq<Edge<E, Ix>>, ns3: Seq<Node<N, Ix>>, es3: Seq<Edge<E, Ix>>,
        k: int, ls1: Seq<Seq<int>>, ev: EdgeIndex<Ix>, lv: EdgeIndex<Ix>, q: int)
    requires
        0 <= k < 2, es1.len() >= 2, es1.len() <= end_ix::<Ix>(), 0 <= ev.0.ix() < es1.len() - 1, lv.0.ix() == es1.len() - 1,
        lists_ok_except(ns1, es1, k, ls1, ev.0.ix() as int),
        forall|j: int| 0 <= j < es1.len() ==> (#[trigger] es1[j]).node[k].0.ix() < ns1.len(),
        es2.len() == es1.len() - 1, es2[ev.0.ix() as int] == es1[es1.len() - 1],
        forall|j: int| 0 <= j < es2.len() && j != ev.0.ix() ==> es2[j] == es1[j],
        0 <= q < ls1[es1[es1.len() - 1].node[k].0.ix() as int].len(),
        ls1[es1[es1.len() - 1].node[k].0.ix() as int][q] == es1.len() - 1,
        payload_same(ns1, es2, ns3, es3),
        dir_done(ns1, es2, ns3, es3, es1[es1.len() - 1].node[k].0.ix() as int, lv, ev, k,
                 ls1[es1[es1.len() - 1].node[k].0.ix() as int].subrange(0, q)),
    ensures
        lists_ok(ns3, es3, k, ls1.update(es1[es1.len() - 1].node[k].0.ix() as int,
                                         ls1[es1[es1.len() - 1].node[k].0.ix() as int].update(q, ev.0.ix() as int))),
{
    let e = ev.0.ix() as int;
    let l = es1.len() - 1;
    let al = es1[l].node[k].0.ix() as int;
    let s = ls1[al];
    let t = end_ix::<Ix>() as int;
    let pre = s.subrange(0, q);
    let suf = s.subrange(q + 1, s.len() as int);
    let s3 = s.update(q, e);
    let ls3 = ls1.update(al, s3);
    lemma_rename_own(ns1, es1, es2, ns3, es3, k, ls1, ev, lv, q);
    assert forall|x: int| 0 <= x < ns3.len() implies slist(es3, ns3[x].next[k], k, #[trigger] ls3[x]) && no_dup(ls3[x]) by {
        if x != al { lemma_rename_other(ns1, es1, es2, ns3, es3, k, ls1, ev, lv, q, x); }
    }
    assert forall|x: int, i: int| 0 <= x < ns3.len() && 0 <= i < ls3[x].len() implies es3[#[trigger] ls3[x][i]].node[k].0.ix() == x by {
        lemma_slist_range(es1, ns1[x].next[k], k, ls1[x]);
        let j = ls1[x][i];
        if x == al && i == q { } else {
            if j == e { assert(ls1[x].contains(e)); }
            if j == l { assert(es1[l].node[k].0.ix() == x); assert(ls1[x][i] == s[q]); }
        }
    }
    assert forall|j: int| 0 <= j < es3.len() implies (#[trigger] ls3[es3[j].node[k].0.ix() as int]).contains(j) by {
        if j == e {
            assert(s3[q] == e);
        } else {
            let x = es1[j].node[k].0.ix() as int;
            assert(ls1[x].contains(j));
            let i = choose|i: int| 0 <= i < ls1[x].len() && ls1[x][i] == j;
            if x == al { assert(i != q); assert(s3[i] == j); }
        }
    }
}
pub open spec fn endpoints_ok<N, E, Ix: IndexType>(ns: Seq<Node<N, Ix>>, es: Seq<Edge<E, Ix>>) -> bool {
    forall|j: int| 0 <= j < es.len() ==> (#[trigger] es[j]).node[0].0.ix() < ns.len() && es[j].node[1].0.ix() < ns.len()
}
