// ======================================================================================
// fragment visit_dir.rs - IntoNeighborsDirected as a trait contract and the `Reversed` adaptor's
// neighbour impls proved against it (properties C06 / C08)
// ======================================================================================

//@ item src/visit/mod.rs | - | trait IntoNeighborsDirected
/// Access to the neighbors of each node, through incoming or outgoing edges.
pub trait IntoNeighborsDirected : IntoNeighbors {
    type NeighborsDirected: Iterator<Item=Self::NodeId>/*+*/;
    /// the neighbours of `a` in direction `d`, in iteration order
    spec fn nbrs(self, a: Self::NodeId, d: Direction) -> Seq<Self::NodeId>;
    /// one consistent graph: the outgoing neighbours are the successors, and b is an incoming neighbour of a exactly
    /// when a is a successor of b; neighbours are nodes
    proof fn dir_law(self, a: Self::NodeId, b: Self::NodeId)
        requires self.inv()
        ensures self.nbrs(a, Direction::Outgoing) == self.succ(a),
            self.nbrs(a, Direction::Incoming).contains(b) <==> (self.is_node(b) && self.succ(b).contains(a)),
            forall|i: int| 0 <= i < self.nbrs(a, Direction::Incoming).len() ==> self.is_node(#[trigger] self.nbrs(a, Direction::Incoming)[i])/*-*/;
    fn neighbors_directed(self, n: Self::NodeId, d: Direction)
        -> (r: Self::NeighborsDirected)
        /*+*/requires self.inv()
        ensures r.obeys_prophetic_iter_laws(), r.decrease() is Some, r.remaining() == self.nbrs(n, d)/*-*/;   // [neighbors_directed_is_nbrs]
}
//@ end

//@ item src/visit/reversed.rs | - | struct Reversed
/// An edge-reversing graph adaptor.
///
/// All edges have the opposite direction with `Reversed`.
#[derive(Copy, Clone)]
pub struct Reversed<G>(pub G);
//@ end

//@ item src/visit/reversed.rs | - | impl<G: GraphBase> GraphBase for Reversed<G>
impl<G: GraphBase> GraphBase for Reversed<G> {
    type NodeId = G::NodeId;
    type EdgeId = G::EdgeId;
}
//@ end

//@ item src/visit/reversed.rs | - | impl<G: GraphRef> GraphRef for Reversed<G>
impl<G: GraphRef> GraphRef for Reversed<G> {}
//@ end

//@ item src/visit/reversed.rs | - | impl<G> IntoNeighbors for Reversed<G> where G: IntoNeighborsDirected
impl<G> IntoNeighbors for Reversed<G>
where
    G: IntoNeighborsDirected,
{
    type Neighbors = G::NeighborsDirected;
    /*+*/
    open spec fn inv(self) -> bool { self.0.inv() }
    open spec fn is_node(self, a: G::NodeId) -> bool { self.0.is_node(a) }
    /// the reversed graph: the successors of a are its incoming neighbours in G
    open spec fn succ(self, a: G::NodeId) -> Seq<G::NodeId> { self.0.nbrs(a, Direction::Incoming) }
    proof fn succ_law(self, a: G::NodeId) {
        self.0.dir_law(a, a);
        if !self.0.is_node(a) && self.succ(a).len() > 0 {
            let b = self.succ(a)[0];
            self.0.dir_law(a, b); self.0.succ_law(b);
            let i = choose|i: int| 0 <= i < self.0.succ(b).len() && self.0.succ(b)[i] == a;
            assert(self.0.is_node(self.0.succ(b)[i]));
        }
    }
    /*-*/
    fn neighbors(self, n: G::NodeId) -> G::NeighborsDirected {
        self.0.neighbors_directed(n, Incoming)
    }
}
//@ end

//@ item src/visit/reversed.rs | - | impl<G> IntoNeighborsDirected for Reversed<G> where G: IntoNeighborsDirected
impl<G> IntoNeighborsDirected for Reversed<G>
where
    G: IntoNeighborsDirected,
{
    type NeighborsDirected = G::NeighborsDirected;
    /*+*/
    open spec fn nbrs(self, a: G::NodeId, d: Direction) -> Seq<G::NodeId> { self.0.nbrs(a, d.opp()) }
    proof fn dir_law(self, a: G::NodeId, b: G::NodeId) {
        self.0.dir_law(a, b); self.0.dir_law(b, a);
        self.0.succ_law(a); self.0.succ_law(b);
        // b is an incoming neighbour of a in the reversed graph  <=>  b is a successor of a in G  <=>  a is an incoming neighbour of b in G
        assert(self.nbrs(a, Direction::Incoming) == self.0.succ(a));
        if self.0.succ(a).contains(b) { let i = choose|i: int| 0 <= i < self.0.succ(a).len() && self.0.succ(a)[i] == b; assert(self.0.is_node(self.0.succ(a)[i])); }
    }
    /*-*/
    fn neighbors_directed(self, n: G::NodeId, d: Direction) -> G::NeighborsDirected {
        self.0.neighbors_directed(n, d.opposite())
    }
}
//@ end
