// ======================================================================================
// fragment indextype.rs - file prelude + the repository's `IndexType` trait under contract
// (src/graph_impl/mod.rs).  The crate marks the trait `unsafe` because implementors "must
// faithfully preserve and convert index values"; the contract below is that sentence.
// ======================================================================================
#![allow(unused_imports, unused_variables, unused_mut, dead_code, unused_unsafe, unused_parens, unused_braces, non_snake_case, unused_assignments)]
use vstd::prelude::*;
use vstd::std_specs::cmp::*;
use core::cmp::Ordering;
use core::hash::Hash;
use core::fmt;
use core::marker::PhantomData;
use core::cmp::max;
use core::mem;
use core::cmp;
use core::iter;
use core::ops::Range;
use core::slice;
use vstd::std_specs::cmp::{PartialEqSpecImpl, PartialEqSpec};
use vstd::std_specs::iter::IteratorSpec;
use vstd::iset::ISet;
verus! {
global size_of usize == 8;


