// ======================================================================================
// fragment indextype.rs - file prelude + the repository's `IndexType` trait under contract
// (src/graph_impl/mod.rs).  The crate marks the trait `unsafe` because implementors "must
// faithfully preserve and convert index values"; the contract below is that sentence.
// ======================================================================================
#![allow(unused_imports, unused_variables, unused_mut, dead_code, unused_unsafe, unused_parens, unused_braces, non_snake_case, unused_assignments)]
use vstd::prelude::*;
use vstd::std_specs::cmp::*;
use core::cmp::Ordering;
use core::hash::Hash;
use core::fmt;
use core::marker::PhantomData;
use core::cmp::max;
use vstd::std_specs::cmp::{PartialEqSpecImpl, PartialEqSpec};
use vstd::std_specs::iter::IteratorSpec;
verus! {
global size_of usize == 8;

// ASSUMED (std): `#[derive(PartialEq)]` on `core::result::Result` is structural
pub assume_specification<T: PartialEq, E: PartialEq>[ <Result<T, E> as PartialEq>::eq ](a: &Result<T, E>, b: &Result<T, E>) -> (r: bool)
    ensures T::obeys_eq_spec() && E::obeys_eq_spec() ==> r == (match (*a, *b) { (Ok(x), Ok(y)) => x.eq_spec(&y), (Err(x), Err(y)) => x.eq_spec(&y), _ => false });

