// ======================================================================================
// fragment csr_visit_traits.rs - Csr through the visit traits, first part (C05, C06): GraphBase, Data, NodeCount, EdgeCount and
// node_identifiers with its iterator: the node ids are 0..node_count, each once, in order.  (`node_count` is `row.len() - 1`: the
// trait preconditions count_inv / ids_inv carry "row is not empty", which every Csr value has.)
// Csr's NodeIndex<Ix> is the plain index type Ix.
// ======================================================================================

//@ item src/csr.rs | - | type EdgeIndex
/// Csr edge index type, a plain integer.
pub type EdgeIndex = usize;
//@ end

//@ item src/csr.rs | - | impl<N, E, Ty, Ix> GraphBase for Csr<N, E, Ty, Ix> where Ty: EdgeType, Ix: IndexType
impl<N, E, Ty, Ix> GraphBase for Csr<N, E, Ty, Ix>
where
    Ty: EdgeType,
    Ix: IndexType,
{
    type NodeId = NodeIndex<Ix>;
    type EdgeId = EdgeIndex; // index into edges vector
}
//@ end

// hand-expanded `GraphBase! {delegate_impl []}` (src/visit/mod.rs; a macro_rules expansion cannot be located as an item - written out
// by hand, NOT extracted)
impl<'a, G> GraphBase for &'a G where G: GraphBase {
    type NodeId = G::NodeId;
    type EdgeId = G::EdgeId;
}
//@ item src/visit/mod.rs | - | impl<G> GraphRef for &G where G: GraphBase
impl<G> GraphRef for &G where G: GraphBase {}
//@ end

//@ item src/csr.rs | - | impl<N, E, Ty, Ix> NodeCount for Csr<N, E, Ty, Ix> where Ty: EdgeType, Ix: IndexType
impl<N, E, Ty, Ix> NodeCount for Csr<N, E, Ty, Ix>
where
    Ty: EdgeType,
    Ix: IndexType,
{
    /*+*/open spec fn ncount(&self) -> usize { (self.row@.len() - 1) as usize }
    open spec fn count_inv(&self) -> bool { self.row@.len() >= 1 }/*-*/
    fn node_count(&self) -> usize {
        (*self).node_count()
    }
}
//@ end

//@ item src/csr.rs | - | impl<N, E, Ty, Ix> EdgeCount for Csr<N, E, Ty, Ix> where Ty: EdgeType, Ix: IndexType
impl<N, E, Ty, Ix> EdgeCount for Csr<N, E, Ty, Ix>
where
    Ty: EdgeType,
    Ix: IndexType,
{
    /*+*/open spec fn ecount(&self) -> usize { if Ty::spec_is_directed() { self.column.len() } else { self.edge_count } }/*-*/
    #[inline]
    fn edge_count(&self) -> usize {
        self.edge_count()
    }
}
//@ end

pub open spec fn csr_nix_of<Ix: IndexType>(s: Seq<usize>) -> Seq<Ix> { Seq::new(s.len(), |k: int| Ix::spec_new(s[k])) }
pub open spec fn csr_nix_range<Ix: IndexType>(n: int) -> Seq<Ix> { Seq::new((if n >= 0 { n } else { 0 }) as nat, |k: int| Ix::spec_new(k as usize)) }

//@ item src/csr.rs | - | struct NodeIdentifiers
pub struct NodeIdentifiers<Ix = DefaultIx> {
    pub r: Range<usize>,
    pub ty: PhantomData<Ix>,
}
//@ end

impl<Ix: IndexType> NodeIdentifiers<Ix> {
    #[verifier::prophetic]
    pub open spec fn rem(&self) -> Seq<Ix> { csr_nix_of::<Ix>(IteratorSpec::remaining(&self.r)) }
}
impl<Ix: IndexType> vstd::std_specs::iter::IteratorSpecImpl for NodeIdentifiers<Ix> {
    open spec fn obeys_prophetic_iter_laws(&self) -> bool { true }
    #[verifier::prophetic]
    open spec fn remaining(&self) -> Seq<Ix> { self.rem() }
    open spec fn decrease(&self) -> Option<nat> { IteratorSpec::decrease(&self.r) }
    open spec fn will_return_none(&self) -> bool { true }
    open spec fn peek(&self, i: int) -> Option<Ix> { None }
}

//@ item src/csr.rs | - | impl<Ix> Iterator for NodeIdentifiers<Ix> where Ix: IndexType
impl<Ix> Iterator for NodeIdentifiers<Ix>
where
    Ix: IndexType,
{
    type Item = NodeIndex<Ix>;

    fn next(&mut self) -> Option<Self::Item> {
        /*+*/let r = {/*-*/ self.r.next().map(/*R:D10 Ix::new */ |x: usize| -> (q: Ix) ensures q == Ix::spec_new(x) { Ix::new(x) } /*-*/) /*+*/};
        proof { if r is Some { assert(old(self).rem() =~= seq![r.unwrap()] + self.rem()); } else { assert(self.rem() =~= old(self).rem()); } }
        r/*-*/
    }

    /*+*/#[verifier::external_body]/*-*/
    fn size_hint(&self) -> (usize, Option<usize>) {
        self.r.size_hint()
    }
}
//@ end

//@ item src/csr.rs | - | impl<N, E, Ty, Ix> IntoNodeIdentifiers for &Csr<N, E, Ty, Ix> where Ty: EdgeType, Ix: IndexType
impl<N, E, Ty, Ix> IntoNodeIdentifiers for &Csr<N, E, Ty, Ix>
where
    Ty: EdgeType,
    Ix: IndexType,
{
    type NodeIdentifiers = NodeIdentifiers<Ix>;
    /*+*/
    /// 0, 1, .., node_count - 1
    open spec fn node_ids(self) -> Seq<Ix> { csr_nix_range::<Ix>(self.row@.len() - 1) }
    open spec fn ids_inv(self) -> bool { self.row@.len() >= 1 }
    /*-*/
    fn node_identifiers(self) -> Self::NodeIdentifiers {
        /*+*/let r = {/*-*/ NodeIdentifiers {
            r: 0..self.node_count(),
            ty: PhantomData,
        } /*+*/};
        proof { assert(r.remaining() =~= self.node_ids()); }
        r/*-*/
    }
}
//@ end
