// ======================================================================================
// fragment matrix_more.rs - MatrixGraph: add_or_update_edge, get_edge_weight, edge_weight, get_node_weight (C04)
// ======================================================================================

impl<N, E, S: BuildHasher, Ty: EdgeType, Null: Nullable<Wrapped = E>, Ix: IndexType>
    MatrixGraph<N, E, S, Ty, Null, Ix>
{
//@ item src/matrix_graph.rs | impl<N, E, S: BuildHasher, Ty: EdgeType, Null: Nullable<Wrapped = E>, Ix: IndexType> MatrixGraph<N, E, S, Ty, Null, Ix> | fn add_or_update_edge
    /// Adds or updates an edge from `a` to `b`; the matrix grows as needed.
    pub fn add_or_update_edge(
        &mut self,
        a: NodeIndex<Ix>,
        b: NodeIndex<Ix>,
        weight: E,
    ) -> (r: Result<Option<E>, MatrixError>)
        /*+*/requires old(self).wf(), old(self).nodes.live(a.i()), old(self).nodes.live(b.i()),
            a.i() < 0x1fff_ffff, b.i() < 0x1fff_ffff, Null::storable(weight), old(self).nb_edges < usize::MAX,
        ensures final(self).wf(), r is Ok,                                                                   // [add_or_update_edge_never_fails_on_live_nodes]
            r->Ok_0 == old(self).cell(a.i(), b.i()), final(self).cell(a.i(), b.i()) == Some(weight),         // [add_or_update_edge_sets_the_cell]
            forall|x: int, y: int| !(x == a.i() && y == b.i()) && !(!final(self).d() && x == b.i() && y == a.i()) ==> #[trigger] final(self).cell(x, y) == old(self).cell(x, y),   // [add_or_update_edge_growing_keeps_every_other_edge]
            final(self).nb_edges == old(self).nb_edges + (if old(self).has(a.i(), b.i()) { 0int } else { 1int }),
            final(self).nodes == old(self).nodes/*-*/,
    {
        self.extend_capacity_for_edge(a, b);
        self.try_update_edge(a, b, weight)
    }
//@ end

//@ item src/matrix_graph.rs | impl<N, E, S: BuildHasher, Ty: EdgeType, Null: Nullable<Wrapped = E>, Ix: IndexType> MatrixGraph<N, E, S, Ty, Null, Ix> | fn get_edge_weight
    /// Access the weight for edge `e`.
    pub fn get_edge_weight(&self, a: NodeIndex<Ix>, b: NodeIndex<Ix>) -> (r: Option<&E>)
        /*+*/requires self.wf()
        ensures match r { Some(w) => self.cell(a.i(), b.i()) == Some(*w), None => self.cell(a.i(), b.i()) is None }/*-*/   // [get_edge_weight_is_the_cell]
    {
        /*+*/proof { if a.i() < self.cap() && b.i() < self.cap() { lemma_pos_canon(self.d(), a.i(), b.i(), self.cap()); } }/*-*/
        let p = self.to_edge_position(a, b)?;
        self.node_adjacencies.get(p)?.as_ref()
    }
//@ end

//@ item src/matrix_graph.rs | impl<N, E, S: BuildHasher, Ty: EdgeType, Null: Nullable<Wrapped = E>, Ix: IndexType> MatrixGraph<N, E, S, Ty, Null, Ix> | fn edge_weight
    /// Access the weight for edge `e`.
    ///
    /// **Panics** if no edge exists between `a` and `b`.
    #[track_caller]
    pub fn edge_weight(&self, a: NodeIndex<Ix>, b: NodeIndex<Ix>) -> (r: &E)
        /*+*/requires self.wf(), self.has(a.i(), b.i())                                     // [edge_weight_panics_iff_no_edge]
        ensures self.cell(a.i(), b.i()) == Some(*r)/*-*/                                   // [edge_weight_is_the_cell]
    {
        /*+*/proof { lemma_pos_canon(self.d(), a.i(), b.i(), self.cap()); }/*-*/
        let p = self
            .to_edge_position(a, b)
            .expect("No edge found between the nodes.");
        self.node_adjacencies[p]
            .as_ref()
            .expect("No edge found between the nodes.")
    }
//@ end
}

/// a matrix without edges counts none
pub proof fn lemma_total_all_false(b: Seq<bool>, d: bool, w: int, nrows: int)
    requires 0 <= nrows <= w, b.len() == lin_size(d, w), forall|i: int| 0 <= i < b.len() ==> !#[trigger] b[i]
    ensures total_count(b, d, w, nrows) == 0
    decreases nrows
{
    if nrows > 0 {
        lemma_total_all_false(b, d, w, nrows - 1);
        lemma_row_all_false(b, d, w, nrows - 1, ncols_of(d, nrows - 1, w));
    }
}
pub proof fn lemma_row_all_false(b: Seq<bool>, d: bool, w: int, r: int, ncols: int)
    requires 0 <= r < w, 0 <= ncols <= ncols_of(d, r, w), b.len() == lin_size(d, w), forall|i: int| 0 <= i < b.len() ==> !#[trigger] b[i]
    ensures row_count(b, d, w, r, ncols) == 0
    decreases ncols
{
    if ncols > 0 { lemma_row_all_false(b, d, w, r, ncols - 1); lemma_pos_canon(d, r, ncols - 1, w); }
}

impl<N, E, S: BuildHasher, Ty: EdgeType, Null: Nullable<Wrapped = E>, Ix: IndexType>
    MatrixGraph<N, E, S, Ty, Null, Ix>
{
//@ item src/matrix_graph.rs | impl<N, E, S: BuildHasher, Ty: EdgeType, Null: Nullable<Wrapped = E>, Ix: IndexType> MatrixGraph<N, E, S, Ty, Null, Ix> | fn clear
    /// Clear all nodes and edges.
    pub fn clear(&mut self)
        /*+*/requires old(self).wf()
        ensures final(self).wf(), final(self).nb_edges == 0, final(self).node_capacity == old(self).node_capacity,
            forall|x: int, y: int| #[trigger] final(self).cell(x, y) is None,                 // [clear_no_edges]
            forall|i: int| !final(self).nodes.live(i)/*-*/                                    // [clear_no_nodes]
    {
        /*+*/let ghost n0 = self.node_adjacencies@.len();
        proof { Null::default_law(); }/*-*/
        /*R:D6 for edge in self.node_adjacencies.iter_mut() */ let mut __i = 0usize; loop
            invariant __i <= self.node_adjacencies@.len(), self.node_adjacencies@.len() == n0, self.node_capacity == old(self).node_capacity,
                forall|j: int| 0 <= j < __i ==> (#[trigger] self.node_adjacencies@[j]).nv() is None,
                forall|d: Null| #[trigger] call_ensures(<Null as Default>::default, (), d) ==> d.nv() is None,
            ensures __i >= self.node_adjacencies@.len(),
            decreases self.node_adjacencies@.len() - __i/*-*/
        {
            /*+*/if __i >= self.node_adjacencies.len() { break; } let edge = &mut self.node_adjacencies[__i]; __i += 1;/*-*/
            *edge = Default::default();
        }
        self.nodes.clear();
        self.nb_edges = 0;
        /*+*/proof {
            let b = nn(self.node_adjacencies@);
            lemma_total_all_false(b, self.d(), self.cap(), self.cap());
            assert forall|x: int, y: int| #[trigger] self.cell(x, y) is None by { if 0 <= x < self.cap() && 0 <= y < self.cap() { lemma_pos_canon(self.d(), x, y, self.cap()); } }
        }/*-*/
    }
//@ end
}
