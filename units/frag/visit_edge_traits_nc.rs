// ======================================================================================
// fragment visit_edge_traits_nc.rs - a COPY of visit_edge_traits.rs (same items, same contracts) in which rule D35 drops the `Copy`
// supertrait of EdgeRef, for units whose edge references are tuples (MatrixGraph): this Verus cannot see that `(N, N, &E)` is Copy.
// The generic adaptor proofs (unit adaptors) need the bound and use the original file.
// EdgeRef, Data, IntoEdgeReferences as trait contracts and the `&G` glue
// (src/visit/mod.rs), shared by the visit units
// ======================================================================================
//@ item src/visit/mod.rs | - | trait EdgeRef
/// An edge reference.
///
/// Edge references are used by traits `IntoEdges` and `IntoEdgeReferences`.
pub trait EdgeRef/*R:D35 : Copy */ /*-*/ {   // D35: this Verus does not see that the tuple edge references `(N, N, &E)` are Copy; no contract or proof uses the bound
    type NodeId;
    type EdgeId;
    type Weight;
    /*+*/spec fn src(&self) -> Self::NodeId;
    spec fn tgt(&self) -> Self::NodeId;
    spec fn eid(&self) -> Self::EdgeId;/*-*/
    /// The source node of the edge.
    fn source(&self) -> (r: Self::NodeId)
        /*+*/ensures r == self.src()/*-*/;
    /// The target node of the edge.
    fn target(&self) -> (r: Self::NodeId)
        /*+*/ensures r == self.tgt()/*-*/;
    /// A reference to the weight of the edge.
    fn weight(&self) -> &Self::Weight;
    /// The edge’s identifier.
    fn id(&self) -> (r: Self::EdgeId)
        /*+*/ensures r == self.eid()/*-*/;
}
//@ end

// hand-expanded `GraphBase! {delegate_impl []}` (src/visit/mod.rs; a macro_rules expansion cannot be located as an item -
// written out by hand, NOT extracted)
impl<'a, G> GraphBase for &'a G where G: GraphBase {
    type NodeId = G::NodeId;
    type EdgeId = G::EdgeId;
}

//@ item src/visit/mod.rs | - | impl<G> GraphRef for &G where G: GraphBase
impl<G> GraphRef for &G where G: GraphBase {}
//@ end

//@ item src/visit/mod.rs | - | trait Data
/// Define associated data for nodes and edges
pub trait Data : GraphBase {
    type NodeWeight;
    type EdgeWeight;
}
//@ end
// hand-expanded `Data! {delegate_impl []}` (macro_rules expansion, NOT extracted)
impl<'a, G> Data for &'a G where G: Data {
    type NodeWeight = G::NodeWeight;
    type EdgeWeight = G::EdgeWeight;
}

//@ item src/visit/mod.rs | - | trait IntoEdgeReferences
/// Access to the sequence of the graph’s edges
pub trait IntoEdgeReferences : Data + GraphRef {
    type EdgeRef: EdgeRef<NodeId=Self::NodeId, EdgeId=Self::EdgeId,
                          Weight=Self::EdgeWeight>;
    type EdgeReferences: Iterator<Item=Self::EdgeRef>/*+*/;
    /// the edge references in iteration order
    spec fn edge_refs(self) -> Seq<Self::EdgeRef>/*-*/;
    fn edge_references(self) -> (r: Self::EdgeReferences)
        /*+*/ensures r.obeys_prophetic_iter_laws(), r.decrease() is Some, r.remaining() == self.edge_refs()/*-*/;   // [edge_references_is_edge_refs]
}
//@ end
