// ======================================================================================
// fragment graph_iter.rs - whole-graph iterators of Graph (property C01): Externals
// ======================================================================================

/// a node slot without edges in direction k (and, for an undirected graph, without edges at all)
pub open spec fn is_external<N, Ix: IndexType>(n: Node<N, Ix>, k: int, directed: bool) -> bool {
    n.next[k].0.ix() == end_ix::<Ix>() && (directed || n.next[1 - k].0.ix() == end_ix::<Ix>())
}
/// the external nodes among the enumerated items, in order
pub open spec fn ext_of<'a, N, Ix: IndexType>(items: Seq<(usize, &'a Node<N, Ix>)>, k: int, directed: bool) -> Seq<NodeIndex<Ix>>
    decreases items.len()
{
    if items.len() == 0 { Seq::empty() }
    else { (if is_external(*items[0].1, k, directed) { seq![NodeIndex(Ix::spec_new(items[0].0))] } else { Seq::empty() }) + ext_of(items.drop_first(), k, directed) }
}
pub proof fn lemma_ext_of_contains<'a, N, Ix: IndexType>(items: Seq<(usize, &'a Node<N, Ix>)>, k: int, directed: bool, x: NodeIndex<Ix>)
    ensures ext_of(items, k, directed).contains(x) <==> (exists|j: int| 0 <= j < items.len() && is_external(*(#[trigger] items[j]).1, k, directed) && x == NodeIndex(Ix::spec_new(items[j].0)))
    decreases items.len()
{
    if items.len() > 0 {
        let t = items.drop_first();
        lemma_ext_of_contains(t, k, directed, x);
        let hd: Seq<NodeIndex<Ix>> = if is_external(*items[0].1, k, directed) { seq![NodeIndex(Ix::spec_new(items[0].0))] } else { Seq::empty() };
        let rest = ext_of(t, k, directed);
        let full = hd + rest;
        if full.contains(x) {
            let q = choose|q: int| 0 <= q < full.len() && full[q] == x;
            if q < hd.len() { assert(is_external(*items[0].1, k, directed) && x == NodeIndex(Ix::spec_new(items[0].0))); }
            else { assert(rest[q - hd.len()] == x); assert(rest.contains(x));
                let j = choose|j: int| 0 <= j < t.len() && is_external(*(#[trigger] t[j]).1, k, directed) && x == NodeIndex(Ix::spec_new(t[j].0)); assert(items[j + 1] == t[j]); }
        }
        if exists|j: int| 0 <= j < items.len() && is_external(*(#[trigger] items[j]).1, k, directed) && x == NodeIndex(Ix::spec_new(items[j].0)) {
            let j = choose|j: int| 0 <= j < items.len() && is_external(*(#[trigger] items[j]).1, k, directed) && x == NodeIndex(Ix::spec_new(items[j].0));
            if j == 0 { assert(full[0] == x); }
            else { assert(t[j - 1] == items[j]); assert(rest.contains(x)); let q = choose|q: int| 0 <= q < rest.len() && rest[q] == x; assert(full[hd.len() + q] == x); }
        }
    }
}

//@ item src/graph_impl/mod.rs | - | struct Externals
/// An iterator over either the nodes without edges to them or from them.
/*+*/#[verifier::reject_recursive_types(N)]
#[verifier::reject_recursive_types(Ix)]/*-*/
pub struct Externals<'a, N: 'a, Ty, Ix: IndexType = DefaultIx> {
    pub iter: iter::Enumerate<slice::Iter<'a, Node<N, Ix>>>,
    pub dir: Direction,
    pub ty: PhantomData<Ty>,
}
//@ end

impl<'a, N: 'a, Ty: EdgeType, Ix: IndexType> vstd::std_specs::iter::IteratorSpecImpl for Externals<'a, N, Ty, Ix> {
    open spec fn obeys_prophetic_iter_laws(&self) -> bool { self.iter.obeys_prophetic_iter_laws() }
    #[verifier::prophetic]
    open spec fn remaining(&self) -> Seq<NodeIndex<Ix>> { ext_of(self.iter.remaining(), self.dir.k(), Ty::spec_is_directed()) }
    open spec fn decrease(&self) -> Option<nat> { self.iter.decrease() }
    open spec fn will_return_none(&self) -> bool { true }
    open spec fn peek(&self, i: int) -> Option<NodeIndex<Ix>> { None }
}

//@ item src/graph_impl/mod.rs | - | impl<'a, N: 'a, Ty, Ix> Iterator for Externals<'a, N, Ty, Ix> where Ty: EdgeType, Ix: IndexType
impl<'a, N: 'a, Ty, Ix> Iterator for Externals<'a, N, Ty, Ix>
where
    Ty: EdgeType,
    Ix: IndexType,
{
    type Item = NodeIndex<Ix>;
    // termination is NOT verified (it depends on the wrapped iterator obeying its laws)
    /*+*/#[verifier::exec_allows_no_decreases_clause]/*-*/
    fn next(&mut self) -> Option<NodeIndex<Ix>> {
        let k = self.dir.index();
        loop
            /*+*/invariant k == self.dir.k(), self.dir == old(self).dir,
                self.iter.obeys_prophetic_iter_laws() == old(self).iter.obeys_prophetic_iter_laws(),
                self.iter.obeys_prophetic_iter_laws() ==> (self.iter.decrease() is Some <==> old(self).iter.decrease() is Some),
                self.iter.obeys_prophetic_iter_laws() ==> ext_of(self.iter.remaining(), k as int, Ty::spec_is_directed()) == ext_of(old(self).iter.remaining(), k as int, Ty::spec_is_directed()),
                self.iter.obeys_prophetic_iter_laws() && old(self).iter.decrease() is Some ==> self.iter.decrease()->Some_0 <= old(self).iter.decrease()->Some_0,/*-*/
        {
            /*+*/let ghost items = self.iter.remaining();/*-*/
            match self.iter.next() {
                None => return None,
                Some((index, node)) => {
                    /*+*/proof { Ix::eq_law(); if self.iter.obeys_prophetic_iter_laws() { assert(items.len() > 0 && items[0] == (index, node)); assert(self.iter.remaining() == items.drop_first()); } }/*-*/
                    if node.next[k] == EdgeIndex::end()
                        && (Ty::is_directed() || node.next[1 - k] == EdgeIndex::end())
                    {
                        return Some(NodeIndex::new(index));
                    } else {
                        continue;
                    }
                }
            }
        }
    }
    /*+*/#[verifier::external_body]/*-*/
    fn size_hint(&self) -> (usize, Option<usize>) {
        let (_, upper) = self.iter.size_hint();
        (0, upper)
    }
}
//@ end

impl<N, E, Ty, Ix> Graph<N, E, Ty, Ix>
where
    Ty: EdgeType,
    Ix: IndexType,
{
//@ item src/graph_impl/mod.rs | impl<N, E, Ty, Ix> Graph<N, E, Ty, Ix> where Ty: EdgeType, Ix: IndexType | fn externals
    /// Return an iterator over either the nodes without edges to them
    /// (`Incoming`) or from them (`Outgoing`).
    pub fn externals(&self, dir: Direction) -> (r: Externals<N, Ty, Ix>)
        /*+*/requires self.wf()
        ensures r.obeys_prophetic_iter_laws(), r.decrease() is Some,
            // exactly the nodes without edges in direction dir (without any edge if the graph is undirected)
            forall|a: NodeIndex<Ix>| r.remaining().contains(a) <==> (a.i() < self.n()
                && (if dir.k() == 0 { self.view().out[a.i()].len() == 0 } else { self.view().inn[a.i()].len() == 0 })
                && (Ty::spec_is_directed() || (self.view().out[a.i()].len() == 0 && self.view().inn[a.i()].len() == 0)))/*-*/   // [externals_exactly_nodes_without_edges]
    {
        /*+*/let r = {/*-*/ Externals {
            iter: /*R:D23 self.nodes.iter().enumerate() */ enumerate_slice(self.nodes.as_slice()) /*-*/,
            dir,
            ty: PhantomData,
        } /*+*/};
        proof {
            let items = r.iter.remaining(); let k = dir.k(); let directed = Ty::spec_is_directed();
            assert forall|a: NodeIndex<Ix>| r.remaining().contains(a) <==> (a.i() < self.n()
                && (if dir.k() == 0 { self.view().out[a.i()].len() == 0 } else { self.view().inn[a.i()].len() == 0 })
                && (Ty::spec_is_directed() || (self.view().out[a.i()].len() == 0 && self.view().inn[a.i()].len() == 0))) by {
                lemma_ext_of_contains(items, k, directed, a);
                let o = self.outs(); let i_ = self.inns();
                assert forall|x: int| 0 <= x < self.n() implies (o[x].len() == 0 <==> self.nodes@[x].next[0].0.ix() == end_ix::<Ix>()) && (i_[x].len() == 0 <==> self.nodes@[x].next[1].0.ix() == end_ix::<Ix>()) by {
                    assert(slist(self.edges@, self.nodes@[x].next[0], 0, o[x])); assert(slist(self.edges@, self.nodes@[x].next[1], 1, i_[x]));
                    if o[x].len() > 0 { lemma_slist_range(self.edges@, self.nodes@[x].next[0], 0, o[x]); }
                    if i_[x].len() > 0 { lemma_slist_range(self.edges@, self.nodes@[x].next[1], 1, i_[x]); }
                }
                if r.remaining().contains(a) {
                    let j = choose|j: int| 0 <= j < items.len() && is_external(*(#[trigger] items[j]).1, k, directed) && a == NodeIndex(Ix::spec_new(items[j].0));
                    Ix::new_law(j as usize);
                    assert(a.i() == j);
                }
                if a.i() < self.n() { let j = a.i(); Ix::new_law(j as usize); Ix::ix_inj(a.0, Ix::spec_new(j as usize)); assert(items[j].0 == j); }
            }
        }
        r/*-*/
    }
//@ end
}
