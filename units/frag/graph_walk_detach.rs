// ======================================================================================
// fragment graph_walk_detach.rs - Graph: Neighbors::detach (C01) - the walker starts where the iterator stands and will
// visit the same neighbours in the same order
// ======================================================================================

impl<'a, E, Ix: IndexType> Neighbors<'a, E, Ix> {
//@ item src/graph_impl/mod.rs | impl<E, Ix> Neighbors<'_, E, Ix> where Ix: IndexType | fn detach
    /// Return a “walker” object that can be used to step through the
    /// neighbors and edges from the origin node.
    pub fn detach(&self) -> (r: WalkNeighbors<Ix>)
        /*+*/ensures r.skip_start == self.skip_start, r.next == self.next,          // [detach_same_position]
            r.ok(self.edges@) == self.ok(),
            self.ok() ==> r.rem(self.edges@).len() == self.rem().len() && (forall|i: int| 0 <= i < self.rem().len() ==> (#[trigger] r.rem(self.edges@)[i]).1 == self.rem()[i])/*-*/   // [detach_walks_the_same_neighbours]
    {
        /*+*/proof { lemma_wk_in_nodes(self.edges@, self.rest1(), self.skip_start.0.ix() as int); }/*-*/
        WalkNeighbors {
            skip_start: self.skip_start,
            next: self.next,
        }
    }
//@ end
}

