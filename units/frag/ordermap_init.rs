// ======================================================================================
// fragment ordermap_init.rs - OrderMap::try_from_graph under contract (C14, the bookkeeping half): the order map
// built from a graph has an entry for every node the topological sort returned, the two directions agree, and no
// write falls outside the position vector (which has node_bound() slots, not node_count()).
// `toposort` itself is TRUSTED (contract: a duplicate-free list of the graph's node identifiers, or a cycle);
// `DfsSpace` is an opaque stand-in for its optional workspace parameter (always `None` here).
// ======================================================================================

//@ item src/algo/mod.rs | - | struct DfsSpace
/// Workspace for a graph traversal.
/*+*/#[verifier::external_body]
#[verifier::reject_recursive_types(N)]
#[verifier::reject_recursive_types(VM)]/*-*/
pub struct DfsSpace<N, VM> {
    /*R:D20 dfs: Dfs<N, VM>, */ _p: PhantomData<(N, VM)>, /*-*/
}
//@ end

pub open spec fn no_dup_ids<T>(s: Seq<T>) -> bool { forall|i: int, j: int| 0 <= i < j < s.len() ==> s[i] != s[j] }

//@ item src/algo/mod.rs | - | fn toposort
/*+*/#[verifier::external_body]/*-*/
pub fn toposort<G>(
    g: G,
    space: Option<&mut DfsSpace<G::NodeId, G::Map>>,
) -> (r: Result<Vec<G::NodeId>, Cycle<G::NodeId>>)
where
    G: IntoNeighborsDirected + IntoNodeIdentifiers + Visitable,
    /*+*/ensures r is Ok ==> no_dup_ids(r->Ok_0@) && (forall|i: int| 0 <= i < r->Ok_0@.len() ==> g.node_ids().contains(#[trigger] r->Ok_0@[i]))
            && (forall|i: int| 0 <= i < g.node_ids().len() ==> r->Ok_0@.contains(#[trigger] g.node_ids()[i]))/*-*/
{
    /*R:D20 // based on kosaraju scc
    with_dfs(g, space, |dfs| {
        dfs.reset(g);
        let mut finished = g.visit_map();

        let mut finish_stack = Vec::new();
        for i in g.node_identifiers() {
            if dfs.discovered.is_visited(&i) {
                continue;
            }
            dfs.stack.push(i);
            while let Some(&nx) = dfs.stack.last() {
                if dfs.discovered.visit(nx) {
                    // First time visiting `nx`: Push neighbors, don't pop `nx`
                    for succ in g.neighbors(nx) {
                        if succ == nx {
                            // self cycle
                            return Err(Cycle(nx));
                        }
                        if !dfs.discovered.is_visited(&succ) {
                            dfs.stack.push(succ);
                        }
                    }
                } else {
                    dfs.stack.pop();
                    if finished.visit(nx) {
                        // Second time: All reachable nodes must have been finished
                        finish_stack.push(nx);
                    }
                }
            }
        }
        finish_stack.reverse();

        dfs.reset(g);
        for &i in &finish_stack {
            dfs.move_to(i);
            let mut cycle = false;
            while let Some(j) = dfs.next(Reversed(g)) {
                if cycle {
                    return Err(Cycle(j));
                }
                cycle = true;
            }
        }

        Ok(finish_stack)
    }) */ unimplemented!() /*-*/
}
//@ end

impl<N: Copy> OrderMap<N> {
//@ item src/acyclic/order_map.rs | impl<N: Copy> OrderMap<N> | fn try_from_graph
    pub fn try_from_graph<G>(graph: G) -> (r: Result<Self, Cycle<G::NodeId>>)
    where
        G: NodeIndexable<NodeId = N> + IntoNeighborsDirected + IntoNodeIdentifiers + Visitable,
        /*+*/requires forall|i: int| 0 <= i < graph.node_ids().len() ==> graph.is_nid(#[trigger] graph.node_ids()[i]),      // the identifiers the graph enumerates are its nodes (per type: proved for Graph and StableGraph)
        ensures r is Ok ==> ({ let om = r->Ok_0;
            &&& om.inv(&graph)                                                                                              // [try_from_graph_bijection]
            &&& om.n2p().len() == graph.nbound()                                                                            // [try_from_graph_one_slot_per_index]
            &&& forall|i: int| 0 <= i < graph.node_ids().len() ==> om.present(#[trigger] graph.node_ids()[i]) })/*-*/       // [try_from_graph_every_node_has_a_position]
    {
        /*+*/proof { axiom_tp_key_model(); }/*-*/
        // Compute the topological order.
        let topo_vec = toposort(graph, None)?;

        // Create the two map directions.
        let mut pos_to_node = BTreeMap::new();
        let mut node_to_pos = vec![TopologicalPosition::default(); graph.node_bound()];

        /*+*/proof {
            assert forall|k: int| 0 <= k < topo_vec@.len() implies graph.is_nid(#[trigger] topo_vec@[k]) by {
                assert(graph.node_ids().contains(topo_vec@[k]));
                let j = choose|j: int| 0 <= j < graph.node_ids().len() && graph.node_ids()[j] == topo_vec@[k];
                assert(graph.is_nid(graph.node_ids()[j]));
            }
        }/*-*/
        // Populate the maps.
        /*R:D6 for (i, &id) in topo_vec.iter().enumerate() */ let mut __i = 0usize; loop
            invariant __i <= topo_vec@.len(), node_to_pos@.len() == graph.nbound(),
                no_dup_ids(topo_vec@), forall|k: int| 0 <= k < topo_vec@.len() ==> graph.is_nid(#[trigger] topo_vec@[k]),
                forall|p: TopologicalPosition| pos_to_node@.contains_key(p) <==> p.0 < __i,
                forall|k: int| 0 <= k < __i ==> #[trigger] pos_to_node@[TopologicalPosition(k as usize)] == topo_vec@[k]
                    && graph.ix_of(topo_vec@[k]) < node_to_pos@.len() && node_to_pos@[graph.ix_of(topo_vec@[k]) as int] == TopologicalPosition(k as usize),
            ensures __i >= topo_vec@.len(),
            decreases topo_vec@.len() - __i/*-*/
        {
            /*+*/if __i >= topo_vec.len() { break; } let i = __i; let id = topo_vec[i]; __i += 1;
            let ghost n2p0 = node_to_pos@; let ghost p2n0 = pos_to_node@;
            proof { axiom_tp_key_model(); assert(topo_vec@[i as int] == id); }/*-*/
            let pos = TopologicalPosition(i);
            pos_to_node.insert(pos, id);
            node_to_pos[graph.to_index(id)] = pos;
            /*+*/proof {
                assert(pos_to_node@ == p2n0.insert(pos, id));
                assert forall|k: int| 0 <= k < i implies #[trigger] pos_to_node@[TopologicalPosition(k as usize)] == topo_vec@[k]
                    && graph.ix_of(topo_vec@[k]) < node_to_pos@.len() && node_to_pos@[graph.ix_of(topo_vec@[k]) as int] == TopologicalPosition(k as usize) by {
                    assert(TopologicalPosition(k as usize) != pos);
                    assert(p2n0[TopologicalPosition(k as usize)] == topo_vec@[k]);
                    if graph.ix_of(topo_vec@[k]) == graph.ix_of(id) { graph.ix_inj_law(topo_vec@[k], id); assert(topo_vec@[k] == topo_vec@[i as int]); }
                }
                assert forall|p: TopologicalPosition| pos_to_node@.contains_key(p) <==> p.0 < i + 1 by { if p.0 == i { assert(p == pos); } }
            }/*-*/
        }

        /*+*/let r = {/*-*/ Ok(Self {
            pos_to_node,
            node_to_pos,
        }) /*+*/};
        proof {
            let om: OrderMap<N> = r->Ok_0;
            assert forall|p: TopologicalPosition| om.p2n().contains_key(p) implies
                graph.is_nid(#[trigger] om.p2n()[p]) && graph.ix_of(om.p2n()[p]) < om.n2p().len() && om.n2p()[graph.ix_of(om.p2n()[p]) as int] == p by {
                let k = p.0 as int; assert(p == TopologicalPosition(k as usize));
            }
            assert forall|i: int| 0 <= i < graph.node_ids().len() implies om.present(#[trigger] graph.node_ids()[i]) by {
                let a = graph.node_ids()[i];
                let k = choose|k: int| 0 <= k < topo_vec@.len() && topo_vec@[k] == a;
                assert(om.p2n().contains_key(TopologicalPosition(k as usize)) && om.p2n()[TopologicalPosition(k as usize)] == a);
            }
        }
        r/*-*/
    }
//@ end
}
