// ======================================================================================
// fragment stable_retain.rs - StableGraph::retain_nodes / retain_edges under contract (C02)
//
// The visitor is an arbitrary `FnMut(Frozen<Self>, index) -> bool`.  Its contract is the one the
// type `Frozen` enforces by construction (it exposes weights only): a call may change WEIGHTS of
// live slots and nothing else (`same_shape`).  That clause is an assumption about the visitor
// (listed); everything else - which indices are offered, that every survivor was offered and
// approved, that every removed one was rejected, that exactly the edges between survivors
// survive, and the invariant - is proved for every visitor.
// ======================================================================================

impl<N, E, Ty: EdgeType, Ix: IndexType> StableGraph<N, E, Ty, Ix> {
    /// one past the last live edge (0 when there is none)
    pub open spec fn ebound_spec(&self) -> int { sebound(self.es(), self.es().len() as int) }
}

/// (a free function, so that the type of an as yet untyped local is fixed by unification)
pub open spec fn nix_of<Ix: IndexType>(a: NodeIndex<Ix>) -> int { a.0.ix() as int }
/// the contract of a node visitor: accepts every well-formed graph and live node; changes weights only
#[verifier::prophetic]
pub open spec fn frozen_node_visitor<N, E, Ty: EdgeType, Ix: IndexType, F: FnMut(Frozen<StableGraph<N, E, Ty, Ix>>, NodeIndex<Ix>) -> bool>(visit: F) -> bool {
    &&& forall|g: Frozen<StableGraph<N, E, Ty, Ix>>, i: NodeIndex<Ix>| g.0.wf() && nlive(g.0.ns(), i.i()) ==> #[trigger] visit.requires((g, i))
    &&& forall|g: Frozen<StableGraph<N, E, Ty, Ix>>, i: NodeIndex<Ix>, r: bool| #[trigger] visit.ensures((g, i), r) ==> final(g.0).same_shape(&*g.0)
}
/// some call of the visitor for node index j answered `keep`
pub open spec fn node_answer<N, E, Ty: EdgeType, Ix: IndexType, F: FnMut(Frozen<StableGraph<N, E, Ty, Ix>>, NodeIndex<Ix>) -> bool>(visit: F, j: int, keep: bool) -> bool {
    exists|g: Frozen<StableGraph<N, E, Ty, Ix>>, i: NodeIndex<Ix>| i.i() == j && #[trigger] visit.ensures((g, i), keep)
}
#[verifier::prophetic]
pub open spec fn frozen_edge_visitor<N, E, Ty: EdgeType, Ix: IndexType, F: FnMut(Frozen<StableGraph<N, E, Ty, Ix>>, EdgeIndex<Ix>) -> bool>(visit: F) -> bool {
    &&& forall|g: Frozen<StableGraph<N, E, Ty, Ix>>, i: EdgeIndex<Ix>| g.0.wf() && elive(g.0.es(), i.i()) ==> #[trigger] visit.requires((g, i))
    &&& forall|g: Frozen<StableGraph<N, E, Ty, Ix>>, i: EdgeIndex<Ix>, r: bool| #[trigger] visit.ensures((g, i), r) ==> final(g.0).same_shape(&*g.0)
}
pub open spec fn edge_answer<N, E, Ty: EdgeType, Ix: IndexType, F: FnMut(Frozen<StableGraph<N, E, Ty, Ix>>, EdgeIndex<Ix>) -> bool>(visit: F, j: int, keep: bool) -> bool {
    exists|g: Frozen<StableGraph<N, E, Ty, Ix>>, i: EdgeIndex<Ix>| i.i() == j && #[trigger] visit.ensures((g, i), keep)
}

mod edge_indexable {
    use super::*;
    mod visit { pub use super::EdgeIndexable; }
//@ item src/visit/mod.rs | - | trait EdgeIndexable
    /// The graph’s `NodeId`s map to indices
    #[allow(clippy::needless_arbitrary_self_type)]
    pub trait EdgeIndexable : GraphBase {
        /*+*/
        spec fn ebound(&self) -> usize;
        spec fn eix_of(&self, a: Self::EdgeId) -> usize;
        /*-*/
        /// Return an upper bound of the edge indices in the graph
        /// (suitable for the size of a bitmap).
        fn edge_bound(self: &Self) -> (r: usize)
            /*+*/ensures r == self.ebound()/*-*/;
        /// Convert `a` to an integer index.
        #[track_caller]
        fn to_index(self: &Self, a: Self::EdgeId) -> (r: usize)
            /*+*/ensures r == self.eix_of(a)/*-*/;
        /// Convert `i` to an edge index. `i` must be a valid value in the graph.
        #[track_caller]
        fn from_index(self: &Self, i: usize) -> Self::EdgeId;
    }
//@ end

//@ item src/graph_impl/stable_graph/mod.rs | - | impl<N, E, Ty, Ix> visit::EdgeIndexable for StableGraph<N, E, Ty, Ix> where Ty: EdgeType, Ix: IndexType
impl<N, E, Ty, Ix> visit::EdgeIndexable for StableGraph<N, E, Ty, Ix>
where
    Ty: EdgeType,
    Ix: IndexType,
{
    /*+*/
    open spec fn ebound(&self) -> usize { self.ebound_spec() as usize }
    open spec fn eix_of(&self, a: EdgeIndex<Ix>) -> usize { a.0.ix() }
    /*-*/
    // TRUSTED against the trait contract `r == ebound()`: `next_back` of the Enumerate-based EdgeReferences has no vstd specification
    /*+*/#[verifier::external_body]/*-*/
    fn edge_bound(&self) -> usize {
        /*R:D20 self.edge_references()
            .next_back()
            .map_or(0, |edge| edge.id().index() + 1) */ unimplemented!() /*-*/
    }

    fn to_index(&self, ix: EdgeIndex<Ix>) -> usize {
        ix.index()
    }

    fn from_index(&self, ix: usize) -> Self::EdgeId {
        EdgeIndex::new(ix)
    }
}
//@ end
}

mod stable_retain {
    use super::*;
    use super::edge_indexable::EdgeIndexable;

impl<N, E, Ty, Ix> StableGraph<N, E, Ty, Ix>
where
    Ty: EdgeType,
    Ix: IndexType,
{
//@ item src/graph_impl/stable_graph/mod.rs | impl<N, E, Ty, Ix> StableGraph<N, E, Ty, Ix> where Ty: EdgeType, Ix: IndexType | fn check_free_lists | occ=1
    #[cfg(debug_assertions)]
    // internal method to debug check the free lists (linked lists)
    // For the nodes, also check the backpointers of the doubly linked list.
    fn check_free_lists(&self)
        /*+*/requires self.wf()/*-*/   // [check_free_lists_never_fires_on_a_well_formed_graph]
    {
        /*+*/let ghost fl = self.fnodes(); let ghost fe = self.fedges(); let ghost mut done: int = 0;
        proof { assert(fl.subrange(0, fl.len() as int) =~= fl); assert(fe.subrange(0, fe.len() as int) =~= fe); lemma_nodup_bound(fl, self.ns().len() as int); lemma_nodup_bound(fe, self.es().len() as int); }/*-*/
        let mut free_node = self.free_node;
        let mut prev_free_node = NodeIndex::end();
        let mut free_node_len = 0;
        while free_node != NodeIndex::end()
            /*+*/invariant self.wf(), fl == self.fnodes(), 0 <= done <= fl.len(), free_node_len == done, fl.len() <= self.ns().len(),
                nchain(self.ns(), free_node.0.ix() as int, fl.subrange(done, fl.len() as int)),
                nix_of::<Ix>(prev_free_node) == (if done == 0 { end_ix::<Ix>() as int } else { fl[done - 1] }),
            ensures done == fl.len(), free_node_len == done,
            decreases fl.len() - done/*-*/
        {
            /*+*/let ghost rest = fl.subrange(done, fl.len() as int);
            proof {
                if rest.len() == 0 { assert(false); }
                assert(rest[0] == fl[done]);
                assert(rest.drop_first() =~= fl.subrange(done + 1, fl.len() as int));
                if done > 0 { assert(self.ns()[fl[done]].next[1].0.ix() == fl[done - 1]); }
            }/*-*/
            if let Some(n) = self.g.nodes.get(free_node.index()) {
                if n.weight.is_none() {
                    /*R:D2 debug_assert_eq!(n.next[1]._into_node(), prev_free_node); */ let __eq = n.next[1]._into_node() == prev_free_node; assert(__eq); /*-*/
                    prev_free_node = free_node;
                    free_node = n.next[0]._into_node();
                    free_node_len += 1;
                    /*+*/proof { done = done + 1; }/*-*/
                    continue;
                }
                debug_assert!(
                    false,
                    "Corrupt free list: pointing to existing {:?}",
                    free_node.index()
                );
            }
            debug_assert!(false, "Corrupt free list: missing {:?}", free_node.index());
        }
        /*R:D2 debug_assert_eq!(self.node_count(), self.raw_nodes().len() - free_node_len); */ let __eq = self.node_count() == self.raw_nodes().len() - free_node_len; assert(__eq); /*-*/

        /*+*/proof { done = 0; }/*-*/
        let mut free_edge_len = 0;
        let mut free_edge = self.free_edge;
        while free_edge != EdgeIndex::end()
            /*+*/invariant self.wf(), fe == self.fedges(), 0 <= done <= fe.len(), free_edge_len == done, fe.len() <= self.es().len(),
                slist(self.es(), free_edge, 0, fe.subrange(done, fe.len() as int)),
            ensures done == fe.len(), free_edge_len == done,
            decreases fe.len() - done/*-*/
        {
            /*+*/let ghost rest = fe.subrange(done, fe.len() as int);
            proof {
                if rest.len() == 0 { assert(false); }
                assert(rest[0] == fe[done]);
                assert(rest.drop_first() =~= fe.subrange(done + 1, fe.len() as int));
            }/*-*/
            if let Some(n) = self.g.edges.get(free_edge.index()) {
                if n.weight.is_none() {
                    free_edge = n.next[0];
                    free_edge_len += 1;
                    /*+*/proof { done = done + 1; }/*-*/
                    continue;
                }
                debug_assert!(
                    false,
                    "Corrupt free list: pointing to existing {:?}",
                    free_node.index()
                );
            }
            debug_assert!(false, "Corrupt free list: missing {:?}", free_edge.index());
        }
        /*R:D2 debug_assert_eq!(self.edge_count(), self.raw_edges().len() - free_edge_len); */ let __eq = self.edge_count() == self.raw_edges().len() - free_edge_len; assert(__eq); /*-*/
    }
//@ end

//@ item src/graph_impl/stable_graph/mod.rs | impl<N, E, Ty, Ix> StableGraph<N, E, Ty, Ix> where Ty: EdgeType, Ix: IndexType | fn retain_nodes
    /// Keep all nodes that return `true` from the `visit` closure,
    /// remove the others.
    pub fn retain_nodes<F>(&mut self, mut visit: F)
    where
        F: FnMut(Frozen<Self>, NodeIndex<Ix>) -> bool,
        /*+*/requires old(self).wf(), frozen_node_visitor(visit),
        ensures final(self).wf(),
            final(self).ns().len() == old(self).ns().len() && final(self).es().len() == old(self).es().len(),                                   // [retain_nodes_slots_keep_index]
            forall|j: int| nlive(final(self).ns(), j) ==> nlive(old(self).ns(), j) && node_answer(visit, j, true),                              // [retain_nodes_survivors_were_approved]
            forall|j: int| nlive(old(self).ns(), j) && !nlive(final(self).ns(), j) ==> node_answer(visit, j, false),                            // [retain_nodes_removed_were_rejected]
            forall|e: int| elive(final(self).es(), e) ==> elive(old(self).es(), e) && (#[trigger] final(self).es()[e]).node == old(self).es()[e].node,   // [retain_nodes_surviving_edges_keep_index]
            forall|e: int| elive(old(self).es(), e) ==> (elive(final(self).es(), e) <==>
                (nlive(final(self).ns(), (#[trigger] old(self).es()[e]).node[0].i()) && nlive(final(self).ns(), old(self).es()[e].node[1].i()))),   // [retain_nodes_keeps_exactly_edges_between_survivors]
        /*-*/
    {
        /*+*/let ghost v0 = visit; let ghost o = *self;
        proof { self.lemma_nbound(); assert(self.ns() == o.ns()); assert(forall|j: int| nlive(o.ns(), j) ==> j < o.nbound()); }/*-*/
        for i in /*+*/it:/*-*/ 0..self.node_bound()
            /*+*/invariant
                o.nbound() <= it.seq().len() <= o.ns().len(), forall|k: int| 0 <= k < it.seq().len() ==> it.seq()[k] == k, self.wf(), o.wf(), frozen_node_visitor(visit),
                forall|g: Frozen<Self>, x: NodeIndex<Ix>, r: bool| #[trigger] visit.ensures((g, x), r) == v0.ensures((g, x), r),
                self.ns().len() == o.ns().len() && self.es().len() == o.es().len(),
                forall|j: int| nlive(self.ns(), j) ==> nlive(o.ns(), j),
                forall|j: int| 0 <= j < it.index@ && nlive(self.ns(), j) ==> node_answer(v0, j, true),
                forall|j: int| nlive(o.ns(), j) && !nlive(self.ns(), j) ==> j < it.index@,
                forall|j: int| nlive(o.ns(), j) && !nlive(self.ns(), j) ==> node_answer(v0, j, false),
                forall|e: int| elive(self.es(), e) ==> elive(o.es(), e) && (#[trigger] self.es()[e]).node == o.es()[e].node,
                forall|e: int| elive(o.es(), e) ==> (elive(self.es(), e) <==>
                    (nlive(self.ns(), (#[trigger] o.es()[e]).node[0].i()) && nlive(self.ns(), o.es()[e].node[1].i()))),/*-*/
        {
            /*+*/proof { assert(i == it.seq()[it.index@ as int]); }/*-*/
            let ix = node_index(i);
            /*+*/let ghost m = *self;/*-*/
            if self.contains_node(ix) && !visit(Frozen(self), ix) {
                /*+*/let ghost m2 = *self;
                proof { m2.lemma_reweighed(&m); }/*-*/
                self.remove_node(ix);
                /*+*/proof {
                    assert forall|e: int| elive(o.es(), e) implies (elive(self.es(), e) <==>
                        (nlive(self.ns(), (#[trigger] o.es()[e]).node[0].i()) && nlive(self.ns(), o.es()[e].node[1].i()))) by {
                        if elive(m2.es(), e) { let x = m2.es()[e]; assert(elive(m.es(), e)); }
                    }
                }/*-*/
            } /*+*/else { proof { if nlive(m.ns(), ix.i()) { self.lemma_reweighed(&m); } } }/*-*/
        }
        /*+*/proof {
            o.lemma_nbound();
            assert forall|j: int| nlive(self.ns(), j) implies node_answer(v0, j, true) by { assert(nlive(o.ns(), j) && j < o.nbound()); }
        }/*-*/
        self.check_free_lists();
    }
//@ end

//@ item src/graph_impl/stable_graph/mod.rs | impl<N, E, Ty, Ix> StableGraph<N, E, Ty, Ix> where Ty: EdgeType, Ix: IndexType | fn retain_edges
    /// Keep all edges that return `true` from the `visit` closure,
    /// remove the others.
    pub fn retain_edges<F>(&mut self, mut visit: F)
    where
        F: FnMut(Frozen<Self>, EdgeIndex<Ix>) -> bool,
        /*+*/requires old(self).wf(), frozen_edge_visitor(visit),
        ensures final(self).wf(),
            final(self).ns().len() == old(self).ns().len() && final(self).es().len() == old(self).es().len(),                                   // [retain_edges_slots_keep_index]
            forall|a: int| nlive(final(self).ns(), a) <==> nlive(old(self).ns(), a),                                                            // [retain_edges_keeps_every_node]
            forall|j: int| elive(final(self).es(), j) ==> elive(old(self).es(), j) && (#[trigger] final(self).es()[j]).node == old(self).es()[j].node
                && edge_answer(visit, j, true),                                                                                                 // [retain_edges_survivors_were_approved]
            forall|j: int| elive(old(self).es(), j) && !elive(final(self).es(), j) ==> edge_answer(visit, j, false),                            // [retain_edges_removed_were_rejected]
        /*-*/
    {
        /*+*/let ghost v0 = visit; let ghost o = *self;
        proof { lemma_sebound(self.es(), self.es().len() as int); }/*-*/
        for i in /*+*/it:/*-*/ 0..self.edge_bound()
            /*+*/invariant
                o.ebound_spec() <= it.seq().len() <= o.es().len(), forall|k: int| 0 <= k < it.seq().len() ==> it.seq()[k] == k, self.wf(), o.wf(), frozen_edge_visitor(visit),
                forall|g: Frozen<Self>, x: EdgeIndex<Ix>, r: bool| #[trigger] visit.ensures((g, x), r) == v0.ensures((g, x), r),
                self.ns().len() == o.ns().len() && self.es().len() == o.es().len(),
                forall|a: int| nlive(self.ns(), a) <==> nlive(o.ns(), a),
                forall|j: int| elive(self.es(), j) ==> elive(o.es(), j) && (#[trigger] self.es()[j]).node == o.es()[j].node,
                forall|j: int| 0 <= j < it.index@ && elive(self.es(), j) ==> edge_answer(v0, j, true),
                forall|j: int| elive(o.es(), j) && !elive(self.es(), j) ==> j < it.index@,
                forall|j: int| elive(o.es(), j) && !elive(self.es(), j) ==> edge_answer(v0, j, false),/*-*/
        {
            /*+*/proof { assert(i == it.seq()[it.index@ as int]); }/*-*/
            let ix = edge_index(i);
            /*+*/let ghost m = *self;/*-*/
            if self.edge_weight(ix).is_some() && !visit(Frozen(self), ix) {
                /*+*/let ghost m2 = *self;
                proof { m2.lemma_reweighed(&m); }/*-*/
                self.remove_edge(ix);
            } /*+*/else { proof { if elive(m.es(), ix.i()) { self.lemma_reweighed(&m); } } }/*-*/
        }
        /*+*/proof {
            lemma_sebound(o.es(), o.es().len() as int);
            assert forall|j: int| elive(self.es(), j) implies edge_answer(v0, j, true) by { assert(elive(o.es(), j) && j < o.ebound_spec()); }
        }/*-*/
        self.check_free_lists();
    }
//@ end
}
}

// the body of edge_bound once more, as a (module-private) inherent method WITH the precondition a trait impl method cannot state (D17):
// on a well-formed graph it is one past the last live edge index
mod edge_bound_proof {
    use super::*;
impl<N, E, Ty, Ix> StableGraph<N, E, Ty, Ix>
where
    Ty: EdgeType,
    Ix: IndexType,
{
//@ item src/graph_impl/stable_graph/mod.rs | impl<N, E, Ty, Ix> visit::EdgeIndexable for StableGraph<N, E, Ty, Ix> where Ty: EdgeType, Ix: IndexType | fn edge_bound
    fn edge_bound(&self) -> (r: usize)
        /*+*/requires self.wf()
        ensures r == self.ebound_spec()/*-*/   // [edge_bound_is_one_past_last_live_edge]
    {
        /*+*/let ghost s = live_refs::<E, Ix>(self.es()); let ghost n = self.es().len() as int; let ghost li = live_ix(self.es(), n);
        proof { lemma_live_refs::<E, Ix>(self.es()); lemma_live_ix(self.es(), n); lemma_sebound(self.es(), n); lemma_idx_where(elive_p(self.es()), n); }
        let r = {/*-*/ self.edge_references()
            .next_back()
            .map_or(0, |edge/*+*/: EdgeReference<E, Ix>/*-*/| /*+*/-> (q: usize) requires edge.index.i() < usize::MAX ensures q == edge.index.i() + 1 {/*-*/ edge.id().index() + 1 /*+*/}/*-*/) /*+*/};
        proof {
            let b = self.ebound_spec();
            if s.len() > 0 { let l = li[li.len() - 1]; assert(s.last() == s[s.len() - 1]); assert(s.last().index.i() == l); assert(elive(self.es(), l));
                if b - 1 != l { assert(elive(self.es(), b - 1)); assert(li.contains(b - 1)); let j = choose|j: int| 0 <= j < li.len() && li[j] == b - 1; assert(li[j] <= l); } }
            else { if b > 0 { assert(li.contains(b - 1)); } }
        }
        r/*-*/
    }
//@ end
}
}
