// ======================================================================================
// fragment visit_stable_edges_impl.rs - IntoEdges / IntoEdgesDirected for &StableGraph proved against the trait contracts (C06):
// in states with vacancies edges(a) / edges_directed(a, d) lead exactly to neighbors(a) / neighbors_directed(a, d), in the same order
// (the counterpart of visit_graph_edges_impl.rs; the lemmas are the same arguments over `Option` weights)
// ======================================================================================

/// the incoming-list part of `edges*` and of `neighbors*` correspond element by element
pub proof fn lemma_ed_in_nb_in<'a, E: 'a, Ix: IndexType>(es: Seq<Edge<Option<E>, Ix>>, s: Seq<int>, skip: int, swap: bool)
    requires forall|j: int| 0 <= j < s.len() ==> 0 <= #[trigger] s[j] < es.len()
    ensures ed_in::<E, Ix>(es, s, skip, swap).len() == nb_in(es, s, skip).len(),
        forall|i: int| 0 <= i < nb_in(es, s, skip).len() ==> (#[trigger] ed_in::<E, Ix>(es, s, skip, swap)[i]).node[if swap { 1int } else { 0int }] == nb_in(es, s, skip)[i],
        forall|i: int| 0 <= i < nb_in(es, s, skip).len() ==> exists|j: int| 0 <= j < s.len() && (#[trigger] ed_in::<E, Ix>(es, s, skip, swap)[i]).node[if swap { 0int } else { 1int }] == es[s[j]].node[1],
    decreases s.len()
{
    if s.len() > 0 {
        let t = s.drop_first();
        assert forall|j: int| 0 <= j < t.len() implies 0 <= #[trigger] t[j] < es.len() by { assert(t[j] == s[j + 1]); }
        lemma_ed_in_nb_in::<E, Ix>(es, t, skip, swap);
        let keep = !(skip >= 0 && es[s[0]].node[0].0.ix() == skip);
        let hd: Seq<EdgeReference<'a, E, Ix>> = if keep { seq![er_of(es, s[0], swap)] } else { Seq::empty() };
        let hn: Seq<NodeIndex<Ix>> = if es[s[0]].node[0].0.ix() != skip { seq![es[s[0]].node[0]] } else { Seq::empty() };
        let full = hd + ed_in::<E, Ix>(es, t, skip, swap); let fn_ = hn + nb_in(es, t, skip);
        assert(skip < 0 ==> es[s[0]].node[0].0.ix() != skip);
        assert forall|i: int| 0 <= i < fn_.len() implies (#[trigger] full[i]).node[if swap { 1int } else { 0int }] == fn_[i]
            && (exists|j: int| 0 <= j < s.len() && full[i].node[if swap { 0int } else { 1int }] == es[s[j]].node[1]) by {
            if i < hd.len() { assert(full[i] == er_of::<E, Ix>(es, s[0], swap)); assert(s[0] == s[0]); }
            else {
                let q = i - hd.len();
                assert(full[i] == ed_in::<E, Ix>(es, t, skip, swap)[q]); assert(fn_[i] == nb_in(es, t, skip)[q]);
                let j = choose|j: int| 0 <= j < t.len() && ed_in::<E, Ix>(es, t, skip, swap)[q].node[if swap { 0int } else { 1int }] == es[t[j]].node[1];
                assert(t[j] == s[j + 1]);
            }
        }
    }
}

//@ item src/graph_impl/stable_graph/mod.rs | - | impl<'a, N, E, Ty, Ix> visit::IntoEdges for &'a StableGraph<N, E, Ty, Ix> where Ty: EdgeType, Ix: IndexType
impl<'a, N, E, Ty, Ix> visit::IntoEdges for &'a StableGraph<N, E, Ty, Ix>
where
    Ty: EdgeType,
    Ix: IndexType,
{
    type Edges = Edges<'a, E, Ty, Ix>;
    /*+*/
    open spec fn edges_of(self, a: NodeIndex<Ix>) -> Seq<EdgeReference<'a, E, Ix>> { self.edges_seq(a.i(), 0) }
    proof fn edges_law(self, a: NodeIndex<Ix>) { self.lemma_edges_nbrs(a, 0); }
    /*-*/
    fn edges(self, a: Self::NodeId) -> Self::Edges {
        self.edges(a)
    }
}
//@ end

//@ item src/graph_impl/stable_graph/mod.rs | - | impl<'a, N, E, Ty, Ix> visit::IntoEdgesDirected for &'a StableGraph<N, E, Ty, Ix> where Ty: EdgeType, Ix: IndexType
impl<'a, N, E, Ty, Ix> visit::IntoEdgesDirected for &'a StableGraph<N, E, Ty, Ix>
where
    Ty: EdgeType,
    Ix: IndexType,
{
    type EdgesDirected = Edges<'a, E, Ty, Ix>;
    /*+*/
    open spec fn edges_dir(self, a: NodeIndex<Ix>, d: Direction) -> Seq<EdgeReference<'a, E, Ix>> { self.edges_seq(a.i(), d.k()) }
    proof fn edges_dir_law(self, a: NodeIndex<Ix>, d: Direction) { self.lemma_edges_nbrs(a, d.k()); }
    /*-*/
    fn edges_directed(self, a: Self::NodeId, dir: Direction) -> Self::EdgesDirected {
        self.edges_directed(a, dir)
    }
}
//@ end

impl<N, E, Ty, Ix> StableGraph<N, E, Ty, Ix>
where
    Ty: EdgeType,
    Ix: IndexType,
{
    /// edges_directed(a, k) and neighbors_directed(a, k) correspond element by element: the queried node is at the k end of
    /// every edge reference and the other end is the neighbour at the same position
    pub proof fn lemma_edges_nbrs<'a>(&self, a: NodeIndex<Ix>, k: int)
        requires self.wf(), 0 <= k < 2
        ensures self.edges_seq::<'a>(a.i(), k).len() == self.nbrs_of(a.i(), k).len(),
            forall|i: int| 0 <= i < self.nbrs_of(a.i(), k).len() ==>
                (#[trigger] self.edges_seq::<'a>(a.i(), k)[i]).node[k] == a && self.edges_seq::<'a>(a.i(), k)[i].node[1 - k] == self.nbrs_of(a.i(), k)[i],
    {
        let ai = a.i(); let es = self.es();
        if nlive(self.ns(), ai) {
            let o = self.outs(-1)[ai]; let i_ = self.inns(-1)[ai];
            lemma_slist_range(es, self.ns()[ai].next[0], 0, o); lemma_slist_range(es, self.ns()[ai].next[1], 1, i_);
            let directed = Ty::spec_is_directed();
            let eo = ed_out::<E, Ix>(es, o, !directed && k == 1); let no = nb_out(es, o);
            assert forall|i: int| 0 <= i < o.len() implies (#[trigger] eo[i]).node[if !directed && k == 1 { 1int } else { 0int }] == a && eo[i].node[if !directed && k == 1 { 0int } else { 1int }] == no[i] by {
                assert(es[o[i]].node[0].0.ix() == ai); Ix::ix_inj(es[o[i]].node[0].0, a.0);
            }
            let skip = if directed { -1 } else { ai }; let sw = !directed && k == 0;
            lemma_ed_in_nb_in::<E, Ix>(es, i_, skip, sw);
            let ei = ed_in::<E, Ix>(es, i_, skip, sw); let ni = nb_in(es, i_, skip);
            assert forall|i: int| 0 <= i < ni.len() implies (#[trigger] ei[i]).node[if sw { 0int } else { 1int }] == a by {
                let j = choose|j: int| 0 <= j < i_.len() && ei[i].node[if sw { 0int } else { 1int }] == es[i_[j]].node[1];
                assert(es[i_[j]].node[1].0.ix() == ai); Ix::ix_inj(es[i_[j]].node[1].0, a.0);
            }
            if directed {
                if k == 1 { lemma_nb_in_all(es, i_, -1); assert(ni =~= Seq::new(i_.len(), |j: int| es[i_[j]].node[0])); }
            } else {
                let full = eo + ei; let fnb = no + ni;
                assert(self.edges_seq::<'a>(ai, k) == full); assert(self.nbrs_of(ai, k) == fnb);
                assert forall|i: int| 0 <= i < fnb.len() implies (#[trigger] full[i]).node[k] == a && full[i].node[1 - k] == fnb[i] by {
                    if i < eo.len() { assert(full[i] == eo[i]); assert(fnb[i] == no[i]); } else { assert(full[i] == ei[i - eo.len()]); assert(fnb[i] == ni[i - no.len()]); }
                }
            }
        }
    }
}
