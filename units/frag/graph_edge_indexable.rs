// ======================================================================================
// fragment graph_edge_indexable.rs - src/visit/mod.rs: EdgeIndexable as a trait contract, and Graph's impl (C06): the edge indices are
// exactly 0..edge_bound with edge_bound = edge_count, to_index is the index itself and from_index its inverse.
// (StableGraph's impl lives in stable_retain.rs, against its own copy of the trait item inside `mod edge_indexable`.)
// ======================================================================================

//@ item src/visit/mod.rs | - | trait EdgeIndexable
    /// The graph’s `NodeId`s map to indices
    #[allow(clippy::needless_arbitrary_self_type)]
    pub trait EdgeIndexable : GraphBase {
        /*+*/
        spec fn ebound(&self) -> usize;
        spec fn eix_of(&self, a: Self::EdgeId) -> usize;
        /// an edge's index belongs to no other edge identifier below the bound
        spec fn is_eid(&self, a: Self::EdgeId) -> bool;
        /*-*/
        /// Return an upper bound of the edge indices in the graph
        /// (suitable for the size of a bitmap).
        fn edge_bound(self: &Self) -> (r: usize)
            /*+*/ensures r == self.ebound()/*-*/;
        /// Convert `a` to an integer index.
        #[track_caller]
        fn to_index(self: &Self, a: Self::EdgeId) -> (r: usize)
            /*+*/ensures r == self.eix_of(a), self.is_eid(a) ==> r < self.ebound()/*-*/;   // [edge_to_index_below_edge_bound]
        /// Convert `i` to an edge index. `i` must be a valid value in the graph.
        #[track_caller]
        fn from_index(self: &Self, i: usize) -> (r: Self::EdgeId)
            /*+*/ensures forall|a: Self::EdgeId| self.is_eid(a) && self.eix_of(a) == i ==> r == a/*-*/;   // [edge_from_index_inverse_of_to_index]
    }
//@ end

//@ item src/graph_impl/mod.rs | - | impl<N, E, Ty, Ix> visit::EdgeIndexable for Graph<N, E, Ty, Ix> where Ty: EdgeType, Ix: IndexType
impl<N, E, Ty, Ix> visit::EdgeIndexable for Graph<N, E, Ty, Ix>
where
    Ty: EdgeType,
    Ix: IndexType,
{
    /*+*/
    open spec fn ebound(&self) -> usize { self.edges.len() }
    open spec fn eix_of(&self, a: EdgeIndex<Ix>) -> usize { a.0.ix() }
    open spec fn is_eid(&self, a: EdgeIndex<Ix>) -> bool { a.i() < self.edges@.len() }
    /*-*/
    fn edge_bound(&self) -> usize {
        self.edge_count()
    }

    fn to_index(&self, ix: EdgeIndex<Ix>) -> usize {
        ix.index()
    }

    fn from_index(&self, ix: usize) -> Self::EdgeId {
        /*+*/proof { assert forall|a: EdgeIndex<Ix>| self.is_eid(a) && self.eix_of(a) == ix implies EdgeIndex::<Ix>(Ix::spec_new(ix)) == a by { Ix::ix_bound(a.0); Ix::new_law(ix); Ix::ix_inj(a.0, Ix::spec_new(ix)); } }/*-*/
        EdgeIndex::new(ix)
    }
}
//@ end
