// ======================================================================================
// fragment graph_serde.rs - the crate's own half of Graph's serde support (C17): into_serializable and
// from_deserialized (src/graph_impl/serialization.rs).  `DeserGraph` is taken as the deserialiser hands it over.
// ======================================================================================

// The deserialiser helpers named in DeserGraph's #[serde(deserialize_with = ..)] attributes are outside the verifier's subset; what they
// guarantee (fresh nodes carry next == [end, end]; a non-empty node_holes list is refused) was READ OFF their text and is assumed by
// FromDeserialized::input_ok.  They are pinned by hash: a change to them is a conflict (exit 2), never silently accepted.
//@ pin src/graph_impl/serialization.rs | - | fn deser_graph_nodes | 2196f5cbd5
//@ pin src/graph_impl/serialization.rs | - | fn deser_graph_node_holes | 5c935bee34
//@ pin src/graph_impl/serialization.rs | - | fn deser_graph_edges | 8c3e4cbf94
//@ pin src/graph_impl/serialization.rs | - | fn ser_graph_nodes | 17d0011307
//@ pin src/graph_impl/serialization.rs | - | fn ser_graph_edges | 346de0f650

//@ item src/graph_impl/serialization.rs | - | struct SerGraph | serde=0a834cf313
/// Serialization representation for Graph
/// Keep in sync with deserialization and StableGraph
pub struct SerGraph<'a, N: 'a, E: 'a, Ix: 'a + IndexType> {
    pub nodes: &'a [Node<N, Ix>],
    pub node_holes: &'a [NodeIndex<Ix>],
    pub edge_property: EdgeProperty,
    pub edges: &'a [Edge<E, Ix>],
}
//@ end

//@ item src/graph_impl/serialization.rs | - | struct DeserGraph | serde=cd0004a3d5
// Deserialization representation for Graph
// Keep in sync with serialization and StableGraph
pub struct DeserGraph<N, E, Ix> {
    pub nodes: Vec<Node<N, Ix>>,
    pub node_holes: Vec<NodeIndex<Ix>>,
    pub edge_property: EdgeProperty,
    pub edges: Vec<Edge<E, Ix>>,
}
//@ end

//@ item src/graph_impl/serialization.rs | - | impl<'a, N, E, Ty, Ix> IntoSerializable for &'a Graph<N, E, Ty, Ix> where Ix: IndexType, Ty: EdgeType
impl<'a, N, E, Ty, Ix> IntoSerializable for &'a Graph<N, E, Ty, Ix>
where
    Ix: IndexType,
    Ty: EdgeType,
{
    type Output = SerGraph<'a, N, E, Ix>;
    /*+*/open spec fn ser_ok(self) -> bool { true }/*-*/
    fn into_serializable(self) -> /*+*/(r:/*-*/ Self::Output/*+*/)
        ensures r.nodes@ == self.nodes@, r.edges@ == self.edges@, r.node_holes@.len() == 0,        // [ser_graph_is_the_whole_graph]
            (r.edge_property is Directed) == Ty::spec_is_directed()/*-*/
    {
        SerGraph {
            nodes: &self.nodes,
            node_holes: &[],
            edges: &self.edges,
            edge_property: EdgeProperty::from(PhantomData::<Ty>),
        }
    }
}
//@ end

//@ item src/graph_impl/serialization.rs | - | impl<N, E, Ty, Ix> FromDeserialized for Graph<N, E, Ty, Ix> where Ix: IndexType, Ty: EdgeType
impl<N, E, Ty, Ix> FromDeserialized for Graph<N, E, Ty, Ix>
where
    Ix: IndexType,
    Ty: EdgeType,
{
    type Input = DeserGraph<N, E, Ix>;
    /*+*/open spec fn input_ok(input: DeserGraph<N, E, Ix>) -> bool { fresh_nodes(input.nodes@) }/*-*/
    fn from_deserialized<E2>(input: Self::Input) -> /*+*/(r:/*-*/ Result<Self, E2>/*+*/)/*-*/
    where
        E2: Error,
        /*+*/ensures ({
            // never a corrupt graph: whatever is accepted is well formed and is exactly what the stream said      [deser_graph_ok_is_well_formed_and_faithful]
            &&& r is Ok ==> r->Ok_0.wf()
                    && r->Ok_0.nodes@.len() == input.nodes@.len() && r->Ok_0.edges@.len() == input.edges@.len()
                    && (forall|a: int| 0 <= a < input.nodes@.len() ==> (#[trigger] r->Ok_0.nodes@[a]).weight == input.nodes@[a].weight)
                    && (forall|e: int| 0 <= e < input.edges@.len() ==> (#[trigger] r->Ok_0.edges@[e]).weight == input.edges@[e].weight && r->Ok_0.edges@[e].node == input.edges@[e].node)
            // what is rejected: a wrong edge property or an endpoint that is not a node (and possibly sizes at the index-type limit)   [deser_graph_rejects_bad_input]
            &&& r is Ok ==> ((input.edge_property is Directed) == Ty::spec_is_directed()) && endpoints_ok(input.nodes@, input.edges@)
            // every stream of a graph below the index-type limit is accepted                                   [deser_graph_accepts_valid_input]
            &&& (((input.edge_property is Directed) == Ty::spec_is_directed()) && endpoints_ok(input.nodes@, input.edges@)
                    && input.nodes@.len() < end_ix::<Ix>() && input.edges@.len() < end_ix::<Ix>()) ==> r is Ok
        })/*-*/
    {
        let ty = PhantomData::<Ty>::from_deserialized(input.edge_property)?;
        let nodes = input.nodes;
        let edges = input.edges;
        if nodes.len() >= <Ix as IndexType>::max().index() {
            Err(invalid_length_err::<Ix, _>("node", nodes.len()))?
        }

        if edges.len() >= <Ix as IndexType>::max().index() {
            Err(invalid_length_err::<Ix, _>("edge", edges.len()))?
        }

        let mut gr = Graph { nodes, edges, ty };
        let nc = gr.node_count();
        gr.link_edges()
            .map_err(|i/*+*/: NodeIndex<Ix>/*-*/| /*+*/-> (e: E2) {/*-*/ invalid_node_err(i.index(), nc) /*+*/}/*-*/)?;
        Ok(gr)
    }
}
//@ end
