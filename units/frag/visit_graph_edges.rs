// ======================================================================================
// fragment visit_graph_edges.rs - the Edges iterator of Graph and edges / edges_directed (properties C01 / C06):
// the edge references of the matching incidence lists of a, oriented as documented
// (Directed: the list of the direction; Undirected: both lists, a always at the `dir` end, self-loops once)
// ======================================================================================

//@ item src/graph_impl/mod.rs | - | fn swap_pair
fn swap_pair<T>(mut x: [T; 2]) -> (r: [T; 2])
    /*+*/ensures r[0] == x[1], r[1] == x[0], r == [x[1], x[0]]/*-*/
{
    /*+*/let ghost x0 = x;/*-*/
    x.swap(0, 1);
    /*+*/proof { assert(x =~= [x0[1], x0[0]]); }/*-*/
    x
}
//@ end

/// the reference the iterator yields for edge e (endpoints swapped when `swap`)
pub open spec fn er_of<'a, E, Ix: IndexType>(edges: &'a [Edge<E, Ix>], e: int, swap: bool) -> EdgeReference<'a, E, Ix> {
    EdgeReference {
        index: EdgeIndex(Ix::spec_new(e as usize)),
        node: if swap { [edges@[e].node[1], edges@[e].node[0]] } else { edges@[e].node },
        weight: &edges@[e].weight,
    }
}
pub open spec fn ed_out<'a, E, Ix: IndexType>(edges: &'a [Edge<E, Ix>], s: Seq<int>, swap: bool) -> Seq<EdgeReference<'a, E, Ix>> {
    Seq::new(s.len(), |i: int| er_of(edges, s[i], swap))
}
/// the incoming list; with `skip` >= 0 the edges whose source is `skip` (self-loops, already seen) are left out
pub open spec fn ed_in<'a, E, Ix: IndexType>(edges: &'a [Edge<E, Ix>], s: Seq<int>, skip: int, swap: bool) -> Seq<EdgeReference<'a, E, Ix>>
    decreases s.len()
{
    if s.len() == 0 { Seq::empty() }
    else { (if skip >= 0 && edges@[s[0]].node[0].0.ix() == skip { Seq::empty() } else { seq![er_of(edges, s[0], swap)] }) + ed_in(edges, s.drop_first(), skip, swap) }
}

//@ item src/graph_impl/mod.rs | - | struct Edges
/// Iterator over the edges of from or to a node
pub struct Edges<'a, E: 'a, Ty, Ix: 'a = DefaultIx>
where
    Ty: EdgeType,
    Ix: IndexType,
{
    /// starting node to skip over
    skip_start: NodeIndex<Ix>,
    edges: &'a [Edge<E, Ix>],

    /// Next edge to visit.
    next: [EdgeIndex<Ix>; 2],

    /// For directed graphs: the direction to iterate in
    /// For undirected graphs: the direction of edges
    direction: Direction,
    ty: PhantomData<Ty>,
}
//@ end

impl<'a, E, Ty: EdgeType, Ix: IndexType> Edges<'a, E, Ty, Ix> {
    pub closed spec fn ev(&self) -> Seq<Edge<E, Ix>> { self.edges@ }
    pub closed spec fn rest0(&self) -> Seq<int> { chain_of(self.edges@, self.next[0], 0) }
    pub closed spec fn rest1(&self) -> Seq<int> { chain_of(self.edges@, self.next[1], 1) }
    pub closed spec fn rem(&self) -> Seq<EdgeReference<'a, E, Ix>> {
        let directed = Ty::spec_is_directed(); let k = self.direction.k();
        (if !directed || k == 0 { ed_out(self.edges, self.rest0(), !directed && k == 1) } else { Seq::empty() })
        + (if !directed || k == 1 { ed_in(self.edges, self.rest1(), if directed { -1 } else { self.skip_start.0.ix() as int }, !directed && k == 0) } else { Seq::empty() })
    }
    /// TYPE INVARIANT: both pointers head chains (established by Graph::edges_directed from wf())
    #[verifier::type_invariant]
    closed spec fn tinv(self) -> bool { has_chain(self.edges@, self.next[0], 0) && has_chain(self.edges@, self.next[1], 1) }
}
impl<'a, E, Ty: EdgeType, Ix: IndexType> vstd::std_specs::iter::IteratorSpecImpl for Edges<'a, E, Ty, Ix> {
    closed spec fn obeys_prophetic_iter_laws(&self) -> bool { true }
    closed spec fn remaining(&self) -> Seq<EdgeReference<'a, E, Ix>> { self.rem() }
    closed spec fn decrease(&self) -> Option<nat> { Some((self.rest0().len() + self.rest1().len()) as nat) }
    closed spec fn will_return_none(&self) -> bool { true }
    closed spec fn peek(&self, i: int) -> Option<EdgeReference<'a, E, Ix>> { None }
}

//@ item src/graph_impl/mod.rs | - | impl<'a, E, Ty, Ix> Iterator for Edges<'a, E, Ty, Ix> where Ty: EdgeType, Ix: IndexType
impl<'a, E, Ty, Ix> Iterator for Edges<'a, E, Ty, Ix>
where
    Ty: EdgeType,
    Ix: IndexType,
{
    type Item = EdgeReference<'a, E, Ix>;

    fn next(&mut self) -> Option<Self::Item> {
        //      type        direction    |    iterate over    reverse
        //                               |
        //    Directed      Outgoing     |      outgoing        no
        //    Directed      Incoming     |      incoming        no
        //   Undirected     Outgoing     |        both       incoming
        //   Undirected     Incoming     |        both       outgoing

        // For iterate_over, "both" is represented as None.
        // For reverse, "no" is represented as None.
        /*+*/proof { use_type_invariant(&*self); lemma_chain_step(self.edges@, self.next[0], 0); lemma_chain_step(self.edges@, self.next[1], 1); }
        let ghost directed = Ty::spec_is_directed(); let ghost k = self.direction.k();
        let ghost sw0 = !directed && k == 1; let ghost sw1 = !directed && k == 0; let ghost skip = if directed { -1 } else { self.skip_start.0.ix() as int };/*-*/
        let (iterate_over, reverse) = if Ty::is_directed() {
            (Some(self.direction), None)
        } else {
            (None, Some(self.direction.opposite()))
        };

        if iterate_over.unwrap_or(Outgoing) == Outgoing {
            let i = self.next[0].index();
            if let Some(Edge { node, weight, next }) = self.edges.get(i) {
                self.next[0] = next[0];
                /*+*/proof {
                    let r0 = old(self).rest0();
                    assert(r0 == seq![i as int] + self.rest0());
                    assert(ed_out(self.edges, r0, sw0) =~= seq![er_of(self.edges, i as int, sw0)] + ed_out(self.edges, self.rest0(), sw0));
                    assert(old(self).rem() =~= seq![er_of(self.edges, i as int, sw0)] + self.rem());
                    assert((seq![er_of(self.edges, i as int, sw0)] + self.rem()).drop_first() =~= self.rem());
                }/*-*/
                return Some(EdgeReference {
                    index: edge_index(i),
                    node: if reverse == Some(Outgoing) {
                        swap_pair(*node)
                    } else {
                        *node
                    },
                    weight,
                });
            }
        }

        /*+*/proof { if !directed || k == 0 { assert(ed_out(self.edges, self.rest0(), sw0) =~= Seq::<EdgeReference<'a, E, Ix>>::empty()); } }/*-*/
        if iterate_over.unwrap_or(Incoming) == Incoming {
            while let Some(Edge { node, weight, next }) = self.edges.get(self.next[1].index())
                /*+*/invariant self.edges == old(self).edges, self.skip_start == old(self).skip_start, self.next[0] == old(self).next[0], self.direction == old(self).direction,
                    self.tinv(), directed == Ty::spec_is_directed(), k == self.direction.k(), !directed || k == 1,
                    sw1 == (!directed && k == 0), skip == (if directed { -1 } else { self.skip_start.0.ix() as int }),
                    iterate_over is None <==> !directed, reverse == (if directed { None::<Direction> } else { Some(self.direction.opp()) }),
                    self.rem() == old(self).rem(), self.rest1().len() <= old(self).rest1().len(), self.rest0() == old(self).rest0(),
                    !directed || k == 0 ==> self.rest0().len() == 0,
                ensures self.next[1].0.ix() >= self.edges@.len(),
                decreases self.rest1().len()/*-*/
            {
                /*+*/let ghost before = *self; let ghost e1 = self.next[1].0.ix() as int;
                proof { lemma_chain_step(self.edges@, self.next[1], 1); Ix::eq_law(); }/*-*/
                let edge_index = self.next[1];
                self.next[1] = next[1];
                /*+*/proof {
                    lemma_chain_step(self.edges@, self.next[0], 0);
                    let r1 = before.rest1();
                    assert(r1 == seq![e1] + self.rest1());
                    assert(r1.drop_first() =~= self.rest1());
                    assert(self.rest0() == before.rest0());
                }/*-*/
                // In any of the "both" situations, self-loops would be iterated over twice.
                // Skip them here.
                if iterate_over.is_none() && node[0] == self.skip_start {
                    /*+*/proof { assert(before.rem() =~= self.rem()); }/*-*/
                    continue;
                }
                /*+*/proof {
                    assert(ed_in(self.edges, r1_of(before.edges@, before.next[1]), skip, sw1) =~= seq![er_of(self.edges, e1, sw1)] + ed_in(self.edges, self.rest1(), skip, sw1)) by {
                        assert(r1_of(before.edges@, before.next[1]) == before.rest1());
                    }
                    assert(before.rem() =~= seq![er_of(self.edges, e1, sw1)] + self.rem());
                    assert((seq![er_of(self.edges, e1, sw1)] + self.rem()).drop_first() =~= self.rem());
                    Ix::ix_bound(edge_index.0); Ix::new_law(e1 as usize); Ix::ix_inj(edge_index.0, Ix::spec_new(e1 as usize));
                }/*-*/

                return Some(EdgeReference {
                    index: edge_index,
                    node: if reverse == Some(Incoming) {
                        swap_pair(*node)
                    } else {
                        *node
                    },
                    weight,
                });
            }
        }

        /*+*/proof {
            lemma_chain_step(self.edges@, self.next[1], 1); lemma_chain_step(self.edges@, self.next[0], 0);
            assert(self.rem() =~= Seq::<EdgeReference<'a, E, Ix>>::empty());
        }/*-*/
        None
    }
}
//@ end
pub open spec fn r1_of<E, Ix: IndexType>(es: Seq<Edge<E, Ix>>, h: EdgeIndex<Ix>) -> Seq<int> { chain_of(es, h, 1) }

/// what an edge reference shows: (edge index, source, target, weight)
pub open spec fn erv<'a, E, Ix: IndexType>(r: EdgeReference<'a, E, Ix>) -> (int, NodeIndex<Ix>, NodeIndex<Ix>, E) { (r.index.i(), r.node[0], r.node[1], *r.weight) }
pub open spec fn ev_of<E, Ix: IndexType>(es: Seq<Edge<E, Ix>>, e: int, swap: bool) -> (int, NodeIndex<Ix>, NodeIndex<Ix>, E) {
    if swap { (e, es[e].node[1], es[e].node[0], es[e].weight) } else { (e, es[e].node[0], es[e].node[1], es[e].weight) }
}
pub open spec fn ev_out<E, Ix: IndexType>(es: Seq<Edge<E, Ix>>, s: Seq<int>, swap: bool) -> Seq<(int, NodeIndex<Ix>, NodeIndex<Ix>, E)> {
    Seq::new(s.len(), |i: int| ev_of(es, s[i], swap))
}
pub open spec fn ev_in<E, Ix: IndexType>(es: Seq<Edge<E, Ix>>, s: Seq<int>, skip: int, swap: bool) -> Seq<(int, NodeIndex<Ix>, NodeIndex<Ix>, E)>
    decreases s.len()
{
    if s.len() == 0 { Seq::empty() }
    else { (if skip >= 0 && es[s[0]].node[0].0.ix() == skip { Seq::empty() } else { seq![ev_of(es, s[0], swap)] }) + ev_in(es, s.drop_first(), skip, swap) }
}
/// the views of the references are the views of the edges (e in range and below the index type's maximum)
pub proof fn lemma_ed_views<'a, E, Ix: IndexType>(edges: &'a [Edge<E, Ix>], s: Seq<int>, skip: int, swap: bool)
    requires forall|i: int| 0 <= i < s.len() ==> 0 <= #[trigger] s[i] < edges@.len(), edges@.len() <= end_ix::<Ix>()
    ensures
        ed_out(edges, s, swap).len() == s.len(), forall|i: int| 0 <= i < s.len() ==> erv(#[trigger] ed_out(edges, s, swap)[i]) == ev_out(edges@, s, swap)[i],
        ed_in(edges, s, skip, swap).len() == ev_in(edges@, s, skip, swap).len(),
        forall|i: int| 0 <= i < ed_in(edges, s, skip, swap).len() ==> erv(#[trigger] ed_in(edges, s, skip, swap)[i]) == ev_in(edges@, s, skip, swap)[i],
    decreases s.len()
{
    assert forall|i: int| 0 <= i < s.len() implies erv(#[trigger] ed_out(edges, s, swap)[i]) == ev_out(edges@, s, swap)[i] by { Ix::new_law(s[i] as usize); }
    if s.len() > 0 {
        let t = s.drop_first();
        assert forall|i: int| 0 <= i < t.len() implies 0 <= #[trigger] t[i] < edges@.len() by { assert(t[i] == s[i + 1]); }
        lemma_ed_views(edges, t, skip, swap);
        Ix::new_law(s[0] as usize);
        let hd = if skip >= 0 && edges@[s[0]].node[0].0.ix() == skip { Seq::<EdgeReference<'a, E, Ix>>::empty() } else { seq![er_of(edges, s[0], swap)] };
        let hv = if skip >= 0 && edges@[s[0]].node[0].0.ix() == skip { Seq::<(int, NodeIndex<Ix>, NodeIndex<Ix>, E)>::empty() } else { seq![ev_of(edges@, s[0], swap)] };
        let full = hd + ed_in(edges, t, skip, swap); let fv = hv + ev_in(edges@, t, skip, swap);
        assert forall|i: int| 0 <= i < full.len() implies erv(#[trigger] full[i]) == fv[i] by {
            if i < hd.len() { } else { assert(full[i] == ed_in(edges, t, skip, swap)[i - hd.len()]); assert(fv[i] == ev_in(edges@, t, skip, swap)[i - hv.len()]); }
        }
    }
}

impl<N, E, Ty, Ix> Graph<N, E, Ty, Ix>
where
    Ty: EdgeType,
    Ix: IndexType,
{
    /// what `edges_directed(a, dir)` shows, as (edge index, source, target, weight) in iteration order:
    /// Directed: the list of the direction as stored.  Undirected: the outgoing list, then the incoming list without
    /// self-loops, every edge oriented so that a is its source (dir = Outgoing) resp. its target (dir = Incoming).
    pub open spec fn edge_views_of(&self, a: int, k: int) -> Seq<(int, NodeIndex<Ix>, NodeIndex<Ix>, E)> {
        let es = self.edges@;
        if !(0 <= a < self.n()) { Seq::empty() }
        else if Ty::spec_is_directed() { if k == 0 { ev_out(es, self.outs()[a], false) } else { ev_in(es, self.inns()[a], -1, false) } }
        else { ev_out(es, self.outs()[a], k == 1) + ev_in(es, self.inns()[a], a, k == 0) }
    }

//@ item src/graph_impl/mod.rs | impl<N, E, Ty, Ix> Graph<N, E, Ty, Ix> where Ty: EdgeType, Ix: IndexType | fn edges
    pub fn edges(&self, a: NodeIndex<Ix>) -> (r: Edges<E, Ty, Ix>)
        /*+*/requires self.wf()
        ensures r.obeys_prophetic_iter_laws(), r.decrease() is Some, r.remaining().len() == self.edge_views_of(a.i(), 0).len(),
            forall|i: int| 0 <= i < r.remaining().len() ==> erv(#[trigger] r.remaining()[i]) == self.edge_views_of(a.i(), 0)[i]/*-*/   // [edges_is_outgoing_view]
    {
        self.edges_directed(a, Outgoing)
    }
//@ end

//@ item src/graph_impl/mod.rs | impl<N, E, Ty, Ix> Graph<N, E, Ty, Ix> where Ty: EdgeType, Ix: IndexType | fn edges_directed
    pub fn edges_directed(&self, a: NodeIndex<Ix>, dir: Direction) -> (r: Edges<E, Ty, Ix>)
        /*+*/requires self.wf()
        ensures r.obeys_prophetic_iter_laws(), r.decrease() is Some, r.remaining().len() == self.edge_views_of(a.i(), dir.k()).len(),
            forall|i: int| 0 <= i < r.remaining().len() ==> erv(#[trigger] r.remaining()[i]) == self.edge_views_of(a.i(), dir.k())[i]/*-*/   // [edges_directed_is_matching_view]
    {
        /*+*/proof {
            let es = self.edges@; let ai = a.i();
            assert forall|h: EdgeIndex<Ix>, kk: int| h.0.ix() == end_ix::<Ix>() && 0 <= kk < 2 implies #[trigger] has_chain(es, h, kk) by { lemma_chain_step(es, h, kk); }
            if ai < self.n() {
                let o = self.outs()[ai]; let i_ = self.inns()[ai];
                lemma_slist_is_chain(es, self.nodes@[ai].next[0], 0, o); lemma_chain_of(es, self.nodes@[ai].next[0], 0, o);
                lemma_slist_is_chain(es, self.nodes@[ai].next[1], 1, i_); lemma_chain_of(es, self.nodes@[ai].next[1], 1, i_);
            }
        }
        let r = {/*-*/ Edges {
            skip_start: a,
            edges: &self.edges,
            direction: dir,
            next: match self.nodes.get(a.index()) {
                None => [EdgeIndex::end(), EdgeIndex::end()],
                Some(n) => n.next,
            },
            ty: PhantomData,
        } /*+*/};
        proof {
            let es = self.edges@; let ai = a.i(); let k = dir.k(); let directed = Ty::spec_is_directed();
            if ai < self.n() {
                let o = self.outs()[ai]; let i_ = self.inns()[ai];
                lemma_slist_range(es, self.nodes@[ai].next[0], 0, o); lemma_slist_range(es, self.nodes@[ai].next[1], 1, i_);
                assert(r.rest0() == o && r.rest1() == i_);
                lemma_ed_views(r.edges, o, -1, !directed && k == 1);
                lemma_ed_views(r.edges, i_, if directed { -1 } else { ai }, !directed && k == 0);
                let p0 = if !directed || k == 0 { ed_out(r.edges, o, !directed && k == 1) } else { Seq::empty() };
                let p1 = if !directed || k == 1 { ed_in(r.edges, i_, if directed { -1 } else { ai }, !directed && k == 0) } else { Seq::empty() };
                assert(r.rem() == p0 + p1);
                assert forall|i: int| 0 <= i < r.rem().len() implies erv(#[trigger] r.rem()[i]) == self.edge_views_of(ai, k)[i] by {
                    if i < p0.len() { assert(r.rem()[i] == p0[i]); } else { assert(r.rem()[i] == p1[i - p0.len()]); }
                }
            } else {
                lemma_chain_step(es, r.next[0], 0); lemma_chain_step(es, r.next[1], 1);
                assert(ed_out(r.edges, r.rest0(), !directed && k == 1) =~= Seq::<EdgeReference<'_, E, Ix>>::empty());
                assert(r.rem() =~= Seq::<EdgeReference<'_, E, Ix>>::empty());
            }
        }
        r/*-*/
    }
//@ end
}
