// ======================================================================================
// fragment stable_view.rs - representation invariant and abstract view of StableGraph
// (property C02).  No repository code here.
//
// A slot is LIVE when its weight is Some.  Live nodes carry the heads of their two incidence
// lists in next[0] / next[1]; vacant nodes form the doubly linked free list (next[0] forward,
// next[1] backward) starting at `free_node`.  Live edges are linked as in Graph; vacant edges
// form the singly linked free list through next[0] starting at `free_edge`.
// `p` (a node index or -1) is the node whose removal is in progress: its weight is already
// taken, its incidence lists still exist, and it is not yet on the free list.
// ======================================================================================
use core::mem::replace;

pub open spec fn nlive<N, Ix: IndexType>(ns: Seq<Node<Option<N>, Ix>>, a: int) -> bool { 0 <= a < ns.len() && ns[a].weight is Some }
pub open spec fn elive<E, Ix: IndexType>(es: Seq<Edge<Option<E>, Ix>>, e: int) -> bool { 0 <= e < es.len() && es[e].weight is Some }
pub open spec fn listed<N, Ix: IndexType>(ns: Seq<Node<Option<N>, Ix>>, p: int, a: int) -> bool { nlive(ns, a) || (a == p && 0 <= a < ns.len()) }

/// the k-incidence lists of the listed nodes; vacant nodes have none
pub open spec fn slists_ok<N, E, Ix: IndexType>(ns: Seq<Node<Option<N>, Ix>>, es: Seq<Edge<Option<E>, Ix>>, k: int, ls: Seq<Seq<int>>, p: int) -> bool {
    &&& ls.len() == ns.len()
    &&& forall|a: int| 0 <= a < ns.len() && listed(ns, p, a) ==> slist(es, ns[a].next[k], k, #[trigger] ls[a]) && no_dup(ls[a])
    &&& forall|a: int| 0 <= a < ns.len() && !listed(ns, p, a) ==> (#[trigger] ls[a]).len() == 0
    &&& forall|a: int, i: int| 0 <= a < ns.len() && 0 <= i < ls[a].len() ==> elive(es, #[trigger] ls[a][i]) && es[ls[a][i]].node[k].0.ix() == a
    &&& forall|e: int| elive(es, e) ==> (#[trigger] es[e]).node[k].0.ix() < ns.len() && listed(ns, p, es[e].node[k].0.ix() as int)
    &&& forall|e: int| elive(es, e) ==> (#[trigger] ls[es[e].node[k].0.ix() as int]).contains(e)
}

/// following next[0] of node slots from `head` visits exactly fl and then reaches `end`
pub open spec fn nchain<N, Ix: IndexType>(ns: Seq<Node<Option<N>, Ix>>, head: int, fl: Seq<int>) -> bool
    decreases fl.len()
{
    if fl.len() == 0 { head == end_ix::<Ix>() }
    else { head == fl[0] && 0 <= fl[0] < ns.len() && nchain(ns, ns[fl[0]].next[0].0.ix() as int, fl.drop_first()) }
}
/// the doubly linked free list of vacant node slots: exactly the vacant slots (no leaks), back links consistent
pub open spec fn free_nodes_ok<N, Ix: IndexType>(ns: Seq<Node<Option<N>, Ix>>, free_node: int, fl: Seq<int>, p: int) -> bool {
    &&& nchain(ns, free_node, fl) && no_dup(fl)
    &&& forall|i: int| 0 <= i < fl.len() ==> 0 <= #[trigger] fl[i] < ns.len() && !nlive(ns, fl[i]) && fl[i] != p
    &&& fl.len() > 0 ==> ns[fl[0]].next[1].0.ix() == end_ix::<Ix>()                                                   // back links (two-index form: no matching loop)
    &&& forall|i: int, j: int| 0 <= i && j == i + 1 && j < fl.len() ==> ns[#[trigger] fl[j]].next[1].0.ix() == #[trigger] fl[i]
    &&& forall|a: int| 0 <= a < ns.len() && !nlive(ns, a) && a != p ==> #[trigger] fl.contains(a)
}
/// the singly linked free list of vacant edge slots: exactly the vacant slots
pub open spec fn free_edges_ok<E, Ix: IndexType>(es: Seq<Edge<Option<E>, Ix>>, free_edge: EdgeIndex<Ix>, fe: Seq<int>) -> bool {
    &&& slist(es, free_edge, 0, fe) && no_dup(fe)
    &&& forall|i: int| 0 <= i < fe.len() ==> 0 <= #[trigger] fe[i] < es.len() && !elive(es, fe[i])
    &&& forall|e: int| 0 <= e < es.len() && !elive(es, e) ==> #[trigger] fe.contains(e)
}

pub proof fn lemma_nchain_unique<N, Ix: IndexType>(ns: Seq<Node<Option<N>, Ix>>, head: int, s: Seq<int>, t: Seq<int>)
    requires nchain(ns, head, s), nchain(ns, head, t), ns.len() <= end_ix::<Ix>()
    ensures s == t
    decreases s.len()
{
    if s.len() == 0 { if t.len() > 0 { assert(false); } assert(t =~= s); }
    else {
        if t.len() == 0 { assert(false); }
        lemma_nchain_unique(ns, ns[s[0]].next[0].0.ix() as int, s.drop_first(), t.drop_first());
        assert(t =~= seq![t[0]] + t.drop_first()); assert(s =~= seq![s[0]] + s.drop_first());
    }
}
/// changing slots that are not on the chain (or only fields other than next[0]) keeps the chain
pub proof fn lemma_nchain_frame<N, Ix: IndexType>(ns: Seq<Node<Option<N>, Ix>>, ns2: Seq<Node<Option<N>, Ix>>, head: int, s: Seq<int>)
    requires nchain(ns, head, s), ns2.len() >= ns.len(), forall|i: int| 0 <= i < s.len() ==> ns2[#[trigger] s[i]].next[0] == ns[s[i]].next[0]
    ensures nchain(ns2, head, s)
    decreases s.len()
{
    if s.len() > 0 {
        let t = s.drop_first();
        assert forall|i: int| 0 <= i < t.len() implies ns2[#[trigger] t[i]].next[0] == ns[t[i]].next[0] by { assert(t[i] == s[i + 1]); }
        assert(ns2[s[0]].next[0] == ns[s[0]].next[0]);
        lemma_nchain_frame(ns, ns2, ns[s[0]].next[0].0.ix() as int, t);
    }
}

/// the abstract object of C02: slots keep their index; None = vacant
pub struct SGV<N, E> {
    pub nodes: Seq<Option<N>>,
    pub edges: Seq<Option<(int, int, E)>>,
    pub out: Seq<Seq<int>>,
    pub inn: Seq<Seq<int>>,
    pub node_count: int,
    pub edge_count: int,
}

//@ item src/graph_impl/stable_graph/mod.rs | - | struct StableGraph
pub struct StableGraph<N, E, Ty = Directed, Ix = DefaultIx> {
    pub g: Graph<Option<N>, Option<E>, Ty, Ix>,
    pub node_count: usize,
    pub edge_count: usize,

    // node and edge free lists (both work the same way)
    //
    // free_node, if not NodeIndex::end(), points to a node index
    // that is vacant (after a deletion).
    // The free nodes form a doubly linked list using the fields Node.next[0]
    // for forward references and Node.next[1] for backwards ones.
    // The nodes are stored as EdgeIndex, and the _into_edge()/_into_node()
    // methods convert.
    // free_edge, if not EdgeIndex::end(), points to a free edge.
    // The edges only form a singly linked list using Edge.next[0] to store
    // the forward reference.
    pub free_node: NodeIndex<Ix>,
    pub free_edge: EdgeIndex<Ix>,
}
//@ end

// (no `Ty: EdgeType` bound: the representation invariant does not depend on the edge type, and `Clone` is implemented without that bound)
impl<N, E, Ty, Ix: IndexType> StableGraph<N, E, Ty, Ix> {
    pub open spec fn ns(&self) -> Seq<Node<Option<N>, Ix>> { self.g.nodes@ }
    pub open spec fn es(&self) -> Seq<Edge<Option<E>, Ix>> { self.g.edges@ }
    pub open spec fn wf_with(&self, out: Seq<Seq<int>>, inn: Seq<Seq<int>>, fl: Seq<int>, fe: Seq<int>, p: int) -> bool {
        &&& self.ns().len() <= end_ix::<Ix>() && self.es().len() <= end_ix::<Ix>()
        &&& slists_ok(self.ns(), self.es(), 0, out, p)
        &&& slists_ok(self.ns(), self.es(), 1, inn, p)
        &&& free_nodes_ok(self.ns(), self.free_node.0.ix() as int, fl, p)
        &&& free_edges_ok(self.es(), self.free_edge, fe)
        &&& self.node_count == self.ns().len() - fl.len()      // = live nodes (+ the pending one): what check_free_lists asserts
        &&& self.edge_count == self.es().len() - fe.len()
    }
    /// canonical witnesses
    pub open spec fn outs(&self, p: int) -> Seq<Seq<int>> {
        Seq::new(self.ns().len(), |a: int| if listed(self.ns(), p, a) { list_of(self.es(), self.ns()[a].next[0], 0) } else { Seq::empty() })
    }
    pub open spec fn inns(&self, p: int) -> Seq<Seq<int>> {
        Seq::new(self.ns().len(), |a: int| if listed(self.ns(), p, a) { list_of(self.es(), self.ns()[a].next[1], 1) } else { Seq::empty() })
    }
    pub open spec fn fnodes(&self) -> Seq<int> { choose|fl: Seq<int>| nchain(self.ns(), self.free_node.0.ix() as int, fl) }
    pub open spec fn fedges(&self) -> Seq<int> { list_of(self.es(), self.free_edge, 0) }
    /// representation invariant with a node removal in progress (p = -1: none)
    pub open spec fn wf_p(&self, p: int) -> bool { self.wf_with(self.outs(p), self.inns(p), self.fnodes(), self.fedges(), p) }
    /// representation invariant of every reachable public state
    pub open spec fn wf(&self) -> bool { self.wf_p(-1) }

    pub proof fn lemma_wf_unique(&self, out: Seq<Seq<int>>, inn: Seq<Seq<int>>, fl: Seq<int>, fe: Seq<int>, p: int)
        requires self.wf_with(out, inn, fl, fe, p)
        ensures self.wf_p(p), out == self.outs(p), inn == self.inns(p), fl == self.fnodes(), fe == self.fedges()
    {
        assert forall|a: int| 0 <= a < self.ns().len() implies out[a] == #[trigger] self.outs(p)[a] by {
            if listed(self.ns(), p, a) { lemma_list_of(self.es(), self.ns()[a].next[0], 0, out[a]); } else { assert(out[a] =~= Seq::<int>::empty()); }
        }
        assert forall|a: int| 0 <= a < self.ns().len() implies inn[a] == #[trigger] self.inns(p)[a] by {
            if listed(self.ns(), p, a) { lemma_list_of(self.es(), self.ns()[a].next[1], 1, inn[a]); } else { assert(inn[a] =~= Seq::<int>::empty()); }
        }
        assert(out =~= self.outs(p));
        assert(inn =~= self.inns(p));
        lemma_nchain_unique(self.ns(), self.free_node.0.ix() as int, fl, self.fnodes());
        lemma_list_of(self.es(), self.free_edge, 0, fe);
    }

    /// abstraction function
    pub open spec fn view(&self) -> SGV<N, E> {
        SGV {
            nodes: Seq::new(self.ns().len(), |a: int| self.ns()[a].weight),
            edges: Seq::new(self.es().len(), |e: int| match self.es()[e].weight { Some(w) => Some((self.es()[e].node[0].0.ix() as int, self.es()[e].node[1].0.ix() as int, w)), None => None }),
            out: self.outs(-1), inn: self.inns(-1),
            node_count: self.node_count as int, edge_count: self.edge_count as int,
        }
    }
}

impl<N, E> SGV<N, E> {
    /// a new edge e -> slot e (vacant or one past the end); most recently added first in both lists
    pub open spec fn add_edge_at(self, e: int, a: int, b: int, w: E) -> Self {
        SGV { nodes: self.nodes,
              edges: if e == self.edges.len() { self.edges.push(Some((a, b, w))) } else { self.edges.update(e, Some((a, b, w))) },
              out: self.out.update(a, seq![e] + self.out[a]), inn: self.inn.update(b, seq![e] + self.inn[b]),
              node_count: self.node_count, edge_count: self.edge_count + 1 }
    }
    /// remove a live edge: its slot becomes vacant, every other index is untouched
    pub open spec fn remove_edge(self, e: int) -> Self {
        let a = self.edges[e].unwrap().0; let b = self.edges[e].unwrap().1;
        SGV { nodes: self.nodes, edges: self.edges.update(e, None),
              out: self.out.update(a, self.out[a].remove(pos_of(self.out[a], e))),
              inn: self.inn.update(b, self.inn[b].remove(pos_of(self.inn[b], e))),
              node_count: self.node_count, edge_count: self.edge_count - 1 }
    }
}
