// ======================================================================================
// fragment acyclic_common.rs - shared by the Acyclic units: the Acyclic struct, the &G delegation of NodeIndexable
// ======================================================================================
use core::cell::RefCell;
// `RefCell` is only named as the type of two scratch fields that the functions under contract never touch
#[verifier::reject_recursive_types(T)]
#[verifier::external_type_specification]
#[verifier::external_body]
pub struct ExRefCell<T: ?Sized>(RefCell<T>);

// hand-expanded `NodeIndexable! {delegate_impl []}` (src/visit/mod.rs; macro_rules expansion, NOT extracted): &G forwards to G
impl<'a, G: NodeIndexable> NodeIndexable for &'a G {
    open spec fn is_nid(&self, a: G::NodeId) -> bool { (**self).is_nid(a) }
    open spec fn nbound(&self) -> usize { (**self).nbound() }
    open spec fn ix_of(&self, a: G::NodeId) -> usize { (**self).ix_of(a) }
    proof fn ix_inj_law(&self, a: G::NodeId, b: G::NodeId) { (**self).ix_inj_law(a, b); }
    fn node_bound(self: &Self) -> usize { (**self).node_bound() }
    fn to_index(self: &Self, a: G::NodeId) -> usize { (**self).to_index(a) }
    fn from_index(self: &Self, i: usize) -> G::NodeId { (**self).from_index(i) }
}

//@ item src/acyclic.rs | - | struct Acyclic
pub struct Acyclic<G: Visitable> {
    /// The underlying graph, accessible through the `inner` method.
    pub graph: G,
    /// The current topological order of the nodes.
    pub order_map: OrderMap<G::NodeId>,

    // We fix the internal DFS maps to FixedBitSet instead of G::VisitMap to do
    // faster resets (by just setting bits to false)
    /// Helper map for DFS tracking discovered nodes.
    pub discovered: RefCell<FixedBitSet>,
    /// Helper map for DFS tracking finished nodes.
    pub finished: RefCell<FixedBitSet>,
}
//@ end

