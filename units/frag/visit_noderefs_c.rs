// ======================================================================================
// fragment visit_noderefs_c.rs - a COPY of visit_noderefs.rs that KEEPS the `Copy` supertrait of NodeRef (the generic adaptor code needs
// it) and leaves out the tuple impl `NodeRef for (Id, &W)` (which this Verus cannot see to be Copy, rule D35).  Same contracts.
// src/visit/mod.rs: NodeRef and IntoNodeReferences under contract (C06):
// node_references lists the nodes that node_identifiers lists, in the same order
// ======================================================================================

//@ item src/visit/mod.rs | - | trait NodeRef
/// A node reference.
pub trait NodeRef: Copy {
    type NodeId;
    type Weight;
    /*+*/
    /// the node this reference stands for / the weight it shows
    spec fn nid(&self) -> Self::NodeId;
    spec fn nw(&self) -> &Self::Weight;
    /*-*/
    fn id(&self) -> (r: Self::NodeId)
        /*+*/ensures r == self.nid()/*-*/;
    fn weight(&self) -> (r: &Self::Weight)
        /*+*/ensures r == self.nw()/*-*/;
}
//@ end

//@ item src/visit/mod.rs | - | trait IntoNodeReferences
/// Access to the sequence of the graph’s nodes
pub trait IntoNodeReferences : Data + IntoNodeIdentifiers {
    type NodeRef: NodeRef<NodeId=Self::NodeId, Weight=Self::NodeWeight>;
    type NodeReferences: Iterator<Item=Self::NodeRef>;
    fn node_references(self) -> (r: Self::NodeReferences)
        /*+*/ensures r.obeys_prophetic_iter_laws(), r.decrease() is Some,
            r.remaining().len() == self.node_ids().len(),
            forall|k: int| 0 <= k < self.node_ids().len() ==> (#[trigger] r.remaining()[k]).nid() == self.node_ids()[k]/*-*/;   // [node_references_match_node_identifiers]
}
//@ end
