// ======================================================================================
// fragment graph_indices.rs - Graph's NodeIndices / EdgeIndices iterators (both ends) and
// node_indices() / edge_indices() (C01, C06).  The iterators wrap a `Range<usize>`; what is
// left to yield is the wrapped range's own `remaining()` (vstd), mapped to identifiers.
// ======================================================================================

/// the identifiers lo, lo+1, .., hi-1
pub open spec fn nix_range<Ix: IndexType>(lo: int, hi: int) -> Seq<NodeIndex<Ix>> {
    Seq::new((if hi >= lo { hi - lo } else { 0 }) as nat, |k: int| NodeIndex(Ix::spec_new((lo + k) as usize)))
}
pub open spec fn eix_range<Ix: IndexType>(lo: int, hi: int) -> Seq<EdgeIndex<Ix>> {
    Seq::new((if hi >= lo { hi - lo } else { 0 }) as nat, |k: int| EdgeIndex(Ix::spec_new((lo + k) as usize)))
}
pub open spec fn nix_of_seq<Ix: IndexType>(s: Seq<usize>) -> Seq<NodeIndex<Ix>> { Seq::new(s.len(), |k: int| NodeIndex(Ix::spec_new(s[k]))) }
pub open spec fn eix_of_seq<Ix: IndexType>(s: Seq<usize>) -> Seq<EdgeIndex<Ix>> { Seq::new(s.len(), |k: int| EdgeIndex(Ix::spec_new(s[k]))) }

//@ item src/graph_impl/mod.rs | - | struct NodeIndices
/// Iterator over the node indices of a graph.
pub struct NodeIndices<Ix = DefaultIx> {
    pub r: Range<usize>,
    pub ty: PhantomData</*R:D19 fn() -> Ix */ Ix /*-*/>,
}
//@ end

impl<Ix: IndexType> NodeIndices<Ix> {
    /// (inherent, so that `next` can speak about it without referring to its own trait impl)
    #[verifier::prophetic]
    pub open spec fn rem(&self) -> Seq<NodeIndex<Ix>> { nix_of_seq::<Ix>(IteratorSpec::remaining(&self.r)) }
}
impl<Ix: IndexType> vstd::std_specs::iter::IteratorSpecImpl for NodeIndices<Ix> {
    open spec fn obeys_prophetic_iter_laws(&self) -> bool { true }
    #[verifier::prophetic]
    open spec fn remaining(&self) -> Seq<NodeIndex<Ix>> { self.rem() }
    open spec fn decrease(&self) -> Option<nat> { IteratorSpec::decrease(&self.r) }
    open spec fn will_return_none(&self) -> bool { true }
    open spec fn peek(&self, i: int) -> Option<NodeIndex<Ix>> { None }
}
impl<Ix: IndexType> vstd::std_specs::iter::DoubleEndedIteratorSpecImpl for NodeIndices<Ix> {
    open spec fn peek_back(&self, i: int) -> Option<NodeIndex<Ix>> { None }
}

//@ item src/graph_impl/mod.rs | - | impl<Ix: IndexType> Iterator for NodeIndices<Ix>
impl<Ix: IndexType> Iterator for NodeIndices<Ix> {
    type Item = NodeIndex<Ix>;

    fn next(&mut self) -> Option<Self::Item> {
        /*+*/let r = {/*-*/ self.r.next().map(node_index) /*+*/};
        proof { if r is Some { assert(old(self).rem() =~= seq![r.unwrap()] + self.rem()); } else { assert(self.rem() =~= old(self).rem()); } }
        r/*-*/
    }

    /*+*/#[verifier::external_body]/*-*/
    fn size_hint(&self) -> (usize, Option<usize>) {
        self.r.size_hint()
    }
}
//@ end

//@ item src/graph_impl/mod.rs | - | impl<Ix: IndexType> DoubleEndedIterator for NodeIndices<Ix>
impl<Ix: IndexType> DoubleEndedIterator for NodeIndices<Ix> {
    fn next_back(&mut self) -> Option<Self::Item> {
        /*+*/let r = {/*-*/ self.r.next_back().map(node_index) /*+*/};
        proof { if r is Some { assert(old(self).rem() =~= self.rem().push(r.unwrap())); } else { assert(self.rem() =~= old(self).rem()); } }
        r/*-*/
    }
}
//@ end

//@ item src/graph_impl/mod.rs | - | struct EdgeIndices
/// Iterator over the edge indices of a graph.
pub struct EdgeIndices<Ix = DefaultIx> {
    pub r: Range<usize>,
    pub ty: PhantomData</*R:D19 fn() -> Ix */ Ix /*-*/>,
}
//@ end

impl<Ix: IndexType> EdgeIndices<Ix> {
    #[verifier::prophetic]
    pub open spec fn rem(&self) -> Seq<EdgeIndex<Ix>> { eix_of_seq::<Ix>(IteratorSpec::remaining(&self.r)) }
}
impl<Ix: IndexType> vstd::std_specs::iter::IteratorSpecImpl for EdgeIndices<Ix> {
    open spec fn obeys_prophetic_iter_laws(&self) -> bool { true }
    #[verifier::prophetic]
    open spec fn remaining(&self) -> Seq<EdgeIndex<Ix>> { self.rem() }
    open spec fn decrease(&self) -> Option<nat> { IteratorSpec::decrease(&self.r) }
    open spec fn will_return_none(&self) -> bool { true }
    open spec fn peek(&self, i: int) -> Option<EdgeIndex<Ix>> { None }
}
impl<Ix: IndexType> vstd::std_specs::iter::DoubleEndedIteratorSpecImpl for EdgeIndices<Ix> {
    open spec fn peek_back(&self, i: int) -> Option<EdgeIndex<Ix>> { None }
}

//@ item src/graph_impl/mod.rs | - | impl<Ix: IndexType> Iterator for EdgeIndices<Ix>
impl<Ix: IndexType> Iterator for EdgeIndices<Ix> {
    type Item = EdgeIndex<Ix>;

    fn next(&mut self) -> Option<Self::Item> {
        /*+*/let r = {/*-*/ self.r.next().map(edge_index) /*+*/};
        proof { if r is Some { assert(old(self).rem() =~= seq![r.unwrap()] + self.rem()); } else { assert(self.rem() =~= old(self).rem()); } }
        r/*-*/
    }

    /*+*/#[verifier::external_body]/*-*/
    fn size_hint(&self) -> (usize, Option<usize>) {
        self.r.size_hint()
    }
}
//@ end

//@ item src/graph_impl/mod.rs | - | impl<Ix: IndexType> DoubleEndedIterator for EdgeIndices<Ix>
impl<Ix: IndexType> DoubleEndedIterator for EdgeIndices<Ix> {
    fn next_back(&mut self) -> Option<Self::Item> {
        /*+*/let r = {/*-*/ self.r.next_back().map(edge_index) /*+*/};
        proof { if r is Some { assert(old(self).rem() =~= self.rem().push(r.unwrap())); } else { assert(self.rem() =~= old(self).rem()); } }
        r/*-*/
    }
}
//@ end

impl<N, E, Ty, Ix> Graph<N, E, Ty, Ix>
where
    Ty: EdgeType,
    Ix: IndexType,
{
//@ item src/graph_impl/mod.rs | impl<N, E, Ty, Ix> Graph<N, E, Ty, Ix> where Ty: EdgeType, Ix: IndexType | fn node_indices
    /// Return an iterator over the node indices of the graph.
    pub fn node_indices(&self) -> (r: NodeIndices<Ix>)
        /*+*/ensures r.remaining() == nix_range::<Ix>(0, self.nodes@.len() as int), r.obeys_prophetic_iter_laws(), r.decrease() is Some/*-*/   // [node_indices_all_nodes_once]
    {
        /*+*/let r = {/*-*/ NodeIndices {
            r: 0..self.node_count(),
            ty: PhantomData,
        } /*+*/};
        proof { assert(r.remaining() =~= nix_range::<Ix>(0, self.nodes@.len() as int)); }
        r/*-*/
    }
//@ end

//@ item src/graph_impl/mod.rs | impl<N, E, Ty, Ix> Graph<N, E, Ty, Ix> where Ty: EdgeType, Ix: IndexType | fn edge_indices
    /// Return an iterator over the edge indices of the graph
    pub fn edge_indices(&self) -> (r: EdgeIndices<Ix>)
        /*+*/ensures r.remaining() == eix_range::<Ix>(0, self.edges@.len() as int), r.obeys_prophetic_iter_laws(), r.decrease() is Some/*-*/   // [edge_indices_all_edges_once]
    {
        /*+*/let r = {/*-*/ EdgeIndices {
            r: 0..self.edge_count(),
            ty: PhantomData,
        } /*+*/};
        proof { assert(r.remaining() =~= eix_range::<Ix>(0, self.edges@.len() as int)); }
        r/*-*/
    }
//@ end
}
