// ======================================================================================
// fragment matrix_visit_nodes.rs - MatrixGraph: node_references (IntoNodeReferences) and its iterator (C04, C06): the live ids
// ascending - the same nodes in the same order as node_identifiers - each with the weight stored in its slot.
// `NodeReferences::next` indexes the storage (`&self.nodes[i]`, which panics on a vacant id), so its proof needs to know that the id
// iterator belongs to that storage; Iterator::next cannot state that, hence the trusted trait method + proved twin (D17).
// ======================================================================================

//@ item src/matrix_graph.rs | - | struct NodeReferences
/// Iterator over all nodes of a graph.
///
/// Created from a call to [`.node_references()`][1] on a [`MatrixGraph`][2].
///
/// [1]: ../visit/trait.IntoNodeReferences.html#tymethod.node_references
/// [2]: struct.MatrixGraph.html
/*+*/#[verifier::reject_recursive_types(S)]/*-*/
pub struct NodeReferences<
    'a,
    N: 'a,
    Ix,
    /*R:D1 #[cfg(feature = "std")] S = RandomState, #[cfg(not(feature = "std"))] S, */ S, /*-*/
> {
    pub nodes: &'a IdStorage<N, S>,
    pub iter: IdIterator<'a, S>,
    pub ix: PhantomData<Ix>,
}
//@ end

/// the references for the ids s of the storage `el`
pub open spec fn mnrefs_of<'a, N, Ix: IndexType>(el: Seq<Option<N>>, s: Seq<usize>) -> Seq<(NodeIndex<Ix>, &'a N)> {
    Seq::new(s.len(), |k: int| (NodeIndex::<Ix>(Ix::spec_new(s[k])), &el[s[k] as int]->Some_0))
}

impl<'a, N: 'a, Ix: IndexType, S: BuildHasher> NodeReferences<'a, N, Ix, S> {
    /// the id iterator walks THIS storage, which is well formed
    pub open spec fn ok(&self) -> bool {
        self.nodes.wf() && self.iter.upper_bound == self.nodes.upper_bound && self.iter.removed_ids.view() == self.nodes.removed_ids.view()
    }
    #[verifier::prophetic]
    pub open spec fn rem(&self) -> Seq<(NodeIndex<Ix>, &'a N)> { mnrefs_of::<N, Ix>(self.nodes.elements@, IteratorSpec::remaining(&self.iter)) }
}
impl<'a, N: 'a, Ix: IndexType, S: BuildHasher> vstd::std_specs::iter::IteratorSpecImpl for NodeReferences<'a, N, Ix, S> {
    open spec fn obeys_prophetic_iter_laws(&self) -> bool { true }
    #[verifier::prophetic]
    open spec fn remaining(&self) -> Seq<(NodeIndex<Ix>, &'a N)> { self.rem() }
    open spec fn decrease(&self) -> Option<nat> { IteratorSpec::decrease(&self.iter) }
    open spec fn will_return_none(&self) -> bool { true }
    open spec fn peek(&self, i: int) -> Option<(NodeIndex<Ix>, &'a N)> { None }
}

impl<'a, N: 'a, Ix, S: BuildHasher> NodeReferences<'a, N, Ix, S> {
//@ item src/matrix_graph.rs | impl<'a, N: 'a, Ix, S: BuildHasher> NodeReferences<'a, N, Ix, S> | fn new
    fn new(nodes: &'a IdStorage<N, S>) -> (r: Self)
        /*+*/ensures r.nodes == nodes, r.iter.upper_bound == nodes.upper_bound, r.iter.removed_ids == &nodes.removed_ids, r.iter.current is None/*-*/
    {
        NodeReferences {
            nodes,
            iter: nodes.iter_ids(),
            ix: PhantomData,
        }
    }
//@ end
}

//@ item src/matrix_graph.rs | - | impl<'a, N: 'a, Ix: IndexType, S: BuildHasher> Iterator for NodeReferences<'a, N, Ix, S>
impl<'a, N: 'a, Ix: IndexType, S: BuildHasher> Iterator for NodeReferences<'a, N, Ix, S> {
    type Item = (NodeIndex<Ix>, &'a N);

    // TRUSTED against vstd's `Iterator::next` contract for the `remaining()` above: a trait-impl method cannot carry the precondition
    // the proof needs (`ok()`).  D17-twin: the same body is proved under that precondition below
    /*+*/#[verifier::external_body]/*-*/
    fn next(&mut self) -> Option<Self::Item> {
        self.iter
            .next()
            .map(|i| (NodeIndex::new(i), &self.nodes[i]))
    }
    /*+*/#[verifier::external_body]/*-*/
    fn size_hint(&self) -> (usize, Option<usize>) {
        self.iter.size_hint()
    }
}
//@ end

mod node_references_proof {
    use super::*;
impl<'a, N: 'a, Ix: IndexType, S: BuildHasher> NodeReferences<'a, N, Ix, S> {
//@ item src/matrix_graph.rs | impl<'a, N: 'a, Ix: IndexType, S: BuildHasher> Iterator for NodeReferences<'a, N, Ix, S> | fn next
    fn next(&mut self) -> (res: Option</*R:D17 Self::Item */ (NodeIndex<Ix>, &'a N) /*-*/>)
        /*+*/requires old(self).ok()
        ensures final(self).ok(), final(self).nodes == old(self).nodes,
            (*old(self)).rem() == (match res { Some(x) => seq![x] + (*final(self)).rem(), None => Seq::empty() }),      // [matrix_node_references_next_is_next_live_id_with_its_weight]
            res is None ==> (*final(self)).rem().len() == 0/*-*/
    {
        /*+*/let ghost r0 = IteratorSpec::remaining(&self.iter); let ghost el = self.nodes.elements@;
        proof { assert forall|y: usize| r0.contains(y) implies self.nodes.live(y as int) by { lemma_ids_from(match self.iter.current { None => 0, Some(c) => c + 1 }, self.iter.upper_bound as int, self.iter.removed_ids.view(), y); } }
        let nodes = self.nodes;
        let res = {/*-*/ self.iter
            .next()
            .map(|i/*+*/: usize/*-*/| /*+*/-> (x: (NodeIndex<Ix>, &'a N)) requires nodes.wf(), r0.len() > 0 && r0[0] == i, forall|y: usize| r0.contains(y) ==> nodes.live(y as int) ensures x == (NodeIndex::<Ix>(Ix::spec_new(i)), &el[i as int]->Some_0) { proof { assert(r0.contains(r0[0])); }/*-*/ (NodeIndex::new(i), &/*R:D17 self.nodes */ nodes /*-*/[i]) /*+*/}/*-*/) /*+*/};
        proof {
            let r1 = IteratorSpec::remaining(&self.iter);
            if res is Some { assert(r0 =~= seq![r0[0]] + r1); assert(mnrefs_of::<N, Ix>(el, r0) =~= seq![res.unwrap()] + mnrefs_of::<N, Ix>(el, r1)); } else { assert(r0.len() == 0); assert(mnrefs_of::<N, Ix>(el, r1) =~= Seq::empty()); }
        }
        res/*-*/
    }
//@ end
}
}

//@ item src/matrix_graph.rs | - | impl<'a, N, E, Ty: EdgeType, Null: Nullable<Wrapped = E>, Ix: IndexType, S: BuildHasher + 'a> IntoNodeReferences for &'a MatrixGraph<N, E, S, Ty, Null, Ix>
impl<'a, N, E, Ty: EdgeType, Null: Nullable<Wrapped = E>, Ix: IndexType, S: BuildHasher + 'a>
    IntoNodeReferences for &'a MatrixGraph<N, E, S, Ty, Null, Ix>
{
    type NodeRef = (NodeIndex<Ix>, &'a N);
    type NodeReferences = NodeReferences<'a, N, Ix, S>;
    fn node_references(self) -> /*+*/(r:/*-*/ Self::NodeReferences/*+*/)
        ensures r.remaining() == mnrefs_of::<N, Ix>(self.nodes.elements@, ids_from(0, self.nodes.upper_bound as int, self.nodes.removed_ids.view())),   // [matrix_node_references_own_weights]
            self.wf() ==> r.ok()/*-*/
    {
        NodeReferences::new(&self.nodes)
    }
}
//@ end
