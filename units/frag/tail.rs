} // verus!
fn main() {}
