// ======================================================================================
// fragment ordermap.rs - src/acyclic/order_map.rs under contract (property C14, the
// bookkeeping half): OrderMap is a partial bijection  position <-> node  kept in a BTreeMap
// (position -> node) and a Vec indexed by to_index(node) (node -> position).
// ======================================================================================
use std::collections::BTreeMap;

//@ item src/acyclic/order_map.rs | - | struct TopologicalPosition
/// A position in the topological order of the graph.
///
/// This defines a total order over the set of nodes in the graph.
///
/// Note that the positions of all nodes in a graph may not form a contiguous
/// interval.
#[derive(Clone, Copy, Debug, PartialEq, Eq, PartialOrd, Ord, Default)]
#[repr(transparent)]
pub struct TopologicalPosition(pub usize);
//@ end

// D9: derived PartialEq / PartialOrd / Ord / Default on the newtype are those of the wrapped usize (trusted derive output)
pub open spec fn tp_order(a: usize, b: usize) -> Ordering { if a < b { Ordering::Less } else if a == b { Ordering::Equal } else { Ordering::Greater } }
impl PartialEqSpecImpl for TopologicalPosition {
    open spec fn obeys_eq_spec() -> bool { true }
    open spec fn eq_spec(&self, other: &Self) -> bool { self.0 == other.0 }
}
impl vstd::std_specs::cmp::PartialOrdSpecImpl for TopologicalPosition {
    open spec fn obeys_partial_cmp_spec() -> bool { true }
    open spec fn partial_cmp_spec(&self, other: &Self) -> Option<Ordering> { Some(tp_order(self.0, other.0)) }
}
impl vstd::std_specs::cmp::OrdSpecImpl for TopologicalPosition {
    open spec fn obeys_cmp_spec() -> bool { true }
    open spec fn cmp_spec(&self, other: &Self) -> Ordering { tp_order(self.0, other.0) }
}
/// ASSUMED: the derived `Ord` is a total order, so vstd's BTreeMap model (a `Map` view) applies to this key type
#[verifier::external_body]
pub proof fn axiom_tp_key_model()
    ensures vstd::std_specs::btree::key_obeys_cmp_spec::<TopologicalPosition>()
{ }
/// ASSUMED: derived `Default` of the newtype is position 0
pub assume_specification[ <TopologicalPosition as Default>::default ]() -> (r: TopologicalPosition)
    ensures r.0 == 0;
/// ASSUMED (std): `Option<&T>::copied`
pub assume_specification<'a, T: Copy>[ Option::<&'a T>::copied ](o: Option<&'a T>) -> (r: Option<T>)
    ensures r == (match o { Some(x) => Some(*x), None => None });

//@ item src/acyclic/order_map.rs | - | struct OrderMap
/// A bijective map between node indices and their position in a topological order.
///
/// Note that this map does not check for injectivity or surjectivity, this
/// must be enforced by the user. Map mutations that invalidate these properties
/// are allowed to make it easy to perform batch modifications that temporarily
/// break the invariants.
pub struct OrderMap<N> {
    /// Map topological position to node index.
    pub pos_to_node: BTreeMap<TopologicalPosition, N>,
    /// The inverse of `pos_to_node`, i.e. map node indices to their position.
    ///
    /// This is a Vec, relying on `N: NodeIndexable` for indexing.
    pub node_to_pos: Vec<TopologicalPosition>,
}
//@ end

impl<N> OrderMap<N> {
    /// position -> node
    pub open spec fn p2n(&self) -> Map<TopologicalPosition, N> { self.pos_to_node@ }
    /// index -> position
    pub open spec fn n2p(&self) -> Seq<TopologicalPosition> { self.node_to_pos@ }
    /// `id` has an entry
    pub open spec fn present(&self, id: N) -> bool { exists|p: TopologicalPosition| self.p2n().contains_key(p) && self.p2n()[p] == id }
    /// the two directions agree: every entry p -> n is a node of g whose slot in the vector holds p.
    /// (Consequently distinct positions hold distinct nodes: the map is a bijection between its keys and the present nodes.)
    pub open spec fn inv<G: NodeIndexable<NodeId = N>>(&self, g: &G) -> bool {
        forall|p: TopologicalPosition| self.p2n().contains_key(p) ==>
            g.is_nid(#[trigger] self.p2n()[p]) && g.ix_of(self.p2n()[p]) < self.n2p().len() && self.n2p()[g.ix_of(self.p2n()[p]) as int] == p
    }
    pub proof fn lemma_injective<G: NodeIndexable<NodeId = N>>(&self, g: &G, p: TopologicalPosition, q: TopologicalPosition)
        requires self.inv(g), self.p2n().contains_key(p), self.p2n().contains_key(q), self.p2n()[p] == self.p2n()[q]
        ensures p == q
    { }
}

/// the greatest key of the map, plus one (0 for an empty map)
pub open spec fn above_all<N>(m: Map<TopologicalPosition, N>, r: TopologicalPosition) -> bool {
    &&& forall|p: TopologicalPosition| m.contains_key(p) ==> p.0 < r.0
    &&& (r.0 == 0 || m.contains_key(TopologicalPosition((r.0 - 1) as usize)))
}
/// D21: `self.pos_to_node.iter().next_back().map(|(TopologicalPosition(idx), _)| TopologicalPosition(idx + 1)).unwrap_or_default()`
/// (double-ended BTreeMap iterator + tuple-struct pattern closure: no vstd specification).  TRUSTED: one past the largest key.
/// The `idx + 1` can overflow only after usize::MAX positions were handed out.
#[verifier::external_body]
pub fn next_free_position<N>(m: &BTreeMap<TopologicalPosition, N>) -> (r: TopologicalPosition)
    ensures above_all(m@, r)
{ unimplemented!() }

impl<N: Copy> OrderMap<N> {
//@ item src/acyclic/order_map.rs | impl<N: Copy> OrderMap<N> | fn with_capacity
    pub fn with_capacity(nodes: usize) -> (r: Self)
        /*+*/ensures r.p2n() == Map::<TopologicalPosition, N>::empty(), r.n2p().len() == 0/*-*/   // [order_map_new_empty]
    {
        /*+*/proof { axiom_tp_key_model(); }/*-*/
        Self {
            pos_to_node: BTreeMap::new(),
            node_to_pos: Vec::with_capacity(nodes),
        }
    }
//@ end

//@ item src/acyclic/order_map.rs | impl<N: Copy> OrderMap<N> | fn get_position
    /// Map a node to its position in the topological order.
    ///
    /// Panics if the node index is out of bounds.
    #[track_caller]
    pub fn get_position/*+*/<G: NodeIndexable<NodeId = N>>/*-*/(
        &self,
        id: N,
        graph: /*R:D22 impl NodeIndexable<NodeId = N> */ G /*-*/,
    ) -> (r: TopologicalPosition)
        /*+*/requires graph.ix_of(id) < self.n2p().len()          // the documented panic
        ensures r == self.n2p()[graph.ix_of(id) as int],
            forall|p: TopologicalPosition| self.inv(&graph) && self.p2n().contains_key(p) && self.p2n()[p] == id ==> r == p/*-*/   // [get_position_inverse_of_at_position]
    {
        let idx = graph.to_index(id);
        assert!(idx < self.node_to_pos.len());
        self.node_to_pos[idx]
    }
//@ end

//@ item src/acyclic/order_map.rs | impl<N: Copy> OrderMap<N> | fn at_position
    /// Map a position in the topological order to a node, if it exists.
    pub fn at_position(&self, pos: TopologicalPosition) -> (r: Option<N>)
        /*+*/ensures r == (if self.p2n().contains_key(pos) { Some(self.p2n()[pos]) } else { None })/*-*/   // [at_position_is_lookup]
    {
        /*+*/proof { axiom_tp_key_model(); }/*-*/
        self.pos_to_node.get(&pos).copied()
    }
//@ end

//@ item src/acyclic/order_map.rs | impl<N: Copy> OrderMap<N> | fn add_node
    /// Add a node to the order map and assign it an arbitrary position.
    ///
    /// Return the position of the new node.
    pub fn add_node/*+*/<G: NodeIndexable<NodeId = N>>/*-*/(
        &mut self,
        id: N,
        graph: /*R:D22 impl NodeIndexable<NodeId = N> */ G /*-*/,
    ) -> (r: TopologicalPosition)
        /*+*/requires old(self).inv(&graph), graph.is_nid(id), !old(self).present(id)
        ensures final(self).inv(&graph),                                                        // [add_node_keeps_bijection]
            !old(self).p2n().contains_key(r),                                                   // [add_node_fresh_position]
            final(self).p2n() == old(self).p2n().insert(r, id),                                 // [add_node_others_keep_position]
            forall|p: TopologicalPosition| old(self).p2n().contains_key(p) ==> p.0 < r.0/*-*/   // [add_node_last]
    {
        /*+*/proof { axiom_tp_key_model(); }/*-*/
        // The position and node index
        let new_pos = /*R:D21 self
            .pos_to_node
            .iter()
            .next_back()
            .map(|(TopologicalPosition(idx), _)| TopologicalPosition(idx + 1))
            .unwrap_or_default() */ next_free_position(&self.pos_to_node) /*-*/;
        let idx = graph.to_index(id);

        // Make sure the order_inv is large enough.
        if idx >= self.node_to_pos.len() {
            self.node_to_pos
                .resize(graph.node_bound(), TopologicalPosition::default());
        }

        // Insert both map directions.
        self.pos_to_node.insert(new_pos, id);
        self.node_to_pos[idx] = new_pos;
        /*+*/proof {
            assert forall|p: TopologicalPosition| self.p2n().contains_key(p) implies
                graph.is_nid(#[trigger] self.p2n()[p]) && graph.ix_of(self.p2n()[p]) < self.n2p().len() && self.n2p()[graph.ix_of(self.p2n()[p]) as int] == p by {
                if p != new_pos {
                    let n = old(self).p2n()[p];
                    if graph.ix_of(n) == idx { graph.ix_inj_law(n, id); assert(old(self).present(id)); }
                }
            }
        }/*-*/

        new_pos
    }
//@ end

//@ item src/acyclic/order_map.rs | impl<N: Copy> OrderMap<N> | fn remove_node
    /// Remove a node from the order map.
    ///
    /// Panics if the node index is out of bounds.
    #[track_caller]
    pub fn remove_node/*+*/<G: NodeIndexable<NodeId = N>>/*-*/(&mut self, id: N, graph: /*R:D22 impl NodeIndexable<NodeId = N> */ G /*-*/)
        /*+*/requires old(self).inv(&graph), graph.ix_of(id) < old(self).n2p().len()
        ensures final(self).inv(&graph),                                                               // [remove_node_keeps_bijection]
            !final(self).present(id),                                                                  // [remove_node_gone]
            !old(self).present(id) ==> final(self).p2n() == old(self).p2n(),                           // [remove_absent_node_changes_nothing]
            forall|p: TopologicalPosition| old(self).p2n().contains_key(p) && old(self).p2n()[p] != id
                ==> final(self).p2n().contains_key(p) && final(self).p2n()[p] == old(self).p2n()[p],   // [remove_node_others_keep_position]
            forall|p: TopologicalPosition| final(self).p2n().contains_key(p) ==> old(self).p2n().contains_key(p) && final(self).p2n()[p] == old(self).p2n()[p],   // [remove_node_adds_nothing]
            final(self).n2p().len() == old(self).n2p().len(),
            forall|i: int| 0 <= i < old(self).n2p().len() && i != graph.ix_of(id) ==> final(self).n2p()[i] == old(self).n2p()[i]/*-*/,   // [remove_node_other_slots_untouched]
    {
        /*+*/proof { axiom_tp_key_model(); }/*-*/
        let idx = graph.to_index(id);
        assert!(idx < self.node_to_pos.len());

        let pos = self.node_to_pos[idx];
        // `id` may have no entry (e.g. it was removed before): its slot then
        // holds a stale or default position that can belong to another node.
        let has_entry = match self.pos_to_node.get(&pos) {
            Some(n) => graph.to_index(*n) == idx,
            None => false,
        };
        if !has_entry {
            /*+*/proof {
                if old(self).present(id) {
                    let p = choose|p: TopologicalPosition| old(self).p2n().contains_key(p) && old(self).p2n()[p] == id;
                    assert(p == pos);
                }
            }/*-*/
            return;
        }
        /*+*/proof { if self.p2n().contains_key(pos) && graph.is_nid(self.p2n()[pos]) && graph.ix_of(self.p2n()[pos]) == graph.ix_of(id) { graph.ix_inj_law(self.p2n()[pos], id); } }/*-*/
        self.node_to_pos[idx] = TopologicalPosition::default();
        self.pos_to_node.remove(&pos);
        /*+*/proof {
            assert forall|p: TopologicalPosition| self.p2n().contains_key(p) implies
                graph.is_nid(#[trigger] self.p2n()[p]) && graph.ix_of(self.p2n()[p]) < self.n2p().len() && self.n2p()[graph.ix_of(self.p2n()[p]) as int] == p by {
                let n = old(self).p2n()[p];
                if graph.ix_of(n) == idx { graph.ix_inj_law(n, id); old(self).lemma_injective(&graph, p, pos); }
            }
            assert forall|p: TopologicalPosition| old(self).p2n().contains_key(p) && old(self).p2n()[p] != id implies self.p2n().contains_key(p) by { }
            if self.present(id) {
                let p = choose|p: TopologicalPosition| self.p2n().contains_key(p) && self.p2n()[p] == id;
                old(self).lemma_injective(&graph, p, pos);
            }
        }/*-*/
    }
//@ end

//@ item src/acyclic/order_map.rs | impl<N: Copy> OrderMap<N> | fn rename_node
    /// Transfer the position of node `from` to node `to`; `from` loses its
    /// entry.
    ///
    /// This is what has to happen when a graph gives a node a new index.
    ///
    /// Panics if a node index is out of bounds.
    #[track_caller]
    pub fn rename_node/*+*/<G: NodeIndexable<NodeId = N>>/*-*/(&mut self, from: N, to: N, graph: /*R:D22 impl NodeIndexable<NodeId = N> */ G /*-*/)
        /*+*/requires graph.ix_of(from) < old(self).n2p().len(), graph.ix_of(to) < old(self).n2p().len()
        ensures final(self).p2n() == old(self).p2n().insert(old(self).n2p()[graph.ix_of(from) as int], to),
            final(self).n2p() == old(self).n2p().update(graph.ix_of(from) as int, TopologicalPosition(0)).update(graph.ix_of(to) as int, old(self).n2p()[graph.ix_of(from) as int])/*-*/   // [rename_node_raw]
    {
        /*+*/proof { axiom_tp_key_model(); }/*-*/
        let from_idx = graph.to_index(from);
        let to_idx = graph.to_index(to);
        assert!(from_idx < self.node_to_pos.len());
        assert!(to_idx < self.node_to_pos.len());

        let pos = self.node_to_pos[from_idx];
        self.node_to_pos[from_idx] = TopologicalPosition::default();
        self.node_to_pos[to_idx] = pos;
        self.pos_to_node.insert(pos, to);
    }
//@ end

//@ item src/acyclic/order_map.rs | impl<N: Copy> OrderMap<N> | fn set_position
    /// Set the position of a node.
    ///
    /// Panics if the node index is out of bounds.
    #[track_caller]
    pub fn set_position/*+*/<G: NodeIndexable<NodeId = N>>/*-*/(
        &mut self,
        id: N,
        pos: TopologicalPosition,
        graph: /*R:D22 impl NodeIndexable<NodeId = N> */ G /*-*/,
    )
        /*+*/requires graph.ix_of(id) < old(self).n2p().len()
        ensures final(self).p2n() == old(self).p2n().insert(pos, id),
            final(self).n2p() == old(self).n2p().update(graph.ix_of(id) as int, pos)/*-*/   // [set_position_raw]
    {
        /*+*/proof { axiom_tp_key_model(); }/*-*/
        let idx = graph.to_index(id);
        assert!(idx < self.node_to_pos.len());

        self.pos_to_node.insert(pos, id);
        self.node_to_pos[idx] = pos;
    }
//@ end
}
