// ======================================================================================
// fragment adj.rs - src/adj.rs (adj::List) under contract (property C05, List half)
//
// View: rows: Seq<Seq<(target, weight)>>; an EdgeIndex (from, successor_index) names
// rows[from][successor_index] and stays valid until `clear` because rows only grow.
// Documented panics (`add_edge` with a bad target) are modelled as the diverging call
// `documented_panic()` (rewrite D3b) so that "panics or leaves the list unchanged" is a
// postcondition instead of an assumption about the caller.
// ======================================================================================

/// D3b: a `panic!` the documentation announces; it does not return
#[verifier::external_body]
pub fn documented_panic() -> !
    ensures false
{ panic!() }

//@ item src/adj.rs | - | type NodeIndex
/// Adjacency list node index type, a plain integer.
pub type NodeIndex<Ix = DefaultIx> = Ix;
//@ end

//@ item src/adj.rs | - | struct EdgeIndex
/// Adjacency list edge index type, a pair of integers.
#[derive(Copy, Clone, PartialEq, Eq)]
pub struct EdgeIndex<Ix = DefaultIx>
where
    Ix: IndexType,
{
    /// Source of the edge.
    pub from: NodeIndex<Ix>,
    /// Index of the sucessor in the successor list.
    pub successor_index: usize,
}
//@ end

//@ item src/adj.rs | - | struct WSuc
/// Weighted sucessor
pub struct WSuc<E, Ix: IndexType> {
    /// Index of the sucessor.
    pub suc: Ix,
    /// Weight of the edge to `suc`.
    pub weight: E,
}
//@ end

//@ item src/adj.rs | - | type Row
/// One row of the adjacency list.
pub type Row<E, Ix> = Vec<WSuc<E, Ix>>;
//@ end

//@ item src/adj.rs | - | struct List
pub struct List<E, Ix = DefaultIx>
where
    Ix: IndexType,
{
    pub suc: Vec<Row<E, Ix>>,
}
//@ end

pub open spec fn wf_rows<E, Ix: IndexType>(suc: Seq<Row<E, Ix>>) -> bool {
    forall|a: int, i: int| 0 <= a < suc.len() && 0 <= i < suc[a]@.len() ==> (#[trigger] suc[a]@[i]).suc.ix() < suc.len()
}
pub open spec fn view_rows<E, Ix: IndexType>(suc: Seq<Row<E, Ix>>) -> Seq<Seq<(int, E)>> {
    Seq::new(suc.len(), |a: int| Seq::new(suc[a]@.len(), |i: int| (suc[a]@[i].suc.ix() as int, suc[a]@[i].weight)))
}
pub proof fn lemma_row_pushed<E, Ix: IndexType>(o: Seq<Row<E, Ix>>, s: Seq<Row<E, Ix>>, a: int, b: Ix, w: E)
    requires wf_rows(o), 0 <= a < o.len(), b.ix() < o.len(), s.len() == o.len(),
        forall|x: int| 0 <= x < o.len() && x != a ==> #[trigger] s[x] == o[x],
        s[a]@ == o[a]@.push(WSuc { suc: b, weight: w }),
    ensures wf_rows(s), view_rows(s) == view_rows(o).update(a, view_rows(o)[a].push((b.ix() as int, w)))
{
    assert forall|x: int, i: int| 0 <= x < s.len() && 0 <= i < s[x]@.len() implies (#[trigger] s[x]@[i]).suc.ix() < s.len() by {
        if x != a { assert(s[x] == o[x]); } else if i < o[a]@.len() { assert(s[a]@[i] == o[a]@[i]); }
    }
    let t = view_rows(o).update(a, view_rows(o)[a].push((b.ix() as int, w)));
    assert forall|x: int| 0 <= x < s.len() implies #[trigger] view_rows(s)[x] =~= t[x] by {
        if x != a { assert(s[x] == o[x]); }
    }
    assert(view_rows(s) =~= t);
}
pub proof fn lemma_row_updated<E, Ix: IndexType>(o: Seq<Row<E, Ix>>, s: Seq<Row<E, Ix>>, a: int, p: int, b: Ix, w: E)
    requires wf_rows(o), 0 <= a < o.len(), s.len() == o.len(), 0 <= p < o[a]@.len(), o[a]@[p].suc.ix() == b.ix(),
        forall|x: int| 0 <= x < o.len() && x != a ==> #[trigger] s[x] == o[x],
        s[a]@ == o[a]@.update(p, WSuc { suc: o[a]@[p].suc, weight: w }),
    ensures wf_rows(s), view_rows(s) == view_rows(o).update(a, view_rows(o)[a].update(p, (b.ix() as int, w)))
{
    assert forall|x: int, i: int| 0 <= x < s.len() && 0 <= i < s[x]@.len() implies (#[trigger] s[x]@[i]).suc.ix() < s.len() by {
        if x != a { assert(s[x] == o[x]); } else { assert(s[a]@[i].suc == o[a]@[i].suc); }
    }
    let t = view_rows(o).update(a, view_rows(o)[a].update(p, (b.ix() as int, w)));
    assert forall|x: int| 0 <= x < s.len() implies #[trigger] view_rows(s)[x] =~= t[x] by {
        if x != a { assert(s[x] == o[x]); }
    }
    assert(view_rows(s) =~= t);
}

impl<E, Ix: IndexType> List<E, Ix> {
    pub open spec fn n(&self) -> int { self.suc@.len() as int }
    /// every stored target is a node of the list
    pub open spec fn wf(&self) -> bool { wf_rows(self.suc@) }
    /// view: the rows as (target, weight) sequences
    pub open spec fn rows(&self) -> Seq<Seq<(int, E)>> { view_rows(self.suc@) }

//@ item src/adj.rs | impl<E, Ix: IndexType> List<E, Ix> | fn new
    /// Creates a new, empty adjacency list.
    pub fn new() -> (r: List<E, Ix>)
        /*+*/ensures r.wf(), r.n() == 0/*-*/   // [new_empty]
    {
        List { suc: Vec::new() }
    }
//@ end

//@ item src/adj.rs | impl<E, Ix: IndexType> List<E, Ix> | fn with_capacity
    /// Creates a new, empty adjacency list tailored for `nodes` nodes.
    pub fn with_capacity(nodes: usize) -> (r: List<E, Ix>)
        /*+*/ensures r.wf(), r.n() == 0/*-*/
    {
        List {
            suc: Vec::with_capacity(nodes),
        }
    }
//@ end

//@ item src/adj.rs | impl<E, Ix: IndexType> List<E, Ix> | fn clear
    /// Removes all nodes and edges from the list.
    pub fn clear(&mut self)
        /*+*/ensures final(self).wf(), final(self).n() == 0/*-*/   // [clear_empty]
    {
        self.suc.clear()
    }
//@ end

//@ item src/adj.rs | impl<E, Ix: IndexType> List<E, Ix> | fn add_node
    /// Adds a new node to the list. This allocates a new `Vec` and then should
    /// run in amortized constant time.
    pub fn add_node(&mut self) -> (r: NodeIndex<Ix>)
        /*+*/requires old(self).wf(), old(self).n() <= Ix::spec_max(),
        ensures final(self).wf(), r.ix() == old(self).n(),                       // [add_node_index]
            final(self).rows() == old(self).rows().push(Seq::empty())/*-*/,           // [add_node_view]
    {
        let i = self.suc.len();
        self.suc.push(Vec::new());
        /*+*/proof { assert(self.rows() =~= old(self).rows().push(Seq::empty())) by {
            assert forall|a: int| 0 <= a < old(self).n() implies self.rows()[a] =~= old(self).rows()[a] by { assert(self.suc@[a] == old(self).suc@[a]); }
            assert(self.rows()[old(self).n()] =~= Seq::<(int, E)>::empty());
        } }/*-*/
        Ix::new(i)
    }
//@ end

//@ item src/adj.rs | impl<E, Ix: IndexType> List<E, Ix> | fn add_node_with_capacity
    /// Adds a new node to the list. This allocates a new `Vec` and then should
    /// run in amortized constant time.
    pub fn add_node_with_capacity(&mut self, successors: usize) -> (r: NodeIndex<Ix>)
        /*+*/requires old(self).wf(), old(self).n() <= Ix::spec_max(),
        ensures final(self).wf(), r.ix() == old(self).n(),
            final(self).rows() == old(self).rows().push(Seq::empty())/*-*/,
    {
        let i = self.suc.len();
        self.suc.push(Vec::with_capacity(successors));
        /*+*/proof { assert(self.rows() =~= old(self).rows().push(Seq::empty())) by {
            assert forall|a: int| 0 <= a < old(self).n() implies self.rows()[a] =~= old(self).rows()[a] by { assert(self.suc@[a] == old(self).suc@[a]); }
            assert(self.rows()[old(self).n()] =~= Seq::<(int, E)>::empty());
        } }/*-*/
        Ix::new(i)
    }
//@ end

//@ item src/adj.rs | impl<E, Ix: IndexType> List<E, Ix> | fn add_edge
    /// Add an edge from `a` to `b` to the graph, with its associated
    /// data `weight`.
    #[track_caller]
    pub fn add_edge(&mut self, a: NodeIndex<Ix>, b: NodeIndex<Ix>, weight: E) -> (r: EdgeIndex<Ix>)
        /*+*/requires old(self).wf(), a.ix() < old(self).n(),     // [add_edge_source_in_range] (indexing panics otherwise)
        ensures final(self).wf(),
            b.ix() < old(self).n(),                            // [add_edge_bad_target_panics] returns normally only for a valid target
            r.from.ix() == a.ix() && r.successor_index == old(self).suc@[a.ix() as int]@.len(),     // [add_edge_index]
            final(self).rows() == old(self).rows().update(a.ix() as int, old(self).rows()[a.ix() as int].push((b.ix() as int, weight)))/*-*/,   // [add_edge_view] parallel edges kept, earlier indices stay valid
    {
        if b.index() >= self.suc.len() {
            /*R:D3b panic!(
                "{} is not a valid node index for a {} nodes adjacency list",
                b.index(),
                self.suc.len()
            ) */ documented_panic() /*-*/;
        }
        let row = &mut self.suc[a.index()];
        let rank = row.len();
        row.push(WSuc { suc: b, weight });
        /*+*/proof { let rv = *row; lemma_row_pushed(old(self).suc@, old(self).suc@.update(a.ix() as int, rv), a.ix() as int, b, weight); }/*-*/
        EdgeIndex {
            from: a,
            successor_index: rank,
        }
    }
//@ end

//@ item src/adj.rs | impl<E, Ix: IndexType> List<E, Ix> | fn get_edge
    fn get_edge(&self, e: EdgeIndex<Ix>) -> (r: Option<&WSuc<E, Ix>>)
        /*+*/ensures
            r is Some <==> (e.from.ix() < self.n() && e.successor_index < self.suc@[e.from.ix() as int]@.len()),   // [get_edge_some_iff_valid]
            r is Some ==> *r.unwrap() == self.suc@[e.from.ix() as int]@[e.successor_index as int]/*-*/,
    {
        self.suc
            .get(e.from.index())
            .and_then(|row/*+*/: &Row<E, Ix>/*-*/| /*+*/-> (o: Option<&WSuc<E, Ix>>)
                ensures o is Some <==> e.successor_index < row@.len(), o is Some ==> *o.unwrap() == row@[e.successor_index as int] {/*-*/ row.get(e.successor_index) /*+*/}/*-*/)
    }
//@ end

//@ item src/adj.rs | impl<E, Ix: IndexType> List<E, Ix> | fn edge_endpoints
    /// Accesses the source and target of edge `e`
    pub fn edge_endpoints(&self, e: EdgeIndex<Ix>) -> (r: Option<(NodeIndex<Ix>, NodeIndex<Ix>)>)
        /*+*/ensures
            r is Some <==> (e.from.ix() < self.n() && e.successor_index < self.suc@[e.from.ix() as int]@.len()),   // [edge_endpoints_some_iff_valid]
            r is Some ==> r.unwrap().0 == e.from && r.unwrap().1.ix() == self.rows()[e.from.ix() as int][e.successor_index as int].0/*-*/,   // [edge_endpoints_view]
    {
        self.get_edge(e).map(|x/*+*/: &WSuc<E, Ix>/*-*/| /*+*/-> (p: (Ix, Ix)) ensures p.0 == e.from, p.1 == x.suc {/*-*/ (e.from, x.suc) /*+*/}/*-*/)
    }
//@ end

//@ item src/adj.rs | impl<E, Ix: IndexType> Build for List<E, Ix> | fn update_edge
    /// Updates or adds an edge from `a` to `b` to the graph, with its associated
    /// data `weight`.   (D17: trait-impl method of `Build`, presented as an inherent method so that it can carry a contract)
    #[verifier::loop_isolation(false)]   // the early `return` inside the loop needs the facts established when `row` was borrowed
    fn update_edge(&mut self, a: NodeIndex<Ix>, b: NodeIndex<Ix>, weight: E) -> (r: EdgeIndex<Ix>)
        /*+*/requires old(self).wf(), a.ix() < old(self).n(),     // (indexing panics otherwise)
        ensures final(self).wf(),                              // [update_edge_bad_target_unchanged] an out-of-range target must not end up in the list
            b.ix() < old(self).n(),                            // [update_edge_bad_target_panics]
            r.from.ix() == a.ix(),
            ({ let row = old(self).rows()[a.ix() as int]; let p = r.successor_index as int;
               &&& p <= row.len()
               &&& forall|i: int| 0 <= i < p && i < row.len() ==> row[i].0 != b.ix()        // [update_edge_first_match]
               &&& p < row.len() ==> row[p].0 == b.ix() && final(self).rows() == old(self).rows().update(a.ix() as int, row.update(p, (b.ix() as int, weight)))   // [update_edge_existing]
               &&& p == row.len() ==> final(self).rows() == old(self).rows().update(a.ix() as int, row.push((b.ix() as int, weight)))                               // [update_edge_new]
            })/*-*/,
    {
        /*+*/proof { Ix::eq_law(); }/*-*/
        if b.index() >= self.suc.len() {
            /*R:D3b panic!(
                "{} is not a valid node index for a {} nodes adjacency list",
                b.index(),
                self.suc.len()
            ) */ documented_panic() /*-*/;
        }
        let row = &mut self.suc[a.index()];
        /*R:D6 for (i, info) in row.iter_mut().enumerate() */ let mut __i = 0usize; loop 
            invariant __i <= row@.len(), row@ == old(self).suc@[a.ix() as int]@,
                forall|i: int| 0 <= i < __i ==> (#[trigger] row@[i]).suc.ix() != b.ix(),
            decreases row@.len() - __i/*-*/
        {
            /*+*/if __i >= row.len() { break; } let i = __i; let info = &mut row[i]; __i += 1;/*-*/
            if info.suc == b {
                info.weight = weight;
                /*+*/proof { let rv = *row; lemma_row_updated(old(self).suc@, old(self).suc@.update(a.ix() as int, rv), a.ix() as int, i as int, b, weight); }/*-*/
                return EdgeIndex {
                    from: a,
                    successor_index: i,
                };
            }
        }
        let rank = row.len();
        row.push(WSuc { suc: b, weight });
        /*+*/proof { let rv = *row; if b.ix() < old(self).suc@.len() { lemma_row_pushed(old(self).suc@, old(self).suc@.update(a.ix() as int, rv), a.ix() as int, b, weight); } }/*-*/
        EdgeIndex {
            from: a,
            successor_index: rank,
        }
    }
//@ end

}
