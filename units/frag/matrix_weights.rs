// ======================================================================================
// fragment matrix_weights.rs - src/matrix_graph.rs (C04): node weights (node_weight, get_node_weight, their _mut forms,
// IdStorage's Index / IndexMut) and mutable edge weights (edge_weight_mut, get_edge_weight_mut).
// A node id answers with its own slot exactly when it is live; mutable access changes that slot only and keeps the invariant.
// Writing through a mutable EDGE weight keeps every other cell; whether the cell stays occupied is the Nullable's business
// (a NotZero cell overwritten with zero becomes null - then edge_count is one too high, see DESIGN A.4 notes).
// ======================================================================================
use core::ops::{Index, IndexMut};
use vstd::std_specs::core::IndexSpecImpl;

/*+*/impl<T, S: BuildHasher> IndexSpecImpl<usize> for IdStorage<T, S> {
    /// `storage[i]` panics unless i is a live id
    open spec fn index_req(&self, index: &usize) -> bool { self.wf() && self.live(*index as int) }
}/*-*/

//@ item src/matrix_graph.rs | - | impl<T, S> Index<usize> for IdStorage<T, S>
impl<T, S/*+*/: BuildHasher/*-*/> Index<usize> for IdStorage<T, S> {
    type Output = T;
    fn index(&self, index: usize) -> /*+*/(r:/*-*/ &T/*+*/)
        ensures Some(*r) == self.elements@[index as int]/*-*/   // [idstorage_index_own_slot]
    {
        self.elements[index].as_ref().unwrap()
    }
}
//@ end

//@ item src/matrix_graph.rs | - | impl<T, S> IndexMut<usize> for IdStorage<T, S>
impl<T, S/*+*/: BuildHasher/*-*/> IndexMut<usize> for IdStorage<T, S> {
    fn index_mut(&mut self, index: usize) -> /*+*/(r:/*-*/ &mut T/*+*/)
        ensures Some(*r) == old(self).elements@[index as int],
            final(self).elements@ == old(self).elements@.update(index as int, Some(*final(r))),
            final(self).upper_bound == old(self).upper_bound, final(self).removed_ids == old(self).removed_ids, final(self).wf()/*-*/   // [idstorage_index_mut_own_slot_only]
    {
        self.elements[index].as_mut().unwrap()
    }
}
//@ end

impl<N, E, S: BuildHasher, Ty: EdgeType, Null: Nullable<Wrapped = E>, Ix: IndexType> MatrixGraph<N, E, S, Ty, Null, Ix>
{
//@ item src/matrix_graph.rs | impl<N, E, S: BuildHasher, Ty: EdgeType, Null: Nullable<Wrapped = E>, Ix: IndexType> MatrixGraph<N, E, S, Ty, Null, Ix> | fn node_weight
    /// Access the weight for node `a`.
    ///
    /// Also available with indexing syntax: `&graph[a]`.
    ///
    /// **Panics** if the node doesn't exist.
    #[track_caller]
    pub fn node_weight(&self, a: NodeIndex<Ix>) -> (r: &N)
        /*+*/requires self.wf(), self.nodes.live(a.i())                      // [node_weight_panics_iff_absent]
        ensures Some(*r) == self.nodes.elements@[a.i()]/*-*/               // [node_weight_own_slot]
    {
        &self.nodes[a.index()]
    }
//@ end

//@ item src/matrix_graph.rs | impl<N, E, S: BuildHasher, Ty: EdgeType, Null: Nullable<Wrapped = E>, Ix: IndexType> MatrixGraph<N, E, S, Ty, Null, Ix> | fn get_node_weight
    /// Try to access the weight for node `a`.
    ///
    /// Return `None` if the node doesn't exist.
    pub fn get_node_weight(&self, a: NodeIndex<Ix>) -> (r: Option<&N>)
        /*+*/requires self.wf()
        ensures r is Some <==> self.nodes.live(a.i()),                      // [get_node_weight_some_iff_live]
            r is Some ==> Some(*r.unwrap()) == self.nodes.elements@[a.i()]/*-*/
    {
        self.nodes.elements.get(a.index())?.as_ref()
    }
//@ end

//@ item src/matrix_graph.rs | impl<N, E, S: BuildHasher, Ty: EdgeType, Null: Nullable<Wrapped = E>, Ix: IndexType> MatrixGraph<N, E, S, Ty, Null, Ix> | fn node_weight_mut
    /// Access the weight for node `a`, mutably.
    ///
    /// Also available with indexing syntax: `&mut graph[a]`.
    ///
    /// **Panics** if the node doesn't exist.
    #[track_caller]
    pub fn node_weight_mut(&mut self, a: NodeIndex<Ix>) -> (r: &mut N)
        /*+*/requires old(self).wf(), old(self).nodes.live(a.i())
        ensures Some(*r) == old(self).nodes.elements@[a.i()], final(self).wf(),
            final(self).nodes.elements@ == old(self).nodes.elements@.update(a.i(), Some(*final(r))),
            final(self).nodes.upper_bound == old(self).nodes.upper_bound, final(self).nodes.removed_ids == old(self).nodes.removed_ids,
            final(self).node_adjacencies@ == old(self).node_adjacencies@, final(self).node_capacity == old(self).node_capacity,
            final(self).nb_edges == old(self).nb_edges/*-*/                                      // [node_weight_mut_own_slot_only]
    {
        /*+*/let ghost fin = *final(self); let ghost o = *old(self);
        let r = {/*-*/ &mut self.nodes[a.index()] /*+*/};
        proof {
            assert forall|x: int, y: int| #[trigger] fin.has(x, y) implies fin.nodes.live(x) && fin.nodes.live(y) by { assert(o.has(x, y)); }
        }
        r/*-*/
    }
//@ end

//@ item src/matrix_graph.rs | impl<N, E, S: BuildHasher, Ty: EdgeType, Null: Nullable<Wrapped = E>, Ix: IndexType> MatrixGraph<N, E, S, Ty, Null, Ix> | fn edge_weight_mut
    /// Access the weight for edge `e`, mutably.
    ///
    /// Also available with indexing syntax: `&mut graph[e]`.
    ///
    /// **Panics** if no edge exists between `a` and `b`.
    #[track_caller]
    pub fn edge_weight_mut(&mut self, a: NodeIndex<Ix>, b: NodeIndex<Ix>) -> (r: &mut E)
        /*+*/requires old(self).wf(), old(self).has(a.i(), b.i())                                     // [edge_weight_mut_panics_iff_no_edge]
        ensures old(self).cell(a.i(), b.i()) == Some(*r),
            final(self).node_capacity == old(self).node_capacity, final(self).nodes == old(self).nodes, final(self).nb_edges == old(self).nb_edges,
            final(self).node_adjacencies@.len() == old(self).node_adjacencies@.len(),
            // the cell now holds what was written (or is null if the Nullable refuses that value); every other cell is untouched   [edge_weight_mut_own_cell_only]
            final(self).cell(a.i(), b.i()) == (if Null::storable(*final(r)) { Some(*final(r)) } else { None }),
            forall|p: int| 0 <= p < old(self).node_adjacencies@.len() && p != lin_pos(old(self).d(), a.i(), b.i(), old(self).cap())
                ==> #[trigger] final(self).node_adjacencies@[p] == old(self).node_adjacencies@[p]/*-*/
    {
        /*+*/proof { lemma_pos_canon(self.d(), a.i(), b.i(), self.cap()); }/*-*/
        let p = self
            .to_edge_position(a, b)
            .expect("No edge found between the nodes.");
        self.node_adjacencies[p]
            .as_mut()
            .expect("No edge found between the nodes.")
    }
//@ end
}

impl<N, E, S: BuildHasher, Ty: EdgeType, Null: Nullable<Wrapped = E>, Ix: IndexType> MatrixGraph<N, E, S, Ty, Null, Ix>
{
//@ item src/matrix_graph.rs | impl<N, E, S: BuildHasher, Ty: EdgeType, Null: Nullable<Wrapped = E>, Ix: IndexType> MatrixGraph<N, E, S, Ty, Null, Ix> | fn get_node_weight_mut
    /// Try to access the weight for node `a`, mutably.
    ///
    /// Return `None` if the node doesn't exist.
    pub fn get_node_weight_mut(&mut self, a: NodeIndex<Ix>) -> (r: Option<&mut N>)
        /*+*/requires old(self).wf()
        ensures r is Some <==> old(self).nodes.live(a.i()),                                   // [get_node_weight_mut_some_iff_live]
            r is Some ==> Some(*r.unwrap()) == old(self).nodes.elements@[a.i()]
                && final(self).nodes.elements@ == old(self).nodes.elements@.update(a.i(), Some(*final(r.unwrap()))),
            r is None ==> final(self).nodes.elements@ == old(self).nodes.elements@,
            final(self).nodes.upper_bound == old(self).nodes.upper_bound, final(self).nodes.removed_ids == old(self).nodes.removed_ids,
            final(self).node_adjacencies@ == old(self).node_adjacencies@, final(self).node_capacity == old(self).node_capacity,
            final(self).nb_edges == old(self).nb_edges/*-*/                                       // [get_node_weight_mut_own_slot_only]
    {
        self.nodes.elements.get_mut(a.index())?.as_mut()
    }
//@ end

//@ item src/matrix_graph.rs | impl<N, E, S: BuildHasher, Ty: EdgeType, Null: Nullable<Wrapped = E>, Ix: IndexType> MatrixGraph<N, E, S, Ty, Null, Ix> | fn get_edge_weight_mut
    /// Access the weight for edge from `a` to `b`, mutably.
    ///
    /// Return `None` if the edge doesn't exist.
    pub fn get_edge_weight_mut(&mut self, a: NodeIndex<Ix>, b: NodeIndex<Ix>) -> (r: Option<&mut E>)
        /*+*/requires old(self).wf()
        ensures r is Some <==> old(self).has(a.i(), b.i()),                                   // [get_edge_weight_mut_some_iff_edge]
            r is Some ==> old(self).cell(a.i(), b.i()) == Some(*r.unwrap())
                && final(self).cell(a.i(), b.i()) == (if Null::storable(*final(r.unwrap())) { Some(*final(r.unwrap())) } else { None }),
            final(self).node_capacity == old(self).node_capacity, final(self).nodes == old(self).nodes, final(self).nb_edges == old(self).nb_edges,
            final(self).node_adjacencies@.len() == old(self).node_adjacencies@.len(),
            r is None ==> !final(self).has(a.i(), b.i()),
            forall|p: int| 0 <= p < old(self).node_adjacencies@.len() && p != lin_pos(old(self).d(), a.i(), b.i(), old(self).cap())
                ==> #[trigger] final(self).node_adjacencies@[p] == old(self).node_adjacencies@[p]/*-*/      // [get_edge_weight_mut_own_cell_only]
    {
        /*+*/proof { if a.i() < self.cap() && b.i() < self.cap() { lemma_pos_canon(self.d(), a.i(), b.i(), self.cap()); } }/*-*/
        let p = self.to_edge_position(a, b)?;
        self.node_adjacencies.get_mut(p)?.as_mut()
    }
//@ end
}

/*+*/impl<N, E, S: BuildHasher, Ty: EdgeType, Null: Nullable<Wrapped = E>, Ix: IndexType> IndexSpecImpl<NodeIndex<Ix>> for MatrixGraph<N, E, S, Ty, Null, Ix> {
    /// `graph[a]` panics unless a is a node
    open spec fn index_req(&self, index: &NodeIndex<Ix>) -> bool { self.wf() && self.nodes.live(index.i()) }
}
impl<N, E, S: BuildHasher, Ty: EdgeType, Null: Nullable<Wrapped = E>, Ix: IndexType> IndexSpecImpl<(NodeIndex<Ix>, NodeIndex<Ix>)> for MatrixGraph<N, E, S, Ty, Null, Ix> {
    /// `graph[(a, b)]` panics unless there is an edge between a and b
    open spec fn index_req(&self, index: &(NodeIndex<Ix>, NodeIndex<Ix>)) -> bool { self.wf() && self.has(index.0.i(), index.1.i()) }
}/*-*/

//@ item src/matrix_graph.rs | - | impl<N, E, S: BuildHasher, Ty: EdgeType, Null: Nullable<Wrapped = E>, Ix: IndexType> Index<NodeIndex<Ix>> for MatrixGraph<N, E, S, Ty, Null, Ix>
/// Index the `MatrixGraph` by `NodeIndex` to access node weights.
///
/// **Panics** if the node doesn't exist.
impl<N, E, S: BuildHasher, Ty: EdgeType, Null: Nullable<Wrapped = E>, Ix: IndexType>
    Index<NodeIndex<Ix>> for MatrixGraph<N, E, S, Ty, Null, Ix>
{
    type Output = N;

    fn index(&self, ax: NodeIndex<Ix>) -> /*+*/(r:/*-*/ &N/*+*/)
        ensures Some(*r) == self.nodes.elements@[ax.i()]/*-*/   // [index_node_own_slot]
    {
        self.node_weight(ax)
    }
}
//@ end

//@ item src/matrix_graph.rs | - | impl<N, E, S: BuildHasher, Ty: EdgeType, Null: Nullable<Wrapped = E>, Ix: IndexType> IndexMut<NodeIndex<Ix>> for MatrixGraph<N, E, S, Ty, Null, Ix>
/// Index the `MatrixGraph` by `NodeIndex` to access node weights.
///
/// **Panics** if the node doesn't exist.
impl<N, E, S: BuildHasher, Ty: EdgeType, Null: Nullable<Wrapped = E>, Ix: IndexType>
    IndexMut<NodeIndex<Ix>> for MatrixGraph<N, E, S, Ty, Null, Ix>
{
    fn index_mut(&mut self, ax: NodeIndex<Ix>) -> /*+*/(r:/*-*/ &mut N/*+*/)
        ensures Some(*r) == old(self).nodes.elements@[ax.i()], final(self).wf(),
            final(self).nodes.elements@ == old(self).nodes.elements@.update(ax.i(), Some(*final(r))),
            final(self).node_adjacencies@ == old(self).node_adjacencies@, final(self).nb_edges == old(self).nb_edges/*-*/   // [index_mut_node_own_slot_only]
    {
        self.node_weight_mut(ax)
    }
}
//@ end

//@ item src/matrix_graph.rs | - | impl<N, E, S: BuildHasher, Ty: EdgeType, Null: Nullable<Wrapped = E>, Ix: IndexType> Index<(NodeIndex<Ix>, NodeIndex<Ix>)> for MatrixGraph<N, E, S, Ty, Null, Ix>
/// Index the `MatrixGraph` by `NodeIndex` pair to access edge weights.
///
/// Also available with indexing syntax: `&graph[e]`.
///
/// **Panics** if no edge exists between `a` and `b`.
impl<N, E, S: BuildHasher, Ty: EdgeType, Null: Nullable<Wrapped = E>, Ix: IndexType>
    Index<(NodeIndex<Ix>, NodeIndex<Ix>)> for MatrixGraph<N, E, S, Ty, Null, Ix>
{
    type Output = E;

    fn index(&self, /*R:D10 (ax, bx) */ __t /*-*/: (NodeIndex<Ix>, NodeIndex<Ix>)) -> /*+*/(r:/*-*/ &E/*+*/)
        ensures self.cell(__t.0.i(), __t.1.i()) == Some(*r)/*-*/   // [index_edge_is_the_cell]
    {
        /*+*/let (ax, bx) = __t;/*-*/
        self.edge_weight(ax, bx)
    }
}
//@ end

//@ item src/matrix_graph.rs | - | impl<N, E, S: BuildHasher, Ty: EdgeType, Null: Nullable<Wrapped = E>, Ix: IndexType> IndexMut<(NodeIndex<Ix>, NodeIndex<Ix>)> for MatrixGraph<N, E, S, Ty, Null, Ix>
/// Index the `MatrixGraph` by `NodeIndex` pair to access edge weights.
///
/// Also available with indexing syntax: `&mut graph[e]`.
///
/// **Panics** if no edge exists between `a` and `b`.
impl<N, E, S: BuildHasher, Ty: EdgeType, Null: Nullable<Wrapped = E>, Ix: IndexType>
    IndexMut<(NodeIndex<Ix>, NodeIndex<Ix>)> for MatrixGraph<N, E, S, Ty, Null, Ix>
{
    fn index_mut(&mut self, /*R:D10 (ax, bx) */ __t /*-*/: (NodeIndex<Ix>, NodeIndex<Ix>)) -> /*+*/(r:/*-*/ &mut E/*+*/)
        ensures old(self).cell(__t.0.i(), __t.1.i()) == Some(*r),
            final(self).cell(__t.0.i(), __t.1.i()) == (if Null::storable(*final(r)) { Some(*final(r)) } else { None }),
            final(self).nodes == old(self).nodes, final(self).nb_edges == old(self).nb_edges/*-*/   // [index_mut_edge_own_cell]
    {
        /*+*/let (ax, bx) = __t;/*-*/
        self.edge_weight_mut(ax, bx)
    }
}
//@ end
