// ======================================================================================
// fragment stable_ops2.rs - further StableGraph operations under contract (property C02):
// clear_edges, lookups, weight access
// ======================================================================================
impl<N, E, Ty, Ix> StableGraph<N, E, Ty, Ix>
where
    Ty: EdgeType,
    Ix: IndexType,
{
//@ item src/graph_impl/stable_graph/mod.rs | impl<N, E, Ty, Ix> StableGraph<N, E, Ty, Ix> where Ty: EdgeType, Ix: IndexType | fn clear_edges
    /// Remove all edges
    pub fn clear_edges(&mut self)
        /*+*/requires old(self).wf()
        ensures final(self).wf(),                                                                      // [clear_edges_keeps_bookkeeping] (the edge free list is reset with the edge array)
            final(self).es().len() == 0 && final(self).edge_count == 0,                                // [clear_edges_no_edges]
            final(self).node_count == old(self).node_count && final(self).ns().len() == old(self).ns().len(),
            forall|x: int| 0 <= x < old(self).ns().len() ==> (#[trigger] final(self).ns()[x]).weight == old(self).ns()[x].weight,   // [clear_edges_keeps_nodes]
            forall|x: int| 0 <= x < old(self).ns().len() ==> (#[trigger] final(self).outs(-1)[x]).len() == 0 && final(self).inns(-1)[x].len() == 0,
            final(self).fnodes() == old(self).fnodes() && final(self).free_node == old(self).free_node/*-*/,   // [clear_edges_keeps_node_vacancies]
    {
        /*+*/let ghost ns0 = self.ns();/*-*/
        self.edge_count = 0;
        self.free_edge = EdgeIndex::end();
        self.g.edges.clear();
        // clear edges without touching the free list
        /*R:D6 for node in &mut self.g.nodes */ let mut __i = 0usize; loop
            invariant __i <= self.g.nodes@.len(), self.g.nodes@.len() == ns0.len(), self.g.edges@.len() == 0,
                self.node_count == old(self).node_count, self.edge_count == 0, self.free_node == old(self).free_node, self.free_edge.0.ix() == end_ix::<Ix>(),
                forall|x: int| 0 <= x < __i ==> (#[trigger] self.g.nodes@[x]).weight == ns0[x].weight
                    && (if ns0[x].weight is Some { self.g.nodes@[x].next[0].0.ix() == end_ix::<Ix>() && self.g.nodes@[x].next[1].0.ix() == end_ix::<Ix>() } else { self.g.nodes@[x] == ns0[x] }),
                forall|x: int| __i <= x < ns0.len() ==> #[trigger] self.g.nodes@[x] == ns0[x],
            ensures __i >= self.g.nodes@.len(),
            decreases self.g.nodes@.len() - __i/*-*/
        {
            /*+*/if __i >= self.g.nodes.len() { break; } let node = &mut self.g.nodes[__i]; __i += 1;/*-*/
            if node.weight.is_some() {
                node.next = [EdgeIndex::end(), EdgeIndex::end()];
            }
        }
        /*+*/proof {
            let ns1 = self.ns(); let es1 = self.es(); let fl = old(self).fnodes();
            let emp = Seq::new(ns1.len(), |a: int| Seq::<int>::empty());
            let fe = Seq::<int>::empty();
            assert(free_nodes_ok(ns1, self.free_node.0.ix() as int, fl, -1)) by {
                assert forall|i: int| 0 <= i < fl.len() implies ns1[#[trigger] fl[i]] == ns0[fl[i]] by { assert(!nlive(ns0, fl[i])); }
                lemma_nchain_frame(ns0, ns1, old(self).free_node.0.ix() as int, fl);
                assert forall|x: int| #[trigger] nlive(ns1, x) == nlive(ns0, x) by { }
            }
            assert(self.wf_with(emp, emp, fl, fe, -1));
            self.lemma_wf_unique(emp, emp, fl, fe, -1);
        }/*-*/
    }
//@ end
}
