// ======================================================================================
// fragment visit_traits.rs - the visit traits of src/visit/mod.rs as TRAIT CONTRACTS
// (properties C06 / C08).  Each trait gets spec functions for its abstract content and each
// method a contract over them; iterator-returning methods are specified through vstd's
// prophetic `remaining()`.  The declarations come out of `trait_template! { .. }` (rule D7 / N6).
// ======================================================================================

//@ item src/visit/mod.rs | - | trait GraphBase
/// Base graph trait: defines the associated node identifier and
/// edge identifier types.
pub trait GraphBase {
    /// edge identifier
    type EdgeId: /*R:D35 Copy + */ /*-*/ PartialEq;   // D35: this Verus does not see that a tuple EdgeId (MatrixGraph, GraphMap) is Copy; no contract or proof uses the bound
    /// node identifier
    type NodeId: Copy + PartialEq;
}
//@ end

//@ item src/visit/mod.rs | - | trait GraphRef
/// A copyable reference to a graph.
pub trait GraphRef: Copy + GraphBase {}
//@ end

//@ item src/visit/mod.rs | - | trait IntoNeighbors
/// Access to the neighbors of each node
pub trait IntoNeighbors : GraphRef {
    type Neighbors: Iterator<Item=Self::NodeId>/*+*/;
    /// the representation invariant of the graph value (true in every reachable state; established per type by the
    /// data-structure units), under which the methods below may be called
    spec fn inv(self) -> bool;
    /// which identifiers denote nodes of the graph
    spec fn is_node(self, a: Self::NodeId) -> bool;
    /// the successors of `a` in iteration order (empty for a non-node)
    spec fn succ(self, a: Self::NodeId) -> Seq<Self::NodeId>;
    /// successors are nodes, and only nodes have successors
    proof fn succ_law(self, a: Self::NodeId)
        requires self.inv()
        ensures forall|i: int| 0 <= i < self.succ(a).len() ==> self.is_node(#[trigger] self.succ(a)[i]),
            !self.is_node(a) ==> self.succ(a).len() == 0/*-*/;
    /// Return an iterator of the neighbors of node `a`.
    fn neighbors(self, a: Self::NodeId) -> (r: Self::Neighbors)
        /*+*/requires self.inv()
        ensures r.obeys_prophetic_iter_laws(), r.decrease() is Some, r.remaining() == self.succ(a)/*-*/;   // [neighbors_is_succ]
}
//@ end

//@ item src/visit/mod.rs | - | trait VisitMap
/// A mapping for storing the visited status for NodeId `N`.
pub trait VisitMap<N> {
    /// the set of visited nodes
    /*+*/spec fn vset(&self) -> ISet<N>;
    /// nodes the map has room for (a bit set panics beyond its length)
    spec fn holds(&self, a: N) -> bool;/*-*/

    /// Mark `a` as visited.
    ///
    /// Return **true** if this is the first visit, false otherwise.
    fn visit(&mut self, a: N) -> (r: bool)
        /*+*/requires old(self).holds(a)
        ensures r == !old(self).vset().contains(a), final(self).vset() == old(self).vset().insert(a),   // [visit_inserts]
            forall|x: N| final(self).holds(x) == old(self).holds(x)/*-*/;

    /// Return whether `a` has been visited before.
    fn is_visited(&self, a: &N) -> (r: bool)
        /*+*/requires self.holds(*a)
        ensures r == self.vset().contains(*a)/*-*/;   // [is_visited_membership]

    /// Mark `a` as unvisited.
    ///
    /// Return **true** if this vertex was marked as visited at the time of unsetting it, false otherwise.
    fn unvisit(&mut self, _a: N) -> (r: bool)
        /*+*/requires old(self).holds(_a)
        ensures r == old(self).vset().contains(_a), final(self).vset() == old(self).vset().remove(_a),
            forall|x: N| final(self).holds(x) == old(self).holds(x)/*-*/;
}
//@ end

//@ item src/visit/mod.rs | - | trait Visitable
/// A graph that can create a map that tracks the visited status of its nodes.
pub trait Visitable : GraphBase {
    /// The associated map type
    type Map: VisitMap<Self::NodeId>/*+*/;
    /// nodes of the graph as far as the map is concerned
    spec fn vis_node(&self, a: Self::NodeId) -> bool/*-*/;
    /// Create a new visitor map
    fn visit_map(self: &Self) -> (r: Self::Map)
        /*+*/ensures r.vset() == ISet::<Self::NodeId>::empty(), forall|a: Self::NodeId| self.vis_node(a) ==> #[trigger] r.holds(a)/*-*/;   // [visit_map_empty_and_large_enough]
    /// Reset the visitor map (and resize to new size of graph if needed)
    fn reset_map(self: &Self, map: &mut Self::Map)
        /*+*/ensures final(map).vset() == ISet::<Self::NodeId>::empty(), forall|a: Self::NodeId| self.vis_node(a) ==> #[trigger] final(map).holds(a)/*-*/;
}
//@ end

//@ item src/visit/mod.rs | - | trait NodeIndexable
    /// The graph's `NodeId`s map to indices
    pub trait NodeIndexable : GraphBase {
        /*+*/
        /// a is a node of the graph
        spec fn is_nid(&self, a: Self::NodeId) -> bool;
        spec fn nbound(&self) -> usize;
        spec fn ix_of(&self, a: Self::NodeId) -> usize;
        /// a node's index belongs to no other identifier (in particular distinct nodes have distinct indices)
        proof fn ix_inj_law(&self, a: Self::NodeId, b: Self::NodeId)
            requires self.is_nid(a), self.ix_of(a) == self.ix_of(b)
            ensures a == b;
        /*-*/
        /// Return an upper bound of the node indices in the graph
        /// (suitable for the size of a bitmap).
        fn node_bound(self: &Self) -> (r: usize)
            /*+*/ensures r == self.nbound()/*-*/;
        /// Convert `a` to an integer index.
        #[track_caller]
        fn to_index(self: &Self, a: Self::NodeId) -> (r: usize)
            /*+*/ensures r == self.ix_of(a), self.is_nid(a) ==> r < self.nbound()   // [to_index_below_node_bound]
            /*-*/;
        /// Convert `i` to a node index. `i` must be a valid value in the graph.
        #[track_caller]
        fn from_index(self: &Self, i: usize) -> (r: Self::NodeId)
            /*+*/ensures forall|a: Self::NodeId| self.is_nid(a) && self.ix_of(a) == i ==> r == a   // [from_index_inverse_of_to_index]
            /*-*/;
    }
//@ end

//@ item src/visit/mod.rs | - | trait NodeCount
/// A graph with a known node count.
pub trait NodeCount : GraphBase {
    /*+*/spec fn ncount(&self) -> usize;
    /// what the implementor needs to count (its representation invariant where the count is computed, e.g. MatrixGraph); `true` unless overridden
    open spec fn count_inv(&self) -> bool { true }/*-*/
    fn node_count(self: &Self) -> (r: usize)
        /*+*/requires self.count_inv()
        ensures r == self.ncount()/*-*/;
}
//@ end

//@ item src/visit/mod.rs | - | trait NodeCompactIndexable
/// The graph's `NodeId`s map to indices, in a range without holes.
///
/// The graph's node identifiers correspond to exactly the indices
/// `0..self.node_bound()`.
pub trait NodeCompactIndexable : NodeIndexable + NodeCount {
    /*+*/
    /// exactly 0..node_bound: every index below the bound is a node's index, and there are node_bound nodes
    spec fn node_at(&self, i: usize) -> Self::NodeId;
    /// the graph's representation invariant, as far as the law needs it
    spec fn compact_inv(&self) -> bool;
    proof fn compact_law(&self)
        requires self.compact_inv()
        ensures self.ncount() == self.nbound(),
            forall|i: usize| i < self.nbound() ==> self.is_nid(#[trigger] self.node_at(i)) && self.ix_of(self.node_at(i)) == i;
    /*-*/
}
//@ end

//@ item src/visit/mod.rs | - | trait EdgeCount
/// A graph with a known edge count.
pub trait EdgeCount : GraphBase {
    /*+*/spec fn ecount(&self) -> usize;
    open spec fn ecount_inv(&self) -> bool { true }/*-*/
    /// Return the number of edges in the graph.
    fn edge_count(self: &Self) -> (r: usize)
        /*+*/requires self.ecount_inv()
        ensures r == self.ecount()/*-*/;
}
//@ end

//@ item src/visit/mod.rs | - | trait IntoNodeIdentifiers
/// Access to the sequence of the graph's `NodeId`s.
pub trait IntoNodeIdentifiers : GraphRef {
    type NodeIdentifiers: Iterator<Item=/*+*/Self::NodeId>;
    /// the node identifiers in iteration order
    spec fn node_ids(self) -> Seq</*-*/Self::NodeId>;
    /*+*/
    /// what the implementor needs to enumerate its nodes (its representation invariant where the enumeration is computed, e.g. Csr); `true` unless overridden
    open spec fn ids_inv(self) -> bool { true }
    /*-*/
    fn node_identifiers(self) -> (r: Self::NodeIdentifiers)
        /*+*/requires self.ids_inv()
        ensures r.obeys_prophetic_iter_laws(), r.decrease() is Some, r.remaining() == self.node_ids()/*-*/;   // [node_identifiers_is_node_ids]
}
//@ end

//@ item src/visit/mod.rs | - | trait GetAdjacencyMatrix
/// Create or access the adjacency matrix of a graph.
///
/// The implementor can either create an adjacency matrix, or it can return
/// a placeholder if it has the needed representation internally.
pub trait GetAdjacencyMatrix : GraphBase {
    /// The associated adjacency matrix type
    type AdjMatrix/*+*/;
    /// "there is an edge from a to b" (either orientation when undirected) - the graph's adjacency relation
    spec fn adj(&self, a: Self::NodeId, b: Self::NodeId) -> bool;
    /// nodes for which adjacency may be queried
    spec fn adj_node(&self, a: Self::NodeId) -> bool;
    /// m is an adjacency matrix of this graph in its current state
    spec fn is_matrix(&self, m: &Self::AdjMatrix) -> bool;
    /// the graph is well formed and its matrix fits the address space (node_bound^2 <= usize::MAX)
    spec fn adj_pre(&self) -> bool/*-*/;
    /// Create the adjacency matrix
    fn adjacency_matrix(self: &Self) -> (m: Self::AdjMatrix)
        /*+*/requires self.adj_pre()
        ensures self.is_matrix(&m)/*-*/;   // [adjacency_matrix_is_matrix]
    /// Return true if there is an edge from `a` to `b`, false otherwise.
    ///
    /// Computes in O(1) time.
    fn is_adjacent(self: &Self, matrix: &Self::AdjMatrix, a: Self::NodeId, b: Self::NodeId) -> (r: bool)
        /*+*/requires self.is_matrix(matrix), self.adj_node(a), self.adj_node(b)
        ensures r == self.adj(a, b)/*-*/;   // [is_adjacent_law]
}
//@ end

// ---- stand-in for fixedbitset::FixedBitSet (0.5): method names and signatures as in the crate, contracts ASSUMED from
//      its documentation (`put`, `toggle` panic when the bit is out of bounds -> precondition) ----
#[verifier::external_body]
pub struct FixedBitSet { p: core::marker::PhantomData<usize> }
impl FixedBitSet {
    pub uninterp spec fn bits(&self) -> ISet<usize>;
    pub uninterp spec fn blen(&self) -> usize;
    #[verifier::external_body]
    pub fn with_capacity(bits: usize) -> (r: Self)
        ensures r.bits() == ISet::<usize>::empty(), r.blen() == bits
    { unimplemented!() }
    #[verifier::external_body]
    pub fn put(&mut self, bit: usize) -> (r: bool)
        requires bit < old(self).blen()
        ensures r == old(self).bits().contains(bit), final(self).bits() == old(self).bits().insert(bit), final(self).blen() == old(self).blen()
    { unimplemented!() }
    #[verifier::external_body]
    pub fn contains(&self, bit: usize) -> (r: bool)
        ensures r == (bit < self.blen() && self.bits().contains(bit))
    { unimplemented!() }
    #[verifier::external_body]
    pub fn toggle(&mut self, bit: usize)
        requires bit < old(self).blen()
        ensures final(self).bits() == (if old(self).bits().contains(bit) { old(self).bits().remove(bit) } else { old(self).bits().insert(bit) }), final(self).blen() == old(self).blen()
    { unimplemented!() }
    #[verifier::external_body]
    pub fn clear(&mut self)
        ensures final(self).bits() == ISet::<usize>::empty(), final(self).blen() == old(self).blen()
    { unimplemented!() }
    #[verifier::external_body]
    pub fn grow(&mut self, bits: usize)
        ensures final(self).bits() == old(self).bits(), final(self).blen() == (if bits > old(self).blen() { bits } else { old(self).blen() })
    { unimplemented!() }
    #[verifier::external_body]
    pub fn len(&self) -> (r: usize)
        ensures r == self.blen()
    { unimplemented!() }
    /// every stored bit lies below the length
    #[verifier::external_body]
    pub proof fn bits_in_range(&self)
        ensures forall|b: usize| self.bits().contains(b) ==> b < self.blen()
    { }
}

//@ item src/visit/mod.rs | - | impl<Ix> VisitMap<Ix> for FixedBitSet where Ix: IndexType
impl<Ix> VisitMap<Ix> for FixedBitSet
where
    Ix: IndexType,
{
    /*+*/open spec fn vset(&self) -> ISet<Ix> { ISet::<Ix>::new(|x: Ix| self.bits().contains(x.ix())) }
    open spec fn holds(&self, a: Ix) -> bool { a.ix() < self.blen() }/*-*/

    fn visit(&mut self, x: Ix) -> bool {
        /*+*/let r = {/*-*/ !self.put(x.index()) /*+*/}; proof { assert(self.vset() =~= old(self).vset().insert(x)) by {
            assert forall|y: Ix| self.vset().contains(y) == old(self).vset().insert(x).contains(y) by { Ix::ix_inj(x, y); } } } r/*-*/
    }
    fn is_visited(&self, x: &Ix) -> bool {
        self.contains(x.index())
    }

    fn unvisit(&mut self, x: Ix) -> bool {
        if self.is_visited(&x) {
            self.toggle(x.index());
            /*+*/proof { assert(self.vset() =~= old(self).vset().remove(x)) by {
                assert forall|y: Ix| self.vset().contains(y) == old(self).vset().remove(x).contains(y) by { Ix::ix_inj(x, y); } } }/*-*/
            return true;
        }
        /*+*/proof { assert(self.vset() =~= old(self).vset().remove(x)); }/*-*/
        false
    }
}
//@ end
