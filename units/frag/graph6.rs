// ======================================================================================
// fragment graph6.rs - src/graph6/graph6_encoder.rs and graph6_decoder.rs: the bit-level
// kernels of the graph6 codec under contract (property C18, partial)
// ======================================================================================

/// position of the pair (lin, col), lin < col, in graph6's column-major upper triangle
pub open spec fn g6_pos(col: int, lin: int) -> int { col * (col - 1) / 2 + lin }
pub open spec fn g6_len(n: int) -> int { n * (n - 1) / 2 }
pub proof fn lemma_g6_pos_next(col: int)
    requires col >= 0
    ensures g6_pos(col, col) == g6_pos(col + 1, 0), g6_pos(col, 0) == g6_len(col)
{
    assert(col * (col - 1) / 2 + col == (col + 1) * col / 2) by (nonlinear_arith) requires col >= 0;
}
pub proof fn lemma_g6_len_mono(a: int, b: int)
    requires 0 <= a <= b
    ensures g6_len(a) <= g6_len(b)
{
    assert(a * (a - 1) / 2 <= b * (b - 1) / 2) by (nonlinear_arith) requires 0 <= a <= b;
}

pub mod enc {
    use super::*;
    verus! {
//@ item src/graph6/graph6_encoder.rs | - | fn get_number_as_bits
// Get binary representation of `n` as a vector of bits with `bits_length` length.
pub fn get_number_as_bits(n: usize, bits_length: usize) -> (bits: Vec<usize>)
    /*+*/requires bits_length <= 64
    ensures bits@.len() == bits_length,
        forall|j: int| 0 <= j < bits_length ==> #[trigger] bits@[j] == (n >> ((bits_length - 1 - j) as usize)) & 1/*-*/,   // [enc_bits_big_endian]
{
    let mut bits = Vec::new();
    for i in /*+*/it:/*-*/ (0..bits_length).rev()
        /*+*/invariant bits_length <= 64, bits@.len() == it.index@, it.seq().len() == bits_length,
            forall|k: int| 0 <= k < bits_length ==> it.seq()[k] == bits_length - 1 - k,
            forall|j: int| 0 <= j < bits@.len() ==> #[trigger] bits@[j] == (n >> ((bits_length - 1 - j) as usize)) & 1/*-*/,
    {
        /*+*/proof { assert(i == it.seq()[it.index@]); }/*-*/
        bits.push((n >> i) & 1);
    }
    bits
}
//@ end

/// the bits the encoder emits for column c: adj(ids[0], ids[c]), .., adj(ids[upto-1], ids[c])
pub open spec fn ubits_col<G: GetAdjacencyMatrix>(g: G, ids: Seq<G::NodeId>, c: int, upto: int) -> Seq<usize>
    decreases upto
{
    if upto <= 0 { Seq::empty() } else { ubits_col(g, ids, c, upto - 1).push(if g.adj(ids[upto - 1], ids[c]) { 1usize } else { 0usize }) }
}
/// the upper triangle of the adjacency matrix, column by column, for the first ncols nodes
pub open spec fn ubits<G: GetAdjacencyMatrix>(g: G, ids: Seq<G::NodeId>, ncols: int) -> Seq<usize>
    decreases ncols
{
    if ncols <= 0 { Seq::empty() } else { ubits(g, ids, ncols - 1) + ubits_col(g, ids, ncols - 1, ncols - 1) }
}
pub proof fn lemma_ubits_col_len<G: GetAdjacencyMatrix>(g: G, ids: Seq<G::NodeId>, c: int, upto: int)
    requires upto >= 0
    ensures ubits_col(g, ids, c, upto).len() == upto,
        forall|l: int| 0 <= l < upto ==> #[trigger] ubits_col(g, ids, c, upto)[l] == (if g.adj(ids[l], ids[c]) { 1usize } else { 0usize }),
    decreases upto
{
    if upto > 0 { lemma_ubits_col_len(g, ids, c, upto - 1); }
}
/// THE FORMAT: bit number g6_pos(c, l) of the encoder's output is the adjacency of (ids[l], ids[c]), l < c
pub proof fn lemma_ubits_positions<G: GetAdjacencyMatrix>(g: G, ids: Seq<G::NodeId>, ncols: int)
    requires ncols >= 0
    ensures ubits(g, ids, ncols).len() == g6_len(ncols),
        forall|c: int, l: int| 0 <= l < c < ncols ==> #[trigger] ubits(g, ids, ncols)[g6_pos(c, l)] == (if g.adj(ids[l], ids[c]) { 1usize } else { 0usize }),
    decreases ncols
{
    if ncols > 0 {
        let k = ncols - 1;
        lemma_ubits_positions(g, ids, k);
        lemma_ubits_col_len(g, ids, k, k);
        lemma_g6_pos_next(k);
        assert(g6_len(ncols) == g6_len(k) + k) by { assert(g6_len(k + 1) == g6_pos(k + 1, 0)); }
        assert forall|c: int, l: int| 0 <= l < c < ncols implies #[trigger] ubits(g, ids, ncols)[g6_pos(c, l)] == (if g.adj(ids[l], ids[c]) { 1usize } else { 0usize }) by {
            if c < k {
                assert(g6_pos(c, l) < g6_len(k)) by { lemma_g6_pos_next(c); assert(g6_pos(c, l) < g6_pos(c, c)); lemma_g6_len_mono(c + 1, k); }
            } else {
                assert(g6_pos(k, l) == g6_len(k) + l);
            }
        }
    }
}

//@ item src/graph6/graph6_encoder.rs | - | fn get_adj_matrix_upper_diagonal_as_bits
// Traverse graph nodes and construct the upper diagonal of its adjacency matrix as a vector of bits.
// Returns a tuple containing:
// - `n`: graph order (number of nodes in graph)
// - `bits`: a vector of 0s and 1s encoding the upper diagonal of the graphs adjacency matrix.
pub fn get_adj_matrix_upper_diagonal_as_bits<G>(graph: G) -> (r: (usize, Vec<usize>))
where
    G: GetAdjacencyMatrix + IntoNodeIdentifiers/*+*/,
    requires forall|i: int| 0 <= i < graph.node_ids().len() ==> graph.adj_node(#[trigger] graph.node_ids()[i]), graph.node_ids().len() < usize::MAX, graph.adj_pre(), graph.ids_inv(),
    ensures r.0 == graph.node_ids().len(),                                      // [g6_order_is_node_count]
        r.1@ == ubits(graph, graph.node_ids(), graph.node_ids().len() as int)/*-*/,      // [g6_bits_are_upper_triangle_in_iteration_order]
{
    let node_ids_iter = graph.node_identifiers();
    let mut node_ids_vec/*+*/: Vec<G::NodeId>/*-*/ = vec![];

    let adj_matrix = graph.adjacency_matrix();
    let mut bits/*+*/: Vec<usize>/*-*/ = vec![];
    let mut n/*+*/: usize/*-*/ = 0;
    /*R:D11 for node_id in */ let mut __it = /*-*/ node_ids_iter /*R:D11 */; let ghost all = __it.remaining(); loop 
        invariant
            __it.obeys_prophetic_iter_laws(), __it.decrease() is Some,
            all == graph.node_ids(), n <= all.len(), __it.remaining() == all.skip(n as int), all.len() < usize::MAX,
            node_ids_vec@ == all.take(n as int),
            bits@ == ubits(graph, all, n as int),
            graph.is_matrix(&adj_matrix),
            forall|i: int| 0 <= i < all.len() ==> graph.adj_node(#[trigger] all[i]),
        ensures n == all.len(),
        decreases __it.decrease()->Some_0/*-*/
    { /*+*/match __it.next() { None => { break; }, Some(node_id) => {
        proof { assert(node_id == all[n as int]); }/*-*/
        node_ids_vec.push(node_id);
        /*+*/proof { assert(node_ids_vec@ =~= all.take(n as int + 1)); }
        let ghost b0 = bits@;/*-*/

        for i in /*+*/it2:/*-*/ 1..=n
            /*+*/invariant
                node_ids_vec@ == all.take(n as int + 1), n < all.len(),
                bits@ == b0 + ubits_col(graph, all, n as int, it2.index@ as int),
                graph.is_matrix(&adj_matrix),
                forall|j: int| 0 <= j < all.len() ==> graph.adj_node(#[trigger] all[j])/*-*/,
        {
            /*+*/proof { assert(node_ids_vec@[i - 1] == all[i - 1]); assert(node_ids_vec@[n as int] == all[n as int]); }/*-*/
            let is_adjacent: bool =
                graph.is_adjacent(&adj_matrix, node_ids_vec[i - 1], node_ids_vec[n]);
            bits.push(if is_adjacent { 1 } else { 0 });
            /*+*/proof { assert(bits@ =~= b0 + ubits_col(graph, all, n as int, i as int)); }/*-*/
        }

        n += 1;
        /*+*/proof { assert(all.skip(n as int - 1).skip(1) =~= all.skip(n as int)); }
    } } /*-*/ }

    (n, bits)
}
//@ end
    }
}

pub mod dec {
    use super::*;
    verus! {
//@ item src/graph6/graph6_decoder.rs | - | fn get_number_as_bits
// Get binary representation of `n` as a vector of bits with `bits_length` length.
pub fn get_number_as_bits(n: usize, bits_length: usize) -> (bits: Vec<u8>)
    /*+*/requires bits_length <= 64
    ensures bits@.len() == bits_length,
        forall|j: int| 0 <= j < bits_length ==> #[trigger] bits@[j] == ((n >> ((bits_length - 1 - j) as usize)) & 1) as u8/*-*/,   // [dec_bits_big_endian]
{
    let mut bits = Vec::new();
    for i in /*+*/it:/*-*/ (0..bits_length).rev()
        /*+*/invariant bits_length <= 64, bits@.len() == it.index@, it.seq().len() == bits_length,
            forall|k: int| 0 <= k < bits_length ==> it.seq()[k] == bits_length - 1 - k,
            forall|j: int| 0 <= j < bits@.len() ==> #[trigger] bits@[j] == ((n >> ((bits_length - 1 - j) as usize)) & 1) as u8/*-*/,
    {
        /*+*/proof { assert(i == it.seq()[it.index@]); }/*-*/
        bits.push(((n >> i) & 1) as u8);
    }
    bits
}
//@ end

/// the edges the decoder reads from column col, rows 0..upto
pub open spec fn edges_col(bits: Seq<u8>, col: int, upto: int) -> Seq<(int, int)>
    decreases upto
{
    if upto <= 0 { Seq::empty() }
    else if bits[g6_pos(col, upto - 1)] == 1 { edges_col(bits, col, upto - 1).push((upto - 1, col)) }
    else { edges_col(bits, col, upto - 1) }
}
/// all edges of the first ncols columns, column-major
pub open spec fn edges_upto(bits: Seq<u8>, ncols: int) -> Seq<(int, int)>
    decreases ncols
{
    if ncols <= 0 { Seq::empty() } else { edges_upto(bits, ncols - 1) + edges_col(bits, ncols - 1, ncols - 1) }
}
/// membership characterisation: exactly the pairs lin < col whose bit is set
pub proof fn lemma_edges_col_member(bits: Seq<u8>, col: int, upto: int, l: int, c: int)
    requires upto >= 0
    ensures edges_col(bits, col, upto).contains((l, c)) <==> (c == col && 0 <= l < upto && bits[g6_pos(col, l)] == 1)
    decreases upto
{
    if upto > 0 {
        lemma_edges_col_member(bits, col, upto - 1, l, c);
        let t = edges_col(bits, col, upto - 1);
        if bits[g6_pos(col, upto - 1)] == 1 {
            let s = t.push((upto - 1, col));
            if t.contains((l, c)) { let i = choose|i: int| 0 <= i < t.len() && t[i] == (l, c); assert(s[i] == (l, c)); }
            if (l, c) == (upto - 1, col) { assert(s[t.len() as int] == (l, c)); }
            if s.contains((l, c)) { let i = choose|i: int| 0 <= i < s.len() && s[i] == (l, c); if i < t.len() { assert(t[i] == (l, c)); } }
        }
    }
}
pub proof fn lemma_edges_member(bits: Seq<u8>, ncols: int, l: int, c: int)
    requires ncols >= 0
    ensures edges_upto(bits, ncols).contains((l, c)) <==> (0 <= l < c < ncols && bits[g6_pos(c, l)] == 1)   // exactly the set bits of the upper triangle
    decreases ncols
{
    if ncols > 0 {
        lemma_edges_member(bits, ncols - 1, l, c);
        lemma_edges_col_member(bits, ncols - 1, ncols - 1, l, c);
        let a = edges_upto(bits, ncols - 1); let b = edges_col(bits, ncols - 1, ncols - 1); let s = a + b;
        if a.contains((l, c)) { let i = choose|i: int| 0 <= i < a.len() && a[i] == (l, c); assert(s[i] == (l, c)); }
        if b.contains((l, c)) { let i = choose|i: int| 0 <= i < b.len() && b[i] == (l, c); assert(s[a.len() + i] == (l, c)); }
        if s.contains((l, c)) { let i = choose|i: int| 0 <= i < s.len() && s[i] == (l, c); if i < a.len() { assert(a[i] == (l, c)); } else { assert(b[i - a.len()] == (l, c)); } }
    }
}

//@ item src/graph6/graph6_decoder.rs | - | fn get_edges
// Get graph edges from its order and bits vector representation of its adjacency matrix.
pub fn get_edges<Ix>(order: usize, adj_matrix_bits: Vec<u8>) -> (edges: Vec<(Ix, Ix)>)
where
    Ix: IndexType/*+*/,
    requires adj_matrix_bits@.len() >= g6_len(order as int),     // a valid graph6 string carries the whole upper triangle
        order <= Ix::spec_max() + 1, order < 0x1_0000_0000,
    ensures edges@.len() == edges_upto(adj_matrix_bits@, order as int).len(),
        forall|k: int| 0 <= k < edges@.len() ==> ((#[trigger] edges@[k]).0.ix() as int, edges@[k].1.ix() as int) == edges_upto(adj_matrix_bits@, order as int)[k]/*-*/,   // [dec_edges_exactly_set_bits_column_major]
{
    let mut edges/*+*/: Vec<(Ix, Ix)>/*-*/ = vec![];

    let mut i/*+*/: usize/*-*/ = 0;
    /*+*/proof { assert(edges_upto(adj_matrix_bits@, 0) =~= Seq::empty()); assert(edges_col(adj_matrix_bits@, 0, 0) =~= Seq::empty()); assert(edges_upto(adj_matrix_bits@, 1) =~= Seq::empty()); }/*-*/
    for col in /*+*/it:/*-*/ 1..order
        /*+*/invariant order <= Ix::spec_max() + 1, order < 0x1_0000_0000, adj_matrix_bits@.len() >= g6_len(order as int),
            i == g6_len((1 + it.index@)), 
            edges@.len() == edges_upto(adj_matrix_bits@, (1 + it.index@)).len(),
            forall|k: int| 0 <= k < edges@.len() ==> ((#[trigger] edges@[k]).0.ix() as int, edges@[k].1.ix() as int) == edges_upto(adj_matrix_bits@, (1 + it.index@))[k]/*-*/,
    {
        /*+*/let ghost e0 = edges@; proof { lemma_g6_pos_next(col as int); lemma_g6_len_mono(col as int + 1, order as int); }/*-*/
        for lin in /*+*/it2:/*-*/ 0..col
            /*+*/invariant col < order, order <= Ix::spec_max() + 1, adj_matrix_bits@.len() >= g6_len(order as int), g6_len(col as int + 1) <= g6_len(order as int),
                i == g6_pos(col as int, it2.index@ as int), g6_pos(col as int, col as int) == g6_len(col as int + 1),
                edges@.len() == e0.len() + edges_col(adj_matrix_bits@, col as int, it2.index@ as int).len(),
                forall|k: int| 0 <= k < e0.len() ==> edges@[k] == e0[k],
                forall|k: int| 0 <= k < edges@.len() - e0.len() ==> ((#[trigger] edges@[e0.len() + k]).0.ix() as int, edges@[e0.len() + k].1.ix() as int) == edges_col(adj_matrix_bits@, col as int, it2.index@ as int)[k]/*-*/,
        {
            let is_adjacent = adj_matrix_bits[i] == 1;

            if is_adjacent {
                edges.push((Ix::new(lin), Ix::new(col)));
            };

            i += 1;
            /*+*/proof {
                let nxt = edges_col(adj_matrix_bits@, col as int, lin as int + 1);
                let cur = edges_col(adj_matrix_bits@, col as int, lin as int);
                assert(nxt == (if adj_matrix_bits@[g6_pos(col as int, lin as int)] == 1 { cur.push((lin as int, col as int)) } else { cur }));
            }/*-*/
        }
        /*+*/proof {
            let bits = adj_matrix_bits@;
            assert(edges_upto(bits, col as int + 1) == edges_upto(bits, col as int) + edges_col(bits, col as int, col as int));
            assert forall|k: int| 0 <= k < edges@.len() implies ((#[trigger] edges@[k]).0.ix() as int, edges@[k].1.ix() as int) == edges_upto(bits, col as int + 1)[k] by {
                if k < e0.len() { assert(edges@[k] == e0[k]); } else { assert(edges@[e0.len() + (k - e0.len())] == edges@[k]); }
            }
        }/*-*/
    }

    edges
}
//@ end
    }
}
