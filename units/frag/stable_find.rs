// ======================================================================================
// fragment stable_find.rs - StableGraph lookups, mutable weight access, indexing, update_edge (C02)
// ======================================================================================
use core::ops::{Index, IndexMut};
use vstd::std_specs::core::IndexSpecImpl;

impl<N, E> SGV<N, E> {
    /// `find_edge(a, b)` on the abstract stable multigraph: nothing from a vacant / absent `a`; directed - the most
    /// recently added live a->b edge; undirected - first the out-list of a (targets), then the in-list of a (sources)
    pub open spec fn tgt_is(self, b: int) -> spec_fn(int) -> bool { |e: int| self.edges[e] is Some && self.edges[e].unwrap().1 == b }
    pub open spec fn src_is(self, b: int) -> spec_fn(int) -> bool { |e: int| self.edges[e] is Some && self.edges[e].unwrap().0 == b }
    pub open spec fn find(self, directed: bool, a: int, b: int) -> Option<(int, Direction)> {
        if !(0 <= a < self.nodes.len() && self.nodes[a] is Some) { None }
        else {
            match first_with(self.out[a], self.tgt_is(b)) {
                Some(e) => Some((e, Direction::Outgoing)),
                None => if directed { None } else {
                    match first_with(self.inn[a], self.src_is(b)) {
                        Some(e) => Some((e, Direction::Incoming)),
                        None => None,
                    }
                }
            }
        }
    }
    /// a live edge gets a new weight: nothing else changes
    pub open spec fn set_edge_weight(self, e: int, w: E) -> Self {
        SGV { nodes: self.nodes, edges: self.edges.update(e, Some((self.edges[e].unwrap().0, self.edges[e].unwrap().1, w))),
              out: self.out, inn: self.inn, node_count: self.node_count, edge_count: self.edge_count }
    }
    /// a live node gets a new weight: nothing else changes
    pub open spec fn set_node_weight(self, a: int, w: N) -> Self {
        SGV { nodes: self.nodes.update(a, Some(w)), edges: self.edges,
              out: self.out, inn: self.inn, node_count: self.node_count, edge_count: self.edge_count }
    }
}

impl<N, E, Ty, Ix: IndexType> StableGraph<N, E, Ty, Ix> {
    /// same structure, possibly other weights: what the holder of a `Frozen<Self>` can change, and what `clone` guarantees for a generic weight type
    pub open spec fn same_shape(&self, o: &Self) -> bool {
        &&& self.ns().len() == o.ns().len() && self.es().len() == o.es().len()
        &&& forall|a: int| 0 <= a < o.ns().len() ==> (#[trigger] self.ns()[a]).next == o.ns()[a].next && (self.ns()[a].weight is Some <==> o.ns()[a].weight is Some)
        &&& forall|e: int| 0 <= e < o.es().len() ==> (#[trigger] self.es()[e]).next == o.es()[e].next && self.es()[e].node == o.es()[e].node
                && (self.es()[e].weight is Some <==> o.es()[e].weight is Some)
        &&& self.node_count == o.node_count && self.edge_count == o.edge_count && self.free_node == o.free_node && self.free_edge == o.free_edge
    }
    /// only weights changed, and no slot changed between live and vacant: the invariant and every list are kept
    pub proof fn lemma_reweighed(&self, o: &Self)
        requires o.wf(), self.same_shape(o),
        ensures self.wf(), self.outs(-1) == o.outs(-1), self.inns(-1) == o.inns(-1),
    {
        let out = o.outs(-1); let inn = o.inns(-1); let fl = o.fnodes(); let fe = o.fedges();
        let ns = self.ns(); let es = self.es(); let ns0 = o.ns(); let es0 = o.es();
        assert forall|a: int| 0 <= a < ns.len() && listed(ns, -1, a) implies slist(es, ns[a].next[0], 0, #[trigger] out[a]) by {
            assert(listed(ns0, -1, a));
            assert forall|i: int| 0 <= i < out[a].len() implies (#[trigger] out[a][i]) < es.len() && es[out[a][i]].next[0] == es0[out[a][i]].next[0] by { assert(elive(es0, out[a][i])); }
            lemma_slist_frame(es0, es, ns0[a].next[0], 0, out[a]);
        }
        assert forall|a: int| 0 <= a < ns.len() && listed(ns, -1, a) implies slist(es, ns[a].next[1], 1, #[trigger] inn[a]) by {
            assert(listed(ns0, -1, a));
            assert forall|i: int| 0 <= i < inn[a].len() implies (#[trigger] inn[a][i]) < es.len() && es[inn[a][i]].next[1] == es0[inn[a][i]].next[1] by { assert(elive(es0, inn[a][i])); }
            lemma_slist_frame(es0, es, ns0[a].next[1], 1, inn[a]);
        }
        assert forall|a: int, i: int| 0 <= a < ns.len() && 0 <= i < out[a].len() implies elive(es, #[trigger] out[a][i]) && es[out[a][i]].node[0].0.ix() == a by { assert(elive(es0, out[a][i])); }
        assert forall|a: int, i: int| 0 <= a < ns.len() && 0 <= i < inn[a].len() implies elive(es, #[trigger] inn[a][i]) && es[inn[a][i]].node[1].0.ix() == a by { assert(elive(es0, inn[a][i])); }
        assert forall|e: int| elive(es, e) implies (#[trigger] es[e]).node[0].0.ix() < ns.len() && listed(ns, -1, es[e].node[0].0.ix() as int)
            && es[e].node[1].0.ix() < ns.len() && listed(ns, -1, es[e].node[1].0.ix() as int) by { assert(elive(es0, e)); let x = es0[e]; }
        assert forall|e: int| elive(es, e) implies (#[trigger] out[es[e].node[0].0.ix() as int]).contains(e) by { assert(elive(es0, e)); let x = es0[e]; }
        assert forall|e: int| elive(es, e) implies (#[trigger] inn[es[e].node[1].0.ix() as int]).contains(e) by { assert(elive(es0, e)); let x = es0[e]; }
        assert forall|a: int| 0 <= a < ns.len() && !listed(ns, -1, a) implies (#[trigger] out[a]).len() == 0 && inn[a].len() == 0 by { assert(!listed(ns0, -1, a)); }
        assert(slists_ok(ns, es, 0, out, -1));
        assert(slists_ok(ns, es, 1, inn, -1));
        // free lists
        assert forall|i: int| 0 <= i < fl.len() implies ns[#[trigger] fl[i]].next[0] == ns0[fl[i]].next[0] by { }
        lemma_nchain_frame(ns0, ns, o.free_node.0.ix() as int, fl);
        assert(free_nodes_ok(ns, self.free_node.0.ix() as int, fl, -1)) by {
            assert forall|a: int| 0 <= a < ns.len() && !nlive(ns, a) && a != -1 implies #[trigger] fl.contains(a) by { assert(!nlive(ns0, a)); }
        }
        assert forall|i: int| 0 <= i < fe.len() implies (#[trigger] fe[i]) < es.len() && es[fe[i]].next[0] == es0[fe[i]].next[0] by { }
        lemma_slist_frame(es0, es, o.free_edge, 0, fe);
        assert(free_edges_ok(es, self.free_edge, fe)) by {
            assert forall|e: int| 0 <= e < es.len() && !elive(es, e) implies #[trigger] fe.contains(e) by { assert(!elive(es0, e)); }
        }
        assert(self.wf_with(out, inn, fl, fe, -1));
        self.lemma_wf_unique(out, inn, fl, fe, -1);
    }
}

impl<N, E, Ty, Ix> StableGraph<N, E, Ty, Ix>
where
    Ty: EdgeType,
    Ix: IndexType,
{
    /// concrete-level statement of the k-list lookup, bridged to the view by lemma_find_bridge
    pub open spec fn first_k(&self, a: int, k: int, b: int) -> Option<int> {
        first_with(if k == 0 { self.outs(-1)[a] } else { self.inns(-1)[a] }, endpoint_is(self.es(), 1 - k, b))
    }
    pub proof fn lemma_find_bridge(&self, a: int, b: int)
        requires self.wf(), nlive(self.ns(), a)
        ensures
            first_with(self.view().out[a], self.view().tgt_is(b)) == self.first_k(a, 0, b),
            first_with(self.view().inn[a], self.view().src_is(b)) == self.first_k(a, 1, b),
            slist(self.es(), self.ns()[a].next[0], 0, self.outs(-1)[a]), list_of(self.es(), self.ns()[a].next[0], 0) == self.outs(-1)[a],
            slist(self.es(), self.ns()[a].next[1], 1, self.inns(-1)[a]), list_of(self.es(), self.ns()[a].next[1], 1) == self.inns(-1)[a],
            self.first_k(a, 0, b) is Some ==> elive(self.es(), self.first_k(a, 0, b).unwrap()),
            self.first_k(a, 1, b) is Some ==> elive(self.es(), self.first_k(a, 1, b).unwrap()),
    {
        let v = self.view();
        let o = self.outs(-1)[a]; let i = self.inns(-1)[a];
        assert forall|j: int| 0 <= j < o.len() implies (v.tgt_is(b))(#[trigger] o[j]) == (endpoint_is(self.es(), 1, b))(o[j]) by {
            assert(elive(self.es(), self.outs(-1)[a][j]));
        }
        assert forall|j: int| 0 <= j < i.len() implies (v.src_is(b))(#[trigger] i[j]) == (endpoint_is(self.es(), 0, b))(i[j]) by {
            assert(elive(self.es(), self.inns(-1)[a][j]));
        }
        lemma_first_with_ext(o, v.tgt_is(b), endpoint_is(self.es(), 1, b));
        lemma_first_with_ext(i, v.src_is(b), endpoint_is(self.es(), 0, b));
        lemma_first_with_member(o, endpoint_is(self.es(), 1, b));
        lemma_first_with_member(i, endpoint_is(self.es(), 0, b));
        if self.first_k(a, 0, b) is Some { let j = choose|j: int| 0 <= j < o.len() && o[j] == self.first_k(a, 0, b).unwrap(); assert(elive(self.es(), self.outs(-1)[a][j])); }
        if self.first_k(a, 1, b) is Some { let j = choose|j: int| 0 <= j < i.len() && i[j] == self.first_k(a, 1, b).unwrap(); assert(elive(self.es(), self.inns(-1)[a][j])); }
    }

//@ item src/graph_impl/stable_graph/mod.rs | impl<N, E, Ty, Ix> StableGraph<N, E, Ty, Ix> where Ty: EdgeType, Ix: IndexType | fn is_directed
    /// Whether the graph has directed edges or not.
    #[inline]
    pub fn is_directed(&self) -> (r: bool)
        /*+*/ensures r == Ty::spec_is_directed()/*-*/
    {
        Ty::is_directed()
    }
//@ end

//@ item src/graph_impl/stable_graph/mod.rs | impl<N, E, Ty, Ix> StableGraph<N, E, Ty, Ix> where Ty: EdgeType, Ix: IndexType | fn get_node
    // Return the Node if it is not vacant (non-None weight)
    fn get_node(&self, a: NodeIndex<Ix>) -> (r: Option<&Node<Option<N>, Ix>>)
        /*+*/ensures r is Some <==> nlive(self.ns(), a.i()), r is Some ==> *r.unwrap() == self.ns()[a.i()]/*-*/   // [get_node_some_iff_live]
    {
        self.g
            .nodes
            .get(a.index())
            .and_then(|node/*+*/: &Node<Option<N>, Ix>/*-*/| /*+*/-> (q: Option<&Node<Option<N>, Ix>>) ensures q is Some <==> node.weight is Some, q is Some ==> *q.unwrap() == *node {/*-*/ node.weight.as_ref().map(move |/*R:D10 _ */ _w /*-*/ /*+*/: &N/*-*/| /*+*/-> (p: &Node<Option<N>, Ix>) ensures *p == *node {/*-*/ node /*+*/}/*-*/) /*+*/}/*-*/)
    }
//@ end

//@ item src/graph_impl/stable_graph/mod.rs | impl<N, E, Ty, Ix> StableGraph<N, E, Ty, Ix> where Ty: EdgeType, Ix: IndexType | fn contains_node
    pub fn contains_node(&self, a: NodeIndex<Ix>) -> (r: bool)
        /*+*/ensures r == nlive(self.ns(), a.i())/*-*/   // [contains_node_iff_live]
    {
        self.get_node(a).is_some()
    }
//@ end

//@ item src/graph_impl/stable_graph/mod.rs | impl<N, E, Ty, Ix> StableGraph<N, E, Ty, Ix> where Ty: EdgeType, Ix: IndexType | fn node_weight_mut
    /// Access the weight for node `a`, mutably.
    ///
    /// Also available with indexing syntax: `&mut graph[a]`.
    pub fn node_weight_mut(&mut self, a: NodeIndex<Ix>) -> (r: Option<&mut N>)
        /*+*/requires old(self).wf()
        ensures
            r is Some <==> nlive(old(self).ns(), a.i()),                                   // [node_weight_mut_none_iff_absent_or_vacant]
            r is None ==> final(self).ns() == old(self).ns() && final(self).es() == old(self).es() && final(self).node_count == old(self).node_count
                && final(self).edge_count == old(self).edge_count && final(self).free_node == old(self).free_node && final(self).free_edge == old(self).free_edge,
            r is Some ==> Some(*r.unwrap()) == old(self).view().nodes[a.i()] && final(self).wf()
                && final(self).view() == old(self).view().set_node_weight(a.i(), *final(r.unwrap()))/*-*/,   // [node_weight_mut_view]
    {
        /*+*/let r = {/*-*/ match self.g.nodes.get_mut(a.index()) {
            Some(no) => no.weight.as_mut(),
            None => None,
        } /*+*/};
        proof {
            if r is Some {
                let fin = *final(self);
                fin.lemma_reweighed(old(self));
                assert(fin.view().nodes =~= old(self).view().set_node_weight(a.i(), *final(r.unwrap())).nodes);
                assert(fin.view().edges =~= old(self).view().edges);
            }
        }
        r/*-*/
    }
//@ end

//@ item src/graph_impl/stable_graph/mod.rs | impl<N, E, Ty, Ix> StableGraph<N, E, Ty, Ix> where Ty: EdgeType, Ix: IndexType | fn edge_weight_mut
    /// Access the weight for edge `e`, mutably
    ///
    /// Also available with indexing syntax: `&mut graph[e]`.
    pub fn edge_weight_mut(&mut self, e: EdgeIndex<Ix>) -> (r: Option<&mut E>)
        /*+*/requires old(self).wf()
        ensures
            r is Some <==> elive(old(self).es(), e.i()),                                   // [edge_weight_mut_none_iff_absent_or_vacant]
            r is None ==> final(self).ns() == old(self).ns() && final(self).es() == old(self).es() && final(self).node_count == old(self).node_count
                && final(self).edge_count == old(self).edge_count && final(self).free_node == old(self).free_node && final(self).free_edge == old(self).free_edge,
            r is Some ==> Some(*r.unwrap()) == old(self).es()[e.i()].weight && final(self).wf()
                && final(self).view() == old(self).view().set_edge_weight(e.i(), *final(r.unwrap()))/*-*/,   // [edge_weight_mut_view]
    {
        /*+*/let r = {/*-*/ match self.g.edges.get_mut(e.index()) {
            Some(ed) => ed.weight.as_mut(),
            None => None,
        } /*+*/};
        proof {
            if r is Some {
                let fin = *final(self);
                fin.lemma_reweighed(old(self));
                assert(fin.view().nodes =~= old(self).view().nodes);
                assert(fin.view().edges =~= old(self).view().set_edge_weight(e.i(), *final(r.unwrap())).edges);
            }
        }
        r/*-*/
    }
//@ end

//@ item src/graph_impl/stable_graph/mod.rs | impl<N, E, Ty, Ix> StableGraph<N, E, Ty, Ix> where Ty: EdgeType, Ix: IndexType | fn edge_endpoints
    /// Access the source and target nodes for `e`.
    pub fn edge_endpoints(&self, e: EdgeIndex<Ix>) -> (r: Option<(NodeIndex<Ix>, NodeIndex<Ix>)>)
        /*+*/ensures
            r is Some <==> elive(self.es(), e.i()),                                        // [edge_endpoints_none_iff_absent_or_vacant]
            r is Some ==> r.unwrap().0.i() == self.view().edges[e.i()].unwrap().0 && r.unwrap().1.i() == self.view().edges[e.i()].unwrap().1/*-*/,   // [edge_endpoints_view]
    {
        match self.g.edges.get(e.index()) {
            Some(ed) if ed.weight.is_some() => Some((ed.source(), ed.target())),
            _otherwise => None,
        }
    }
//@ end

//@ item src/graph_impl/stable_graph/mod.rs | impl<N, E, Ty, Ix> StableGraph<N, E, Ty, Ix> where Ty: EdgeType, Ix: IndexType | fn contains_edge
    /// Lookup if there is an edge from `a` to `b`.
    ///
    /// Computes in **O(e')** time, where **e'** is the number of edges
    /// connected to `a` (and `b`, if the graph edges are undirected).
    pub fn contains_edge(&self, a: NodeIndex<Ix>, b: NodeIndex<Ix>) -> (r: bool)
        /*+*/requires self.wf()
        ensures r == (self.view().find(Ty::spec_is_directed(), a.i(), b.i()) is Some)/*-*/   // [contains_edge_view]
    {
        self.find_edge(a, b).is_some()
    }
//@ end

//@ item src/graph_impl/stable_graph/mod.rs | impl<N, E, Ty, Ix> StableGraph<N, E, Ty, Ix> where Ty: EdgeType, Ix: IndexType | fn find_edge
    /// Lookup an edge from `a` to `b`.
    ///
    /// Computes in **O(e')** time, where **e'** is the number of edges
    /// connected to `a` (and `b`, if the graph edges are undirected).
    pub fn find_edge(&self, a: NodeIndex<Ix>, b: NodeIndex<Ix>) -> (r: Option<EdgeIndex<Ix>>)
        /*+*/requires self.wf()
        ensures
            match (r, self.view().find(Ty::spec_is_directed(), a.i(), b.i())) {
                (Some(e), Some((ev, d))) => e.i() == ev && elive(self.es(), ev),   // [find_edge_view]
                (None, None) => true,
                _ => false,
            }/*-*/
    {
        if !self.is_directed() {
            self.find_edge_undirected(a, b).map(|/*R:D10 (ix, _) */ t: (EdgeIndex<Ix>, Direction) /*-*/| /*+*/-> (x: EdgeIndex<Ix>) ensures x == t.0 {/*-*/ /*R:D10 ix */ t.0  }/*-*/)
        } else {
            match self.get_node(a) {
                None => None,
                Some(node) => /*+*/{ proof { self.lemma_find_bridge(a.i(), b.i()); }/*-*/ self.g.find_edge_directed_from_node(node, b) /*+*/}/*-*/,
            }
        }
    }
//@ end

//@ item src/graph_impl/stable_graph/mod.rs | impl<N, E, Ty, Ix> StableGraph<N, E, Ty, Ix> where Ty: EdgeType, Ix: IndexType | fn find_edge_undirected
    /// Lookup an edge between `a` and `b`, in either direction.
    ///
    /// If the graph is undirected, then this is equivalent to `.find_edge()`.
    ///
    /// Return the edge index and its directionality, with `Outgoing` meaning
    /// from `a` to `b` and `Incoming` the reverse,
    /// or `None` if the edge does not exist.
    pub fn find_edge_undirected(
        &self,
        a: NodeIndex<Ix>,
        b: NodeIndex<Ix>,
    ) -> (r: Option<(EdgeIndex<Ix>, Direction)>)
        /*+*/requires self.wf()
        ensures
            match (r, self.view().find(false, a.i(), b.i())) {
                (Some((e, d)), Some((ev, dv))) => e.i() == ev && d == dv && elive(self.es(), ev),   // [find_edge_undirected_view]
                (None, None) => true,
                _ => false,
            }/*-*/
    {
        match self.get_node(a) {
            None => None,
            Some(node) => /*+*/{ proof { self.lemma_find_bridge(a.i(), b.i()); }/*-*/ self.g.find_edge_undirected_from_node(node, b) /*+*/}/*-*/,
        }
    }
//@ end

//@ item src/graph_impl/stable_graph/mod.rs | impl<N, E, Ty, Ix> StableGraph<N, E, Ty, Ix> where Ty: EdgeType, Ix: IndexType | fn try_update_edge
    /// Try to add or update an edge from `a` to `b`.
    /// If the edge already exists, its weight is updated.
    ///
    /// Return the index of the affected edge.
    ///
    /// Computes in **O(e')** time, where **e'** is the number of edges
    /// connected to `a` (and `b`, if the graph edges are undirected).
    ///
    /// Possible errors:
    /// - [`GraphError::NodeMissed`] - if any of the nodes don't exist.<br>
    /// - [`GraphError::EdgeIxLimit`] if the `StableGraph` is at the maximum number of edges for its index
    ///   type (N/A if usize).
    pub fn try_update_edge(
        &mut self,
        a: NodeIndex<Ix>,
        b: NodeIndex<Ix>,
        weight: E,
    ) -> (res: Result<EdgeIndex<Ix>, GraphError>)
        /*+*/requires old(self).wf(), old(self).edge_count < usize::MAX,
        ensures
            final(self).wf(),
            match old(self).view().find(Ty::spec_is_directed(), a.i(), b.i()) {
                Some((ev, d)) => res is Ok && res->Ok_0.i() == ev && final(self).view() == old(self).view().set_edge_weight(ev, weight),   // [update_edge_existing]
                None => {
                    &&& res is Err ==> final(self).ns() == old(self).ns() && final(self).es() == old(self).es()                          // [update_edge_err_unchanged]
                        && final(self).node_count == old(self).node_count && final(self).edge_count == old(self).edge_count
                        && final(self).free_node == old(self).free_node && final(self).free_edge == old(self).free_edge
                    &&& res is Err <==> (!nlive(old(self).ns(), a.i()) || !nlive(old(self).ns(), b.i())
                        || (old(self).free_edge.i() == end_ix::<Ix>() && end_ix::<Ix>() != usize::MAX && old(self).es().len() == end_ix::<Ix>()))
                    &&& res is Ok ==> !elive(old(self).es(), res->Ok_0.i())
                        && final(self).view() == old(self).view().add_edge_at(res->Ok_0.i(), a.i(), b.i(), weight)                       // [update_edge_new]
                }
            }/*-*/
    {
        if let Some(ix) = self.find_edge(a, b) {
            self[ix] = weight;
            return Ok(ix);
        }
        self.try_add_edge(a, b, weight)
    }
//@ end

//@ item src/graph_impl/stable_graph/mod.rs | impl<N, E, Ty, Ix> StableGraph<N, E, Ty, Ix> where Ty: EdgeType, Ix: IndexType | fn update_edge
    /// Add or update an edge from `a` to `b`.
    /// If the edge already exists, its weight is updated.
    ///
    /// Return the index of the affected edge.
    ///
    /// Computes in **O(e')** time, where **e'** is the number of edges
    /// connected to `a` (and `b`, if the graph edges are undirected).
    ///
    /// **Panics** if any of the nodes don't exist
    /// or the stable graph is at the maximum number of edges for its index (when adding new edge).
    #[track_caller]
    pub fn update_edge(&mut self, a: NodeIndex<Ix>, b: NodeIndex<Ix>, weight: E) -> (r: EdgeIndex<Ix>)
        /*+*/requires old(self).wf(), old(self).edge_count < usize::MAX,
            old(self).view().find(Ty::spec_is_directed(), a.i(), b.i()) is None ==>
                nlive(old(self).ns(), a.i()) && nlive(old(self).ns(), b.i())
                && !(old(self).free_edge.i() == end_ix::<Ix>() && end_ix::<Ix>() != usize::MAX && old(self).es().len() == end_ix::<Ix>()),   // [update_edge_panics_iff]
        ensures
            final(self).wf(),
            match old(self).view().find(Ty::spec_is_directed(), a.i(), b.i()) {
                Some((ev, d)) => r.i() == ev && final(self).view() == old(self).view().set_edge_weight(ev, weight),
                None => !elive(old(self).es(), r.i()) && final(self).view() == old(self).view().add_edge_at(r.i(), a.i(), b.i(), weight),
            }/*-*/
    {
        self.try_update_edge(a, b, weight).unwrap()
    }
//@ end
}

/*+*/impl<N, E, Ty: EdgeType, Ix: IndexType> IndexSpecImpl<NodeIndex<Ix>> for StableGraph<N, E, Ty, Ix> {
    /// `graph[a]` panics unless a is a live node
    open spec fn index_req(&self, index: &NodeIndex<Ix>) -> bool { self.wf() && nlive(self.ns(), index.i()) }
}
impl<N, E, Ty: EdgeType, Ix: IndexType> IndexSpecImpl<EdgeIndex<Ix>> for StableGraph<N, E, Ty, Ix> {
    /// `graph[e]` panics unless e is a live edge
    open spec fn index_req(&self, index: &EdgeIndex<Ix>) -> bool { self.wf() && elive(self.es(), index.i()) }
}/*-*/

//@ item src/graph_impl/stable_graph/mod.rs | - | impl<N, E, Ty, Ix> Index<NodeIndex<Ix>> for StableGraph<N, E, Ty, Ix> where Ty: EdgeType, Ix: IndexType
/// Index the `StableGraph` by `NodeIndex` to access node weights.
///
/// **Panics** if the node doesn't exist.
impl<N, E, Ty, Ix> Index<NodeIndex<Ix>> for StableGraph<N, E, Ty, Ix>
where
    Ty: EdgeType,
    Ix: IndexType,
{
    type Output = N;
    fn index(&self, index: NodeIndex<Ix>) -> /*+*/(r:/*-*/ &N/*+*/)
        ensures Some(*r) == self.view().nodes[index.i()]/*-*/   // [index_node_view]
    {
        self.node_weight(index).unwrap()
    }
}
//@ end

//@ item src/graph_impl/stable_graph/mod.rs | - | impl<N, E, Ty, Ix> IndexMut<NodeIndex<Ix>> for StableGraph<N, E, Ty, Ix> where Ty: EdgeType, Ix: IndexType
/// Index the `StableGraph` by `NodeIndex` to access node weights.
///
/// **Panics** if the node doesn't exist.
impl<N, E, Ty, Ix> IndexMut<NodeIndex<Ix>> for StableGraph<N, E, Ty, Ix>
where
    Ty: EdgeType,
    Ix: IndexType,
{
    fn index_mut(&mut self, index: NodeIndex<Ix>) -> /*+*/(r:/*-*/ &mut N/*+*/)
        ensures Some(*r) == old(self).view().nodes[index.i()], final(self).wf(),
            final(self).view() == old(self).view().set_node_weight(index.i(), *final(r))/*-*/   // [index_mut_node_view]
    {
        self.node_weight_mut(index).unwrap()
    }
}
//@ end

//@ item src/graph_impl/stable_graph/mod.rs | - | impl<N, E, Ty, Ix> Index<EdgeIndex<Ix>> for StableGraph<N, E, Ty, Ix> where Ty: EdgeType, Ix: IndexType
/// Index the `StableGraph` by `EdgeIndex` to access edge weights.
///
/// **Panics** if the edge doesn't exist.
impl<N, E, Ty, Ix> Index<EdgeIndex<Ix>> for StableGraph<N, E, Ty, Ix>
where
    Ty: EdgeType,
    Ix: IndexType,
{
    type Output = E;
    fn index(&self, index: EdgeIndex<Ix>) -> /*+*/(r:/*-*/ &E/*+*/)
        ensures Some(*r) == self.es()[index.i()].weight/*-*/   // [index_edge_view]
    {
        self.edge_weight(index).unwrap()
    }
}
//@ end

//@ item src/graph_impl/stable_graph/mod.rs | - | impl<N, E, Ty, Ix> IndexMut<EdgeIndex<Ix>> for StableGraph<N, E, Ty, Ix> where Ty: EdgeType, Ix: IndexType
/// Index the `StableGraph` by `EdgeIndex` to access edge weights.
///
/// **Panics** if the edge doesn't exist.
impl<N, E, Ty, Ix> IndexMut<EdgeIndex<Ix>> for StableGraph<N, E, Ty, Ix>
where
    Ty: EdgeType,
    Ix: IndexType,
{
    fn index_mut(&mut self, index: EdgeIndex<Ix>) -> /*+*/(r:/*-*/ &mut E/*+*/)
        ensures Some(*r) == old(self).es()[index.i()].weight, final(self).wf(),
            final(self).view() == old(self).view().set_edge_weight(index.i(), *final(r))/*-*/   // [index_mut_edge_view]
    {
        self.edge_weight_mut(index).unwrap()
    }
}
//@ end
