// ======================================================================================
// fragment frozen.rs - the `Frozen` wrapper handed to retain_* visitors (C01, C02)
// ======================================================================================
//@ item src/graph_impl/mod.rs | - | struct Frozen
/// `Frozen` is a graph wrapper.
///
/// The `Frozen` only allows shared access (read-only) to the
/// underlying graph `G`, but it allows mutable access to its
/// node and edge weights.
///
/// This is used to ensure immutability of the graph's structure
/// while permitting weights to be both read and written.
///
/// See indexing implementations and the traits `Data` and `DataMap`
/// for read-write access to the graph's weights.
pub struct Frozen<'a, G: 'a>(pub &'a mut G);
//@ end
