// ======================================================================================
// fragment graph_reverse.rs - Graph::reverse under contract (C01): every edge a->b becomes b->a with the
// same index and weight, every node keeps index and weight, and each node's incoming and outgoing lists
// change places (order inside a list unchanged).
// ======================================================================================

impl<N, E> MG<N, E> {
    /// the multigraph with every edge turned around
    pub open spec fn reversed(self) -> Self {
        MG { nodes: self.nodes, edges: Seq::new(self.edges.len(), |e: int| (self.edges[e].1, self.edges[e].0, self.edges[e].2)), out: self.inn, inn: self.out }
    }
}

/// an intrusive list read through `next[1 - k]` after the two link fields of its members changed places
pub proof fn lemma_slist_swapped<E, Ix: IndexType>(es: Seq<Edge<E, Ix>>, es2: Seq<Edge<E, Ix>>, head: EdgeIndex<Ix>, k: int, s: Seq<int>)
    requires 0 <= k < 2, slist(es, head, k, s), es2.len() == es.len(),
        forall|i: int| 0 <= i < s.len() ==> es2[#[trigger] s[i]].next[1 - k] == es[s[i]].next[k],
    ensures slist(es2, head, 1 - k, s)
    decreases s.len()
{
    if s.len() > 0 {
        let t = s.drop_first();
        assert forall|i: int| 0 <= i < t.len() implies es2[#[trigger] t[i]].next[1 - k] == es[t[i]].next[k] by { assert(t[i] == s[i + 1]); }
        assert(es2[s[0]].next[1 - k] == es[s[0]].next[k]);
        lemma_slist_swapped(es, es2, es[s[0]].next[k], k, t);
    }
}
/// the effect of `reverse` on one list family
pub proof fn lemma_graph_reverse_lists<N, E, Ix: IndexType>(ns0: Seq<Node<N, Ix>>, es0: Seq<Edge<E, Ix>>, ns1: Seq<Node<N, Ix>>, es1: Seq<Edge<E, Ix>>, k: int, ls: Seq<Seq<int>>)
    requires 0 <= k < 2, lists_ok(ns0, es0, k, ls), ns1.len() == ns0.len(), es1.len() == es0.len(),
        forall|x: int| 0 <= x < ns0.len() ==> (#[trigger] ns1[x]).next[1 - k] == ns0[x].next[k],
        forall|j: int| 0 <= j < es0.len() ==> (#[trigger] es1[j]).next[1 - k] == es0[j].next[k] && es1[j].node[1 - k] == es0[j].node[k],
    ensures lists_ok(ns1, es1, 1 - k, ls)
{
    assert forall|x: int| 0 <= x < ns1.len() implies slist(es1, ns1[x].next[1 - k], 1 - k, #[trigger] ls[x]) && no_dup(ls[x]) by {
        let s = ls[x];
        lemma_slist_range(es0, ns0[x].next[k], k, s);
        assert forall|i: int| 0 <= i < s.len() implies es1[#[trigger] s[i]].next[1 - k] == es0[s[i]].next[k] by { }
        lemma_slist_swapped(es0, es1, ns0[x].next[k], k, s);
    }
    assert forall|x: int, i: int| 0 <= x < ns1.len() && 0 <= i < ls[x].len() implies es1[#[trigger] ls[x][i]].node[1 - k].0.ix() == x by {
        lemma_slist_range(es0, ns0[x].next[k], k, ls[x]);
    }
    assert forall|e: int| 0 <= e < es1.len() implies (#[trigger] ls[es1[e].node[1 - k].0.ix() as int]).contains(e) by { assert(es1[e].node[1 - k] == es0[e].node[k]); }
}

impl<N, E, Ty, Ix> Graph<N, E, Ty, Ix>
where
    Ty: EdgeType,
    Ix: IndexType,
{
//@ item src/graph_impl/mod.rs | impl<N, E, Ty, Ix> Graph<N, E, Ty, Ix> where Ty: EdgeType, Ix: IndexType | fn reverse
    /// Reverse the direction of all edges
    pub fn reverse(&mut self)
        /*+*/requires old(self).wf()
        ensures final(self).wf(), final(self).view() == old(self).view().reversed()/*-*/   // [reverse_view]
    {
        // swap edge endpoints,
        // edge incoming / outgoing lists,
        // node incoming / outgoing lists
        /*+*/let ghost es0 = self.edges@; let ghost ns0 = self.nodes@;/*-*/
        /*R:D6 for edge in &mut self.edges */ let mut __i = 0usize; loop 
            invariant __i <= self.edges@.len(), self.edges@.len() == es0.len(), self.nodes@ == ns0,
                forall|j: int| 0 <= j < __i ==> (#[trigger] self.edges@[j]).weight == es0[j].weight
                    && self.edges@[j].node[0] == es0[j].node[1] && self.edges@[j].node[1] == es0[j].node[0] && self.edges@[j].next[0] == es0[j].next[1] && self.edges@[j].next[1] == es0[j].next[0],
                forall|j: int| __i <= j < es0.len() ==> #[trigger] self.edges@[j] == es0[j],
            ensures __i >= self.edges@.len(),
            decreases self.edges@.len() - __i/*-*/
        {
            /*+*/if __i >= self.edges.len() { break; } let edge = &mut self.edges[__i]; __i += 1;/*-*/
            edge.node.swap(0, 1);
            edge.next.swap(0, 1);
        }
        /*+*/let ghost es1 = self.edges@;/*-*/
        /*R:D6 for node in &mut self.nodes */ let mut __i = 0usize; loop 
            invariant __i <= self.nodes@.len(), self.nodes@.len() == ns0.len(), self.edges@ == es1,
                forall|x: int| 0 <= x < __i ==> (#[trigger] self.nodes@[x]).weight == ns0[x].weight
                    && self.nodes@[x].next[0] == ns0[x].next[1] && self.nodes@[x].next[1] == ns0[x].next[0],
                forall|x: int| __i <= x < ns0.len() ==> #[trigger] self.nodes@[x] == ns0[x],
            ensures __i >= self.nodes@.len(),
            decreases self.nodes@.len() - __i/*-*/
        {
            /*+*/if __i >= self.nodes.len() { break; } let node = &mut self.nodes[__i]; __i += 1;/*-*/
            node.next.swap(0, 1);
        }
        /*+*/proof {
            let ns1 = self.nodes@; let out = old(self).outs(); let inn = old(self).inns();
            lemma_graph_reverse_lists(ns0, es0, ns1, es1, 0, out);
            lemma_graph_reverse_lists(ns0, es0, ns1, es1, 1, inn);
            assert(self.wf_with(inn, out));
            self.lemma_wf_unique(inn, out);
            assert(self.node_ws() =~= old(self).node_ws());
            assert(self.edge_ps() =~= old(self).view().reversed().edges);
        }/*-*/
    }
//@ end
}

impl<N, E, Ty, Ix> Graph<N, E, Ty, Ix>
where
    Ty: EdgeType,
    Ix: IndexType,
{
//@ item src/graph_impl/mod.rs | impl<N, E, Ty, Ix> Graph<N, E, Ty, Ix> where Ty: EdgeType, Ix: IndexType | fn into_edge_type
    /// Convert the graph into either undirected or directed. No edge adjustments
    /// are done, so you may want to go over the result to remove or add edges.
    pub fn into_edge_type<NewTy>(self) -> (r: Graph<N, E, NewTy, Ix>)
    where
        NewTy: EdgeType,
        /*+*/ensures r.nodes@ == self.nodes@, r.edges@ == self.edges@,     // [into_edge_type_keeps_everything]
            self.wf() ==> r.wf() && r.view() == self.view()/*-*/
    {
        /*+*/let r = {/*-*/ Graph {
            nodes: self.nodes,
            edges: self.edges,
            ty: PhantomData,
        } /*+*/};
        proof { if self.wf() { assert(r.wf_with(self.outs(), self.inns())); r.lemma_wf_unique(self.outs(), self.inns()); assert(r.node_ws() =~= self.node_ws()); assert(r.edge_ps() =~= self.edge_ps()); } }
        r/*-*/
    }
//@ end
}
