// ======================================================================================
// fragment graph_nbrs.rs - the Neighbors iterator of Graph and its constructors (properties C01 / C06):
// neighbors*(a) yield exactly the far endpoints of the matching incidence lists of a, in list order
// ======================================================================================

//@ item src/graph_impl/mod.rs | - | struct Neighbors
/// Iterator over the neighbors of a node.
///
/// Iterator element type is `NodeIndex<Ix>`.
pub struct Neighbors<'a, E: 'a, Ix: 'a = DefaultIx> {
    /// starting node to skip over
    pub skip_start: NodeIndex<Ix>,
    pub edges: &'a [Edge<E, Ix>],
    pub next: [EdgeIndex<Ix>; 2],
}
//@ end

impl<'a, E, Ix: IndexType> Neighbors<'a, E, Ix> {
    pub open spec fn rest0(&self) -> Seq<int> { chain_of(self.edges@, self.next[0], 0) }
    pub open spec fn rest1(&self) -> Seq<int> { chain_of(self.edges@, self.next[1], 1) }
    /// both pointers head chains (always true for an iterator made by Graph::neighbors*)
    pub open spec fn ok(&self) -> bool { has_chain(self.edges@, self.next[0], 0) && has_chain(self.edges@, self.next[1], 1) }
    /// the items still to come
    pub open spec fn rem(&self) -> Seq<NodeIndex<Ix>> { nb_out(self.edges@, self.rest0()) + nb_in(self.edges@, self.rest1(), self.skip_start.0.ix() as int) }
}
impl<'a, E, Ix: IndexType> vstd::std_specs::iter::IteratorSpecImpl for Neighbors<'a, E, Ix> {
    open spec fn obeys_prophetic_iter_laws(&self) -> bool { self.ok() }
    open spec fn remaining(&self) -> Seq<NodeIndex<Ix>> { self.rem() }
    open spec fn decrease(&self) -> Option<nat> { Some((self.rest0().len() + self.rest1().len()) as nat) }
    open spec fn will_return_none(&self) -> bool { true }
    open spec fn peek(&self, i: int) -> Option<NodeIndex<Ix>> { None }
}

//@ item src/graph_impl/mod.rs | - | impl<E, Ix> Iterator for Neighbors<'_, E, Ix> where Ix: IndexType
impl<E, Ix> Iterator for Neighbors<'_, E, Ix>
where
    Ix: IndexType,
{
    type Item = NodeIndex<Ix>;

    // termination of the second loop is NOT verified for an iterator whose pointers do not form a chain (no precondition available)
    /*+*/#[verifier::exec_allows_no_decreases_clause]/*-*/
    fn next(&mut self) -> Option<NodeIndex<Ix>> {
        /*+*/proof { lemma_chain_step(self.edges@, self.next[0], 0); }/*-*/
        // First any outgoing edges
        match self.edges.get(self.next[0].index()) {
            None => {}
            Some(edge) => {
                self.next[0] = edge.next[0];
                /*+*/proof {
                    if old(self).ok() {
                        let r0 = old(self).rest0();
                        assert(r0 == seq![old(self).next[0].0.ix() as int] + self.rest0());
                        assert(nb_out(self.edges@, r0) =~= seq![edge.node[1]] + nb_out(self.edges@, self.rest0()));
                        assert(old(self).rem() =~= seq![edge.node[1]] + self.rem());
                        assert((seq![edge.node[1]] + self.rem()).drop_first() =~= self.rem());
                    }
                }/*-*/
                return Some(edge.node[1]);
            }
        }
        // Then incoming edges
        // For an "undirected" iterator (traverse both incoming
        // and outgoing edge lists), make sure we don't double
        // count selfloops by skipping them in the incoming list.
        /*+*/proof { assert(nb_out(self.edges@, self.rest0()) =~= Seq::<NodeIndex<Ix>>::empty()); lemma_chain_step(self.edges@, self.next[1], 1); }/*-*/
        while let Some(edge) = self.edges.get(self.next[1].index())
            /*+*/invariant self.edges == old(self).edges, self.skip_start == old(self).skip_start, self.next[0] == old(self).next[0],
                self.next[0].0.ix() >= self.edges@.len(),
                self.ok() == old(self).ok(),
                self.ok() ==> self.rem() == old(self).rem() && self.rest1().len() <= old(self).rest1().len() && self.rest0().len() == 0 && old(self).rest0().len() == 0,
            ensures self.next[1].0.ix() >= self.edges@.len()/*-*/
        {
            /*+*/let ghost before = *self;
            proof { lemma_chain_step(self.edges@, self.next[1], 1); Ix::eq_law(); }/*-*/
            self.next[1] = edge.next[1];
            /*+*/proof {
                lemma_chain_step(self.edges@, self.next[0], 0);
                if before.ok() {
                    let r1 = before.rest1();
                    assert(r1 == seq![before.next[1].0.ix() as int] + self.rest1());
                    assert(r1.drop_first() =~= self.rest1());
                    assert(self.rest0() == before.rest0());
                }
            }/*-*/
            if edge.node[0] != self.skip_start {
                /*+*/proof {
                    if before.ok() {
                        assert(before.rem() =~= seq![edge.node[0]] + self.rem());
                        assert((seq![edge.node[0]] + self.rem()).drop_first() =~= self.rem());
                    }
                }/*-*/
                return Some(edge.node[0]);
            }
            /*+*/proof { if before.ok() { assert(before.rem() =~= self.rem()); } }/*-*/
        }
        /*+*/proof {
            lemma_chain_step(self.edges@, self.next[1], 1); lemma_chain_step(self.edges@, self.next[0], 0);
            if self.ok() { assert(self.rem() =~= Seq::<NodeIndex<Ix>>::empty()); }
        }/*-*/
        None
    }
}
//@ end

impl<N, E, Ty, Ix> Graph<N, E, Ty, Ix>
where
    Ty: EdgeType,
    Ix: IndexType,
{
    /// what `neighbors_directed(a, dir)` yields: on a directed graph the far endpoints of a's dir-list; on an undirected
    /// graph the targets of the outgoing list followed by the sources of the incoming list without the self-loops
    pub open spec fn nbrs_of(&self, a: int, k: int) -> Seq<NodeIndex<Ix>> {
        if !(0 <= a < self.n()) { Seq::empty() }
        else if Ty::spec_is_directed() {
            if k == 0 { nb_out(self.edges@, self.outs()[a]) } else { Seq::new(self.inns()[a].len(), |i: int| self.edges@[self.inns()[a][i]].node[0]) }
        } else {
            nb_out(self.edges@, self.outs()[a]) + nb_in(self.edges@, self.inns()[a], a)
        }
    }

//@ item src/graph_impl/mod.rs | impl<N, E, Ty, Ix> Graph<N, E, Ty, Ix> where Ty: EdgeType, Ix: IndexType | fn neighbors
    pub fn neighbors(&self, a: NodeIndex<Ix>) -> (r: Neighbors<E, Ix>)
        /*+*/requires self.wf()
        ensures r.obeys_prophetic_iter_laws(), r.decrease() is Some, r.remaining() == self.nbrs_of(a.i(), 0)/*-*/   // [neighbors_is_outgoing_list]
    {
        self.neighbors_directed(a, Outgoing)
    }
//@ end

//@ item src/graph_impl/mod.rs | impl<N, E, Ty, Ix> Graph<N, E, Ty, Ix> where Ty: EdgeType, Ix: IndexType | fn neighbors_directed
    pub fn neighbors_directed(&self, a: NodeIndex<Ix>, dir: Direction) -> (r: Neighbors<E, Ix>)
        /*+*/requires self.wf()
        ensures r.obeys_prophetic_iter_laws(), r.decrease() is Some, r.remaining() == self.nbrs_of(a.i(), dir.k())/*-*/   // [neighbors_directed_is_matching_list]
    {
        let mut iter = self.neighbors_undirected(a);
        /*+*/let ghost it0 = iter;/*-*/
        if self.is_directed() {
            let k = dir.index();
            iter.next[1 - k] = EdgeIndex::end();
            iter.skip_start = NodeIndex::end();
            /*+*/proof {
                let es = self.edges@; let ai = a.i();
                lemma_chain_step(es, iter.next[1 - k as int], 1 - k as int);
                if 0 <= ai < self.n() {
                    let o = self.outs()[ai]; let i_ = self.inns()[ai];
                    if k == 0 {
                        assert(iter.rest0() == o); assert(iter.rest1().len() == 0);
                        assert(nb_in(es, iter.rest1(), iter.skip_start.0.ix() as int) =~= Seq::<NodeIndex<Ix>>::empty());
                        assert(iter.remaining() =~= nb_out(es, o));
                    } else {
                        assert(iter.rest1() == i_); assert(iter.rest0().len() == 0);
                        assert(nb_out(es, iter.rest0()) =~= Seq::<NodeIndex<Ix>>::empty());
                        lemma_slist_range(es, self.nodes@[ai].next[1], 1, i_);
                        assert forall|j: int| 0 <= j < i_.len() implies 0 <= #[trigger] i_[j] < es.len() && es[i_[j]].node[0].0.ix() != end_ix::<Ix>() by { assert(es[i_[j]].node[0].0.ix() < self.nodes@.len()); }
                        lemma_nb_in_all(es, i_, end_ix::<Ix>() as int);
                        assert(iter.remaining() =~= Seq::new(i_.len(), |j: int| es[i_[j]].node[0]));
                    }
                } else {
                    lemma_chain_step(es, iter.next[k as int], k as int);
                    assert(nb_out(es, iter.rest0()) =~= Seq::<NodeIndex<Ix>>::empty());
                    assert(iter.remaining() =~= Seq::<NodeIndex<Ix>>::empty());
                }
            }/*-*/
        }
        iter
    }
//@ end

//@ item src/graph_impl/mod.rs | impl<N, E, Ty, Ix> Graph<N, E, Ty, Ix> where Ty: EdgeType, Ix: IndexType | fn neighbors_undirected
    pub fn neighbors_undirected(&self, a: NodeIndex<Ix>) -> (r: Neighbors<E, Ix>)
        /*+*/requires self.wf()
        ensures r.obeys_prophetic_iter_laws(), r.decrease() is Some, r.edges@ == self.edges@, r.skip_start == a,
            a.i() < self.n() ==> r.next == self.nodes@[a.i()].next && r.rest0() == self.outs()[a.i()] && r.rest1() == self.inns()[a.i()],
            a.i() >= self.n() ==> r.next[0].0.ix() >= self.edges@.len() && r.next[1].0.ix() >= self.edges@.len() && r.remaining() == Seq::<NodeIndex<Ix>>::empty(),
            a.i() < self.n() ==> r.remaining() == nb_out(self.edges@, self.outs()[a.i()]) + nb_in(self.edges@, self.inns()[a.i()], a.i())/*-*/   // [neighbors_undirected_both_lists_loops_once]
    {
        /*+*/let r = {/*-*/ Neighbors {
            skip_start: a,
            edges: &self.edges,
            next: match self.nodes.get(a.index()) {
                None => [EdgeIndex::end(), EdgeIndex::end()],
                Some(n) => n.next,
            },
        } /*+*/};
        proof {
            let es = self.edges@; let ai = a.i();
            if ai < self.n() {
                let o = self.outs()[ai]; let i_ = self.inns()[ai];
                lemma_slist_is_chain(es, self.nodes@[ai].next[0], 0, o); lemma_chain_of(es, self.nodes@[ai].next[0], 0, o);
                lemma_slist_is_chain(es, self.nodes@[ai].next[1], 1, i_); lemma_chain_of(es, self.nodes@[ai].next[1], 1, i_);
            } else {
                lemma_chain_step(es, r.next[0], 0); lemma_chain_step(es, r.next[1], 1);
                assert(nb_out(es, r.rest0()) =~= Seq::<NodeIndex<Ix>>::empty());
                assert(r.remaining() =~= Seq::<NodeIndex<Ix>>::empty());
            }
        }
        r/*-*/
    }
//@ end
}

