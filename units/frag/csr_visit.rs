// ======================================================================================
// fragment csr_visit.rs - Csr through the visit traits (property C06): how many references edge_references() yields.
// The EdgeReferences iterator of Csr is built from windows / enumerate / zip adapters and is NOT under contract; what it
// walks is read off src/csr.rs (EdgeReferences::next: every row, and in each row every stored column entry).
// ======================================================================================
impl<N, E, Ty: EdgeType, Ix: IndexType> Csr<N, E, Ty, Ix> {
    /// the number of references `edge_references()` yields (one per stored column entry)
    pub open spec fn edge_refs_len(&self) -> int { self.column@.len() as int }
    /// what `edge_count()` returns
    pub open spec fn spec_edge_count(&self) -> int { if Ty::spec_is_directed() { self.column@.len() as int } else { self.edge_count as int } }

    /// C06: "edge_references yields each edge once (edge_count of them)".
    /// KNOWN FINDING (known_findings.txt): false for Csr<_, _, Undirected>, which stores every non-loop edge in both rows.
    pub proof fn lemma_edge_references_count(&self)
        requires self.wf_ty()
        ensures self.edge_refs_len() == self.spec_edge_count()   // [csr_edge_references_each_edge_once]
    {
    }
}
