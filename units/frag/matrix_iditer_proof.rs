// ======================================================================================
// fragment matrix_iditer_proof.rs - the body of IdIterator::next (src/matrix_graph.rs) proved (C04, C06).
// The trait impl method is TRUSTED in matrix.rs against vstd's Iterator::next contract, because a trait impl method cannot state
// the precondition the proof needs (`current + 1` must not overflow: an exhausted iterator that is polled 2^64 more times does
// overflow).  Here the SAME body is presented once more as a module-private inherent method (D17) WITH that precondition and
// proved: the next live id at or after the cursor, None when there is none, and the cursor ends on it.
// ======================================================================================
mod id_iterator_proof {
    use super::*;
impl<'a, S: BuildHasher> IdIterator<'a, S> {
//@ item src/matrix_graph.rs | impl<S: BuildHasher> Iterator for IdIterator<'_, S> | fn next
    fn next(&mut self) -> (r: Option</*R:D17 Self::Item */ usize /*-*/>)
        /*+*/requires (match old(self).current { None => true, Some(c) => c < old(self).upper_bound })    // not yet exhausted (then no overflow is possible)
        ensures final(self).upper_bound == old(self).upper_bound, final(self).removed_ids == old(self).removed_ids,
            (*old(self)).remaining() == (match r { Some(x) => seq![x] + (*final(self)).remaining(), None => Seq::<usize>::empty() }),   // [id_iterator_next_is_next_live_id]
            r is Some ==> final(self).current == r,
            r is None ==> (*final(self)).remaining().len() == 0/*-*/
    {
        /*+*/let ghost ub = self.upper_bound as int; let ghost rem = self.removed_ids.view(); let ghost start: int = match self.current { None => 0, Some(c) => c + 1 };/*-*/
        // initialize / advance
        let current = {
            if self.current.is_none() {
                self.current = Some(0);
                self.current.as_mut().unwrap()
            } else {
                let current = self.current.as_mut().unwrap();
                *current += 1;
                current
            }
        };

        // skip removed ids
        while self.removed_ids.contains(current) && *current < self.upper_bound
            /*+*/invariant start <= *current <= ub, ub == self.upper_bound, rem == self.removed_ids.view(),
                ids_from(start, ub, rem) == ids_from(*current as int, ub, rem),
            decreases ub - *current/*-*/
        {
            *current += 1;
        }

        if *current < self.upper_bound {
            /*+*/proof { assert(!rem.contains(*current)); }/*-*/
            Some(*current)
        } else {
            None
        }
    }
//@ end
}
}
