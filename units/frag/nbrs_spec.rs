// ======================================================================================
// fragment nbrs_spec.rs - specification layer shared by the Neighbors iterators of Graph and StableGraph:
// chains hanging off a pointer, far endpoints of a list of edges (no repository code here)
// ======================================================================================
pub open spec fn has_chain<E, Ix: IndexType>(es: Seq<Edge<E, Ix>>, h: EdgeIndex<Ix>, k: int) -> bool { exists|s: Seq<int>| chain(es, h, k, s) }
/// targets of the edges s
pub open spec fn nb_out<E, Ix: IndexType>(es: Seq<Edge<E, Ix>>, s: Seq<int>) -> Seq<NodeIndex<Ix>> { Seq::new(s.len(), |i: int| es[s[i]].node[1]) }
/// sources of the edges s, without those equal to `skip` (self-loops already seen in the outgoing list)
pub open spec fn nb_in<E, Ix: IndexType>(es: Seq<Edge<E, Ix>>, s: Seq<int>, skip: int) -> Seq<NodeIndex<Ix>>
    decreases s.len()
{
    if s.len() == 0 { Seq::empty() }
    else { (if es[s[0]].node[0].0.ix() != skip { seq![es[s[0]].node[0]] } else { Seq::empty() }) + nb_in(es, s.drop_first(), skip) }
}
pub proof fn lemma_nb_in_contains<E, Ix: IndexType>(es: Seq<Edge<E, Ix>>, s: Seq<int>, skip: int, x: NodeIndex<Ix>)
    ensures nb_in(es, s, skip).contains(x) <==> (exists|j: int| 0 <= j < s.len() && es[#[trigger] s[j]].node[0] == x && x.0.ix() != skip)
    decreases s.len()
{
    if s.len() > 0 {
        let t = s.drop_first();
        lemma_nb_in_contains(es, t, skip, x);
        let hd: Seq<NodeIndex<Ix>> = if es[s[0]].node[0].0.ix() != skip { seq![es[s[0]].node[0]] } else { Seq::empty() };
        let rest = nb_in(es, t, skip);
        let full = hd + rest;
        if full.contains(x) {
            let q = choose|q: int| 0 <= q < full.len() && full[q] == x;
            if q < hd.len() { assert(es[s[0]].node[0] == x); }
            else { assert(rest[q - hd.len()] == x); assert(rest.contains(x));
                let j = choose|j: int| 0 <= j < t.len() && es[#[trigger] t[j]].node[0] == x && x.0.ix() != skip; assert(s[j + 1] == t[j]); }
        }
        if exists|j: int| 0 <= j < s.len() && es[#[trigger] s[j]].node[0] == x && x.0.ix() != skip {
            let j = choose|j: int| 0 <= j < s.len() && es[#[trigger] s[j]].node[0] == x && x.0.ix() != skip;
            if j == 0 { assert(full[0] == x); }
            else { assert(t[j - 1] == s[j]); assert(rest.contains(x)); let q = choose|q: int| 0 <= q < rest.len() && rest[q] == x; assert(full[hd.len() + q] == x); }
        }
    }
}
/// one step along a chain
pub proof fn lemma_chain_step<E, Ix: IndexType>(es: Seq<Edge<E, Ix>>, h: EdgeIndex<Ix>, k: int)
    ensures
        h.0.ix() >= es.len() ==> has_chain(es, h, k) && chain_of(es, h, k).len() == 0,
        h.0.ix() < es.len() ==> (has_chain(es, h, k) <==> has_chain(es, es[h.0.ix() as int].next[k], k)),
        h.0.ix() < es.len() && has_chain(es, h, k) ==> chain_of(es, h, k) == seq![h.0.ix() as int] + chain_of(es, es[h.0.ix() as int].next[k], k),
{
    if h.0.ix() >= es.len() {
        let e = Seq::<int>::empty();
        assert(chain(es, h, k, e));
        lemma_chain_of(es, h, k, e);
    } else {
        let i = h.0.ix() as int; let nx = es[i].next[k];
        if has_chain(es, nx, k) {
            let t = choose|t: Seq<int>| chain(es, nx, k, t);
            let s = seq![i] + t;
            assert(s.drop_first() =~= t);
            assert(chain(es, h, k, s));
            lemma_chain_of(es, h, k, s);
            lemma_chain_of(es, nx, k, t);
        }
        if has_chain(es, h, k) {
            let s = choose|s: Seq<int>| chain(es, h, k, s);
            assert(s.len() > 0);
            assert(chain(es, nx, k, s.drop_first()));
            lemma_chain_of(es, h, k, s);
            lemma_chain_of(es, nx, k, s.drop_first());
            assert(s =~= seq![i] + s.drop_first());
        }
    }
}

/// with a skip value that no source equals, nb_in keeps every source
pub proof fn lemma_nb_in_all<E, Ix: IndexType>(es: Seq<Edge<E, Ix>>, s: Seq<int>, skip: int)
    requires forall|j: int| 0 <= j < s.len() ==> 0 <= #[trigger] s[j] < es.len() && es[s[j]].node[0].0.ix() != skip
    ensures nb_in(es, s, skip) == Seq::new(s.len(), |j: int| es[s[j]].node[0])
    decreases s.len()
{
    if s.len() > 0 {
        let t = s.drop_first();
        assert forall|j: int| 0 <= j < t.len() implies 0 <= #[trigger] t[j] < es.len() && es[t[j]].node[0].0.ix() != skip by { assert(t[j] == s[j + 1]); }
        lemma_nb_in_all(es, t, skip);
        assert(nb_in(es, s, skip) =~= Seq::new(s.len(), |j: int| es[s[j]].node[0])) by {
            let l = seq![es[s[0]].node[0]] + Seq::new(t.len(), |j: int| es[t[j]].node[0]);
            assert forall|j: int| 0 <= j < s.len() implies l[j] == es[s[j]].node[0] by { if j > 0 { assert(t[j - 1] == s[j]); } }
        }
    } else {
        assert(nb_in(es, s, skip) =~= Seq::new(s.len(), |j: int| es[s[j]].node[0]));
    }
}
