// ======================================================================================
// fragment visit_filter_edges.rs - NodeFiltered: edges / edges_directed with the NodeFilteredEdges iterator (C06), generic in
// G and F: the edges at an included node whose other end is included, consistent with the adaptor's neighbours (IntoEdges /
// IntoEdgesDirected laws).  D25 as in visit_filter.rs.
// ======================================================================================

/// the end of an edge that a scan in direction d looks at
pub open spec fn far_end<R: EdgeRef>(e: R, d: Direction) -> R::NodeId { if d == Direction::Outgoing { e.tgt() } else { e.src() } }
/// an edge whose far end (in direction d) is included
pub open spec fn end_inc_of<R: EdgeRef, F: FilterNode<R::NodeId>>(f: &F, d: Direction) -> spec_fn(R) -> bool { |e: R| f.inc(far_end(e, d)) }

/// filtering edges by their far end and filtering the far ends themselves correspond position by position
pub proof fn lemma_filt_edges_nodes<R: EdgeRef, F: FilterNode<R::NodeId>>(es: Seq<R>, ns: Seq<R::NodeId>, f: &F, d: Direction)
    requires es.len() == ns.len(), forall|i: int| 0 <= i < es.len() ==> far_end(#[trigger] es[i], d) == ns[i]
    ensures filt(es, end_inc_of::<R, F>(f, d)).len() == filt(ns, inc_of(f)).len(),
        forall|i: int| 0 <= i < filt(ns, inc_of(f)).len() ==> far_end(#[trigger] filt(es, end_inc_of::<R, F>(f, d))[i], d) == filt(ns, inc_of(f))[i]
            && es.contains(filt(es, end_inc_of::<R, F>(f, d))[i]),
    decreases es.len()
{
    if es.len() > 0 {
        let et = es.drop_first(); let nt = ns.drop_first();
        assert forall|i: int| 0 <= i < et.len() implies far_end(#[trigger] et[i], d) == nt[i] by { assert(et[i] == es[i + 1]); assert(nt[i] == ns[i + 1]); }
        lemma_filt_edges_nodes::<R, F>(et, nt, f, d);
        let pe = end_inc_of::<R, F>(f, d); let pn = inc_of(f);
        let fe = filt(es, pe); let fet = filt(et, pe); let fnn = filt(ns, pn); let fnt = filt(nt, pn);
        assert(pe(es[0]) == pn(ns[0]));
        let he: Seq<R> = if pe(es[0]) { seq![es[0]] } else { Seq::empty() };
        let hn: Seq<R::NodeId> = if pn(ns[0]) { seq![ns[0]] } else { Seq::empty() };
        assert(fe =~= he + fet); assert(fnn =~= hn + fnt);
        assert forall|i: int| 0 <= i < fnn.len() implies far_end(#[trigger] fe[i], d) == fnn[i] && es.contains(fe[i]) by {
            if i < he.len() { assert(fe[i] == es[0]); }
            else { let i2 = i - he.len(); assert(fe[i] == fet[i2]); assert(fnn[i] == fnt[i2]); assert(et.contains(fet[i2]));
                let j = choose|j: int| 0 <= j < et.len() && et[j] == fet[i2]; assert(es[j + 1] == et[j]); }
        }
    }
}

//@ item src/visit/filter.rs | - | struct NodeFilteredEdges
/// A filtered edges iterator.
pub struct NodeFilteredEdges<'a, G, I, F: 'a> {
    pub graph: PhantomData<G>,
    pub include_source: bool,
    pub iter: I,
    pub f: &'a F,
    pub dir: Direction,
}
//@ end

impl<'a, G: IntoEdges, I: Iterator<Item = G::EdgeRef>, F: FilterNode<G::NodeId>> NodeFilteredEdges<'a, G, I, F> {
    #[verifier::prophetic]
    pub open spec fn rem(&self) -> Seq<I::Item> { if self.include_source { filt(self.iter.remaining(), end_inc_of::<G::EdgeRef, F>(self.f, self.dir)) } else { Seq::empty() } }
}
impl<'a, G: IntoEdges, I: Iterator<Item = G::EdgeRef>, F: FilterNode<G::NodeId>> vstd::std_specs::iter::IteratorSpecImpl for NodeFilteredEdges<'a, G, I, F> {
    open spec fn obeys_prophetic_iter_laws(&self) -> bool { self.iter.obeys_prophetic_iter_laws() }
    #[verifier::prophetic]
    open spec fn remaining(&self) -> Seq<I::Item> { self.rem() }
    open spec fn decrease(&self) -> Option<nat> { self.iter.decrease() }
    open spec fn will_return_none(&self) -> bool { true }
    open spec fn peek(&self, i: int) -> Option<I::Item> { None }
}

//@ item src/visit/filter.rs | - | impl<G, I, F> Iterator for NodeFilteredEdges<'_, G, I, F> where F: FilterNode<G::NodeId>, G: IntoEdges, I: Iterator<Item = G::EdgeRef>
impl<G, I, F> Iterator for NodeFilteredEdges<'_, G, I, F>
where
    F: FilterNode<G::NodeId>,
    G: IntoEdges,
    I: Iterator<Item = G::EdgeRef>,
{
    type Item = I::Item;
    // D25; termination NOT verified
    /*+*/#[verifier::exec_allows_no_decreases_clause]/*-*/
    fn next(&mut self) -> Option<Self::Item> {
        if !self.include_source {
            None
        } else {
            let dir = self.dir;
            let f = self.f;
            /*R:D25 self.iter.find(move |&edge| { */ {
                let ghost p = end_inc_of::<G::EdgeRef, F>(f, dir);
                loop
                    invariant f == self.f, self.f == old(self).f, dir == self.dir, self.dir == old(self).dir, self.include_source, old(self).include_source, p == end_inc_of::<G::EdgeRef, F>(f, dir),
                        self.iter.obeys_prophetic_iter_laws() == old(self).iter.obeys_prophetic_iter_laws(),
                        self.iter.obeys_prophetic_iter_laws() ==> (self.iter.decrease() is Some <==> old(self).iter.decrease() is Some),
                        self.iter.obeys_prophetic_iter_laws() ==> filt(self.iter.remaining(), p) == filt(old(self).iter.remaining(), p),
                        self.iter.obeys_prophetic_iter_laws() && old(self).iter.decrease() is Some ==> self.iter.decrease()->Some_0 <= old(self).iter.decrease()->Some_0,
                {
                    let ghost items = self.iter.remaining();
                    match self.iter.next() {
                        None => { proof { if self.iter.obeys_prophetic_iter_laws() { assert(items.len() == 0); assert(filt(items, p) =~= Seq::<I::Item>::empty()); } } return None; }
                        Some(edge) => {
                            proof { if self.iter.obeys_prophetic_iter_laws() { assert(items.len() > 0 && items[0] == edge); assert(self.iter.remaining() == items.drop_first()); } }
                            let keep = { /*-*/
                f.include_node(match dir {
                    Direction::Outgoing => edge.target(),
                    Direction::Incoming => edge.source(),
                })
            /*R:D25 }) */ };
                            proof { if self.iter.obeys_prophetic_iter_laws() { assert(keep == p(items[0])); if !keep { assert(filt(items, p) =~= filt(items.drop_first(), p)); } } }
                            if keep {
                                proof { if self.iter.obeys_prophetic_iter_laws() { assert(filt(items, p) == seq![edge] + filt(items.drop_first(), p)); assert((seq![edge] + filt(self.iter.remaining(), p)).drop_first() =~= filt(self.iter.remaining(), p)); } }
                                return Some(edge);
                            }
                        }
                    }
                }
            } /*-*/
        }
    }
    /*+*/#[verifier::external_body]/*-*/
    fn size_hint(&self) -> (usize, Option<usize>) {
        let (_, upper) = self.iter.size_hint();
        (0, upper)
    }
}
//@ end

//@ item src/visit/filter.rs | - | impl<'a, G, F> IntoEdges for &'a NodeFiltered<G, F> where G: IntoEdges, F: FilterNode<G::NodeId>
impl<'a, G, F> IntoEdges for &'a NodeFiltered<G, F>
where
    G: IntoEdges,
    F: FilterNode<G::NodeId>,
{
    type Edges = NodeFilteredEdges<'a, G, G::Edges, F>;
    /*+*/
    open spec fn edges_of(self, a: G::NodeId) -> Seq<G::EdgeRef> { if self.1.inc(a) { filt(self.0.edges_of(a), end_inc_of::<G::EdgeRef, F>(&self.1, Direction::Outgoing)) } else { Seq::empty() } }
    proof fn edges_law(self, a: G::NodeId) {
        self.0.edges_law(a);
        if self.1.inc(a) {
            let es = self.0.edges_of(a); let ns = self.0.succ(a);
            assert forall|i: int| 0 <= i < es.len() implies far_end(#[trigger] es[i], Direction::Outgoing) == ns[i] by { assert(self.0.edges_of(a)[i].tgt() == self.0.succ(a)[i]); }
            lemma_filt_edges_nodes::<G::EdgeRef, F>(es, ns, &self.1, Direction::Outgoing);
            assert forall|i: int| 0 <= i < self.edges_of(a).len() implies (#[trigger] self.edges_of(a)[i]).src() == a && self.edges_of(a)[i].tgt() == self.succ(a)[i] by {
                let e = self.edges_of(a)[i]; let n_i = filt(ns, inc_of(&self.1))[i];
                assert(far_end(e, Direction::Outgoing) == n_i && es.contains(e));
                let j = choose|j: int| 0 <= j < es.len() && es[j] == e;
                assert(self.0.edges_of(a)[j].src() == a);
            }
        }
    }
    /*-*/
    fn edges(self, a: G::NodeId) -> Self::Edges {
        NodeFilteredEdges {
            graph: PhantomData,
            include_source: self.1.include_node(a),
            iter: self.0.edges(a),
            f: &self.1,
            dir: Direction::Outgoing,
        }
    }
}
//@ end

//@ item src/visit/filter.rs | - | impl<'a, G, F> IntoEdgesDirected for &'a NodeFiltered<G, F> where G: IntoEdgesDirected, F: FilterNode<G::NodeId>
impl<'a, G, F> IntoEdgesDirected for &'a NodeFiltered<G, F>
where
    G: IntoEdgesDirected,
    F: FilterNode<G::NodeId>,
{
    type EdgesDirected = NodeFilteredEdges<'a, G, G::EdgesDirected, F>;
    /*+*/
    open spec fn edges_dir(self, a: G::NodeId, d: Direction) -> Seq<G::EdgeRef> { if self.1.inc(a) { filt(self.0.edges_dir(a, d), end_inc_of::<G::EdgeRef, F>(&self.1, d)) } else { Seq::empty() } }
    proof fn edges_dir_law(self, a: G::NodeId, d: Direction) {
        self.0.edges_dir_law(a, d); self.0.edges_dir_law(a, Direction::Outgoing);
        if self.1.inc(a) {
            let es = self.0.edges_dir(a, d); let ns = self.0.nbrs(a, d);
            assert forall|i: int| 0 <= i < es.len() implies far_end(#[trigger] es[i], d) == ns[i] by { assert(self.0.edges_dir(a, d)[i].src() == a || self.0.edges_dir(a, d)[i].tgt() == a); }
            lemma_filt_edges_nodes::<G::EdgeRef, F>(es, ns, &self.1, d);
            assert forall|i: int| 0 <= i < self.edges_dir(a, d).len() implies
                (if d == Direction::Outgoing { (#[trigger] self.edges_dir(a, d)[i]).src() == a && self.edges_dir(a, d)[i].tgt() == self.nbrs(a, d)[i] }
                 else { self.edges_dir(a, d)[i].tgt() == a && self.edges_dir(a, d)[i].src() == self.nbrs(a, d)[i] }) by {
                let e = self.edges_dir(a, d)[i]; let n_i = filt(ns, inc_of(&self.1))[i];
                assert(far_end(e, d) == n_i && es.contains(e));
                let j = choose|j: int| 0 <= j < es.len() && es[j] == e;
                assert(self.0.edges_dir(a, d)[j].src() == a || self.0.edges_dir(a, d)[j].tgt() == a);
            }
        }
    }
    /*-*/
    fn edges_directed(self, a: G::NodeId, dir: Direction) -> Self::EdgesDirected {
        NodeFilteredEdges {
            graph: PhantomData,
            include_source: self.1.include_node(a),
            iter: self.0.edges_directed(a, dir),
            f: &self.1,
            dir,
        }
    }
}
//@ end
