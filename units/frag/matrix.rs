// ======================================================================================
// fragment matrix.rs - src/matrix_graph.rs under contract (property C04)
// ======================================================================================
use core::hash::BuildHasher;

/// the number of cells of a lower-triangular matrix with n rows
pub open spec fn tri_size(n: int) -> int { n * (n + 1) / 2 }
/// position of the unordered pair {r, c} in the lower-triangular layout
pub open spec fn tri(r: int, c: int) -> int { if r > c { r * (r + 1) / 2 + c } else { c * (c + 1) / 2 + r } }

pub proof fn lemma_tri_bound(r: int, c: int, n: int)
    requires 0 <= r < n, 0 <= c < n
    ensures 0 <= tri(r, c) < tri_size(n)
{
    let (a, b) = if r > c { (r, c) } else { (c, r) };
    assert(a * (a + 1) / 2 + b < (a + 1) * (a + 2) / 2) by (nonlinear_arith) requires 0 <= b <= a;
    assert((a + 1) * (a + 2) / 2 <= n * (n + 1) / 2) by (nonlinear_arith) requires 0 <= a < n;
}
pub proof fn lemma_tri_inj(r1: int, c1: int, r2: int, c2: int)
    requires 0 <= c1 <= r1, 0 <= c2 <= r2, tri(r1, c1) == tri(r2, c2)
    ensures r1 == r2 && c1 == c2
{
    if r1 < r2 {
        assert(r1 * (r1 + 1) / 2 + c1 < (r1 + 1) * (r1 + 2) / 2) by (nonlinear_arith) requires 0 <= c1 <= r1;
        assert((r1 + 1) * (r1 + 2) / 2 <= r2 * (r2 + 1) / 2) by (nonlinear_arith) requires 0 <= r1 < r2;
    } else if r2 < r1 {
        assert(r2 * (r2 + 1) / 2 + c2 < (r2 + 1) * (r2 + 2) / 2) by (nonlinear_arith) requires 0 <= c2 <= r2;
        assert((r2 + 1) * (r2 + 2) / 2 <= r1 * (r1 + 1) / 2) by (nonlinear_arith) requires 0 <= r2 < r1;
    }
}
pub proof fn lemma_tri_size_mono(a: int, b: int)
    requires 0 <= a <= b
    ensures tri_size(a) <= tri_size(b)
{
    assert(a * (a + 1) / 2 <= b * (b + 1) / 2) by (nonlinear_arith) requires 0 <= a <= b;
}
pub proof fn lemma_flat_bound(r: int, c: int, w: int)
    requires 0 <= r < w, 0 <= c < w
    ensures 0 <= r * w + c < w * w
{
    assert(r * w + c < w * w) by (nonlinear_arith) requires 0 <= r < w, 0 <= c < w;
    assert(0 <= r * w) by (nonlinear_arith) requires 0 <= r, 0 <= w;
}
pub proof fn lemma_flat_inj(r1: int, c1: int, r2: int, c2: int, w: int)
    requires 0 <= r1, 0 <= r2, 0 <= c1 < w, 0 <= c2 < w, r1 * w + c1 == r2 * w + c2
    ensures r1 == r2 && c1 == c2
{
    if r1 < r2 { assert(r1 * w + c1 < r2 * w + c2) by (nonlinear_arith) requires r1 < r2, 0 <= c1 < w, 0 <= c2; }
    else if r2 < r1 { assert(r2 * w + c2 < r1 * w + c1) by (nonlinear_arith) requires r2 < r1, 0 <= c2 < w, 0 <= c1; }
}

/// logical cell position for the edge type
pub open spec fn lin_pos(directed: bool, r: int, c: int, w: int) -> int { if directed { r * w + c } else { tri(r, c) } }
/// number of cells of the matrix for capacity w
pub open spec fn lin_size(directed: bool, w: int) -> int { if directed { w * w } else { tri_size(w) } }

//@ item src/matrix_graph.rs | - | fn to_flat_square_matrix_position
#[inline]
fn to_flat_square_matrix_position(row: usize, column: usize, width: usize) -> (p: usize)
    /*+*/requires row < width, column < width, width * width <= usize::MAX,
    ensures p == row * width + column/*-*/
{
    /*+*/proof { lemma_flat_bound(row as int, column as int, width as int); assert(row * width <= row * width + column); assert(0 <= row * width) by (nonlinear_arith) requires 0 <= row, 0 <= width; }/*-*/
    row * width + column
}
//@ end

//@ item src/matrix_graph.rs | - | fn to_lower_triangular_matrix_position
#[inline]
fn to_lower_triangular_matrix_position(row: usize, column: usize) -> (p: usize)
    /*+*/requires row < 0x1_0000_0000, column < 0x1_0000_0000,   // (r+1)*r must fit usize
    ensures p == tri(row as int, column as int)/*-*/
{
    let (row, column) = if row > column {
        (row, column)
    } else {
        (column, row)
    }/*+*/;
    assert((row as int) * (row as int + 1) <= 0xFFFF_FFFF * 0x1_0000_0000) by (nonlinear_arith) requires 0 <= row as int <= 0xFFFF_FFFF/*-*/;
    (row * (row + 1)) / 2 + column
}
//@ end

//@ item src/matrix_graph.rs | - | fn to_linearized_matrix_position
#[inline]
fn to_linearized_matrix_position<Ty: EdgeType>(row: usize, column: usize, width: usize) -> (p: usize)
    /*+*/requires row < width, column < width, width < 0x1_0000_0000,
    ensures p == lin_pos(Ty::spec_is_directed(), row as int, column as int, width as int)/*-*/
{
    /*+*/proof { assert(width * width <= usize::MAX) by (nonlinear_arith) requires width < 0x1_0000_0000; }/*-*/
    if Ty::is_directed() {
        to_flat_square_matrix_position(row, column, width)
    } else {
        to_lower_triangular_matrix_position(row, column)
    }
}
//@ end

//@ item src/matrix_graph.rs | - | fn ensure_len
/// Grow a Vec by appending the type's default value until the `size` is reached.
// `Vec::resize_with(size, T::default)` - function-pointer argument, no vstd spec: contract ASSUMED from the std documentation
#[verifier::external_body]
fn ensure_len<T: Default>(v: &mut Vec<T>, size: usize)
    /*+*/ensures final(v)@.len() == size,
        forall|i: int| 0 <= i < size && i < old(v)@.len() ==> #[trigger] final(v)@[i] == old(v)@[i],
        forall|i: int| old(v)@.len() <= i < size ==> call_ensures(<T as Default>::default, (), #[trigger] final(v)@[i])/*-*/,
{
    v.resize_with(size, T::default);
}
//@ end

//@ item src/matrix_graph.rs | - | fn extend_lower_triangular_matrix
#[inline]
fn extend_lower_triangular_matrix<T: Default>(
    node_adjacencies: &mut Vec<T>,
    new_capacity: usize,
) -> (r: usize)
    /*+*/requires 1 <= new_capacity < 0x1_0000_0000,
    ensures r == new_capacity, final(node_adjacencies)@.len() == tri_size(new_capacity as int),
        forall|i: int| 0 <= i < tri_size(new_capacity as int) && i < old(node_adjacencies)@.len() ==> #[trigger] final(node_adjacencies)@[i] == old(node_adjacencies)@[i],   // [tri_growth_keeps_cells]
        forall|i: int| old(node_adjacencies)@.len() <= i < tri_size(new_capacity as int) ==> call_ensures(<T as Default>::default, (), #[trigger] final(node_adjacencies)@[i])/*-*/,
{
    let max_node = new_capacity - 1;
    let max_pos = to_lower_triangular_matrix_position(max_node, max_node);
    /*+*/proof {
        let m = max_node as int;
        assert(m * (m + 1) / 2 + m + 1 == (m + 1) * (m + 2) / 2) by (nonlinear_arith);
        assert((m + 1) * (m + 2) <= 0x1_0000_0000 * 0x1_0000_0001) by (nonlinear_arith) requires 0 <= m < 0xFFFF_FFFF;
    }/*-*/
    ensure_len(node_adjacencies, max_pos + 1);
    new_capacity
}
//@ end

//@ item src/matrix_graph.rs | - | fn extend_flat_square_matrix
/// Extends a flat square matrix (rows moved with `ptr::swap_nonoverlapping` inside `unsafe`):
/// contract only in Verus (TRUSTED here); checked on the real body by the bounded Kani harness `extend_flat_grid`.
// Kani-twin: a change to this body is not a trusted-body conflict - the harness is built from /repo's working tree on every run
#[inline]
#[verifier::external_body]
fn extend_flat_square_matrix<T: Default>(
    node_adjacencies: &mut Vec<T>,
    old_node_capacity: usize,
    new_node_capacity: usize,
    exact: bool,
) -> (cap: usize)
    /*+*/requires old(node_adjacencies)@.len() == old_node_capacity * old_node_capacity, old_node_capacity < new_node_capacity,
    ensures cap >= new_node_capacity, exact ==> cap == new_node_capacity,
        !exact ==> cap <= 2 * new_node_capacity || cap == 4,
        final(node_adjacencies)@.len() == cap * cap,
        forall|r: int, c: int| 0 <= r < old_node_capacity && 0 <= c < old_node_capacity ==>
            #[trigger] final(node_adjacencies)@[r * cap + c] == old(node_adjacencies)@[r * old_node_capacity + c],      // [flat_growth_keeps_cells]
        forall|r: int, c: int| 0 <= r < cap && 0 <= c < cap && !(r < old_node_capacity && c < old_node_capacity) ==>
            call_ensures(<T as Default>::default, (), #[trigger] final(node_adjacencies)@[r * cap + c])/*-*/,            // [flat_growth_new_cells_default]
{
    // Grow the capacity by exponential steps to avoid repeated allocations.
    // Disabled for the with_capacity constructor.
    let new_node_capacity = if exact {
        new_node_capacity
    } else {
        const MIN_CAPACITY: usize = 4;
        cmp::max(new_node_capacity.next_power_of_two(), MIN_CAPACITY)
    };

    // Optimization: when resizing the matrix this way we skip the first few grows to make
    // small matrices a bit faster to work with.

    ensure_len(node_adjacencies, new_node_capacity.pow(2));
    for c in (1..old_node_capacity).rev() {
        let pos = c * old_node_capacity;
        let new_pos = c * new_node_capacity;
        // Move the slices directly if they do not overlap with their new position
        if pos + old_node_capacity <= new_pos {
            debug_assert!(pos + old_node_capacity < node_adjacencies.len());
            debug_assert!(new_pos + old_node_capacity < node_adjacencies.len());
            let ptr = node_adjacencies.as_mut_ptr();
            // SAFETY: pos + old_node_capacity <= new_pos, so this won't overlap
            unsafe {
                let old = ptr.add(pos);
                let new = ptr.add(new_pos);
                core::ptr::swap_nonoverlapping(old, new, old_node_capacity);
            }
        } else {
            for i in (0..old_node_capacity).rev() {
                node_adjacencies.as_mut_slice().swap(pos + i, new_pos + i);
            }
        }
    }

    new_node_capacity
}
//@ end

//@ item src/matrix_graph.rs | - | fn extend_linearized_matrix
#[inline]
fn extend_linearized_matrix<Ty: EdgeType, T: Default>(
    node_adjacencies: &mut Vec<T>,
    old_node_capacity: usize,
    new_capacity: usize,
    exact: bool,
) -> (cap: usize)
    /*+*/requires old(node_adjacencies)@.len() == lin_size(Ty::spec_is_directed(), old_node_capacity as int),
        old_node_capacity < 0x4000_0000, 1 <= new_capacity <= 0x1fff_ffff,
    ensures cap >= new_capacity, cap >= old_node_capacity, cap < 0x4000_0000,
        final(node_adjacencies)@.len() == lin_size(Ty::spec_is_directed(), cap as int),
        forall|r: int, c: int| 0 <= r < old_node_capacity && 0 <= c < old_node_capacity ==>
            #[trigger] final(node_adjacencies)@[lin_pos(Ty::spec_is_directed(), r, c, cap as int)] == old(node_adjacencies)@[lin_pos(Ty::spec_is_directed(), r, c, old_node_capacity as int)],   // [growth_keeps_cells]
        forall|r: int, c: int| 0 <= r < cap && 0 <= c < cap && !(r < old_node_capacity && c < old_node_capacity) ==>
            call_ensures(<T as Default>::default, (), #[trigger] final(node_adjacencies)@[lin_pos(Ty::spec_is_directed(), r, c, cap as int)])/*-*/,   // [growth_new_cells_default]
{
    if old_node_capacity >= new_capacity {
        return old_node_capacity;
    }
    if Ty::is_directed() {
        extend_flat_square_matrix(node_adjacencies, old_node_capacity, new_capacity, exact)
    } else {
        /*+*/proof {
            lemma_tri_size_mono(old_node_capacity as int, new_capacity as int);
            assert forall|r: int, c: int| 0 <= r < new_capacity && 0 <= c < new_capacity && !(r < old_node_capacity && c < old_node_capacity)
                implies tri(r, c) >= tri_size(old_node_capacity as int) && tri(r, c) < tri_size(new_capacity as int) by {
                lemma_tri_bound(r, c, new_capacity as int);
                let (a, b) = if r > c { (r, c) } else { (c, r) };
                assert(a >= old_node_capacity);
                assert(a * (a + 1) / 2 >= (old_node_capacity as int) * (old_node_capacity as int + 1) / 2) by (nonlinear_arith) requires a >= old_node_capacity as int, old_node_capacity as int >= 0;
            }
            assert forall|r: int, c: int| 0 <= r < old_node_capacity && 0 <= c < old_node_capacity implies tri(r, c) < tri_size(old_node_capacity as int) by {
                lemma_tri_bound(r, c, old_node_capacity as int);
            }
        }/*-*/
        extend_lower_triangular_matrix(node_adjacencies, new_capacity)
    }
}
//@ end

// ---- stand-in for indexmap::IndexSet<usize, S>: method names and signatures as in indexmap 2, contracts ASSUMED
//      from the crate documentation (view = finite set of ids; `pop` removes some element) ----
#[verifier::external_body]
#[verifier::reject_recursive_types(K)]
#[verifier::reject_recursive_types(S)]
pub struct IndexSet<K, S> { p: PhantomData<(K, S)> }
impl<S> IndexSet<usize, S> {
    pub uninterp spec fn view(&self) -> Set<usize>;
    #[verifier::external_body]
    pub fn with_hasher(hasher: S) -> (r: Self)
        ensures r.view() == Set::<usize>::empty()
    { unimplemented!() }
    #[verifier::external_body]
    pub fn pop(&mut self) -> (r: Option<usize>)
        ensures match r { Some(x) => old(self).view().contains(x) && final(self).view() == old(self).view().remove(x),
                          None => old(self).view() == Set::<usize>::empty() && final(self).view() == old(self).view() },
    { unimplemented!() }
    #[verifier::external_body]
    pub fn insert(&mut self, x: usize) -> (r: bool)
        ensures final(self).view() == old(self).view().insert(x), r == !old(self).view().contains(x),
    { unimplemented!() }
    #[verifier::external_body]
    pub fn len(&self) -> (r: usize)
        ensures r == self.view().len(), self.view().finite()
    { unimplemented!() }
    #[verifier::external_body]
    pub fn contains(&self, x: &usize) -> (r: bool)
        ensures r == self.view().contains(*x)
    { unimplemented!() }
    #[verifier::external_body]
    pub fn clear(&mut self)
        ensures final(self).view() == Set::<usize>::empty()
    { unimplemented!() }
}

//@ item src/matrix_graph.rs | - | struct IdStorage
/// Simple wrapper around a `Vec<Option<T>>` that reuses removed ids.
#[verifier::reject_recursive_types(S)]
pub struct IdStorage<T, /*R:D1 S = RandomState, S */ S /*-*/> {
    pub elements: Vec<Option<T>>,
    pub upper_bound: usize,
    pub removed_ids: IndexSet<usize, S>,
}
//@ end

impl<T, S: BuildHasher> IdStorage<T, S> {
    /// ids handed out and not removed
    pub open spec fn live(&self, i: int) -> bool { 0 <= i < self.upper_bound && !self.removed_ids.view().contains(i as usize) }
    pub open spec fn wf(&self) -> bool {
        &&& self.removed_ids.view().finite()
        &&& forall|x: usize| #[trigger] self.removed_ids.view().contains(x) ==> x < self.upper_bound
        &&& self.elements@.len() >= self.upper_bound
        &&& forall|i: int| 0 <= i < self.elements@.len() ==> ((#[trigger] self.elements@[i]) is Some <==> self.live(i))
    }

//@ item src/matrix_graph.rs | impl<T, S: BuildHasher> IdStorage<T, S> | fn with_capacity_and_hasher
    fn with_capacity_and_hasher(capacity: usize, hasher: S) -> (r: Self)
        /*+*/ensures r.wf(), r.upper_bound == 0, r.removed_ids.view() == Set::<usize>::empty()/*-*/
    {
        IdStorage {
            elements: Vec::with_capacity(capacity),
            upper_bound: 0,
            removed_ids: IndexSet::with_hasher(hasher),
        }
    }
//@ end

//@ item src/matrix_graph.rs | impl<T, S: BuildHasher> IdStorage<T, S> | fn add
    fn add(&mut self, element: T) -> (id: usize)
        /*+*/requires old(self).wf(), old(self).removed_ids.view() != Set::<usize>::empty() || old(self).upper_bound < usize::MAX,
        ensures final(self).wf(),
            !old(self).live(id as int) && final(self).live(id as int),                                  // [add_returns_vacant_id] never an id that is currently live
            forall|i: int| i != id ==> final(self).live(i) == old(self).live(i),                          // [add_keeps_other_ids]
            final(self).elements@[id as int] == Some(element),
            forall|i: int| 0 <= i < old(self).elements@.len() && i != id && old(self).live(i) ==> #[trigger] final(self).elements@[i] == old(self).elements@[i],
            id < final(self).upper_bound, final(self).upper_bound <= old(self).upper_bound + 1,
            old(self).removed_ids.view() == Set::<usize>::empty() ==> id == old(self).upper_bound && final(self).upper_bound == old(self).upper_bound + 1,
            old(self).removed_ids.view() != Set::<usize>::empty() ==> old(self).removed_ids.view().contains(id) && final(self).upper_bound == old(self).upper_bound,
            final(self).upper_bound >= old(self).upper_bound/*-*/,
    {
        let id = if let Some(id) = self.removed_ids.pop() {
            id
        } else {
            let id = self.upper_bound;
            self.upper_bound += 1;

            ensure_len(&mut self.elements, id + 1);

            id
        };

        self.elements[id] = Some(element);

        id
    }
//@ end

//@ item src/matrix_graph.rs | impl<T, S: BuildHasher> IdStorage<T, S> | fn remove
    fn remove(&mut self, id: usize) -> (r: T)
        /*+*/requires old(self).wf(), old(self).live(id as int),       // `elements[id].take().unwrap()` panics on a vacant id
        ensures final(self).wf(), Some(r) == old(self).elements@[id as int],
            !final(self).live(id as int),
            forall|i: int| i != id ==> final(self).live(i) == old(self).live(i),                          // [remove_keeps_other_ids]
            forall|i: int| 0 <= i < old(self).elements@.len() && i != id ==> #[trigger] final(self).elements@[i] == old(self).elements@[i],
            final(self).upper_bound <= old(self).upper_bound/*-*/,
    {
        let data = self.elements[id].take().unwrap();
        if self.upper_bound - id == 1 {
            self.upper_bound -= 1;
        } else {
            self.removed_ids.insert(id);
        }
        data
    }
//@ end

//@ item src/matrix_graph.rs | impl<T, S: BuildHasher> IdStorage<T, S> | fn clear
    fn clear(&mut self)
        /*+*/ensures final(self).wf(), final(self).upper_bound == 0, forall|i: int| !final(self).live(i)/*-*/,
    {
        self.upper_bound = 0;
        self.elements.clear();
        self.removed_ids.clear();
    }
//@ end

//@ item src/matrix_graph.rs | impl<T, S: BuildHasher> IdStorage<T, S> | fn len
    #[inline]
    fn len(&self) -> (r: usize)
        /*+*/requires self.wf()
        ensures r == self.upper_bound - self.removed_ids.view().len()/*-*/
    {
        /*+*/proof { lemma_subset_of_range(self.removed_ids.view(), self.upper_bound as int); }/*-*/
        self.upper_bound - self.removed_ids.len()
    }
//@ end
}

pub proof fn lemma_subset_of_range(s: Set<usize>, n: int)
    requires s.finite(), n >= 0, forall|x: usize| #[trigger] s.contains(x) ==> x < n
    ensures s.len() <= n
    decreases n
{
    if n == 0 {
        assert(s =~= Set::<usize>::empty());
    } else {
        let last = (n - 1) as usize;
        let t = s.remove(last);
        assert forall|x: usize| #[trigger] t.contains(x) implies x < n - 1 by { }
        lemma_subset_of_range(t, n - 1);
        if s.contains(last) { assert(s.len() == t.len() + 1); } else { assert(t =~= s); }
    }
}

// ======================================================================================
// Nullable: the "null element" abstraction of the adjacency matrix cells
// ======================================================================================
//@ item src/matrix_graph.rs | - | trait Nullable
/// Wrapper trait for an `Option`, allowing user-defined structs to be input as containers when
/// defining a null element.
pub trait Nullable: Default + Into<Option<<Self as Nullable>::Wrapped>> /*R:D1 + private::Sealed */ /*-*/ {
    #[doc(hidden)]
    type Wrapped;

    /*+*/
    /// the cell's content: None for the null element
    spec fn nv(&self) -> Option<Self::Wrapped>;
    /// values `new` accepts (NotZero refuses zero - documented panic)
    spec fn storable(value: Self::Wrapped) -> bool;
    /// `Default::default()` is the null element
    proof fn default_law()
        ensures forall|d: Self| #[trigger] call_ensures(<Self as Default>::default, (), d) ==> d.nv() is None;
    /// `.into()` exposes the content
    proof fn into_law()
        ensures forall|x: Self, o: Option<Self::Wrapped>| #[trigger] call_ensures(<Self as Into<Option<Self::Wrapped>>>::into, (x,), o) ==> o == x.nv();
    /*-*/

    #[doc(hidden)]
    fn new(value: Self::Wrapped) -> (r: Self)
        /*+*/requires Self::storable(value)
        ensures r.nv() == Some(value)/*-*/;

    #[doc(hidden)]
    fn as_ref(&self) -> (r: Option<&Self::Wrapped>)
        /*+*/ensures match r { Some(x) => self.nv() == Some(*x), None => self.nv() is None }/*-*/;

    #[doc(hidden)]
    fn as_mut(&mut self) -> (r: Option<&mut Self::Wrapped>)
        // (a value that `new` would refuse - zero for NotZero - written through the reference turns the cell into the null element)
        /*+*/ensures match r { Some(x) => old(self).nv() == Some(*x) && final(self).nv() == (if Self::storable(*final(x)) { Some(*final(x)) } else { None }),
                               None => old(self).nv() is None && final(self).nv() is None }/*-*/;

    #[doc(hidden)]
    fn is_null(&self) -> (r: bool)
        /*+*/ensures r == (self.nv() is None)/*-*/
    {
        self.as_ref().is_none()
    }
}
//@ end

//@ item src/matrix_graph.rs | - | impl<T> Nullable for Option<T>
impl<T> Nullable for Option<T> {
    type Wrapped = T;

    /*+*/
    open spec fn nv(&self) -> Option<T> { *self }
    open spec fn storable(value: T) -> bool { true }
    proof fn default_law() {}
    // the reflexive `Into` blanket impl (identity conversion) has no vstd specification: ASSUMED
    #[verifier::external_body]
    proof fn into_law() {}
    /*-*/

    fn new(value: T) -> Self {
        Some(value)
    }

    fn as_ref(&self) -> Option<&Self::Wrapped> {
        self.as_ref()
    }

    fn as_mut(&mut self) -> Option<&mut Self::Wrapped> {
        self.as_mut()
    }
}
//@ end

/// cells as booleans: true = an edge is stored
pub open spec fn nn<Null: Nullable>(adj: Seq<Null>) -> Seq<bool> { Seq::new(adj.len(), |i: int| adj[i].nv() is Some) }

/// number of edges in row r restricted to the first ncols logical columns
pub open spec fn row_count(b: Seq<bool>, d: bool, w: int, r: int, ncols: int) -> int
    decreases ncols
{
    if ncols <= 0 { 0 } else { row_count(b, d, w, r, ncols - 1) + (if b[lin_pos(d, r, ncols - 1, w)] { 1int } else { 0int }) }
}
/// logical columns of row r: the whole row when directed, columns 0..=r of the lower triangle otherwise
pub open spec fn ncols_of(d: bool, r: int, w: int) -> int { if d { w } else { r + 1 } }
/// number of edges in the first nrows rows
pub open spec fn total_count(b: Seq<bool>, d: bool, w: int, nrows: int) -> int
    decreases nrows
{
    if nrows <= 0 { 0 } else { total_count(b, d, w, nrows - 1) + row_count(b, d, w, nrows - 1, ncols_of(d, nrows - 1, w)) }
}
/// (r, c) is a canonical logical cell of a matrix with n rows
pub open spec fn canon(d: bool, r: int, c: int, n: int) -> bool { 0 <= r < n && 0 <= c < (if d { n } else { r + 1 }) }

pub proof fn lemma_row_agree(b1: Seq<bool>, w1: int, b2: Seq<bool>, w2: int, d: bool, r: int, ncols: int)
    requires forall|c: int| 0 <= c < ncols ==> b1[lin_pos(d, r, c, w1)] == #[trigger] b2[lin_pos(d, r, c, w2)]
    ensures row_count(b1, d, w1, r, ncols) == row_count(b2, d, w2, r, ncols)
    decreases ncols
{
    if ncols > 0 { lemma_row_agree(b1, w1, b2, w2, d, r, ncols - 1); }
}
pub proof fn lemma_row_zero(b: Seq<bool>, d: bool, w: int, r: int, lo: int, ncols: int)
    requires 0 <= lo <= ncols, forall|c: int| lo <= c < ncols ==> !#[trigger] b[lin_pos(d, r, c, w)]
    ensures row_count(b, d, w, r, ncols) == row_count(b, d, w, r, lo)
    decreases ncols
{
    if ncols > lo { lemma_row_zero(b, d, w, r, lo, ncols - 1); }
}
/// growing from capacity w1 to w2: old cells keep their content, every new cell is empty
pub proof fn lemma_total_growth(b1: Seq<bool>, w1: int, b2: Seq<bool>, w2: int, d: bool, nrows: int)
    requires 0 <= w1 <= w2, 0 <= nrows <= w2,
        forall|r: int, c: int| 0 <= r < w1 && 0 <= c < w1 ==> b1[lin_pos(d, r, c, w1)] == #[trigger] b2[lin_pos(d, r, c, w2)],
        forall|r: int, c: int| 0 <= r < w2 && 0 <= c < w2 && !(r < w1 && c < w1) ==> !#[trigger] b2[lin_pos(d, r, c, w2)],
    ensures total_count(b2, d, w2, nrows) == total_count(b1, d, w1, if nrows <= w1 { nrows } else { w1 })
    decreases nrows
{
    if nrows > 0 {
        let r = nrows - 1;
        lemma_total_growth(b1, w1, b2, w2, d, nrows - 1);
        if r < w1 {
            let k1 = ncols_of(d, r, w1); let k2 = ncols_of(d, r, w2);
            assert(k1 <= k2);
            lemma_row_zero(b2, d, w2, r, k1, k2);
            lemma_row_agree(b1, w1, b2, w2, d, r, k1);
        } else {
            lemma_row_zero(b2, d, w2, r, 0, ncols_of(d, r, w2));
        }
    }
}
/// one canonical cell (r0, c0) changes, every other canonical cell keeps its content
pub proof fn lemma_row_update(b1: Seq<bool>, b2: Seq<bool>, d: bool, w: int, r: int, ncols: int, r0: int, c0: int)
    requires forall|c: int| 0 <= c < ncols && !(r == r0 && c == c0) ==> b1[lin_pos(d, r, c, w)] == #[trigger] b2[lin_pos(d, r, c, w)]
    ensures row_count(b2, d, w, r, ncols) == row_count(b1, d, w, r, ncols)
        + (if r == r0 && 0 <= c0 < ncols { (if b2[lin_pos(d, r0, c0, w)] { 1int } else { 0int }) - (if b1[lin_pos(d, r0, c0, w)] { 1int } else { 0int }) } else { 0int })
    decreases ncols
{
    if ncols > 0 { lemma_row_update(b1, b2, d, w, r, ncols - 1, r0, c0); }
}
pub proof fn lemma_total_update(b1: Seq<bool>, b2: Seq<bool>, d: bool, w: int, nrows: int, r0: int, c0: int)
    requires 0 <= nrows <= w, canon(d, r0, c0, w),
        forall|r: int, c: int| canon(d, r, c, w) && !(r == r0 && c == c0) ==> b1[lin_pos(d, r, c, w)] == #[trigger] b2[lin_pos(d, r, c, w)],
    ensures total_count(b2, d, w, nrows) == total_count(b1, d, w, nrows)
        + (if r0 < nrows { (if b2[lin_pos(d, r0, c0, w)] { 1int } else { 0int }) - (if b1[lin_pos(d, r0, c0, w)] { 1int } else { 0int }) } else { 0int })
    decreases nrows
{
    if nrows > 0 {
        let r = nrows - 1;
        lemma_total_update(b1, b2, d, w, nrows - 1, r0, c0);
        assert forall|c: int| 0 <= c < ncols_of(d, r, w) && !(r == r0 && c == c0) implies b1[lin_pos(d, r, c, w)] == #[trigger] b2[lin_pos(d, r, c, w)] by {
            assert(canon(d, r, c, w));
        }
        lemma_row_update(b1, b2, d, w, r, ncols_of(d, r, w), r0, c0);
    }
}
/// canonical form of an (a, b) pair: identity when directed, (max, min) when undirected
pub open spec fn canon_r(d: bool, a: int, b: int) -> int { if d || a >= b { a } else { b } }
pub open spec fn canon_c(d: bool, a: int, b: int) -> int { if d || a >= b { b } else { a } }
pub proof fn lemma_pos_canon(d: bool, a: int, b: int, w: int)
    requires 0 <= a < w, 0 <= b < w
    ensures lin_pos(d, a, b, w) == lin_pos(d, canon_r(d, a, b), canon_c(d, a, b), w), canon(d, canon_r(d, a, b), canon_c(d, a, b), w),
        0 <= lin_pos(d, a, b, w) < lin_size(d, w),
{
    if d { lemma_flat_bound(a, b, w); } else { lemma_tri_bound(a, b, w); }
}
/// distinct canonical cells live at distinct positions
pub proof fn lemma_pos_inj(d: bool, r1: int, c1: int, r2: int, c2: int, w: int)
    requires canon(d, r1, c1, w), canon(d, r2, c2, w), lin_pos(d, r1, c1, w) == lin_pos(d, r2, c2, w)
    ensures r1 == r2 && c1 == c2
{
    if d { lemma_flat_inj(r1, c1, r2, c2, w); } else { lemma_tri_inj(r1, c1, r2, c2); }
}

//@ item src/matrix_graph.rs | - | enum MatrixError
/// The error type for fallible `MatrixGraph` operations.
#[derive(Debug, Clone, Copy, PartialEq, Eq)]
pub enum MatrixError {
    /// The `MatrixGraph` is at the maximum number of nodes for its index.
    NodeIxLimit,

    /// The node with the specified index is missing from the graph.
    NodeMissed(usize),
}
//@ end

//@ item src/matrix_graph.rs | - | struct MatrixGraph
#[verifier::reject_recursive_types(S)]
#[verifier::reject_recursive_types(E)]
pub struct MatrixGraph<
    N,
    E,
    /*R:D1 S = RandomState, S */ S /*-*/,
    Ty = Directed,
    Null: Nullable<Wrapped = E> = Option<E>,
    Ix = DefaultIx,
> {
    pub node_adjacencies: Vec<Null>,
    pub node_capacity: usize,
    pub nodes: IdStorage<N, S>,
    pub nb_edges: usize,
    pub ty: PhantomData<Ty>,
    pub ix: PhantomData<Ix>,
}
//@ end

impl<N, E, S: BuildHasher, Ty: EdgeType, Null: Nullable<Wrapped = E>, Ix: IndexType>
    MatrixGraph<N, E, S, Ty, Null, Ix>
{
    pub open spec fn d(&self) -> bool { Ty::spec_is_directed() }
    pub open spec fn cap(&self) -> int { self.node_capacity as int }
    /// content of the logical cell (a, b); None when outside the allocated matrix
    pub open spec fn cell(&self, a: int, b: int) -> Option<E> {
        if 0 <= a < self.cap() && 0 <= b < self.cap() { self.node_adjacencies@[lin_pos(self.d(), a, b, self.cap())].nv() } else { None }
    }
    pub open spec fn has(&self, a: int, b: int) -> bool { self.cell(a, b) is Some }
    /// representation invariant
    pub open spec fn wf(&self) -> bool {
        &&& self.node_capacity < 0x4000_0000
        &&& self.node_adjacencies@.len() == lin_size(self.d(), self.cap())
        &&& self.nb_edges == total_count(nn(self.node_adjacencies@), self.d(), self.cap(), self.cap())     // edge_count is exact
        &&& self.nodes.wf() && self.nodes.upper_bound <= Ix::spec_max()                                             // every node id is representable in Ix and differs from `end`
        &&& forall|a: int, b: int| #[trigger] self.has(a, b) ==> self.nodes.live(a) && self.nodes.live(b)        // no edge at a vacant node id
    }

//@ item src/matrix_graph.rs | impl<N, E, S: BuildHasher, Ty: EdgeType, Null: Nullable<Wrapped = E>, Ix: IndexType> MatrixGraph<N, E, S, Ty, Null, Ix> | fn to_edge_position
    #[inline]
    fn to_edge_position(&self, a: NodeIndex<Ix>, b: NodeIndex<Ix>) -> (r: Option<usize>)
        /*+*/requires self.node_capacity < 0x4000_0000
        ensures r is Some <==> (a.i() < self.cap() && b.i() < self.cap()),
            r is Some ==> r.unwrap() == lin_pos(self.d(), a.i(), b.i(), self.cap())/*-*/,
    {
        if cmp::max(a.index(), b.index()) >= self.node_capacity {
            return None;
        }
        Some(self.to_edge_position_unchecked(a, b))
    }
//@ end

//@ item src/matrix_graph.rs | impl<N, E, S: BuildHasher, Ty: EdgeType, Null: Nullable<Wrapped = E>, Ix: IndexType> MatrixGraph<N, E, S, Ty, Null, Ix> | fn to_edge_position_unchecked
    #[inline]
    fn to_edge_position_unchecked(&self, a: NodeIndex<Ix>, b: NodeIndex<Ix>) -> (r: usize)
        /*+*/requires self.node_capacity < 0x4000_0000, a.i() < self.cap(), b.i() < self.cap(),
        ensures r == lin_pos(self.d(), a.i(), b.i(), self.cap())/*-*/,
    {
        to_linearized_matrix_position::<Ty>(a.index(), b.index(), self.node_capacity)
    }
//@ end

//@ item src/matrix_graph.rs | impl<N, E, S: BuildHasher, Ty: EdgeType, Null: Nullable<Wrapped = E>, Ix: IndexType> MatrixGraph<N, E, S, Ty, Null, Ix> | fn node_count
    #[inline]
    pub fn node_count(&self) -> (r: usize)
        /*+*/requires self.wf()
        ensures r == self.nodes.upper_bound - self.nodes.removed_ids.view().len()/*-*/   // [node_count_is_live_ids]
    {
        self.nodes.len()
    }
//@ end

//@ item src/matrix_graph.rs | impl<N, E, S: BuildHasher, Ty: EdgeType, Null: Nullable<Wrapped = E>, Ix: IndexType> MatrixGraph<N, E, S, Ty, Null, Ix> | fn edge_count
    #[inline]
    pub fn edge_count(&self) -> (r: usize)
        /*+*/requires self.wf()
        ensures r == total_count(nn(self.node_adjacencies@), self.d(), self.cap(), self.cap())/*-*/   // [edge_count_exact]
    {
        self.nb_edges
    }
//@ end

//@ item src/matrix_graph.rs | impl<N, E, S: BuildHasher, Ty: EdgeType, Null: Nullable<Wrapped = E>, Ix: IndexType> MatrixGraph<N, E, S, Ty, Null, Ix> | fn has_edge
    #[track_caller]
    pub fn has_edge(&self, a: NodeIndex<Ix>, b: NodeIndex<Ix>) -> (r: bool)
        /*+*/requires self.wf()
        ensures r == self.has(a.i(), b.i())/*-*/     // [has_edge_view]
    {
        /*+*/proof { if a.i() < self.cap() && b.i() < self.cap() { lemma_pos_canon(self.d(), a.i(), b.i(), self.cap()); } }/*-*/
        if let Some(p) = self.to_edge_position(a, b) {
            return self
                .node_adjacencies
                .get(p)
                .map(|e/*+*/: &Null/*-*/| /*+*/-> (x: bool) ensures x == (e.nv() is Some) {/*-*/ !e.is_null() /*+*/}/*-*/)
                .unwrap_or(false);
        }
        false
    }
//@ end

//@ item src/matrix_graph.rs | impl<N, E, S: BuildHasher, Ty: EdgeType, Null: Nullable<Wrapped = E>, Ix: IndexType> MatrixGraph<N, E, S, Ty, Null, Ix> | fn extend_capacity_for_node
    #[inline]
    fn extend_capacity_for_node(&mut self, min_node: NodeIndex<Ix>, exact: bool)
        /*+*/requires old(self).wf(), min_node.i() < 0x1fff_ffff,
        ensures final(self).wf(), final(self).cap() > min_node.i(), final(self).cap() >= old(self).cap(),
            forall|a: int, b: int| #[trigger] final(self).cell(a, b) == old(self).cell(a, b),      // [growth_never_loses_moves_or_invents_an_edge]
            final(self).nb_edges == old(self).nb_edges, final(self).nodes == old(self).nodes/*-*/,
    {
        /*+*/proof { Null::default_law(); }/*-*/
        self.node_capacity = extend_linearized_matrix::<Ty, _>(
            &mut self.node_adjacencies,
            self.node_capacity,
            min_node.index() + 1,
            exact,
        );
        /*+*/proof {
            let d = self.d(); let w1 = old(self).cap(); let w2 = self.cap();
            let b1 = nn(old(self).node_adjacencies@); let b2 = nn(self.node_adjacencies@);
            assert forall|r: int, c: int| 0 <= r < w1 && 0 <= c < w1 implies b1[lin_pos(d, r, c, w1)] == #[trigger] b2[lin_pos(d, r, c, w2)] by {
                lemma_pos_canon(d, r, c, w1); lemma_pos_canon(d, r, c, w2);
                assert(self.node_adjacencies@[lin_pos(d, r, c, w2)] == old(self).node_adjacencies@[lin_pos(d, r, c, w1)]);
            }
            assert forall|r: int, c: int| 0 <= r < w2 && 0 <= c < w2 && !(r < w1 && c < w1) implies !#[trigger] b2[lin_pos(d, r, c, w2)] by {
                lemma_pos_canon(d, r, c, w2);
                assert(call_ensures(<Null as Default>::default, (), self.node_adjacencies@[lin_pos(d, r, c, w2)]));
            }
            lemma_total_growth(b1, w1, b2, w2, d, w2);
            assert forall|a: int, b: int| #[trigger] self.cell(a, b) == old(self).cell(a, b) by {
                if 0 <= a < w2 && 0 <= b < w2 {
                    lemma_pos_canon(d, a, b, w2);
                    if a < w1 && b < w1 { lemma_pos_canon(d, a, b, w1); assert(b1[lin_pos(d, a, b, w1)] == b2[lin_pos(d, a, b, w2)]); assert(self.node_adjacencies@[lin_pos(d, a, b, w2)] == old(self).node_adjacencies@[lin_pos(d, a, b, w1)]); }
                    else { assert(!b2[lin_pos(d, a, b, w2)]); }
                }
            }
            assert forall|a: int, b: int| #[trigger] self.has(a, b) implies self.nodes.live(a) && self.nodes.live(b) by { assert(old(self).has(a, b)); }
        }/*-*/
    }
//@ end

//@ item src/matrix_graph.rs | impl<N, E, S: BuildHasher, Ty: EdgeType, Null: Nullable<Wrapped = E>, Ix: IndexType> MatrixGraph<N, E, S, Ty, Null, Ix> | fn extend_capacity_for_edge
    #[inline]
    fn extend_capacity_for_edge(&mut self, a: NodeIndex<Ix>, b: NodeIndex<Ix>)
        /*+*/requires old(self).wf(), a.i() < 0x1fff_ffff, b.i() < 0x1fff_ffff,
        ensures final(self).wf(), final(self).cap() > a.i(), final(self).cap() > b.i(), final(self).cap() >= old(self).cap(),
            forall|x: int, y: int| #[trigger] final(self).cell(x, y) == old(self).cell(x, y),
            final(self).nb_edges == old(self).nb_edges, final(self).nodes == old(self).nodes/*-*/,
    {
        let min_node = cmp::max(a, b);
        if min_node.index() >= self.node_capacity {
            self.extend_capacity_for_node(min_node, false);
        }
    }
//@ end

//@ item src/matrix_graph.rs | impl<N, E, S: BuildHasher, Ty: EdgeType, Null: Nullable<Wrapped = E>, Ix: IndexType> MatrixGraph<N, E, S, Ty, Null, Ix> | fn update_edge
    #[track_caller]
    pub fn update_edge(&mut self, a: NodeIndex<Ix>, b: NodeIndex<Ix>, weight: E) -> (r: Option<E>)
        /*+*/requires old(self).wf(), old(self).nodes.live(a.i()), old(self).nodes.live(b.i()),     // domain of the statement: operations between existing nodes
            a.i() < 0x1fff_ffff, b.i() < 0x1fff_ffff, Null::storable(weight), old(self).nb_edges < usize::MAX,
        ensures final(self).wf(),
            r == old(self).cell(a.i(), b.i()),                                                        // [update_edge_returns_previous_weight]
            final(self).cell(a.i(), b.i()) == Some(weight),                                           // [update_edge_latest_weight]
            !final(self).d() ==> final(self).cell(b.i(), a.i()) == Some(weight),                      // [undirected_visible_from_both_endpoints]
            forall|x: int, y: int| !(x == a.i() && y == b.i()) && !(!final(self).d() && x == b.i() && y == a.i()) ==> #[trigger] final(self).cell(x, y) == old(self).cell(x, y),   // [update_edge_frame]
            final(self).nb_edges == old(self).nb_edges + (if old(self).has(a.i(), b.i()) { 0int } else { 1int }),   // [update_edge_count]
            final(self).nodes == old(self).nodes/*-*/,
    {
        self.extend_capacity_for_edge(a, b);
        let p = self.to_edge_position_unchecked(a, b);
        /*+*/let ghost mid = *self; proof { lemma_pos_canon(self.d(), a.i(), b.i(), self.cap()); Null::into_law(); }/*-*/
        let old_weight = mem::replace(&mut self.node_adjacencies[p], Null::new(weight));
        if old_weight.is_null() {
            self.nb_edges += 1;
        }
        /*+*/proof {
            self.lemma_cell_set(&mid, a.i(), b.i());
            assert(self.cell(a.i(), b.i()) == Some(weight));
            assert(mid.cell(a.i(), b.i()) == old_weight.nv());
            assert forall|x: int, y: int| #[trigger] self.has(x, y) implies self.nodes.live(x) && self.nodes.live(y) by {
                if (x == a.i() && y == b.i()) || (!self.d() && x == b.i() && y == a.i()) { } else { assert(self.cell(x, y) == mid.cell(x, y)); assert(mid.has(x, y)); }
            }
        }/*-*/
        old_weight.into()
    }
//@ end

    /// consequences of replacing exactly the cell of (a, b)
    pub proof fn lemma_cell_set(&self, o: &Self, a: int, b: int)
        requires o.node_capacity < 0x4000_0000, o.node_adjacencies@.len() == lin_size(o.d(), o.cap()), 0 <= a < o.cap(), 0 <= b < o.cap(),
            self.node_capacity == o.node_capacity, self.node_adjacencies@.len() == o.node_adjacencies@.len(),
            forall|i: int| 0 <= i < o.node_adjacencies@.len() && i != lin_pos(o.d(), a, b, o.cap()) ==> #[trigger] self.node_adjacencies@[i] == o.node_adjacencies@[i],
        ensures
            forall|x: int, y: int| !(x == a && y == b) && !(!o.d() && x == b && y == a) ==> #[trigger] self.cell(x, y) == o.cell(x, y),
            self.cell(a, b) == self.node_adjacencies@[lin_pos(o.d(), a, b, o.cap())].nv(),
            !o.d() ==> self.cell(b, a) == self.cell(a, b),
            total_count(nn(self.node_adjacencies@), o.d(), o.cap(), o.cap()) == total_count(nn(o.node_adjacencies@), o.d(), o.cap(), o.cap())
                + (if self.cell(a, b) is Some { 1int } else { 0int }) - (if o.cell(a, b) is Some { 1int } else { 0int }),
    {
        let d = o.d(); let w = o.cap(); let p = lin_pos(d, a, b, w);
        let r0 = canon_r(d, a, b); let c0 = canon_c(d, a, b);
        lemma_pos_canon(d, a, b, w);
        lemma_pos_canon(d, b, a, w);
        assert forall|x: int, y: int| !(x == a && y == b) && !(!d && x == b && y == a) implies #[trigger] self.cell(x, y) == o.cell(x, y) by {
            if 0 <= x < w && 0 <= y < w {
                lemma_pos_canon(d, x, y, w);
                if lin_pos(d, x, y, w) == p { lemma_pos_inj(d, canon_r(d, x, y), canon_c(d, x, y), r0, c0, w); }
            }
        }
        let b1 = nn(o.node_adjacencies@); let b2 = nn(self.node_adjacencies@);
        assert forall|r: int, c: int| canon(d, r, c, w) && !(r == r0 && c == c0) implies b1[lin_pos(d, r, c, w)] == #[trigger] b2[lin_pos(d, r, c, w)] by {
            if lin_pos(d, r, c, w) == p { lemma_pos_inj(d, r, c, r0, c0, w); }
            if d { lemma_flat_bound(r, c, w); } else { lemma_tri_bound(r, c, w); }
        }
        lemma_total_update(b1, b2, d, w, w, r0, c0);
    }
}


// ======================================================================================
// IdIterator (iteration over the live ids) and the remaining MatrixGraph operations
// ======================================================================================
/// ids in [lo, ub) that are not removed, ascending
pub open spec fn ids_from(lo: int, ub: int, removed: Set<usize>) -> Seq<usize>
    decreases ub - lo
{
    if lo >= ub || lo < 0 { Seq::empty() }
    else if removed.contains(lo as usize) { ids_from(lo + 1, ub, removed) }
    else { seq![lo as usize] + ids_from(lo + 1, ub, removed) }
}
pub proof fn lemma_ids_from(lo: int, ub: int, removed: Set<usize>, y: usize)
    requires 0 <= lo, ub <= usize::MAX
    ensures ids_from(lo, ub, removed).contains(y) <==> (lo <= y < ub && !removed.contains(y))
    decreases ub - lo
{
    if lo < ub {
        lemma_ids_from(lo + 1, ub, removed, y);
        let t = ids_from(lo + 1, ub, removed);
        if !removed.contains(lo as usize) {
            let s = seq![lo as usize] + t;
            if t.contains(y) { let i = choose|i: int| 0 <= i < t.len() && t[i] == y; assert(s[i + 1] == y); }
            if y == lo { assert(s[0] == y); }
            if s.contains(y) { let i = choose|i: int| 0 <= i < s.len() && s[i] == y; if i > 0 { assert(t[i - 1] == y); } }
        }
    }
}

//@ item src/matrix_graph.rs | - | struct IdIterator
/// Iterator over the live ids of an `IdStorage`, in ascending order.
#[verifier::reject_recursive_types(S)]
pub struct IdIterator<'a, S> {
    pub upper_bound: usize,
    pub removed_ids: &'a IndexSet<usize, S>,
    pub current: Option<usize>,
}
//@ end

impl<'a, S: BuildHasher> vstd::std_specs::iter::IteratorSpecImpl for IdIterator<'a, S> {
    open spec fn obeys_prophetic_iter_laws(&self) -> bool { true }
    open spec fn remaining(&self) -> Seq<usize> {
        ids_from(match self.current { None => 0, Some(c) => c + 1 }, self.upper_bound as int, self.removed_ids.view())
    }
    open spec fn decrease(&self) -> Option<nat> { Some((self.upper_bound + 1 - match self.current { None => 0int, Some(c) => c + 1 }) as nat) }
    open spec fn will_return_none(&self) -> bool { true }
    open spec fn peek(&self, i: int) -> Option<usize> { None }
}

//@ item src/matrix_graph.rs | - | impl<S: BuildHasher> Iterator for IdIterator<'_, S>
impl<S: BuildHasher> Iterator for IdIterator<'_, S> {
    type Item = usize;

    // TRUSTED against vstd's `Iterator::next` contract for the `remaining()` above: a trait-impl method cannot carry the precondition
    // the proof needs (`current + 1` must not overflow).  D17-twin: the same body is proved under that precondition in matrix_iditer_proof.rs
    #[verifier::external_body]
    fn next(&mut self) -> /*+*/(res:/*-*/ Option<Self::Item>/*+*/)
        ensures final(self).upper_bound == old(self).upper_bound, final(self).removed_ids == old(self).removed_ids/*-*/   // (proved for the twin as well)
    {
        // initialize / advance
        let current = {
            if self.current.is_none() {
                self.current = Some(0);
                self.current.as_mut().unwrap()
            } else {
                let current = self.current.as_mut().unwrap();
                *current += 1;
                current
            }
        };

        // skip removed ids
        while self.removed_ids.contains(current) && *current < self.upper_bound {
            *current += 1;
        }

        if *current < self.upper_bound {
            Some(*current)
        } else {
            None
        }
    }
}
//@ end

impl<T, S: BuildHasher> IdStorage<T, S> {
//@ item src/matrix_graph.rs | impl<T, S: BuildHasher> IdStorage<T, S> | fn iter_ids
    fn iter_ids(&self) -> (r: IdIterator<S>)
        /*+*/ensures r.obeys_prophetic_iter_laws(), r.decrease() is Some,
            r.remaining() == ids_from(0, self.upper_bound as int, self.removed_ids.view()),       // [iter_ids_ascending_from_zero]
            r.upper_bound == self.upper_bound, r.removed_ids == &self.removed_ids, r.current is None,
            forall|y: usize| r.remaining().contains(y) <==> self.live(y as int)/*-*/,     // [iter_ids_exactly_live]
    {
        /*+*/proof { assert forall|y: usize| ids_from(0, self.upper_bound as int, self.removed_ids.view()).contains(y) <==> self.live(y as int) by {
            lemma_ids_from(0, self.upper_bound as int, self.removed_ids.view(), y); } }/*-*/
        IdIterator {
            upper_bound: self.upper_bound,
            removed_ids: &self.removed_ids,
            current: None,
        }
    }
//@ end
}

impl<N, E, S: BuildHasher, Ty: EdgeType, Null: Nullable<Wrapped = E>, Ix: IndexType>
    MatrixGraph<N, E, S, Ty, Null, Ix>
{
//@ item src/matrix_graph.rs | impl<N, E, S: BuildHasher, Ty: EdgeType, Null: Nullable<Wrapped = E>, Ix: IndexType> MatrixGraph<N, E, S, Ty, Null, Ix> | fn assert_node_bounds
    fn assert_node_bounds(&self, a: NodeIndex<Ix>, b: NodeIndex<Ix>) -> (r: Result<(), MatrixError>)
        /*+*/ensures r is Ok <==> (a.i() < self.cap() && b.i() < self.cap())/*-*/,
    {
        if a.index() >= self.node_capacity {
            Err(MatrixError::NodeMissed(a.index()))
        } else if b.index() >= self.node_capacity {
            Err(MatrixError::NodeMissed(b.index()))
        } else {
            Ok(())
        }
    }
//@ end

//@ item src/matrix_graph.rs | impl<N, E, S: BuildHasher, Ty: EdgeType, Null: Nullable<Wrapped = E>, Ix: IndexType> MatrixGraph<N, E, S, Ty, Null, Ix> | fn try_update_edge
    pub fn try_update_edge(
        &mut self,
        a: NodeIndex<Ix>,
        b: NodeIndex<Ix>,
        weight: E,
    ) -> (r: Result<Option<E>, MatrixError>)
        /*+*/requires old(self).wf(), old(self).nodes.live(a.i()), old(self).nodes.live(b.i()),
            a.i() < 0x1fff_ffff, b.i() < 0x1fff_ffff, Null::storable(weight), old(self).nb_edges < usize::MAX,
        ensures final(self).wf(),
            r is Err <==> !(a.i() < old(self).cap() && b.i() < old(self).cap()),
            r is Err ==> final(self).node_adjacencies@ == old(self).node_adjacencies@ && final(self).nb_edges == old(self).nb_edges && final(self).node_capacity == old(self).node_capacity,   // [try_update_edge_err_unchanged]
            r is Ok ==> r->Ok_0 == old(self).cell(a.i(), b.i()) && final(self).cell(a.i(), b.i()) == Some(weight)
                && (forall|x: int, y: int| !(x == a.i() && y == b.i()) && !(!final(self).d() && x == b.i() && y == a.i()) ==> #[trigger] final(self).cell(x, y) == old(self).cell(x, y))
                && final(self).nb_edges == old(self).nb_edges + (if old(self).has(a.i(), b.i()) { 0int } else { 1int }),
            final(self).nodes == old(self).nodes/*-*/,
    {
        self.assert_node_bounds(a, b)?;
        Ok(self.update_edge(a, b, weight))
    }
//@ end

//@ item src/matrix_graph.rs | impl<N, E, S: BuildHasher, Ty: EdgeType, Null: Nullable<Wrapped = E>, Ix: IndexType> MatrixGraph<N, E, S, Ty, Null, Ix> | fn try_remove_edge
    pub fn try_remove_edge(&mut self, a: NodeIndex<Ix>, b: NodeIndex<Ix>) -> (r: Option<E>)
        /*+*/requires old(self).wf()
        ensures final(self).wf(),
            r == old(self).cell(a.i(), b.i()),                                                       // [try_remove_edge_returns_weight]
            final(self).cell(a.i(), b.i()) is None,
            forall|x: int, y: int| !(x == a.i() && y == b.i()) && !(!final(self).d() && x == b.i() && y == a.i()) ==> #[trigger] final(self).cell(x, y) == old(self).cell(x, y),   // [try_remove_edge_frame]
            final(self).nb_edges == old(self).nb_edges - (if old(self).has(a.i(), b.i()) { 1int } else { 0int }),   // [try_remove_edge_count]
            final(self).nodes == old(self).nodes/*-*/,
    {
        /*+*/proof { Null::into_law(); Null::default_law(); if a.i() < self.cap() && b.i() < self.cap() { lemma_pos_canon(self.d(), a.i(), b.i(), self.cap()); if self.has(a.i(), b.i()) { self.lemma_count_pos(a.i(), b.i()); } } }/*-*/
        let p = self.to_edge_position(a, b)?;
        if let Some(entry) = self.node_adjacencies.get_mut(p) {
            let old_weight = /*R:D16 mem::take(entry).into()? */ match mem::take(entry).into() { Some(v) => v, None => { proof { self.lemma_removed(old(self), a.i(), b.i()); } return None; } } /*-*/;
            self.nb_edges -= 1;
            /*+*/proof { self.lemma_removed(old(self), a.i(), b.i()); }/*-*/
            return Some(old_weight);
        }
        None
    }
//@ end

    /// the cell of (a, b) was emptied, nothing else touched (nb_edges not yet adjusted)
    pub proof fn lemma_removed(&self, o: &Self, a: int, b: int)
        requires o.wf(), 0 <= a < o.cap(), 0 <= b < o.cap(), self.node_capacity == o.node_capacity, self.nodes == o.nodes,
            self.node_adjacencies@.len() == o.node_adjacencies@.len(),
            forall|i: int| 0 <= i < o.node_adjacencies@.len() && i != lin_pos(o.d(), a, b, o.cap()) ==> #[trigger] self.node_adjacencies@[i] == o.node_adjacencies@[i],
            self.node_adjacencies@[lin_pos(o.d(), a, b, o.cap())].nv() is None,
        ensures
            forall|x: int, y: int| !(x == a && y == b) && !(!o.d() && x == b && y == a) ==> #[trigger] self.cell(x, y) == o.cell(x, y),
            self.cell(a, b) is None, !o.d() ==> self.cell(b, a) is None,
            total_count(nn(self.node_adjacencies@), o.d(), o.cap(), o.cap()) == o.nb_edges - (if o.has(a, b) { 1int } else { 0int }),
            forall|x: int, y: int| #[trigger] self.has(x, y) ==> self.nodes.live(x) && self.nodes.live(y),
    {
        self.lemma_cell_set(o, a, b);
        lemma_pos_canon(o.d(), a, b, o.cap());
        assert forall|x: int, y: int| #[trigger] self.has(x, y) implies self.nodes.live(x) && self.nodes.live(y) by {
            if (x == a && y == b) || (!o.d() && x == b && y == a) { } else { assert(self.cell(x, y) == o.cell(x, y)); assert(o.has(x, y)); }
        }
    }

    /// a stored edge makes the count positive
    pub proof fn lemma_count_pos(&self, a: int, b: int)
        requires self.node_capacity < 0x4000_0000, self.node_adjacencies@.len() == lin_size(self.d(), self.cap()), 0 <= a < self.cap(), 0 <= b < self.cap(), self.has(a, b)
        ensures total_count(nn(self.node_adjacencies@), self.d(), self.cap(), self.cap()) >= 1
    {
        let d = self.d(); let w = self.cap(); let b1 = nn(self.node_adjacencies@);
        let p = lin_pos(d, a, b, w);
        lemma_pos_canon(d, a, b, w);
        let b0 = b1.update(p, false);
        let r0 = canon_r(d, a, b); let c0 = canon_c(d, a, b);
        assert forall|r: int, c: int| canon(d, r, c, w) && !(r == r0 && c == c0) implies b0[lin_pos(d, r, c, w)] == #[trigger] b1[lin_pos(d, r, c, w)] by {
            if lin_pos(d, r, c, w) == p { lemma_pos_inj(d, r, c, r0, c0, w); }
            if d { lemma_flat_bound(r, c, w); } else { lemma_tri_bound(r, c, w); }
        }
        lemma_total_update(b0, b1, d, w, w, r0, c0);
        lemma_total_nonneg(b0, d, w, w);
    }
}
pub proof fn lemma_row_nonneg(b: Seq<bool>, d: bool, w: int, r: int, ncols: int)
    ensures row_count(b, d, w, r, ncols) >= 0
    decreases ncols
{ if ncols > 0 { lemma_row_nonneg(b, d, w, r, ncols - 1); } }
pub proof fn lemma_total_nonneg(b: Seq<bool>, d: bool, w: int, nrows: int)
    ensures total_count(b, d, w, nrows) >= 0
    decreases nrows
{ if nrows > 0 { lemma_total_nonneg(b, d, w, nrows - 1); lemma_row_nonneg(b, d, w, nrows - 1, ncols_of(d, nrows - 1, w)); } }

impl<N, E, S: BuildHasher, Ty: EdgeType, Null: Nullable<Wrapped = E>, Ix: IndexType>
    MatrixGraph<N, E, S, Ty, Null, Ix>
{
    /// the state of remove_node(a) after the ids in `done` have been processed
    pub open spec fn partly_removed(&self, o: &Self, a: int, done: Seq<usize>) -> bool {
        &&& self.node_capacity == o.node_capacity && self.nodes == o.nodes && self.node_adjacencies@.len() == o.node_adjacencies@.len()
        &&& self.nb_edges == total_count(nn(self.node_adjacencies@), self.d(), self.cap(), self.cap())
        &&& forall|x: int, y: int| #[trigger] self.cell(x, y) ==
                (if (x == a && done.contains(y as usize) && 0 <= y) || (y == a && done.contains(x as usize) && 0 <= x) { None } else { o.cell(x, y) })
    }

    /// clearing the cell of (x0, y0) as one step of remove_node
    pub proof fn lemma_clear_step(&self, m: &Self, x0: int, y0: int)
        requires m.node_capacity < 0x4000_0000, m.node_adjacencies@.len() == lin_size(m.d(), m.cap()), 0 <= x0 < m.cap(), 0 <= y0 < m.cap(),
            m.nb_edges == total_count(nn(m.node_adjacencies@), m.d(), m.cap(), m.cap()),
            self.node_capacity == m.node_capacity, self.node_adjacencies@.len() == m.node_adjacencies@.len(),
            forall|i: int| 0 <= i < m.node_adjacencies@.len() && i != lin_pos(m.d(), x0, y0, m.cap()) ==> #[trigger] self.node_adjacencies@[i] == m.node_adjacencies@[i],
            self.node_adjacencies@[lin_pos(m.d(), x0, y0, m.cap())].nv() is None,
            self.nb_edges == m.nb_edges - (if m.has(x0, y0) { 1int } else { 0int }),
        ensures
            self.nb_edges == total_count(nn(self.node_adjacencies@), self.d(), self.cap(), self.cap()),
            forall|x: int, y: int| #[trigger] self.cell(x, y) == (if (x == x0 && y == y0) || (!m.d() && x == y0 && y == x0) { None } else { m.cell(x, y) }),
    {
        self.lemma_cell_set(m, x0, y0);
        lemma_pos_canon(m.d(), x0, y0, m.cap());
    }

//@ item src/matrix_graph.rs | impl<N, E, S: BuildHasher, Ty: EdgeType, Null: Nullable<Wrapped = E>, Ix: IndexType> MatrixGraph<N, E, S, Ty, Null, Ix> | fn remove_node
    /// Remove `a` from the graph.
    ///
    /// Computes in **O(V)** time, due to the removal of edges with other nodes.
    ///
    /// **Panics** if the node `a` does not exist.
    #[track_caller]
    pub fn remove_node(&mut self, a: NodeIndex<Ix>) -> (r: N)
        /*+*/requires old(self).wf(), old(self).nodes.live(a.i()),      // documented panic otherwise
        ensures final(self).wf(),
            Some(r) == old(self).nodes.elements@[a.i()],                                                       // [remove_node_returns_weight]
            !final(self).nodes.live(a.i()), forall|i: int| i != a.i() ==> final(self).nodes.live(i) == old(self).nodes.live(i),   // [remove_node_ids_stable]
            forall|x: int, y: int| #[trigger] final(self).cell(x, y) == (if x == a.i() || y == a.i() { None } else { old(self).cell(x, y) }),   // [remove_node_removes_exactly_incident_edges]
            final(self).nb_edges == total_count(nn(final(self).node_adjacencies@), final(self).d(), final(self).cap(), final(self).cap())/*-*/,   // [remove_node_edge_count_exact]
    {
        /*+*/proof { Null::default_law(); }
        let ghost mut done: Seq<usize> = Seq::empty();/*-*/
        /*R:D11 for id in */ let mut __it = /*-*/ self.nodes.iter_ids() /*R:D11 */; let ghost all = __it.remaining(); loop 
            invariant __it.obeys_prophetic_iter_laws(), __it.decrease() is Some,
                all == done + __it.remaining(),
                old(self).wf(), old(self).nodes.live(a.i()),
                forall|y: usize| all.contains(y) <==> old(self).nodes.live(y as int),
                self.partly_removed(old(self), a.i(), done),
                forall|d: Null| #[trigger] call_ensures(<Null as Default>::default, (), d) ==> d.nv() is None,
            ensures __it.remaining().len() == 0, all == done,
            decreases __it.decrease()->Some_0/*-*/
        { /*+*/match __it.next() { None => { proof { assert(done + Seq::<usize>::empty() =~= done); } break; }, Some(id) => {
            let ghost m0 = *self;
            proof { assert(all.contains(id)) by { assert(all[done.len() as int] == id); } assert(old(self).nodes.live(id as int)); assert(id <= Ix::spec_max()); }/*-*/
            let position = self.to_edge_position(a, NodeIndex::new(id));
            if let Some(pos) = position {
                /*+*/proof { lemma_pos_canon(self.d(), a.i(), id as int, self.cap()); if self.has(a.i(), id as int) { self.lemma_count_pos(a.i(), id as int); } }/*-*/
                if !mem::take(&mut self.node_adjacencies[pos]).is_null() {
                    self.nb_edges -= 1;
                }
                /*+*/proof { self.lemma_clear_step(&m0, a.i(), id as int); }/*-*/
            }
            /*+*/let ghost m1 = *self;/*-*/

            if Ty::is_directed() {
                let position = self.to_edge_position(NodeIndex::new(id), a);
                if let Some(pos) = position {
                    /*+*/proof { lemma_pos_canon(self.d(), id as int, a.i(), self.cap()); if self.has(id as int, a.i()) { self.lemma_count_pos(id as int, a.i()); } }/*-*/
                    if !mem::take(&mut self.node_adjacencies[pos]).is_null() {
                        self.nb_edges -= 1;
                    }
                    /*+*/proof { self.lemma_clear_step(&m1, id as int, a.i()); }/*-*/
                }
            }
            /*+*/proof {
                let done2 = done.push(id);
                assert(all =~= done2 + __it.remaining());
                assert forall|x: int, y: int| #[trigger] self.cell(x, y) ==
                    (if (x == a.i() && done2.contains(y as usize) && 0 <= y) || (y == a.i() && done2.contains(x as usize) && 0 <= x) { None } else { old(self).cell(x, y) }) by {
                    assert(forall|z: usize| done2.contains(z) <==> (done.contains(z) || z == id)) by {
                        assert forall|z: usize| done2.contains(z) <==> (done.contains(z) || z == id) by {
                            if done.contains(z) { let i = choose|i: int| 0 <= i < done.len() && done[i] == z; assert(done2[i] == z); }
                            if z == id { assert(done2[done.len() as int] == z); }
                            if done2.contains(z) { let i = choose|i: int| 0 <= i < done2.len() && done2[i] == z; if i < done.len() { assert(done[i] == z); } }
                        }
                    }
                    // cells outside the capacity are None before and after
                    assert(m0.cell(x, y) == (if (x == a.i() && done.contains(y as usize) && 0 <= y) || (y == a.i() && done.contains(x as usize) && 0 <= x) { None } else { old(self).cell(x, y) }));
                    if !(0 <= x < self.cap() && 0 <= y < self.cap()) { assert(old(self).cell(x, y) is None); }
                }
                done = done2;
            }
        } } /*-*/ }
        /*+*/proof {
            assert forall|x: int, y: int| #[trigger] self.cell(x, y) == (if x == a.i() || y == a.i() { None } else { old(self).cell(x, y) }) by {
                if x == a.i() && !(done.contains(y as usize) && 0 <= y) { if old(self).has(x, y) { assert(old(self).nodes.live(y)); assert(all.contains(y as usize)); } }
                if y == a.i() && !(done.contains(x as usize) && 0 <= x) { if old(self).has(x, y) { assert(old(self).nodes.live(x)); assert(all.contains(x as usize)); } }
            }
        }

        let ghost mid = *self;
        let r = {/*-*/ self.nodes.remove(a.index()) /*+*/};
        proof {
            assert forall|x: int, y: int| #[trigger] self.cell(x, y) == (if x == a.i() || y == a.i() { None } else { old(self).cell(x, y) }) by { assert(self.cell(x, y) == mid.cell(x, y)); }
            assert forall|x: int, y: int| #[trigger] self.has(x, y) implies self.nodes.live(x) && self.nodes.live(y) by { assert(self.cell(x, y) == mid.cell(x, y)); assert(old(self).has(x, y)); }
        }
        r/*-*/
    }
//@ end
}

impl<N, E, S: BuildHasher, Ty: EdgeType, Null: Nullable<Wrapped = E>, Ix: IndexType>
    MatrixGraph<N, E, S, Ty, Null, Ix>
{
//@ item src/matrix_graph.rs | impl<N, E, S: BuildHasher, Ty: EdgeType, Null: Nullable<Wrapped = E>, Ix: IndexType> MatrixGraph<N, E, S, Ty, Null, Ix> | fn with_capacity_and_hasher
    /// Create a new `MatrixGraph` with estimated capacity for nodes and the provided hasher.
    pub fn with_capacity_and_hasher(node_capacity: usize, hasher: S) -> (m: Self)
        /*+*/requires node_capacity <= Ix::spec_max(), node_capacity <= 0x1fff_ffff,    // the debug assertion of the constructor
        ensures m.wf(), m.nb_edges == 0, forall|i: int| !m.nodes.live(i), forall|a: int, b: int| !#[trigger] m.has(a, b)/*-*/,   // [new_is_empty]
    {
        let mut m = Self {
            node_adjacencies: vec![],
            node_capacity: 0,
            nodes: IdStorage::with_capacity_and_hasher(node_capacity, hasher),
            nb_edges: 0,
            ty: PhantomData,
            ix: PhantomData,
        };

        /*R:D2 debug_assert!(node_capacity <= <Ix as IndexType>::max().index()); */ let __c = node_capacity <= <Ix as IndexType>::max().index(); assert(__c); /*-*/
        if node_capacity > 0 {
            /*+*/proof { assert(lin_size(m.d(), 0) == 0); assert(m.wf()); }/*-*/
            m.extend_capacity_for_node(NodeIndex::new(node_capacity - 1), true);
        }

        m
    }
//@ end

//@ item src/matrix_graph.rs | impl<N, E, S: BuildHasher, Ty: EdgeType, Null: Nullable<Wrapped = E>, Ix: IndexType> MatrixGraph<N, E, S, Ty, Null, Ix> | fn add_node
    #[track_caller]
    pub fn add_node(&mut self, weight: N) -> (r: NodeIndex<Ix>)
        /*+*/requires old(self).wf(),
            old(self).nodes.upper_bound < Ix::spec_max() || old(self).nodes.removed_ids.view() != Set::<usize>::empty(),   // the graph is not full
        ensures final(self).wf(),
            !old(self).nodes.live(r.i()) && final(self).nodes.live(r.i()),                                     // [add_node_fresh_or_reused_vacant_id]
            forall|i: int| i != r.i() ==> final(self).nodes.live(i) == old(self).nodes.live(i),                 // [add_node_ids_stable]
            forall|x: int, y: int| #[trigger] final(self).cell(x, y) == old(self).cell(x, y),                   // [add_node_no_edges_touched]
            forall|y: int| !final(self).has(r.i(), y) && !final(self).has(y, r.i()),                            // [reused_id_starts_without_edges]
            final(self).nodes.elements@[r.i()] == Some(weight), final(self).nb_edges == old(self).nb_edges/*-*/,
    {
        /*+*/proof { assert forall|y: int| !old(self).has(y, y) || old(self).nodes.live(y) by { } }
        let ghost o = *self;
        let r = {/*-*/ NodeIndex::new(self.nodes.add(weight)) /*+*/};
        proof {
            assert forall|x: int, y: int| #[trigger] self.cell(x, y) == o.cell(x, y) by { }
            assert forall|x: int, y: int| #[trigger] self.has(x, y) implies self.nodes.live(x) && self.nodes.live(y) by { assert(o.has(x, y)); }
            assert forall|y: int| !self.has(r.i(), y) && !self.has(y, r.i()) by { if self.has(r.i(), y) { assert(o.has(r.i(), y)); } if self.has(y, r.i()) { assert(o.has(y, r.i())); } }
        }
        r/*-*/
    }
//@ end

//@ item src/matrix_graph.rs | impl<N, E, S: BuildHasher, Ty: EdgeType, Null: Nullable<Wrapped = E>, Ix: IndexType> MatrixGraph<N, E, S, Ty, Null, Ix> | fn try_add_node
    pub fn try_add_node(&mut self, weight: N) -> (r: Result<NodeIndex<Ix>, MatrixError>)
        /*+*/requires old(self).wf(), old(self).nodes.upper_bound < usize::MAX,    // fewer than 2^64 - 1 ids ever handed out (only relevant for Ix = usize)
        ensures final(self).wf(),
            r is Err ==> final(self).nodes == old(self).nodes && final(self).node_adjacencies@ == old(self).node_adjacencies@ && final(self).nb_edges == old(self).nb_edges,   // [try_add_node_err_unchanged]
            r is Err <==> (Ix::spec_max() != usize::MAX && old(self).nodes.upper_bound - old(self).nodes.removed_ids.view().len() == Ix::spec_max()),   // [try_add_node_err_iff_full]
            r is Ok ==> !old(self).nodes.live(r->Ok_0.i()) && final(self).nodes.live(r->Ok_0.i())
                && (forall|i: int| i != r->Ok_0.i() ==> final(self).nodes.live(i) == old(self).nodes.live(i))
                && (forall|x: int, y: int| #[trigger] final(self).cell(x, y) == old(self).cell(x, y))/*-*/,
    {
        /*+*/proof { assert(!0usize == 0xffff_ffff_ffff_ffffusize) by (bit_vector); lemma_subset_of_range(self.nodes.removed_ids.view(), self.nodes.upper_bound as int);
            if self.nodes.removed_ids.view() =~= Set::<usize>::empty() { } }/*-*/
        let node_idx = NodeIndex::<Ix>::new(self.nodes.len());
        if !(<Ix as IndexType>::max().index() == !0 || NodeIndex::end() != node_idx) {
            return Err(MatrixError::NodeIxLimit);
        }
        /*+*/let ghost o = *self;
        let r = {/*-*/ Ok(NodeIndex::new(self.nodes.add(weight))) /*+*/};
        proof {
            assert forall|x: int, y: int| #[trigger] self.cell(x, y) == o.cell(x, y) by { }
            assert forall|x: int, y: int| #[trigger] self.has(x, y) implies self.nodes.live(x) && self.nodes.live(y) by { assert(o.has(x, y)); }
        }
        r/*-*/
    }
//@ end

//@ item src/matrix_graph.rs | impl<N, E, S: BuildHasher, Ty: EdgeType, Null: Nullable<Wrapped = E>, Ix: IndexType> MatrixGraph<N, E, S, Ty, Null, Ix> | fn add_edge
    #[track_caller]
    pub fn add_edge(&mut self, a: NodeIndex<Ix>, b: NodeIndex<Ix>, weight: E)
        /*+*/requires old(self).wf(), old(self).nodes.live(a.i()), old(self).nodes.live(b.i()),
            a.i() < 0x1fff_ffff, b.i() < 0x1fff_ffff, Null::storable(weight), old(self).nb_edges < usize::MAX,
            !old(self).has(a.i(), b.i()),                                  // [add_edge_panics_if_present] documented panic
        ensures final(self).wf(), final(self).cell(a.i(), b.i()) == Some(weight),
            !final(self).d() ==> final(self).cell(b.i(), a.i()) == Some(weight),
            forall|x: int, y: int| !(x == a.i() && y == b.i()) && !(!final(self).d() && x == b.i() && y == a.i()) ==> #[trigger] final(self).cell(x, y) == old(self).cell(x, y),
            final(self).nb_edges == old(self).nb_edges + 1, final(self).nodes == old(self).nodes/*-*/,   // [add_edge_count]
    {
        let old_edge_id = self.update_edge(a, b, weight);
        assert(old_edge_id.is_none());
    }
//@ end

//@ item src/matrix_graph.rs | impl<N, E, S: BuildHasher, Ty: EdgeType, Null: Nullable<Wrapped = E>, Ix: IndexType> MatrixGraph<N, E, S, Ty, Null, Ix> | fn remove_edge
    #[track_caller]
    pub fn remove_edge(&mut self, a: NodeIndex<Ix>, b: NodeIndex<Ix>) -> (r: E)
        /*+*/requires old(self).wf(), old(self).has(a.i(), b.i()),             // [remove_edge_panics_if_absent] documented panic
        ensures final(self).wf(), Some(r) == old(self).cell(a.i(), b.i()), final(self).cell(a.i(), b.i()) is None,
            forall|x: int, y: int| !(x == a.i() && y == b.i()) && !(!final(self).d() && x == b.i() && y == a.i()) ==> #[trigger] final(self).cell(x, y) == old(self).cell(x, y),
            final(self).nb_edges == old(self).nb_edges - 1, final(self).nodes == old(self).nodes/*-*/,   // [remove_edge_count]
    {
        /*+*/proof { Null::into_law(); Null::default_law(); lemma_pos_canon(self.d(), a.i(), b.i(), self.cap()); self.lemma_count_pos(a.i(), b.i()); }/*-*/
        let p = self
            .to_edge_position(a, b)
            .expect("No edge found between the nodes.");
        let old_weight = mem::take(&mut self.node_adjacencies[p]).into().unwrap();
        let old_weight: Option<_> = old_weight.into();
        self.nb_edges -= 1;
        /*+*/proof { self.lemma_removed(old(self), a.i(), b.i()); }/*-*/
        old_weight.unwrap()
    }
//@ end
}
