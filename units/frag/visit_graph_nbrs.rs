// ======================================================================================
// fragment visit_graph_nbrs.rs - IntoNeighbors / IntoNeighborsDirected for &Graph proved against the
// trait contracts (property C06): the neighbours the traits show are exactly the far endpoints of the
// graph's edges, with the documented directed / undirected conventions
// ======================================================================================
impl<N, E, Ty, Ix> Graph<N, E, Ty, Ix>
where
    Ty: EdgeType,
    Ix: IndexType,
{
    /// edge e goes from node x to node y
    pub open spec fn from_to(&self, e: int, x: int, y: int) -> bool { 0 <= e < self.m() && self.edges@[e].node[0].i() == x && self.edges@[e].node[1].i() == y }
    /// "a and b are joined in direction k" over the edge set (either orientation when undirected)
    pub open spec fn joined(&self, a: int, b: int, k: int) -> bool {
        if Ty::spec_is_directed() { if k == 0 { exists|e: int| self.from_to(e, a, b) } else { exists|e: int| self.from_to(e, b, a) } }
        else { exists|e: int| self.from_to(e, a, b) || self.from_to(e, b, a) }
    }
    /// the neighbour sequences are exactly the matching part of the edge set
#[verifier::spinoff_prover]
    pub proof fn lemma_nbrs_contains(&self, a: int, k: int, b: NodeIndex<Ix>)
        requires self.wf(), 0 <= a < self.n(), 0 <= k < 2
        ensures self.nbrs_of(a, k).contains(b) <==> self.joined(a, b.i(), k)
    {
        let es = self.edges@; let o = self.outs()[a]; let i_ = self.inns()[a];
        lemma_slist_range(es, self.nodes@[a].next[0], 0, o);
        lemma_slist_range(es, self.nodes@[a].next[1], 1, i_);
        let no = nb_out(es, o);
        // targets of the outgoing list
        assert(no.contains(b) <==> (exists|e: int| self.from_to(e, a, b.i()))) by {
            if no.contains(b) { let q = choose|q: int| 0 <= q < no.len() && no[q] == b; assert(es[o[q]].node[0].0.ix() == a); assert(self.from_to(o[q], a, b.i())); }
            if exists|e: int| self.from_to(e, a, b.i()) {
                let e = choose|e: int| self.from_to(e, a, b.i());
                assert(self.outs()[es[e].node[0].0.ix() as int].contains(e));
                let q = choose|q: int| 0 <= q < o.len() && o[q] == e;
                Ix::ix_inj(es[e].node[1].0, b.0);
                assert(no[q] == b);
            }
        }
        if Ty::spec_is_directed() {
            if k == 1 {
                let ni = Seq::new(i_.len(), |j: int| es[i_[j]].node[0]);
                if ni.contains(b) { let q = choose|q: int| 0 <= q < ni.len() && ni[q] == b; assert(es[i_[q]].node[1].0.ix() == a); assert(self.from_to(i_[q], b.i(), a)); }
                if exists|e: int| self.from_to(e, b.i(), a) {
                    let e = choose|e: int| self.from_to(e, b.i(), a);
                    assert(self.inns()[es[e].node[1].0.ix() as int].contains(e));
                    let q = choose|q: int| 0 <= q < i_.len() && i_[q] == e;
                    Ix::ix_inj(es[e].node[0].0, b.0);
                    assert(ni[q] == b);
                }
            }
        } else {
            let ni = nb_in(es, i_, a);
            lemma_nb_in_contains(es, i_, a, b);
            let full = no + ni;
            if full.contains(b) {
                let q = choose|q: int| 0 <= q < full.len() && full[q] == b;
                if q < no.len() { assert(no[q] == b); assert(no.contains(b)); }
                else { assert(ni[q - no.len()] == b); assert(ni.contains(b));
                    let j = choose|j: int| 0 <= j < i_.len() && es[#[trigger] i_[j]].node[0] == b && b.0.ix() != a;
                    assert(es[i_[j]].node[1].0.ix() == a); assert(self.from_to(i_[j], b.i(), a)); }
            }
            if exists|e: int| self.from_to(e, a, b.i()) || self.from_to(e, b.i(), a) {
                let e = choose|e: int| self.from_to(e, a, b.i()) || self.from_to(e, b.i(), a);
                if self.from_to(e, a, b.i()) { assert(no.contains(b)); let q = choose|q: int| 0 <= q < no.len() && no[q] == b; assert(full[q] == b); }
                else {
                    if b.i() == a { assert(self.from_to(e, a, b.i())); assert(no.contains(b)); let q = choose|q: int| 0 <= q < no.len() && no[q] == b; assert(full[q] == b); }
                    else {
                        assert(self.inns()[es[e].node[1].0.ix() as int].contains(e));
                        let j = choose|j: int| 0 <= j < i_.len() && i_[j] == e;
                        Ix::ix_inj(es[e].node[0].0, b.0);
                        assert(es[i_[j]].node[0] == b && b.0.ix() != a);
                        assert(ni.contains(b));
                        let q = choose|q: int| 0 <= q < ni.len() && ni[q] == b; assert(full[no.len() + q] == b);
                    }
                }
            }
        }
    }
    /// neighbours are nodes
    pub proof fn lemma_nbrs_are_nodes(&self, a: int, k: int)
        requires self.wf(), 0 <= k < 2
        ensures forall|i: int| 0 <= i < self.nbrs_of(a, k).len() ==> (#[trigger] self.nbrs_of(a, k)[i]).i() < self.n()
    {
        assert forall|i: int| 0 <= i < self.nbrs_of(a, k).len() implies (#[trigger] self.nbrs_of(a, k)[i]).i() < self.n() by {
            let b = self.nbrs_of(a, k)[i];
            assert(self.nbrs_of(a, k).contains(b));
            if 0 <= a < self.n() {
                self.lemma_nbrs_contains(a, k, b);
                if Ty::spec_is_directed() {
                    if k == 0 { let e = choose|e: int| self.from_to(e, a, b.i()); assert(self.edges@[e].node[1].0.ix() < self.nodes@.len()); }
                    else { let e = choose|e: int| self.from_to(e, b.i(), a); assert(self.edges@[e].node[0].0.ix() < self.nodes@.len()); }
                } else {
                    let e = choose|e: int| self.from_to(e, a, b.i()) || self.from_to(e, b.i(), a);
                    assert(self.edges@[e].node[0].0.ix() < self.nodes@.len() && self.edges@[e].node[1].0.ix() < self.nodes@.len());
                }
            }
        }
    }
}

//@ item src/graph_impl/mod.rs | - | impl<'a, N, E: 'a, Ty, Ix> visit::IntoNeighbors for &'a Graph<N, E, Ty, Ix> where Ty: EdgeType, Ix: IndexType
impl<'a, N, E: 'a, Ty, Ix> visit::IntoNeighbors for &'a Graph<N, E, Ty, Ix>
where
    Ty: EdgeType,
    Ix: IndexType,
{
    type Neighbors = Neighbors<'a, E, Ix>;
    /*+*/
    open spec fn inv(self) -> bool { self.wf() }
    open spec fn is_node(self, a: NodeIndex<Ix>) -> bool { a.i() < self.n() }
    open spec fn succ(self, a: NodeIndex<Ix>) -> Seq<NodeIndex<Ix>> { self.nbrs_of(a.i(), 0) }
    proof fn succ_law(self, a: NodeIndex<Ix>) { self.lemma_nbrs_are_nodes(a.i(), 0); }
    /*-*/
    fn neighbors(self, n: NodeIndex<Ix>) -> Neighbors<'a, E, Ix> {
        Graph::neighbors(self, n)
    }
}
//@ end

//@ item src/graph_impl/mod.rs | - | impl<'a, N, E: 'a, Ty, Ix> visit::IntoNeighborsDirected for &'a Graph<N, E, Ty, Ix> where Ty: EdgeType, Ix: IndexType
impl<'a, N, E: 'a, Ty, Ix> visit::IntoNeighborsDirected for &'a Graph<N, E, Ty, Ix>
where
    Ty: EdgeType,
    Ix: IndexType,
{
    type NeighborsDirected = Neighbors<'a, E, Ix>;
    /*+*/
    open spec fn nbrs(self, a: NodeIndex<Ix>, d: Direction) -> Seq<NodeIndex<Ix>> { self.nbrs_of(a.i(), d.k()) }
    proof fn dir_law(self, a: NodeIndex<Ix>, b: NodeIndex<Ix>) {
        self.lemma_nbrs_are_nodes(a.i(), 1);
        if a.i() < self.n() {
            self.lemma_nbrs_contains(a.i(), 1, b);
            if b.i() < self.n() { self.lemma_nbrs_contains(b.i(), 0, a); }
            else {
                // an identifier beyond the node array is nobody's neighbour
                if self.nbrs_of(a.i(), 1).contains(b) {
                    let q = choose|q: int| 0 <= q < self.nbrs_of(a.i(), 1).len() && self.nbrs_of(a.i(), 1)[q] == b;
                    assert(self.nbrs_of(a.i(), 1)[q].i() < self.n());
                }
            }
        } else {
            // a is not a node: it has no incoming neighbours, and it is nobody's successor
            if b.i() < self.n() && self.nbrs_of(b.i(), 0).contains(a) {
                self.lemma_nbrs_are_nodes(b.i(), 0);
                let q = choose|q: int| 0 <= q < self.nbrs_of(b.i(), 0).len() && self.nbrs_of(b.i(), 0)[q] == a;
                assert(self.nbrs_of(b.i(), 0)[q].i() < self.n());
            }
        }
    }
    /*-*/
    fn neighbors_directed(self, n: NodeIndex<Ix>, d: Direction) -> Neighbors<'a, E, Ix> {
        Graph::neighbors_directed(self, n, d)
    }
}
//@ end
