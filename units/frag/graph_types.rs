// fragment graph_types.rs - Node/Edge/Graph structs, GraphError, index_twice (src/graph_impl/mod.rs)
//@ item src/graph_impl/mod.rs | - | const DIRECTIONS
const DIRECTIONS: [Direction; 2] = [Outgoing, Incoming];
//@ end

//@ item src/graph_impl/mod.rs | - | struct Node
/// The graph's node type.
pub struct Node<N, Ix = DefaultIx> {
    /// Associated node data.
    pub weight: N,
    /// Next edge in outgoing and incoming edge lists.
    pub next: [EdgeIndex<Ix>; 2],
}
//@ end

//@ item src/graph_impl/mod.rs | - | struct Edge
/// The graph's edge type.
pub struct Edge<E, Ix = DefaultIx> {
    /// Associated edge data.
    pub weight: E,
    /// Next edge in outgoing and incoming edge lists.
    pub next: [EdgeIndex<Ix>; 2],
    /// Start and End node index
    pub node: [NodeIndex<Ix>; 2],
}
//@ end

impl<N, Ix: IndexType> Node<N, Ix> {
//@ item src/graph_impl/mod.rs | impl<N, Ix: IndexType> Node<N, Ix> | fn next_edge
    /// Accessor for data structure internals: the first edge in the given direction.
    pub fn next_edge(&self, dir: Direction) -> (r: EdgeIndex<Ix>)
        /*+*/ensures r == self.next[dir.k()]/*-*/
    {
        self.next[dir.index()]
    }
//@ end
}

impl<E, Ix: IndexType> Edge<E, Ix> {
//@ item src/graph_impl/mod.rs | impl<E, Ix: IndexType> Edge<E, Ix> | fn next_edge
    /// Accessor for data structure internals: the next edge for the given direction.
    pub fn next_edge(&self, dir: Direction) -> (r: EdgeIndex<Ix>)
        /*+*/ensures r == self.next[dir.k()]/*-*/
    {
        self.next[dir.index()]
    }
//@ end
//@ item src/graph_impl/mod.rs | impl<E, Ix: IndexType> Edge<E, Ix> | fn source
    /// Return the source node index.
    pub fn source(&self) -> (r: NodeIndex<Ix>)
        /*+*/ensures r == self.node[0]/*-*/
    {
        self.node[0]
    }
//@ end
//@ item src/graph_impl/mod.rs | impl<E, Ix: IndexType> Edge<E, Ix> | fn target
    /// Return the target node index.
    pub fn target(&self) -> (r: NodeIndex<Ix>)
        /*+*/ensures r == self.node[1]/*-*/
    {
        self.node[1]
    }
//@ end
}

//@ item src/graph_impl/mod.rs | - | enum GraphError
/// The error type for fallible `Graph` & `StableGraph` operations.
#[derive(Debug, Clone, Copy, PartialEq, Eq)]
pub enum GraphError {
    /// The Graph is at the maximum number of nodes for its index.
    NodeIxLimit,

    /// The Graph is at the maximum number of edges for its index.
    EdgeIxLimit,

    /// The node with the specified index is missing from the graph.
    NodeMissed(usize),

    /// Node indices out of bounds.
    NodeOutBounds,
}
//@ end

// D9: derived PartialEq is structural (trusted derive output)
impl PartialEqSpecImpl for GraphError {
    open spec fn obeys_eq_spec() -> bool { true }
    open spec fn eq_spec(&self, other: &Self) -> bool { *self == *other }
}

//@ item src/graph_impl/mod.rs | - | struct Graph
pub struct Graph<N, E, Ty = Directed, Ix = DefaultIx> {
    pub nodes: Vec<Node<N, Ix>>,
    pub edges: Vec<Edge<E, Ix>>,
    pub ty: PhantomData<Ty>,
}
//@ end

//@ item src/graph_impl/mod.rs | - | enum Pair
enum Pair<T> {
    Both(T, T),
    One(T),
    None,
}
//@ end

//@ item src/graph_impl/mod.rs | - | fn index_twice
/// Get mutable references at index `a` and `b`.
// `unsafe` raw-pointer body: contract only in Verus (trusted here), checked on the real body by the
// Kani harness `index_twice_contract` (complete in a, b; bounded in the slice length).
#[verifier::external_body]
fn index_twice<T>(slc: &mut [T], a: usize, b: usize) -> (r: Pair<&mut T>)
    /*+*/ensures
        match r {
            Pair::None => (a >= old(slc)@.len() || b >= old(slc)@.len()) && final(slc)@ == old(slc)@,
            Pair::One(x) => a == b && a < old(slc)@.len() && *x == old(slc)@[a as int]
                 && final(slc)@ == old(slc)@.update(a as int, *final(x)),
            Pair::Both(x, y) => a != b && a < old(slc)@.len() && b < old(slc)@.len()
                 && *x == old(slc)@[a as int] && *y == old(slc)@[b as int]
                 && final(slc)@ == old(slc)@.update(a as int, *final(x)).update(b as int, *final(y)),
        }/*-*/
{
    if max(a, b) >= slc.len() {
        Pair::None
    } else if a == b {
        Pair::One(&mut slc[max(a, b)])
    } else {
        // safe because a, b are in bounds and distinct
        unsafe {
            let ptr = slc.as_mut_ptr();
            let ar = &mut *ptr.add(a);
            let br = &mut *ptr.add(b);
            Pair::Both(ar, br)
        }
    }
}
//@ end
