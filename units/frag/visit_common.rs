// ======================================================================================
// fragment visit_common.rs - shared by the visit-trait units: the `visit::` path, NodeIndex as an IndexType,
// the EdgeRef trait contract, matrix-cell arithmetic, the &G delegations written out
// ======================================================================================
/// the repository refers to the traits as `visit::Trait`
pub mod visit {
    pub use super::*;
}

//@ item src/graph_impl/mod.rs | - | impl<Ix: IndexType> IndexType for NodeIndex<Ix>
unsafe impl<Ix: IndexType> IndexType for NodeIndex<Ix> {
    /*+*/
    open spec fn ix(&self) -> usize { self.0.ix() }
    open spec fn spec_max() -> usize { Ix::spec_max() }
    open spec fn spec_new(x: usize) -> Self { NodeIndex(Ix::spec_new(x)) }
    proof fn new_law(x: usize) { Ix::new_law(x); }
    proof fn eq_law() { Ix::eq_law(); }
    proof fn ix_inj(a: Self, b: Self) { Ix::ix_inj(a.0, b.0); }
    proof fn ix_bound(a: Self) { Ix::ix_bound(a.0); }
    proof fn ord_law() { Ix::ord_law(); }
    /*-*/
    fn index(&self) -> usize {
        self.0.index()
    }
    fn new(x: usize) -> Self {
        NodeIndex::new(x)
    }
    fn max() -> Self {
        NodeIndex(<Ix as IndexType>::max())
    }
}
//@ end

// ======================================================================================
// adjacency matrix (GetAdjacencyMatrix) - the bit for (a, b) is n*a+b with n = node_bound
// ======================================================================================
pub proof fn lemma_cell_bound(n: int, a: int, b: int)
    requires 0 <= a < n, 0 <= b < n
    ensures 0 <= n * a + b < n * n, 0 <= a * n + b < n * n, n * a == a * n
{
    assert(n * a <= n * (n - 1)) by (nonlinear_arith) requires 0 <= a <= n - 1, n > 0;
    assert(n * (n - 1) == n * n - n) by (nonlinear_arith);
    assert(n * a >= 0) by (nonlinear_arith) requires 0 <= a, n > 0;
    assert(n * a == a * n) by (nonlinear_arith);
}
pub proof fn lemma_cell_unique(n: int, a: int, b: int, c: int, d: int)
    requires 0 <= a < n, 0 <= b < n, 0 <= c < n, 0 <= d < n, n * a + b == n * c + d
    ensures a == c, b == d
{
    if a > c {
        assert(n * a - n * c >= n) by (nonlinear_arith) requires a - c >= 1, n > 0;
    } else if c > a {
        assert(n * c - n * a >= n) by (nonlinear_arith) requires c - a >= 1, n > 0;
    }
}


pub open spec fn edge_joins<E>(e: (int, int, E), a: int, b: int, directed: bool) -> bool {
    (e.0 == a && e.1 == b) || (!directed && e.0 == b && e.1 == a)
}

pub open spec fn cell_of<E>(e: (int, int, E), n: int, bit: int, directed: bool) -> bool {
    bit == e.0 * n + e.1 || (!directed && bit == e.0 + n * e.1)
}


