// ======================================================================================
// fragment matrix_notzero.rs - src/matrix_graph.rs: the `NotZero<T>` null-element representation and the `Zero` trait (C04):
// a cell is null exactly when it holds the sentinel `zero`; `new` refuses the sentinel (documented panic = precondition);
// the conversion to Option and `Default` agree with that.  One instance of the macro-generated `impl Zero for $t` (u32).
// ======================================================================================

//@ item src/matrix_graph.rs | - | trait Zero
/// Base trait for types that can be wrapped in a [`NotZero`](struct.NotZero.html).
///
/// Implementors must provide a singleton object that will be used to mark empty edges in a
/// [`MatrixGraph`](struct.MatrixGraph.html).
///
/// Note that this trait is already implemented for the base numeric types.
pub trait Zero/*+*/: Sized/*-*/ {   // (D26: `Sized` added - `fn zero() -> Self` already requires it of every implementor)
    /*+*/
    /// "is the sentinel"
    spec fn is_z(&self) -> bool;
    /*-*/
    /// Return the singleton object which can be used as a sentinel value.
    fn zero() -> (r: Self)
        /*+*/ensures r.is_z()/*-*/;   // [zero_is_zero]

    /// Return true if `self` is equal to the sentinel value.
    fn is_zero(&self) -> (b: bool)
        /*+*/ensures b == self.is_z()/*-*/;
}
//@ end

//@ item src/matrix_graph.rs | macro_rules not_zero_impl | impl Zero for u32 | subst=$t:u32,$z:0
        impl Zero for u32 {
            /*+*/open spec fn is_z(&self) -> bool { *self == 0 }/*-*/
            fn zero() -> Self {
                0 as u32
            }

            #[allow(clippy::float_cmp)]
            fn is_zero(&self) -> bool {
                self == &Self::zero()
            }
        }
//@ end

//@ item src/matrix_graph.rs | - | struct NotZero
/// `NotZero` is used to optimize the memory usage of edge weights `E` in a
/// [`MatrixGraph`](struct.MatrixGraph.html), replacing the default `Option<E>` sentinel.
///
/// Pre-requisite: edge weight should implement [`Zero`](trait.Zero.html).
///
/// Note that if you're already using the standard non-zero types (such as `NonZeroU32`), you don't
/// have to use this wrapper and can leave the default `Null` type argument.
pub struct NotZero<T>(pub T);
//@ end

//@ item src/matrix_graph.rs | - | impl<T: Zero> Default for NotZero<T>
impl<T: Zero> Default for NotZero<T> {
    fn default() -> /*+*/(r:/*-*/ Self/*+*/)
        ensures r.0.is_z()/*-*/   // [notzero_default_is_null]
    {
        NotZero(T::zero())
    }
}
//@ end

/*+*/impl<T: Zero> vstd::std_specs::convert::FromSpecImpl<NotZero<T>> for Option<T> {
    open spec fn obeys_from_spec() -> bool { true }
    open spec fn from_spec(v: NotZero<T>) -> Self { if v.0.is_z() { None } else { Some(v.0) } }
}/*-*/

//@ item src/matrix_graph.rs | - | impl<T: Zero> From<NotZero<T>> for Option<T>
impl<T: Zero> From<NotZero<T>> for Option<T> {
    fn from(not_zero: NotZero<T>) -> Self {
        if !not_zero.is_null() {
            Some(not_zero.0)
        } else {
            None
        }
    }
}
//@ end

//@ item src/matrix_graph.rs | - | impl<T: Zero> Nullable for NotZero<T>
impl<T: Zero> Nullable for NotZero<T> {
    #[doc(hidden)]
    type Wrapped = T;

    /*+*/
    open spec fn nv(&self) -> Option<T> { if self.0.is_z() { None } else { Some(self.0) } }
    open spec fn storable(value: T) -> bool { !value.is_z() }
    proof fn default_law() {}
    proof fn into_law() {}
    /*-*/

    #[doc(hidden)]
    fn new(value: T) -> Self {
        /*R:D2 assert!(!value.is_zero()); */ let __c = !value.is_zero(); assert(__c); /*-*/
        NotZero(value)
    }

    // implemented here for optimization purposes
    #[doc(hidden)]
    fn is_null(&self) -> bool {
        self.0.is_zero()
    }

    #[doc(hidden)]
    fn as_ref(&self) -> Option<&Self::Wrapped> {
        if !self.is_null() {
            Some(&self.0)
        } else {
            None
        }
    }

    #[doc(hidden)]
    fn as_mut(&mut self) -> Option<&mut Self::Wrapped> {
        if !self.is_null() {
            Some(&mut self.0)
        } else {
            None
        }
    }
}
//@ end
