// ======================================================================================
// fragment stable_walk.rs - the detached walker of StableGraph (C02): Neighbors::detach and WalkNeighbors::next / next_node /
// next_edge.  StableGraph's walker wraps Graph's (`inner: super::WalkNeighbors`) and steps it through the inner graph `g.g`;
// so it visits what the Neighbors iterator it was detached from would have visited, each neighbour with the edge leading to it.
// The wrapper type has the same name as Graph's walker: in the repository the two live in different modules; here the
// StableGraph one lives in `mod stable_walk`, where `super::WalkNeighbors` is Graph's, exactly as in the repository's text.
// ======================================================================================

pub mod stable_walk {
    use super::*;

//@ item src/graph_impl/stable_graph/mod.rs | - | struct WalkNeighbors
pub struct WalkNeighbors<Ix> {
    pub inner: super::WalkNeighbors<Ix>,
}
//@ end

impl<'a, E, Ix: IndexType> Neighbors<'a, E, Ix> {
//@ item src/graph_impl/stable_graph/mod.rs | impl<E, Ix> Neighbors<'_, E, Ix> where Ix: IndexType | fn detach
    /// Return a “walker” object that can be used to step through the
    /// neighbors and edges from the origin node.
    ///
    /// Note: The walker does not borrow from the graph, this is to allow mixing
    /// edge walking with mutating the graph's weights.
    pub fn detach(&self) -> (r: WalkNeighbors<Ix>)
        /*+*/ensures r.inner.skip_start == self.skp(), r.inner.next == self.nx(),          // [stable_detach_same_position]
            r.inner.ok(self.ev()) == self.ok(),
            self.ok() ==> r.inner.rem(self.ev()).len() == self.remaining().len()
                && (forall|i: int| 0 <= i < self.remaining().len() ==> (#[trigger] r.inner.rem(self.ev())[i]).1 == self.remaining()[i])/*-*/   // [stable_detach_walks_the_same_neighbours]
    {
        /*+*/proof { lemma_wk_in_nodes(self.ev(), self.rest1(), self.skp().0.ix() as int); }/*-*/
        WalkNeighbors {
            inner: super::WalkNeighbors {
                skip_start: self.skip_start,
                next: self.next,
            },
        }
    }
//@ end
}

impl<Ix: IndexType> WalkNeighbors<Ix> {
//@ item src/graph_impl/stable_graph/mod.rs | impl<Ix: IndexType> WalkNeighbors<Ix> | fn next
    /// Step to the next edge and its endpoint node in the walk for graph `g`.
    ///
    /// The next node indices are always the others than the starting point
    /// where the `WalkNeighbors` value was created.
    /// For an `Outgoing` walk, the target nodes,
    /// for an `Incoming` walk, the source nodes of the edge.
    pub fn next<N, E, Ty: EdgeType>(
        &mut self,
        g: &StableGraph<N, E, Ty, Ix>,
    ) -> (r: Option<(EdgeIndex<Ix>, NodeIndex<Ix>)>)
        /*+*/requires old(self).inner.ok(g.es())
        ensures final(self).inner.ok(g.es()), final(self).inner.skip_start == old(self).inner.skip_start,
            match r {
                Some(p) => old(self).inner.rem(g.es()) == seq![(p.0.i(), p.1)] + final(self).inner.rem(g.es()),        // [stable_walk_next_is_head]
                None => old(self).inner.rem(g.es()).len() == 0 && final(self).inner.rem(g.es()).len() == 0,           // [stable_walk_none_iff_exhausted]
            }/*-*/
    {
        self.inner.next(&g.g)
    }
//@ end

//@ item src/graph_impl/stable_graph/mod.rs | impl<Ix: IndexType> WalkNeighbors<Ix> | fn next_node
    pub fn next_node<N, E, Ty: EdgeType>(
        &mut self,
        g: &StableGraph<N, E, Ty, Ix>,
    ) -> (r: Option<NodeIndex<Ix>>)
        /*+*/requires old(self).inner.ok(g.es())
        ensures final(self).inner.ok(g.es()),
            match r {
                Some(n) => old(self).inner.rem(g.es()).len() > 0 && old(self).inner.rem(g.es())[0].1 == n && final(self).inner.rem(g.es()) == old(self).inner.rem(g.es()).drop_first(),   // [stable_walk_next_node_is_head]
                None => old(self).inner.rem(g.es()).len() == 0,
            }/*-*/
    {
        /*+*/let ghost r0 = self.inner.rem(g.es());
        let r = {/*-*/ self.next(g).map(|t/*+*/: (EdgeIndex<Ix>, NodeIndex<Ix>)/*-*/| /*+*/-> (x: NodeIndex<Ix>) ensures x == t.1 {/*-*/ t.1 /*+*/}/*-*/) /*+*/};
        proof { if r is Some { assert(r0.drop_first() =~= self.inner.rem(g.es())); } }
        r/*-*/
    }
//@ end

//@ item src/graph_impl/stable_graph/mod.rs | impl<Ix: IndexType> WalkNeighbors<Ix> | fn next_edge
    pub fn next_edge<N, E, Ty: EdgeType>(
        &mut self,
        g: &StableGraph<N, E, Ty, Ix>,
    ) -> (r: Option<EdgeIndex<Ix>>)
        /*+*/requires old(self).inner.ok(g.es())
        ensures final(self).inner.ok(g.es()),
            match r {
                Some(e) => old(self).inner.rem(g.es()).len() > 0 && old(self).inner.rem(g.es())[0].0 == e.i() && final(self).inner.rem(g.es()) == old(self).inner.rem(g.es()).drop_first(),   // [stable_walk_next_edge_is_head]
                None => old(self).inner.rem(g.es()).len() == 0,
            }/*-*/
    {
        /*+*/let ghost r0 = self.inner.rem(g.es());
        let r = {/*-*/ self.next(g).map(|t/*+*/: (EdgeIndex<Ix>, NodeIndex<Ix>)/*-*/| /*+*/-> (x: EdgeIndex<Ix>) ensures x == t.0 {/*-*/ t.0 /*+*/}/*-*/) /*+*/};
        proof { if r is Some { assert(r0.drop_first() =~= self.inner.rem(g.es())); } }
        r/*-*/
    }
//@ end
}
}
