// ======================================================================================
// fragment ex_find.rs - D33: `it.by_ref().find(p)` is written as a call of `ex_find(&mut it, p)`, a TRUSTED stand-in that
// carries the contract of std's `Iterator::find` (this Verus has neither `by_ref` nor `find`)
// ======================================================================================

/// std's `Iterator::find` through `by_ref()`: the first element the predicate accepts; everything up to and including it is consumed
#[verifier::external_body]
pub fn ex_find<I: Iterator, P: FnMut(&I::Item) -> bool>(it: &mut I, p: P) -> (res: Option<I::Item>)
    requires forall|x: &I::Item| #[trigger] p.requires((x,)),
    ensures
        (*final(it)).obeys_prophetic_iter_laws() == (*old(it)).obeys_prophetic_iter_laws(),
        (*old(it)).obeys_prophetic_iter_laws() ==> ((*final(it)).decrease() is Some <==> (*old(it)).decrease() is Some),
        (*old(it)).obeys_prophetic_iter_laws() && (*old(it)).decrease() is Some && res is Some ==> (*final(it)).decrease()->Some_0 < (*old(it)).decrease()->Some_0,
        (*old(it)).obeys_prophetic_iter_laws() ==> ({ let rem = (*old(it)).remaining();
            match res {
                Some(r) => exists|k: int| 0 <= k < rem.len() && rem[k] == r && #[trigger] p.ensures((&rem[k],), true)
                              && (forall|j: int| 0 <= j < k ==> #[trigger] p.ensures((&rem[j],), false)) && (*final(it)).remaining() == rem.skip(k + 1),
                None => (forall|j: int| 0 <= j < rem.len() ==> #[trigger] p.ensures((&rem[j],), false)) && (*final(it)).remaining().len() == 0,
            } }),
{
    it.by_ref().find(p)
}
