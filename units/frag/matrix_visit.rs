// ======================================================================================
// fragment matrix_visit.rs - MatrixGraph through the visit traits (C04, C06), against the same trait contracts as Graph and
// StableGraph: node ids are the live ids of the IdStorage (to_index below node_bound = upper_bound), is_adjacent is has_edge,
// neighbors(a) are the occupied cells of row a, all of them nodes; counts are the stored counters.
// ======================================================================================

//@ item src/matrix_graph.rs | - | impl<N, E, S, Ty: EdgeType, Null: Nullable<Wrapped = E>, Ix: IndexType> GraphBase for MatrixGraph<N, E, S, Ty, Null, Ix>
impl<N, E, S, Ty: EdgeType, Null: Nullable<Wrapped = E>, Ix: IndexType> GraphBase
    for MatrixGraph<N, E, S, Ty, Null, Ix>
{
    type NodeId = NodeIndex<Ix>;
    type EdgeId = (NodeIndex<Ix>, NodeIndex<Ix>);
}
//@ end

//@ item src/matrix_graph.rs | - | impl<N, E, S, Ty: EdgeType, Null: Nullable<Wrapped = E>, Ix: IndexType> NodeIndexable for MatrixGraph<N, E, S, Ty, Null, Ix>
impl<N, E, S/*+*/: BuildHasher/*-*/, Ty: EdgeType, Null: Nullable<Wrapped = E>, Ix: IndexType> NodeIndexable
    for MatrixGraph<N, E, S, Ty, Null, Ix>
{
    /*+*/
    open spec fn is_nid(&self, a: NodeIndex<Ix>) -> bool { self.nodes.live(a.i()) }
    open spec fn nbound(&self) -> usize { self.nodes.upper_bound }
    open spec fn ix_of(&self, a: NodeIndex<Ix>) -> usize { a.0.ix() }
    proof fn ix_inj_law(&self, a: NodeIndex<Ix>, b: NodeIndex<Ix>) { Ix::ix_inj(a.0, b.0); }
    /*-*/
    fn node_bound(&self) -> usize {
        self.nodes.upper_bound
    }

    fn to_index(&self, ix: NodeIndex<Ix>) -> usize {
        ix.index()
    }

    fn from_index(&self, ix: usize) -> Self::NodeId {
        /*+*/proof { assert forall|a: NodeIndex<Ix>| self.is_nid(a) && self.ix_of(a) == ix implies NodeIndex::<Ix>(Ix::spec_new(ix)) == a by { Ix::ix_bound(a.0); Ix::new_law(ix); Ix::ix_inj(a.0, Ix::spec_new(ix)); } }/*-*/
        NodeIndex::new(ix)
    }
}
//@ end

//@ item src/matrix_graph.rs | - | impl<N, E, S: BuildHasher, Ty: EdgeType, Null: Nullable<Wrapped = E>, Ix: IndexType> GetAdjacencyMatrix for MatrixGraph<N, E, S, Ty, Null, Ix>
impl<N, E, S: BuildHasher, Ty: EdgeType, Null: Nullable<Wrapped = E>, Ix: IndexType>
    GetAdjacencyMatrix for MatrixGraph<N, E, S, Ty, Null, Ix>
{
    type AdjMatrix = ();

    /*+*/
    /// the matrix IS the graph: adjacency is the occupied cell (for an undirected graph the cell of the unordered pair)
    open spec fn adj(&self, a: NodeIndex<Ix>, b: NodeIndex<Ix>) -> bool { self.has(a.i(), b.i()) }
    open spec fn adj_node(&self, a: NodeIndex<Ix>) -> bool { true }
    open spec fn is_matrix(&self, m: &()) -> bool { self.wf() }
    open spec fn adj_pre(&self) -> bool { self.wf() }
    /*-*/

    fn adjacency_matrix(&self) -> Self::AdjMatrix {}

    fn is_adjacent(&self, /*R:D10 _ */ _m /*-*/: &Self::AdjMatrix, a: NodeIndex<Ix>, b: NodeIndex<Ix>) -> bool {
        MatrixGraph::has_edge(self, a, b)
    }
}
//@ end

//@ item src/matrix_graph.rs | - | impl<N, E, S, Ty: EdgeType, Null: Nullable<Wrapped = E>, Ix: IndexType> Data for MatrixGraph<N, E, S, Ty, Null, Ix>
impl<N, E, S, Ty: EdgeType, Null: Nullable<Wrapped = E>, Ix: IndexType> Data
    for MatrixGraph<N, E, S, Ty, Null, Ix>
{
    type NodeWeight = N;
    type EdgeWeight = E;
}
//@ end

//@ item src/matrix_graph.rs | - | impl<N, E, S: BuildHasher, Ty: EdgeType, Null: Nullable<Wrapped = E>, Ix: IndexType> NodeCount for MatrixGraph<N, E, S, Ty, Null, Ix>
impl<N, E, S: BuildHasher, Ty: EdgeType, Null: Nullable<Wrapped = E>, Ix: IndexType> NodeCount
    for MatrixGraph<N, E, S, Ty, Null, Ix>
{
    /*+*/open spec fn ncount(&self) -> usize { (self.nodes.upper_bound - self.nodes.removed_ids.view().len()) as usize }
    open spec fn count_inv(&self) -> bool { self.wf() }/*-*/
    fn node_count(&self) -> usize {
        MatrixGraph::node_count(self)
    }
}
//@ end

//@ item src/matrix_graph.rs | - | impl<N, E, S: BuildHasher, Ty: EdgeType, Null: Nullable<Wrapped = E>, Ix: IndexType> EdgeCount for MatrixGraph<N, E, S, Ty, Null, Ix>
impl<N, E, S: BuildHasher, Ty: EdgeType, Null: Nullable<Wrapped = E>, Ix: IndexType> EdgeCount
    for MatrixGraph<N, E, S, Ty, Null, Ix>
{
    /*+*/open spec fn ecount(&self) -> usize { self.nb_edges }
    open spec fn ecount_inv(&self) -> bool { self.wf() }/*-*/
    #[inline]
    fn edge_count(&self) -> usize {
        self.edge_count()
    }
}
//@ end

/// the targets of a scan
pub open spec fn mtargets<'a, Null: Nullable, Ix: IndexType>(s: Seq<(NodeIndex<Ix>, NodeIndex<Ix>, &'a Null::Wrapped)>) -> Seq<NodeIndex<Ix>> { Seq::new(s.len(), |i: int| s[i].1) }
/// the sources of a scan
pub open spec fn msources<'a, Null: Nullable, Ix: IndexType>(s: Seq<(NodeIndex<Ix>, NodeIndex<Ix>, &'a Null::Wrapped)>) -> Seq<NodeIndex<Ix>> { Seq::new(s.len(), |i: int| s[i].0) }

impl<N, E, S: BuildHasher, Ty: EdgeType, Null: Nullable<Wrapped = E>, Ix: IndexType> MatrixGraph<N, E, S, Ty, Null, Ix> {
    /// the neighbours `neighbors(a)` yields
    pub open spec fn row_nbrs(&self, a: int) -> Seq<NodeIndex<Ix>> { mtargets::<Null, Ix>(mscan::<Null, Ix>(self.node_adjacencies@, self.d(), self.cap(), false, a, 0)) }
    /// they are exactly the b with an edge a -> b, ascending, all of them live nodes; a vacant or absent id has none
    pub proof fn lemma_row_nbrs(&self, a: int)
        requires self.wf(), 0 <= a
        ensures ({ let s = self.row_nbrs(a); let cs = mcols(self.node_adjacencies@, self.d(), self.cap(), a, 0);
            &&& s.len() == cs.len()
            &&& forall|i: int| 0 <= i < s.len() ==> (#[trigger] s[i]).i() == cs[i] && self.has(a, cs[i]) && self.nodes.live(cs[i])       // [matrix_neighbors_are_nodes]
            &&& forall|i: int, j: int| 0 <= i < j < cs.len() ==> cs[i] < cs[j]
            &&& forall|b: int| self.has(a, b) ==> cs.contains(b)                                                                             // [matrix_neighbors_complete]
            &&& !self.nodes.live(a) ==> s.len() == 0 })
    {
        let adj = self.node_adjacencies@; let w = self.cap();
        lemma_mscan_is_mcols::<Null, Ix>(adj, self.d(), w, a, 0);
        lemma_mcols(adj, self.d(), w, a, 0);
        let s = self.row_nbrs(a); let cs = mcols(adj, self.d(), w, a, 0);
        if !(0 <= a < w) { assert(cs.len() == 0); }
        assert forall|i: int| 0 <= i < s.len() implies (#[trigger] s[i]).i() == cs[i] && self.has(a, cs[i]) && self.nodes.live(cs[i]) by {
            assert(0 <= a < w);
            assert(self.has(a, cs[i]));
            Ix::new_law(cs[i] as usize);
        }
        assert forall|b: int| self.has(a, b) implies cs.contains(b) by { }
        if !self.nodes.live(a) && s.len() > 0 { assert(self.has(a, cs[0])); }
    }
}

//@ item src/matrix_graph.rs | - | impl<'a, N, E: 'a, S: BuildHasher, Ty: EdgeType, Null: Nullable<Wrapped = E>, Ix: IndexType> IntoNeighbors for &'a MatrixGraph<N, E, S, Ty, Null, Ix>
impl<'a, N, E: 'a, S: BuildHasher, Ty: EdgeType, Null: Nullable<Wrapped = E>, Ix: IndexType>
    IntoNeighbors for &'a MatrixGraph<N, E, S, Ty, Null, Ix>
{
    type Neighbors = Neighbors<'a, Ty, Null, Ix>;

    /*+*/
    open spec fn inv(self) -> bool { self.wf() }
    open spec fn is_node(self, a: NodeIndex<Ix>) -> bool { self.nodes.live(a.i()) }
    open spec fn succ(self, a: NodeIndex<Ix>) -> Seq<NodeIndex<Ix>> { self.row_nbrs(a.i()) }
    proof fn succ_law(self, a: NodeIndex<Ix>) { self.lemma_row_nbrs(a.i()); }
    /*-*/

    fn neighbors(self, a: NodeIndex<Ix>) -> Self::Neighbors {
        /*+*/let r = {/*-*/ MatrixGraph::neighbors(self, a) /*+*/};
        proof { assert(r.remaining() =~= self.succ(a)); }
        r/*-*/
    }
}
//@ end

/// the occupied rows of column a from row r on, ascending (directed layout)
pub open spec fn mrows<Null: Nullable>(adj: Seq<Null>, w: int, a: int, r: int) -> Seq<int>
    decreases w - r
{
    if !(0 <= a < w && 0 <= r < w) { Seq::empty() }
    else { (if adj[lin_pos(true, r, a, w)].nv() is Some { seq![r] } else { Seq::empty() }) + mrows(adj, w, a, r + 1) }
}
/// the column scan is the occupied rows, each with its cell's weight: source = the row, target = the queried node
pub proof fn lemma_mscan_is_mrows<'a, Null: Nullable, Ix: IndexType>(adj: Seq<Null>, w: int, a: int, r: int)
    requires 0 <= r
    ensures ({ let s = mscan::<Null, Ix>(adj, true, w, true, r, a); let rs = mrows(adj, w, a, r);
        s.len() == rs.len() && forall|i: int| 0 <= i < rs.len() ==> (#[trigger] s[i]).1 == NodeIndex::<Ix>(Ix::spec_new(a as usize)) && s[i].0 == NodeIndex::<Ix>(Ix::spec_new(rs[i] as usize))
            && adj[lin_pos(true, rs[i], a, w)].nv() == Some(*s[i].2) })
    decreases w - r
{
    if 0 <= a < w && r < w { lemma_mscan_is_mrows::<Null, Ix>(adj, w, a, r + 1); }
}
/// the occupied rows: in range, occupied, ascending, complete
pub proof fn lemma_mrows<Null: Nullable>(adj: Seq<Null>, w: int, a: int, r: int)
    requires 0 <= r
    ensures ({ let rs = mrows(adj, w, a, r);
        &&& forall|i: int| 0 <= i < rs.len() ==> r <= #[trigger] rs[i] < w && adj[lin_pos(true, rs[i], a, w)].nv() is Some
        &&& forall|i: int, j: int| 0 <= i < j < rs.len() ==> rs[i] < rs[j]
        &&& forall|b: int| 0 <= a < w && r <= b < w && adj[lin_pos(true, b, a, w)].nv() is Some ==> rs.contains(b) })
    decreases w - r
{
    if 0 <= a < w && r < w {
        lemma_mrows(adj, w, a, r + 1);
        let t = mrows(adj, w, a, r + 1); let rs = mrows(adj, w, a, r);
        let here: Seq<int> = if adj[lin_pos(true, r, a, w)].nv() is Some { seq![r] } else { Seq::empty() };
        assert(rs =~= here + t);
        assert forall|b: int| r <= b < w && adj[lin_pos(true, b, a, w)].nv() is Some implies rs.contains(b) by {
            if b == r { assert(rs[0] == r); } else { assert(t.contains(b)); let i = choose|i: int| 0 <= i < t.len() && t[i] == b; assert(rs[i + here.len()] == b); }
        }
    }
}

impl<N, E, S: BuildHasher, Null: Nullable<Wrapped = E>, Ix: IndexType> MatrixGraph<N, E, S, Directed, Null, Ix> {
    /// the neighbours `neighbors_directed(a, Incoming)` yields
    pub open spec fn col_nbrs(&self, a: int) -> Seq<NodeIndex<Ix>> { msources::<Null, Ix>(mscan::<Null, Ix>(self.node_adjacencies@, true, self.cap(), true, 0, a)) }
    /// exactly the b with an edge b -> a, ascending, all of them live nodes
    pub proof fn lemma_col_nbrs(&self, a: int)
        requires self.wf(), 0 <= a
        ensures ({ let s = self.col_nbrs(a); let rs = mrows(self.node_adjacencies@, self.cap(), a, 0);
            &&& s.len() == rs.len()
            &&& forall|i: int| 0 <= i < s.len() ==> (#[trigger] s[i]).i() == rs[i] && self.has(rs[i], a) && self.nodes.live(rs[i])       // [matrix_incoming_neighbors_are_nodes]
            &&& forall|i: int, j: int| 0 <= i < j < rs.len() ==> rs[i] < rs[j]
            &&& forall|b: int| self.has(b, a) ==> rs.contains(b) })                                                                          // [matrix_incoming_neighbors_complete]
    {
        let adj = self.node_adjacencies@; let w = self.cap();
        lemma_mscan_is_mrows::<Null, Ix>(adj, w, a, 0);
        lemma_mrows(adj, w, a, 0);
        let s = self.col_nbrs(a); let rs = mrows(adj, w, a, 0);
        if !(0 <= a < w) { assert(rs.len() == 0); }
        assert forall|i: int| 0 <= i < s.len() implies (#[trigger] s[i]).i() == rs[i] && self.has(rs[i], a) && self.nodes.live(rs[i]) by {
            assert(0 <= a < w);
            assert(self.has(rs[i], a));
            Ix::new_law(rs[i] as usize);
        }
        assert forall|b: int| self.has(b, a) implies rs.contains(b) by { }
    }
}

//@ item src/matrix_graph.rs | - | impl<'a, N, E: 'a, S: BuildHasher, Null: Nullable<Wrapped = E>, Ix: IndexType> IntoNeighborsDirected for &'a MatrixGraph<N, E, S, Directed, Null, Ix>
impl<'a, N, E: 'a, S: BuildHasher, Null: Nullable<Wrapped = E>, Ix: IndexType> IntoNeighborsDirected
    for &'a MatrixGraph<N, E, S, Directed, Null, Ix>
{
    type NeighborsDirected = Neighbors<'a, Directed, Null, Ix>;

    /*+*/
    open spec fn nbrs(self, a: NodeIndex<Ix>, d: Direction) -> Seq<NodeIndex<Ix>> { if d == Direction::Outgoing { self.row_nbrs(a.i()) } else { self.col_nbrs(a.i()) } }
    proof fn dir_law(self, a: NodeIndex<Ix>, b: NodeIndex<Ix>) {
        self.lemma_col_nbrs(a.i()); self.lemma_row_nbrs(b.i());
        let inc = self.col_nbrs(a.i()); let rs = mrows(self.node_adjacencies@, self.cap(), a.i(), 0);
        let out = self.row_nbrs(b.i()); let cs = mcols(self.node_adjacencies@, true, self.cap(), b.i(), 0);
        if inc.contains(b) {
            let i = choose|i: int| 0 <= i < inc.len() && inc[i] == b;
            assert(self.has(b.i(), a.i()));
            assert(cs.contains(a.i()));
            let j = choose|j: int| 0 <= j < cs.len() && cs[j] == a.i();
            assert(out[j].i() == a.i()); Ix::ix_inj(out[j].0, a.0);
            assert(out[j] == a);
        }
        if self.is_node(b) && out.contains(a) {
            let j = choose|j: int| 0 <= j < out.len() && out[j] == a;
            assert(self.has(b.i(), a.i()));
            assert(rs.contains(b.i()));
            let i = choose|i: int| 0 <= i < rs.len() && rs[i] == b.i();
            assert(inc[i].i() == b.i()); Ix::ix_inj(inc[i].0, b.0);
            assert(inc[i] == b);
        }
    }
    /*-*/

    fn neighbors_directed(self, a: NodeIndex<Ix>, d: Direction) -> Self::NeighborsDirected {
        /*+*/let r = {/*-*/ MatrixGraph::neighbors_directed(self, a, d) /*+*/};
        proof { assert(r.remaining() =~= self.nbrs(a, d)); }
        r/*-*/
    }
}
//@ end

// ---------------------------------------------------------------------------- node_identifiers
pub open spec fn mnix_of<Ix: IndexType>(s: Seq<usize>) -> Seq<NodeIndex<Ix>> { Seq::new(s.len(), |k: int| NodeIndex(Ix::spec_new(s[k]))) }

//@ item src/matrix_graph.rs | - | struct NodeIdentifiers
/// Iterator over the node identifiers of a graph.
///
/// Created from a call to [`.node_identifiers()`][1] on a [`MatrixGraph`][2].
///
/// [1]: ../visit/trait.IntoNodeIdentifiers.html#tymethod.node_identifiers
/// [2]: struct.MatrixGraph.html
/*+*/#[verifier::reject_recursive_types(S)]/*-*/
pub struct NodeIdentifiers<
    'a,
    Ix,
    /*R:D1 #[cfg(feature = "std")] S = RandomState, #[cfg(not(feature = "std"))] S, */ S, /*-*/
> {
    pub iter: IdIterator<'a, S>,
    pub ix: PhantomData<Ix>,
}
//@ end

impl<'a, Ix: IndexType, S: BuildHasher> vstd::std_specs::iter::IteratorSpecImpl for NodeIdentifiers<'a, Ix, S> {
    open spec fn obeys_prophetic_iter_laws(&self) -> bool { true }
    #[verifier::prophetic]
    open spec fn remaining(&self) -> Seq<NodeIndex<Ix>> { mnix_of::<Ix>(IteratorSpec::remaining(&self.iter)) }
    open spec fn decrease(&self) -> Option<nat> { IteratorSpec::decrease(&self.iter) }
    open spec fn will_return_none(&self) -> bool { true }
    open spec fn peek(&self, i: int) -> Option<NodeIndex<Ix>> { None }
}

impl<'a, Ix: IndexType, S> NodeIdentifiers<'a, Ix, S> {
//@ item src/matrix_graph.rs | impl<'a, Ix: IndexType, S> NodeIdentifiers<'a, Ix, S> | fn new
    fn new(iter: IdIterator<'a, S>) -> (r: Self)
        /*+*/ensures r.iter == iter/*-*/
    {
        Self {
            iter,
            ix: PhantomData,
        }
    }
//@ end
}

//@ item src/matrix_graph.rs | - | impl<Ix: IndexType, S: BuildHasher> Iterator for NodeIdentifiers<'_, Ix, S>
impl<Ix: IndexType, S: BuildHasher> Iterator for NodeIdentifiers<'_, Ix, S> {
    type Item = NodeIndex<Ix>;

    fn next(&mut self) -> Option<Self::Item> {
        /*+*/let ghost r0 = self.iter.remaining();
        let r = {/*-*/ self.iter.next().map(/*R:D10 NodeIndex::new */ |x: usize| -> (q: NodeIndex<Ix>) ensures q == NodeIndex::<Ix>(Ix::spec_new(x)) { NodeIndex::new(x) } /*-*/) /*+*/};
        proof { if r is Some { assert(r0 =~= seq![r0[0]] + self.iter.remaining()); assert(mnix_of::<Ix>(r0) =~= seq![r.unwrap()] + mnix_of::<Ix>(self.iter.remaining())); } else { assert(r0.len() == 0); } }
        r/*-*/
    }
    /*+*/#[verifier::external_body]/*-*/
    fn size_hint(&self) -> (usize, Option<usize>) {
        self.iter.size_hint()
    }
}
//@ end

//@ item src/matrix_graph.rs | - | impl<'a, N, E: 'a, S: BuildHasher, Ty: EdgeType, Null: Nullable<Wrapped = E>, Ix: IndexType> IntoNodeIdentifiers for &'a MatrixGraph<N, E, S, Ty, Null, Ix>
impl<'a, N, E: 'a, S: BuildHasher, Ty: EdgeType, Null: Nullable<Wrapped = E>, Ix: IndexType>
    IntoNodeIdentifiers for &'a MatrixGraph<N, E, S, Ty, Null, Ix>
{
    type NodeIdentifiers = NodeIdentifiers<'a, Ix, S>;

    /*+*/
    /// the live ids, ascending
    open spec fn node_ids(self) -> Seq<NodeIndex<Ix>> { mnix_of::<Ix>(ids_from(0, self.nodes.upper_bound as int, self.nodes.removed_ids.view())) }
    /*-*/

    fn node_identifiers(self) -> Self::NodeIdentifiers {
        NodeIdentifiers::new(self.nodes.iter_ids())
    }
}
//@ end
