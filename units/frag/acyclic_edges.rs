// ======================================================================================
// fragment acyclic_edges.rs - src/acyclic.rs: the edge-insertion wrappers of Acyclic<G>, generic in G (property C14):
// a self-loop or a rejected insertion changes nothing, an accepted one is exactly the inner graph's insertion.
// The Pearce-Kelly reordering `update_ordering` itself is TRUSTED here (contract: Err = unchanged, Ok = graph untouched).
// ======================================================================================

// The bounded searches behind `causal_cones` are outside the verifier's subset; its contract (Err exactly when window_reaches) NAMES their
// answer.  They are pinned by hash: a change to them is a conflict (exit 2: the trusted half of C14 changed), never silently accepted.
//@ pin src/acyclic.rs | impl<G: Visitable + NodeIndexable> Acyclic<G> where for<'a> &'a G: IntoNeighborsDirected + IntoNodeIdentifiers + GraphBase<NodeId = G::NodeId> | fn future_cone | 3b5763966f
//@ pin src/acyclic.rs | impl<G: Visitable + NodeIndexable> Acyclic<G> where for<'a> &'a G: IntoNeighborsDirected + IntoNodeIdentifiers + GraphBase<NodeId = G::NodeId> | fn past_cone | a0f613bdef
//@ pin src/acyclic.rs | - | fn dfs | 8989f1aa0d

//@ item src/algo/mod.rs | - | struct Cycle
/// An algorithm error: a cycle was found in the graph.
pub struct Cycle<N>(pub N);
//@ end

//@ item src/acyclic.rs | - | enum AcyclicEdgeError
/// An error that can occur during edge addition for acyclic graphs.
pub enum AcyclicEdgeError<N> {
    /// The edge would create a cycle.
    Cycle(Cycle<N>),
    /// The edge would create a self-loop.
    SelfLoop,
    /// Could not successfully add the edge to the underlying graph.
    InvalidEdge,
}
//@ end

impl<N> vstd::std_specs::convert::FromSpecImpl<Cycle<N>> for AcyclicEdgeError<N> {
    open spec fn obeys_from_spec() -> bool { true }
    open spec fn from_spec(v: Cycle<N>) -> Self { AcyclicEdgeError::Cycle(v) }
}
//@ item src/acyclic.rs | - | impl<N> From<Cycle<N>> for AcyclicEdgeError<N>
impl<N> From<Cycle<N>> for AcyclicEdgeError<N> {
    fn from(cycle: Cycle<N>) -> Self {
        AcyclicEdgeError::Cycle(cycle)
    }
}
//@ end

impl<G: Visitable> Acyclic<G> {
    /// D21 stand-in for the tail of `update_ordering` (TRUSTED): the nodes of the two cones exchange their positions; the graph is not touched
    #[verifier::external_body]
    pub fn reassign_positions(&mut self, b_fut: BTreeMap<TopologicalPosition, G::NodeId>, a_past: BTreeMap<TopologicalPosition, G::NodeId>)
        ensures final(self).graph == old(self).graph
    { unimplemented!() }
}

impl<G: Visitable> Acyclic<G> {
//@ item src/acyclic/order_map.rs | impl<G: Visitable> super::Acyclic<G> | fn get_position
    /// Get the position of a node in the topological sort.
    ///
    /// Panics if the node index is out of bounds.
    #[track_caller]
    pub fn get_position<'a>(&'a self, id: G::NodeId) -> (r: TopologicalPosition)
    where
        &'a G: NodeIndexable + GraphBase<NodeId = G::NodeId>/*+*/,
        requires (&self.graph).ix_of(id) < self.order_map.n2p().len()          // the documented panic
        ensures r == self.order_map.n2p()[(&self.graph).ix_of(id) as int]/*-*/,
    {
        self.order_map.get_position(id, &self.graph)
    }
//@ end
}

impl<G: Visitable + NodeIndexable> Acyclic<G>
where
    for<'a> &'a G: IntoNeighborsDirected + IntoNodeIdentifiers + GraphBase<NodeId = G::NodeId>,
{
    /*+*/
    /// the position recorded for node a
    pub open spec fn pos(&self, a: G::NodeId) -> TopologicalPosition { self.order_map.n2p()[self.graph.ix_of(a) as int] }
    /// `get_position(a)` does not panic
    pub open spec fn known(&self, a: G::NodeId) -> bool { self.graph.ix_of(a) < self.order_map.n2p().len() }
    /// UNINTERPRETED: what the bounded search of `causal_cones(min_node, max_node)` finds - "the future of min_node reaches
    /// max_node inside the window of positions between the two" (the two DFS runs themselves are TRUSTED, see causal_cones)
    pub uninterp spec fn window_reaches(&self, min_node: G::NodeId, max_node: G::NodeId) -> bool;
    /// the edge a -> b is refused: a self-loop, or b sits before a and the search from b reaches a
    pub open spec fn rejects(&self, a: G::NodeId, b: G::NodeId) -> bool
        where G::NodeId: IndexType
    {
        a.ix() == b.ix() || (self.pos(b).0 < self.pos(a).0 && self.window_reaches(b, a))
    }
    /*-*/

//@ item src/acyclic.rs | impl<G: Visitable + NodeIndexable> Acyclic<G> where for<'a> &'a G: IntoNeighborsDirected + IntoNodeIdentifiers + GraphBase<NodeId = G::NodeId> | fn is_valid_edge
    /// Check if an edge would be valid, i.e. adding it would not create a cycle.
    ///
    /// **Panics** if `a` or `b` are not found.
    pub fn is_valid_edge(&self, a: G::NodeId, b: G::NodeId) -> (r: bool)
    where
        G::NodeId: IndexType/*+*/,
        requires self.known(a), self.known(b),
            // distinct nodes have distinct positions (what OrderMap::inv gives for two present nodes)
            a.ix() != b.ix() ==> self.pos(a) != self.pos(b),
        ensures r == !self.rejects(a, b)/*-*/,            // [is_valid_edge_predicts_try_add_edge]
    {
        /*+*/proof { <G::NodeId as IndexType>::eq_law(); }/*-*/
        if a == b {
            false // No self-loops
        } else if self.get_position(a) < self.get_position(b) {
            true // valid edge in the current topological order
        } else {
            // Check if the future of `b` is disjoint from the past of `a`
            // (in which case the topological order could be adjusted)
            self.causal_cones(b, a).is_ok()
        }
    }
//@ end

//@ item src/acyclic.rs | impl<G: Visitable + NodeIndexable> Acyclic<G> where for<'a> &'a G: IntoNeighborsDirected + IntoNodeIdentifiers + GraphBase<NodeId = G::NodeId> | fn causal_cones
    /// Use DFS to find the future causal cone of `min_node` and the past causal
    /// cone of `max_node`.
    ///
    /// The cones are trimmed to the range `[min_order, max_order]`. The cones
    /// are returned if they are disjoint. Otherwise, a [`Cycle`] error is returned.
    ///
    /// If `return_result` is false, then the cones are not constructed and the
    /// method only checks for disjointness.
    // TRUSTED (two bounded DFS runs over RefCell'd scratch bit sets, closures returning Result, BTreeMap adapters): the contract
    // only NAMES its answer - Err exactly when `window_reaches(min_node, max_node)` - so that callers are checked for asking the
    // right question (which node is the start, which the goal); the body is pinned by the audit, a change to it is a conflict
    #[allow(clippy::type_complexity)]
    /*+*/#[verifier::external_body]/*-*/
    fn causal_cones(
        &self,
        min_node: G::NodeId,
        max_node: G::NodeId,
    ) -> /*+*/(r:/*-*/ Result<
        (
            BTreeMap<TopologicalPosition, G::NodeId>,
            BTreeMap<TopologicalPosition, G::NodeId>,
        ),
        Cycle<G::NodeId>,
    >/*+*/)/*-*/
    where
        G::NodeId: IndexType/*+*/,
        ensures r is Err <==> self.window_reaches(min_node, max_node)/*-*/,
    {
        /*R:D20 debug_assert!(self.discovered.borrow().is_clear());
        debug_assert!(self.finished.borrow().is_clear());

        let min_order = self.get_position(min_node);
        let max_order = self.get_position(max_node);

        // Prepare DFS scratch space: make sure the maps have enough capacity
        if self.discovered.borrow().len() < self.graph.node_bound() {
            self.discovered.borrow_mut().grow(self.graph.node_bound());
            self.finished.borrow_mut().grow(self.graph.node_bound());
        }

        // Get all nodes reachable from b with min_order <= order < max_order
        let mut forward_cone = BTreeMap::new();
        let mut backward_cone = BTreeMap::new();

        // The main logic: run DFS twice. We run this in a closure to catch
        // errors and reset the maps properly at the end.
        let mut run_dfs = || {
            // Get all nodes reachable from min_node with min_order < order <= max_order
            self.future_cone(min_node, min_order, max_order, &mut forward_cone)?;

            // Get all nodes that can reach a with min_order < order <= max_order
            // These are disjoint from the nodes in the forward cone, otherwise
            // we would have a cycle.
            self.past_cone(max_node, min_order, max_order, &mut backward_cone)
                .expect("cycles already checked in future_cone");

            Ok(())
        };

        let success = run_dfs();

        // Cleanup: reset map to 0. This is faster than a full reset, especially
        // on large sparse graphs.
        for &v in forward_cone.values().chain(backward_cone.values()) {
            self.discovered.borrow_mut().set(v.index(), false);
            self.finished.borrow_mut().set(v.index(), false);
        }
        debug_assert!(self.discovered.borrow().is_clear());
        debug_assert!(self.finished.borrow().is_clear());

        match success {
            Ok(()) => Ok((forward_cone, backward_cone)),
            Err(cycle) => Err(cycle),
        } */ unimplemented!() /*-*/
    }
//@ end

//@ item src/acyclic.rs | impl<G: Visitable + NodeIndexable> Acyclic<G> where for<'a> &'a G: IntoNeighborsDirected + IntoNodeIdentifiers + GraphBase<NodeId = G::NodeId> | fn try_add_edge
    #[track_caller]
    pub fn try_add_edge(
        &mut self,
        a: G::NodeId,
        b: G::NodeId,
        weight: G::EdgeWeight,
    ) -> (r: Result<G::EdgeId, AcyclicEdgeError<G::NodeId>>)
    where
        G: Build,
        G::NodeId: IndexType/*+*/,
        requires a.ix() != b.ix() ==> old(self).graph.add_edge_pre(a, b),    // the inner graph's own (documented) panic condition
            a.ix() != b.ix() ==> old(self).known(a) && old(self).known(b),      // "Panics if a or b are not found"
        ensures
            (r matches Err(AcyclicEdgeError::SelfLoop) || r matches Err(AcyclicEdgeError::Cycle(_))) ==> old(self).rejects(a, b),   // [try_add_edge_rejects_only_if_is_valid_edge_false]
            // (which error: this Verus leaves the value that `?` converts with `From` unspecified, so only "an error" can be stated here)
            old(self).rejects(a, b) ==> r is Err,                                                                                    // [try_add_edge_rejects_if_is_valid_edge_false]
            a.ix() == b.ix() ==> r is Err && final(self).graph == old(self).graph && final(self).order_map == old(self).order_map,   // [try_add_edge_rejects_self_loop_unchanged]
            r is Err ==> final(self).graph == old(self).graph,                                                                       // [try_add_edge_rejected_graph_unchanged]
            r matches Err(AcyclicEdgeError::Cycle(_)) ==> final(self).order_map == old(self).order_map,                              // [try_add_edge_cycle_changes_nothing]
            r matches Ok(e) ==> G::edge_added(&old(self).graph, a, b, weight, &final(self).graph, e)/*-*/,                              // [try_add_edge_ok_is_inner_add_edge]
    {
        /*+*/proof { <G::NodeId as IndexType>::eq_law(); }/*-*/
        if a == b {
            // No self-loops allowed
            return Err(AcyclicEdgeError::SelfLoop);
        }
        self.update_ordering(a, b)?;
        self.graph
            .add_edge(a, b, weight)
            .ok_or(AcyclicEdgeError::InvalidEdge)
    }
//@ end

//@ item src/acyclic.rs | impl<G: Visitable + NodeIndexable> Acyclic<G> where for<'a> &'a G: IntoNeighborsDirected + IntoNodeIdentifiers + GraphBase<NodeId = G::NodeId> | fn try_update_edge
    pub fn try_update_edge(
        &mut self,
        a: G::NodeId,
        b: G::NodeId,
        weight: G::EdgeWeight,
    ) -> (r: Result<G::EdgeId, AcyclicEdgeError<G::NodeId>>)
    where
        G: Build,
        G::NodeId: IndexType/*+*/,
        requires a.ix() != b.ix() ==> old(self).graph.update_edge_pre(a, b),
            a.ix() != b.ix() ==> old(self).known(a) && old(self).known(b),
        ensures
            r is Err <==> old(self).rejects(a, b),                                                                 // [try_update_edge_rejects_iff_is_valid_edge_false]
            a.ix() == b.ix() ==> r is Err,
            r is Err ==> final(self).graph == old(self).graph && final(self).order_map == old(self).order_map,    // [try_update_edge_rejected_changes_nothing]
            r matches Ok(e) ==> G::edge_put(&old(self).graph, a, b, weight, &final(self).graph, e)/*-*/,            // [try_update_edge_ok_is_inner_update_edge]
    {
        /*+*/proof { <G::NodeId as IndexType>::eq_law(); }/*-*/
        if a == b {
            // No self-loops allowed
            return Err(AcyclicEdgeError::SelfLoop);
        }
        self.update_ordering(a, b)?;
        Ok(self.graph.update_edge(a, b, weight))
    }
//@ end

//@ item src/acyclic.rs | impl<G: Visitable + NodeIndexable> Acyclic<G> where for<'a> &'a G: IntoNeighborsDirected + IntoNodeIdentifiers + GraphBase<NodeId = G::NodeId> | fn update_ordering
    /// Update the ordering of the nodes in the order map resulting from adding an
    /// edge a -> b.
    ///
    /// If a cycle is detected, an error is returned and `self` remains unchanged.
    ///
    /// Implements the core update logic of the PK algorithm.
    // The decision part is verified: when the order is already right nothing happens; otherwise the question put to
    // `causal_cones` is "does the future of b reach a".  The reassignment of positions that follows a negative answer
    // (BTreeSet / chain / zip adapters) is TRUSTED: D21 writes it as a call of `reassign_positions`, contract: the graph is not touched.
    #[track_caller]
    fn update_ordering(&mut self, a: G::NodeId, b: G::NodeId) -> (r: Result<(), Cycle<G::NodeId>>)
    where
        G::NodeId: IndexType/*+*/,
        requires old(self).known(a), old(self).known(b),
        ensures final(self).graph == old(self).graph, r is Err ==> final(self).order_map == old(self).order_map,
            r is Err <==> (old(self).pos(b).0 < old(self).pos(a).0 && old(self).window_reaches(b, a))/*-*/,   // [update_ordering_rejects_iff_cone_reaches]
    {
        let min_order = self.get_position(b);
        let max_order = self.get_position(a);
        if min_order >= max_order {
            // Order is already correct
            return Ok(());
        }

        // Get the nodes reachable from `b` and the nodes that can reach `a`
        // between `min_order` and `max_order`
        let (b_fut, a_past) = self.causal_cones(b, a)?;

        // Now reorder of nodes in a_past and b_fut such that
        //  i) within each vec, the nodes are in topological order,
        // ii) all elements of b_fut come before all elements of a_past in the new order.
        /*R:D21 let all_positions: BTreeSet<_> = b_fut.keys().chain(a_past.keys()).copied().collect();
        let all_nodes = a_past.values().chain(b_fut.values()).copied();

        debug_assert_eq!(all_positions.len(), b_fut.len() + a_past.len());

        for (pos, node) in all_positions.into_iter().zip(all_nodes) {
            self.order_map.set_position(node, pos, &self.graph);
        } */ self.reassign_positions(b_fut, a_past); /*-*/
        Ok(())
    }
//@ end
}
