// ======================================================================================
// fragment acyclic_edges.rs - src/acyclic.rs: the edge-insertion wrappers of Acyclic<G>, generic in G (property C14):
// a self-loop or a rejected insertion changes nothing, an accepted one is exactly the inner graph's insertion.
// The Pearce-Kelly reordering `update_ordering` itself is TRUSTED here (contract: Err = unchanged, Ok = graph untouched).
// ======================================================================================

//@ item src/data.rs | - | trait Build
/// A graph that can be extended with further nodes and edges
pub trait Build: Data + NodeCount /*+*/+ Sized/*-*/ {   // (D26: `Sized` added so that `unchanged` can be stated as equality; every implementor is a sized type)
    /*+*/
    /// `post` is `pre` with the edge a -> b (weight w) added or updated, e its id (what that means is the implementor's business)
    spec fn edge_put(pre: &Self, a: Self::NodeId, b: Self::NodeId, post: &Self, e: Self::EdgeId) -> bool;
    /*-*/
    fn add_node(&mut self, weight: Self::NodeWeight) -> Self::NodeId;
    /// Add a new edge. If parallel edges (duplicate) are not allowed and
    /// the edge already exists, return `None`.
    ///
    /// Might panic if `a` or `b` are out of bounds.
    #[track_caller]
    fn add_edge(
        &mut self,
        a: Self::NodeId,
        b: Self::NodeId,
        weight: Self::EdgeWeight,
    ) -> (r: Option<Self::EdgeId>)
        /*+*/ensures match r { Some(e) => Self::edge_put(old(self), a, b, final(self), e), None => *final(self) == *old(self) }/*-*/
    {
        Some(self.update_edge(a, b, weight))
    }
    /// Add or update the edge from `a` to `b`. Return the id of the affected
    /// edge.
    ///
    /// Might panic if `a` or `b` are out of bounds.
    #[track_caller]
    fn update_edge(
        &mut self,
        a: Self::NodeId,
        b: Self::NodeId,
        weight: Self::EdgeWeight,
    ) -> (r: Self::EdgeId)
        /*+*/ensures Self::edge_put(old(self), a, b, final(self), r)/*-*/;
}
//@ end

//@ item src/algo/mod.rs | - | struct Cycle
/// An algorithm error: a cycle was found in the graph.
pub struct Cycle<N>(pub N);
//@ end

//@ item src/acyclic.rs | - | enum AcyclicEdgeError
/// An error that can occur during edge addition for acyclic graphs.
pub enum AcyclicEdgeError<N> {
    /// The edge would create a cycle.
    Cycle(Cycle<N>),
    /// The edge would create a self-loop.
    SelfLoop,
    /// Could not successfully add the edge to the underlying graph.
    InvalidEdge,
}
//@ end

impl<N> vstd::std_specs::convert::FromSpecImpl<Cycle<N>> for AcyclicEdgeError<N> {
    open spec fn obeys_from_spec() -> bool { true }
    open spec fn from_spec(v: Cycle<N>) -> Self { AcyclicEdgeError::Cycle(v) }
}
//@ item src/acyclic.rs | - | impl<N> From<Cycle<N>> for AcyclicEdgeError<N>
impl<N> From<Cycle<N>> for AcyclicEdgeError<N> {
    fn from(cycle: Cycle<N>) -> Self {
        AcyclicEdgeError::Cycle(cycle)
    }
}
//@ end

impl<G: Visitable + NodeIndexable> Acyclic<G>
where
    for<'a> &'a G: IntoNeighborsDirected + IntoNodeIdentifiers + GraphBase<NodeId = G::NodeId>,
{
//@ item src/acyclic.rs | impl<G: Visitable + NodeIndexable> Acyclic<G> where for<'a> &'a G: IntoNeighborsDirected + IntoNodeIdentifiers + GraphBase<NodeId = G::NodeId> | fn try_add_edge
    #[track_caller]
    pub fn try_add_edge(
        &mut self,
        a: G::NodeId,
        b: G::NodeId,
        weight: G::EdgeWeight,
    ) -> (r: Result<G::EdgeId, AcyclicEdgeError<G::NodeId>>)
    where
        G: Build,
        G::NodeId: IndexType/*+*/,
        ensures
            a.ix() == b.ix() ==> r is Err && final(self).graph == old(self).graph && final(self).order_map == old(self).order_map,   // [try_add_edge_rejects_self_loop_unchanged]
            r is Err ==> final(self).graph == old(self).graph,                                                                       // [try_add_edge_rejected_graph_unchanged]
            r matches Err(AcyclicEdgeError::Cycle(_)) ==> final(self).order_map == old(self).order_map,                              // [try_add_edge_cycle_changes_nothing]
            r matches Ok(e) ==> G::edge_put(&old(self).graph, a, b, &final(self).graph, e)/*-*/,                                       // [try_add_edge_ok_is_inner_add_edge]
    {
        /*+*/proof { <G::NodeId as IndexType>::eq_law(); }/*-*/
        if a == b {
            // No self-loops allowed
            return Err(AcyclicEdgeError::SelfLoop);
        }
        self.update_ordering(a, b)?;
        self.graph
            .add_edge(a, b, weight)
            .ok_or(AcyclicEdgeError::InvalidEdge)
    }
//@ end

//@ item src/acyclic.rs | impl<G: Visitable + NodeIndexable> Acyclic<G> where for<'a> &'a G: IntoNeighborsDirected + IntoNodeIdentifiers + GraphBase<NodeId = G::NodeId> | fn try_update_edge
    pub fn try_update_edge(
        &mut self,
        a: G::NodeId,
        b: G::NodeId,
        weight: G::EdgeWeight,
    ) -> (r: Result<G::EdgeId, AcyclicEdgeError<G::NodeId>>)
    where
        G: Build,
        G::NodeId: IndexType/*+*/,
        ensures
            a.ix() == b.ix() ==> r is Err,
            r is Err ==> final(self).graph == old(self).graph && final(self).order_map == old(self).order_map,    // [try_update_edge_rejected_changes_nothing]
            r matches Ok(e) ==> G::edge_put(&old(self).graph, a, b, &final(self).graph, e)/*-*/,                    // [try_update_edge_ok_is_inner_update_edge]
    {
        /*+*/proof { <G::NodeId as IndexType>::eq_law(); }/*-*/
        if a == b {
            // No self-loops allowed
            return Err(AcyclicEdgeError::SelfLoop);
        }
        self.update_ordering(a, b)?;
        Ok(self.graph.update_edge(a, b, weight))
    }
//@ end

//@ item src/acyclic.rs | impl<G: Visitable + NodeIndexable> Acyclic<G> where for<'a> &'a G: IntoNeighborsDirected + IntoNodeIdentifiers + GraphBase<NodeId = G::NodeId> | fn update_ordering
    /// Update the ordering of the nodes in the order map resulting from adding an
    /// edge a -> b.
    ///
    /// If a cycle is detected, an error is returned and `self` remains unchanged.
    ///
    /// Implements the core update logic of the PK algorithm.
    // TRUSTED (Pearce-Kelly: RefCell'd scratch bit sets, generic DFS, BTreeMap/BTreeSet adapters): the contract below is its doc
    // comment - Err leaves self unchanged - plus `the graph is not touched`
    #[track_caller]
    /*+*/#[verifier::external_body]/*-*/
    fn update_ordering(&mut self, a: G::NodeId, b: G::NodeId) -> (r: Result<(), Cycle<G::NodeId>>)
    where
        G::NodeId: IndexType/*+*/,
        ensures final(self).graph == old(self).graph, r is Err ==> final(self).order_map == old(self).order_map/*-*/,
    {
        /*R:D20 let min_order = self.get_position(b);
        let max_order = self.get_position(a);
        if min_order >= max_order {
            // Order is already correct
            return Ok(());
        }

        // Get the nodes reachable from `b` and the nodes that can reach `a`
        // between `min_order` and `max_order`
        let (b_fut, a_past) = self.causal_cones(b, a)?;

        // Now reorder of nodes in a_past and b_fut such that
        //  i) within each vec, the nodes are in topological order,
        // ii) all elements of b_fut come before all elements of a_past in the new order.
        let all_positions: BTreeSet<_> = b_fut.keys().chain(a_past.keys()).copied().collect();
        let all_nodes = a_past.values().chain(b_fut.values()).copied();

        debug_assert_eq!(all_positions.len(), b_fut.len() + a_past.len());

        for (pos, node) in all_positions.into_iter().zip(all_nodes) {
            self.order_map.set_position(node, pos, &self.graph);
        }
        Ok(()) */ unimplemented!() /*-*/
    }
//@ end
}
