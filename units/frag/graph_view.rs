// ======================================================================================
// fragment graph_view.rs - the abstract object of property C01: a plain mathematical
// multigraph with compact indices and per-node ordered incidence lists, and the
// representation invariant tying `Graph` to it.  (No repository code here.)
// ======================================================================================

/// `MG`: nodes 0..|nodes|, edges 0..|edges| as (source, target, weight);
/// out[a] / inn[a]: indices of the edges leaving / entering a, IN ITERATION ORDER.
pub struct MG<N, E> {
    pub nodes: Seq<N>,
    pub edges: Seq<(int, int, E)>,
    pub out: Seq<Seq<int>>,
    pub inn: Seq<Seq<int>>,
}

pub open spec fn pos_of(s: Seq<int>, x: int) -> int { choose|q: int| 0 <= q < s.len() && s[q] == x }

impl<N, E> MG<N, E> {
    pub open spec fn add_node(self, w: N) -> Self {
        MG { nodes: self.nodes.push(w), edges: self.edges, out: self.out.push(Seq::empty()), inn: self.inn.push(Seq::empty()) }
    }
    /// "a directed node's neighbors are listed most-recently-added first": the new edge goes to the FRONT of both lists
    pub open spec fn add_edge(self, a: int, b: int, w: E) -> Self {
        let m = self.edges.len() as int;
        MG { nodes: self.nodes, edges: self.edges.push((a, b, w)),
             out: self.out.update(a, seq![m] + self.out[a]), inn: self.inn.update(b, seq![m] + self.inn[b]) }
    }
    /// "the last index adopts the removed one": e is deleted from its two lists (order of the rest kept),
    /// then the last edge l is renamed to e in place.
    pub open spec fn remove_edge(self, e: int) -> Self {
        let l = self.edges.len() - 1;
        let a = self.edges[e].0; let b = self.edges[e].1;
        let out1 = self.out.update(a, self.out[a].remove(pos_of(self.out[a], e)));
        let inn1 = self.inn.update(b, self.inn[b].remove(pos_of(self.inn[b], e)));
        if e == l {
            MG { nodes: self.nodes, edges: self.edges.drop_last(), out: out1, inn: inn1 }
        } else {
            let la = self.edges[l].0; let lb = self.edges[l].1;
            MG { nodes: self.nodes, edges: self.edges.update(e, self.edges[l]).drop_last(),
                 out: out1.update(la, out1[la].update(pos_of(out1[la], l), e)),
                 inn: inn1.update(lb, inn1[lb].update(pos_of(inn1[lb], l), e)) }
        }
    }
    pub open spec fn set_edge_weight(self, e: int, w: E) -> Self {
        MG { nodes: self.nodes, edges: self.edges.update(e, (self.edges[e].0, self.edges[e].1, w)), out: self.out, inn: self.inn }
    }
    pub open spec fn set_node_weight(self, a: int, w: N) -> Self {
        MG { nodes: self.nodes.update(a, w), edges: self.edges, out: self.out, inn: self.inn }
    }
}

/// predicate "edge e's k-endpoint is node b" on the concrete edge array
pub open spec fn endpoint_is<E, Ix: IndexType>(es: Seq<Edge<E, Ix>>, k: int, b: int) -> spec_fn(int) -> bool {
    |e: int| es[e].node[k].0.ix() == b
}
pub proof fn lemma_first_with_ext(s: Seq<int>, p: spec_fn(int) -> bool, q: spec_fn(int) -> bool)
    requires forall|i: int| 0 <= i < s.len() ==> p(#[trigger] s[i]) == q(s[i])
    ensures first_with(s, p) == first_with(s, q)
    decreases s.len()
{
    if s.len() > 0 {
        let t = s.drop_first();
        assert forall|i: int| 0 <= i < t.len() implies p(#[trigger] t[i]) == q(t[i]) by { assert(t[i] == s[i + 1]); }
        assert(p(s[0]) == q(s[0]));
        lemma_first_with_ext(t, p, q);
    }
}
/// first element of s satisfying p
pub open spec fn first_with(s: Seq<int>, p: spec_fn(int) -> bool) -> Option<int>
    decreases s.len()
{
    if s.len() == 0 { None } else if p(s[0]) { Some(s[0]) } else { first_with(s.drop_first(), p) }
}

pub proof fn lemma_first_with_some(s: Seq<int>, p: spec_fn(int) -> bool, i: int)
    requires 0 <= i < s.len(), p(s[i]), forall|j: int| 0 <= j < i ==> !p(s[j])
    ensures first_with(s, p) == Some(s[i])
    decreases i
{
    if i > 0 {
        let t = s.drop_first();
        assert forall|j: int| 0 <= j < i - 1 implies !p(t[j]) by { assert(t[j] == s[j + 1]); }
        assert(t[i - 1] == s[i]);
        lemma_first_with_some(t, p, i - 1);
    }
}
pub proof fn lemma_first_with_member(s: Seq<int>, p: spec_fn(int) -> bool)
    ensures first_with(s, p) is Some ==> s.contains(first_with(s, p).unwrap()) && p(first_with(s, p).unwrap())
    decreases s.len()
{
    if s.len() > 0 {
        if p(s[0]) { assert(s[0] == s[0]); }
        else {
            let t = s.drop_first();
            lemma_first_with_member(t, p);
            if first_with(t, p) is Some {
                let x = first_with(t, p).unwrap();
                let i = choose|i: int| 0 <= i < t.len() && t[i] == x;
                assert(s[i + 1] == x);
            }
        }
    }
}
pub proof fn lemma_first_with_none(s: Seq<int>, p: spec_fn(int) -> bool)
    requires forall|j: int| 0 <= j < s.len() ==> !p(s[j])
    ensures first_with(s, p) is None
    decreases s.len()
{
    if s.len() > 0 {
        let t = s.drop_first();
        assert forall|j: int| 0 <= j < t.len() implies !p(t[j]) by { assert(t[j] == s[j + 1]); }
        lemma_first_with_none(t, p);
    }
}

pub proof fn lemma_slist_unique<E, Ix: IndexType>(es: Seq<Edge<E, Ix>>, head: EdgeIndex<Ix>, k: int, s: Seq<int>, t: Seq<int>)
    requires slist(es, head, k, s), slist(es, head, k, t), es.len() <= end_ix::<Ix>()
    ensures s == t
    decreases s.len()
{
    if s.len() == 0 {
        if t.len() > 0 { assert(false); }
        assert(t =~= s);
    } else {
        if t.len() == 0 { assert(false); }
        lemma_slist_unique(es, es[s[0]].next[k], k, s.drop_first(), t.drop_first());
        assert(t =~= seq![t[0]] + t.drop_first());
        assert(s =~= seq![s[0]] + s.drop_first());
    }
}
pub proof fn lemma_slist_is_chain<E, Ix: IndexType>(es: Seq<Edge<E, Ix>>, head: EdgeIndex<Ix>, k: int, s: Seq<int>)
    requires slist(es, head, k, s), es.len() <= end_ix::<Ix>()
    ensures chain(es, head, k, s)
    decreases s.len()
{
    if s.len() > 0 { lemma_slist_is_chain(es, es[s[0]].next[k], k, s.drop_first()); }
}

/// the k-list hanging off a head pointer (unique when it exists)
pub open spec fn list_of<E, Ix: IndexType>(es: Seq<Edge<E, Ix>>, head: EdgeIndex<Ix>, k: int) -> Seq<int> {
    choose|s: Seq<int>| slist(es, head, k, s)
}
/// the chain (list ending at any out-of-range pointer) hanging off a head pointer
pub open spec fn chain_of<E, Ix: IndexType>(es: Seq<Edge<E, Ix>>, head: EdgeIndex<Ix>, k: int) -> Seq<int> {
    choose|s: Seq<int>| chain(es, head, k, s)
}
pub proof fn lemma_chain_of<E, Ix: IndexType>(es: Seq<Edge<E, Ix>>, head: EdgeIndex<Ix>, k: int, s: Seq<int>)
    requires chain(es, head, k, s)
    ensures chain_of(es, head, k) == s
{
    lemma_list_unique(es, head, k, s);
}
pub proof fn lemma_list_of<E, Ix: IndexType>(es: Seq<Edge<E, Ix>>, head: EdgeIndex<Ix>, k: int, s: Seq<int>)
    requires slist(es, head, k, s), es.len() <= end_ix::<Ix>()
    ensures list_of(es, head, k) == s
{
    lemma_slist_unique(es, head, k, list_of(es, head, k), s);
}

// (no `Ty: EdgeType` bound: the representation invariant does not depend on the edge type, and `Clone` is implemented without that bound)
impl<N, E, Ty, Ix: IndexType> Graph<N, E, Ty, Ix> {
    pub open spec fn n(&self) -> int { self.nodes@.len() as int }
    pub open spec fn m(&self) -> int { self.edges@.len() as int }
    pub open spec fn outs(&self) -> Seq<Seq<int>> {
        Seq::new(self.nodes@.len(), |a: int| list_of(self.edges@, self.nodes@[a].next[0], 0))
    }
    pub open spec fn inns(&self) -> Seq<Seq<int>> {
        Seq::new(self.nodes@.len(), |a: int| list_of(self.edges@, self.nodes@[a].next[1], 1))
    }
    /// representation invariant (DESIGN §4 C01): index ranges fit below `end`, endpoints in range, and the two
    /// intrusive list families are exactly the duplicate-free partitions of the edge set by source / by target
    pub open spec fn wf(&self) -> bool { self.wf_with(self.outs(), self.inns()) }

    pub open spec fn node_ws(&self) -> Seq<N> { Seq::new(self.nodes@.len(), |a: int| self.nodes@[a].weight) }
    pub open spec fn edge_ps(&self) -> Seq<(int, int, E)> {
        Seq::new(self.edges@.len(), |e: int| (self.edges@[e].node[0].i(), self.edges@[e].node[1].i(), self.edges@[e].weight))
    }
    /// abstraction function
    pub open spec fn view(&self) -> MG<N, E> {
        MG { nodes: self.node_ws(), edges: self.edge_ps(), out: self.outs(), inn: self.inns() }
    }

    pub proof fn lemma_wf_unique(&self, out: Seq<Seq<int>>, inn: Seq<Seq<int>>)
        requires self.wf_with(out, inn)
        ensures self.wf(), out == self.outs(), inn == self.inns()
    {
        assert forall|a: int| 0 <= a < self.nodes@.len() implies out[a] == #[trigger] self.outs()[a] by {
            lemma_list_of(self.edges@, self.nodes@[a].next[0], 0, out[a]);
        }
        assert forall|a: int| 0 <= a < self.nodes@.len() implies inn[a] == #[trigger] self.inns()[a] by {
            lemma_list_of(self.edges@, self.nodes@[a].next[1], 1, inn[a]);
        }
        assert(out =~= self.outs());
        assert(inn =~= self.inns());
    }
}

pub proof fn lemma_slist_same_links<E, Ix: IndexType>(es: Seq<Edge<E, Ix>>, es2: Seq<Edge<E, Ix>>, head: EdgeIndex<Ix>, k: int, s: Seq<int>)
    requires slist(es, head, k, s), es2.len() == es.len(),
        forall|e: int| 0 <= e < es.len() ==> (#[trigger] es2[e]).next == es[e].next,
    ensures slist(es2, head, k, s)
    decreases s.len()
{
    if s.len() > 0 { lemma_slist_same_links(es, es2, es[s[0]].next[k], k, s.drop_first()); }
}

impl<N, E, Ty, Ix: IndexType> Graph<N, E, Ty, Ix> {
    /// writing only a weight keeps every list
    pub proof fn lemma_weights_only(&self, o: &Self)
        requires o.wf(), self.nodes@.len() == o.nodes@.len(), self.edges@.len() == o.edges@.len(),
            forall|a: int| 0 <= a < o.nodes@.len() ==> (#[trigger] self.nodes@[a]).next == o.nodes@[a].next,
            forall|e: int| 0 <= e < o.edges@.len() ==> (#[trigger] self.edges@[e]).next == o.edges@[e].next && self.edges@[e].node == o.edges@[e].node,
        ensures self.wf(), self.outs() == o.outs(), self.inns() == o.inns()
    {
        let out = o.outs(); let inn = o.inns();
        assert forall|k: int, ls: Seq<Seq<int>>| 0 <= k < 2 && #[trigger] lists_ok(o.nodes@, o.edges@, k, ls) implies lists_ok(self.nodes@, self.edges@, k, ls) by {
            assert forall|a: int| 0 <= a < self.nodes@.len() implies slist(self.edges@, self.nodes@[a].next[k], k, #[trigger] ls[a]) && no_dup(ls[a]) by {
                lemma_slist_same_links(o.edges@, self.edges@, o.nodes@[a].next[k], k, ls[a]);
                assert(self.nodes@[a].next == o.nodes@[a].next);
            }
            assert forall|a: int, i: int| 0 <= a < self.nodes@.len() && 0 <= i < ls[a].len() implies self.edges@[#[trigger] ls[a][i]].node[k].0.ix() == a by {
                lemma_slist_range(o.edges@, o.nodes@[a].next[k], k, ls[a]);
            }
            assert forall|e: int| 0 <= e < self.edges@.len() implies (#[trigger] ls[self.edges@[e].node[k].0.ix() as int]).contains(e) by {
                assert(self.edges@[e].node == o.edges@[e].node);
            }
        }
        assert(lists_ok(self.nodes@, self.edges@, 0, out));
        assert(lists_ok(self.nodes@, self.edges@, 1, inn));
        assert forall|e: int| 0 <= e < self.edges@.len() implies (#[trigger] self.edges@[e]).node[0].0.ix() < self.nodes@.len() && self.edges@[e].node[1].0.ix() < self.nodes@.len() by {
            assert(self.edges@[e].node == o.edges@[e].node);
        }
        assert(self.wf_with(out, inn));
        self.lemma_wf_unique(out, inn);
    }
}
