// ======================================================================================
// fragment stdspecs.rs - std functions without a vstd specification: ASSUMED contracts, written
// from the std documentation (listed in every evidence file; DESIGN §6 item 3)
// ======================================================================================
pub assume_specification<T>[ core::mem::replace::<T> ](dest: &mut T, src: T) -> (r: T)
    ensures r == *old(dest), *final(dest) == src;
pub assume_specification<T: Default>[ core::mem::take::<T> ](dest: &mut T) -> (r: T)
    ensures r == *old(dest), call_ensures(<T as Default>::default, (), *final(dest));
pub assume_specification<T: Ord>[ core::cmp::max::<T> ](a: T, b: T) -> (r: T)
    ensures T::obeys_cmp_spec() ==> r == (if a.cmp_spec(&b) == Ordering::Greater { a } else { b });
pub assume_specification<T: Ord>[ core::cmp::min::<T> ](a: T, b: T) -> (r: T)
    ensures T::obeys_cmp_spec() ==> r == (if a.cmp_spec(&b) == Ordering::Greater { b } else { a });
/// `Option::map_or`: the default for None, else the mapper's result
pub assume_specification<T, U, F: FnOnce(T) -> U>[ Option::<T>::map_or ](o: Option<T>, default: U, f: F) -> (r: U)
    requires o is Some ==> f.requires((o->Some_0,))
    ensures match o { Some(x) => f.ensures((x,), r), None => r == default };
/// `impl<T> From<T> for Option<T>` wraps in Some
pub assume_specification<T>[ <Option<T> as From<T>>::from ](t: T) -> (r: Option<T>)
    ensures r == Some(t);
/// `#[derive(PartialEq)]` on `core::result::Result` is structural
pub assume_specification<T: PartialEq, E: PartialEq>[ <Result<T, E> as PartialEq>::eq ](a: &Result<T, E>, b: &Result<T, E>) -> (r: bool)
    ensures T::obeys_eq_spec() && E::obeys_eq_spec() ==> r == (match (*a, *b) { (Ok(x), Ok(y)) => x.eq_spec(&y), (Err(x), Err(y)) => x.eq_spec(&y), _ => false });
pub assume_specification<T>[ <[T]>::swap ](s: &mut [T], a: usize, b: usize)
    requires a < old(s)@.len(), b < old(s)@.len()
    ensures final(s)@ == old(s)@.update(a as int, old(s)@[b as int]).update(b as int, old(s)@[a as int]);
