// ======================================================================================
// fragment adj_visit.rs - adj::List through the visit traits, the index part (C05, C06): GraphBase, NodeCount, NodeIndexable -
// the nodes are exactly the indices 0..node_count = node_bound, to_index is the index itself and from_index its inverse.
// (List's iterators are iterator_wrap! expansions over map / zip / repeat / flat_map chains and are not under contract.)
// ======================================================================================

//@ item src/adj.rs | - | impl<E, Ix> visit::GraphBase for List<E, Ix> where Ix: IndexType
impl<E, Ix> visit::GraphBase for List<E, Ix>
where
    Ix: IndexType,
{
    type NodeId = NodeIndex<Ix>;
    type EdgeId = EdgeIndex<Ix>;
}
//@ end

//@ item src/adj.rs | - | impl<E, Ix: IndexType> NodeCount for List<E, Ix>
impl<E, Ix: IndexType> NodeCount for List<E, Ix> {
    /*+*/open spec fn ncount(&self) -> usize { self.suc.len() }/*-*/
    /// Returns the number of nodes in the list
    ///
    /// Computes in **O(1)** time.
    fn node_count(&self) -> usize {
        self.suc.len()
    }
}
//@ end

//@ item src/adj.rs | - | impl<E, Ix: IndexType> visit::NodeIndexable for List<E, Ix>
impl<E, Ix: IndexType> visit::NodeIndexable for List<E, Ix> {
    /*+*/
    open spec fn is_nid(&self, a: Ix) -> bool { a.ix() < self.suc@.len() }
    open spec fn nbound(&self) -> usize { self.suc.len() }
    open spec fn ix_of(&self, a: Ix) -> usize { a.ix() }
    proof fn ix_inj_law(&self, a: Ix, b: Ix) { Ix::ix_inj(a, b); }
    /*-*/
    fn node_bound(&self) -> usize {
        self.node_count()
    }
    #[inline]
    fn to_index(&self, a: Self::NodeId) -> usize {
        a.index()
    }
    #[inline]
    fn from_index(&self, i: usize) -> Self::NodeId {
        /*+*/proof { assert forall|a: Ix| self.is_nid(a) && self.ix_of(a) == i implies Ix::spec_new(i) == a by { Ix::ix_bound(a); Ix::new_law(i); Ix::ix_inj(a, Ix::spec_new(i)); } }/*-*/
        Ix::new(i)
    }
}
//@ end
