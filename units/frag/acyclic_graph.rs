// ======================================================================================
// fragment acyclic_graph.rs - src/acyclic.rs: the removal pass-throughs of Acyclic<DiGraph>
// (property C14, the bookkeeping half).  Same macro body as acyclic_stable.rs, extracted with
// `$graph_type` := DiGraph (rules D7 / N7).  Graph::remove_node RENUMBERS the last node.
// ======================================================================================

//@ item src/graph_impl/mod.rs | - | type DiGraph
/// A `Graph` with directed edges.
///
/// For example, an edge from *1* to *2* is distinct from an edge from *2* to
/// *1*.
pub type DiGraph<N, E, Ix = DefaultIx> = Graph<N, E, Directed, Ix>;
//@ end

impl<N, E, Ix: IndexType> Acyclic<DiGraph<N, E, Ix>> {
    /// position of the node with index a
    pub open spec fn pos(&self, a: int) -> usize { self.order_map.n2p()[a].0 }
    /// C14's state invariant (bookkeeping half): the order map is a bijection between its positions and exactly the
    /// nodes, and every edge goes from an earlier to a later position (hence the graph has no directed cycle).
    pub open spec fn ainv(&self) -> bool {
        &&& self.graph.wf()
        &&& self.order_map.inv(&&self.graph)
        &&& forall|a: NodeIndex<Ix>| a.i() < self.graph.n() ==> #[trigger] self.order_map.present(a)
        &&& forall|e: int| 0 <= e < self.graph.m() ==> self.pos((#[trigger] self.graph.edges@[e]).node[0].i()) < self.pos(self.graph.edges@[e].node[1].i())
    }
    /// a node has a slot in the position vector
    pub proof fn lemma_node_in_range(&self, a: NodeIndex<Ix>)
        requires self.ainv(), a.i() < self.graph.n()
        ensures a.i() < self.order_map.n2p().len(),
            self.order_map.p2n().contains_key(self.order_map.n2p()[a.i()]) && self.order_map.p2n()[self.order_map.n2p()[a.i()]] == a
    {
        assert(self.order_map.present(a));
        let p = choose|p: TopologicalPosition| self.order_map.p2n().contains_key(p) && self.order_map.p2n()[p] == a;
        assert((&self.graph).ix_of(self.order_map.p2n()[p]) < self.order_map.n2p().len());
    }
}

impl<N, E, Ix: IndexType> Acyclic<DiGraph<N, E, Ix>> {
//@ item src/acyclic.rs | impl<N, E, Ix: IndexType> Acyclic<DiGraph<N, E, Ix>> | fn remove_edge | subst=$graph_type:DiGraph
            /// Remove an edge and return its edge weight, or None if it didn't exist.
            ///
            /// Pass through to underlying graph.
            pub fn remove_edge(
                &mut self,
                e: <DiGraph<N, E, Ix> as GraphBase>::EdgeId,
            ) -> (r: Option<E>)
                /*+*/requires old(self).ainv()
                ensures final(self).ainv(),                                                  // [acyclic_remove_edge_keeps_order]
                    final(self).order_map == old(self).order_map,                            // [acyclic_remove_edge_order_untouched]
                    r is Some <==> e.i() < old(self).graph.m()/*-*/
            {
                /*+*/let r = {/*-*/ self.graph.remove_edge(e) /*+*/};
                proof {
                    if e.i() < old(self).graph.m() {
                        assert forall|j: int| 0 <= j < self.graph.m() implies self.pos((#[trigger] self.graph.edges@[j]).node[0].i()) < self.pos(self.graph.edges@[j].node[1].i()) by {
                            let src = if j == e.0.ix() { old(self).graph.edges@.len() - 1 } else { j };
                            assert(self.graph.edges@[j].node == old(self).graph.edges@[src].node);
                        }
                    }
                }
                r/*-*/
            }
//@ end

//@ item src/acyclic.rs | impl<N, E, Ix: IndexType> Acyclic<DiGraph<N, E, Ix>> | fn remove_node | subst=$graph_type:DiGraph
            /// Remove a node from the graph if it exists, and return its
            /// weight. If it doesn't exist in the graph, return None.
            ///
            /// This updates the order in O(v) runtime and removes the node in
            /// the underlying graph.
            pub fn remove_node(
                &mut self,
                n: <DiGraph<N, E, Ix> as GraphBase>::NodeId,
            ) -> (r: Option<N>)
                /*+*/requires old(self).ainv()
                ensures final(self).ainv(),                                                                     // [acyclic_remove_node_keeps_order]
                    r is Some <==> n.i() < old(self).graph.n(),                                                 // [acyclic_remove_node_none_iff_absent]
                    r is None ==> final(self).order_map.p2n() == old(self).order_map.p2n() && final(self).graph.nodes@ == old(self).graph.nodes@ && final(self).graph.edges@ == old(self).graph.edges@,   // [acyclic_remove_absent_node_changes_nothing]
                    // every other node keeps its position; the renumbered last node keeps it under its new index n
                    r is Some ==> (forall|p: TopologicalPosition| old(self).order_map.p2n().contains_key(p) && old(self).order_map.p2n()[p] != n
                        ==> final(self).order_map.p2n().contains_key(p) && final(self).order_map.p2n()[p].i() == renamed(old(self).order_map.p2n()[p].i(), old(self).graph.n() - 1, n.i())),   // [acyclic_remove_node_others_keep_position]
                    r is Some ==> (forall|p: TopologicalPosition| #[trigger] final(self).order_map.p2n().contains_key(p) ==> old(self).order_map.p2n().contains_key(p) && old(self).order_map.p2n()[p] != n)/*-*/
            {
                // a node that is not in the graph has no entry in the order map
                /*R:D16 self.graph.node_weight(n)?; */ match self.graph.node_weight(n) { None => { return None; }, Some(__w) => {} } /*-*/
                /*+*/proof { old(self).lemma_node_in_range(n); }/*-*/
                self.order_map.remove_node(n, &self.graph);
                // A graph with compact indices moves its last node into the
                // freed slot: that node then needs its position under its
                // new index.
                /*+*/let ghost om0 = old(self).order_map; let ghost om1 = self.order_map; let ghost g0 = self.graph; let ghost l = g0.n() - 1; let ghost ni = n.i();/*-*/
                let last = NodeIndex::new(self.graph.node_bound() - 1);
                let weight = self.graph.remove_node(n);
                /*+*/proof { Ix::ix_bound(n.0); let ll: NodeIndex<Ix> = last; assert(ll.i() == l); old(self).lemma_node_in_range(ll); Ix::eq_law(); }/*-*/
                if last != n && self.graph.node_weight(last).is_none() {
                    self.order_map.rename_node(last, n, &self.graph);
                }
                /*+*/let r = {/*-*/ weight /*+*/};
                proof {
                    let g1 = self.graph; let om2 = self.order_map;
                    let pl = om0.n2p()[l];
                    let f = choose|f: Seq<int>| #![auto] {
                        &&& f.len() == g1.m()
                        &&& forall|i: int, j: int| 0 <= i < j < f.len() ==> f[i] != f[j]
                        &&& forall|j: int| 0 <= j < f.len() ==> 0 <= f[j] < g0.m() && !incident(g0.edges@, f[j], ni)
                                && g1.edges@[j].weight == g0.edges@[f[j]].weight
                                && g1.edges@[j].node[0].i() == renamed(g0.edges@[f[j]].node[0].i(), l, ni)
                                && g1.edges@[j].node[1].i() == renamed(g0.edges@[f[j]].node[1].i(), l, ni)
                        &&& forall|i: int| 0 <= i < g0.m() && !incident(g0.edges@, i, ni) ==> f.contains(i)
                    };
                    // the bijection
                    assert forall|p: TopologicalPosition| om2.p2n().contains_key(p) implies
                        (&g1).is_nid(#[trigger] om2.p2n()[p]) && (&g1).ix_of(om2.p2n()[p]) < om2.n2p().len() && om2.n2p()[(&g1).ix_of(om2.p2n()[p]) as int] == p by {
                        let x = om2.p2n()[p];
                        if ni != l && p == pl { assert(x == n); }
                        else {
                            assert(om1.p2n().contains_key(p) && om1.p2n()[p] == x);
                            assert(om0.p2n().contains_key(p) && om0.p2n()[p] == x);
                            assert(x != n) by { if x == n { assert(om1.present(n)); } }
                            Ix::ix_inj(x.0, n.0);
                            assert((&g0).is_nid(x));
                            if ni != l { assert(x.i() != l) by { if x.i() == l { Ix::ix_inj(x.0, last.0); om0.lemma_injective(&&g0, p, pl); } } }
                        }
                    }
                    assert forall|p: TopologicalPosition| #[trigger] om2.p2n().contains_key(p) implies om0.p2n().contains_key(p) && om0.p2n()[p] != n by {
                        if ni != l && p == pl { assert(om0.p2n()[pl] == last); Ix::ix_inj(last.0, n.0); }
                        else { assert(om1.p2n().contains_key(p)); if om0.p2n()[p] == n { assert(om1.present(n)); } }
                    }
                    // every node is listed
                    assert forall|a: NodeIndex<Ix>| a.i() < g1.n() implies #[trigger] om2.present(a) by {
                        if a.i() == ni { Ix::ix_inj(a.0, n.0); assert(ni != l); assert(om2.p2n().contains_key(pl) && om2.p2n()[pl] == a); }
                        else {
                            assert(om0.present(a));
                            let p = choose|p: TopologicalPosition| om0.p2n().contains_key(p) && om0.p2n()[p] == a;
                            assert(a != n);
                            assert(om1.p2n().contains_key(p) && om1.p2n()[p] == a);
                            if ni != l { assert(p != pl) by { if p == pl { assert(om0.p2n()[pl] == last); } } }
                            assert(om2.p2n().contains_key(p) && om2.p2n()[p] == a);
                        }
                    }
                    // every edge still goes forward
                    assert forall|j: int| 0 <= j < g1.m() implies self.pos((#[trigger] g1.edges@[j]).node[0].i()) < self.pos(g1.edges@[j].node[1].i()) by {
                        let i0 = f[j];
                        let s0 = g0.edges@[i0].node[0]; let t0 = g0.edges@[i0].node[1];
                        assert(s0.i() != ni && t0.i() != ni);
                        assert(old(self).pos(s0.i()) < old(self).pos(t0.i()));
                        old(self).lemma_node_in_range(s0); old(self).lemma_node_in_range(t0);
                    }
                }
                r/*-*/
            }
//@ end
}
