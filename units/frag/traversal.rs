// ======================================================================================
// fragment traversal.rs - src/visit/traversal.rs: Dfs and Bfs, generic in the graph G and
// the visit map VM, verified against the trait contracts of visit_traits.rs (property C08)
// ======================================================================================
use std::collections::VecDeque;

/// the i-th successor of u is x
pub open spec fn is_succ<G: IntoNeighbors>(g: G, u: G::NodeId, i: int, x: G::NodeId) -> bool { 0 <= i < g.succ(u).len() && g.succ(u)[i] == x }
/// x is reachable from a member of s in at most k steps along `succ`
pub open spec fn reach_in<G: IntoNeighbors>(g: G, s: ISet<G::NodeId>, x: G::NodeId, k: nat) -> bool
    decreases k
{
    s.contains(x) || (k > 0 && exists|u: G::NodeId, i: int| reach_in(g, s, u, (k - 1) as nat) && #[trigger] is_succ(g, u, i, x))
}
/// "reachable from the start set" - the reference object of the statement
pub open spec fn reach<G: IntoNeighbors>(g: G, s: ISet<G::NodeId>, x: G::NodeId) -> bool { exists|k: nat| reach_in(g, s, x, k) }

/// a set that contains the start set and is closed under successors contains everything reachable
pub proof fn lemma_reach_closed<G: IntoNeighbors>(g: G, s: ISet<G::NodeId>, d: ISet<G::NodeId>, x: G::NodeId, k: nat)
    requires s.subset_of(d), forall|u: G::NodeId, i: int| d.contains(u) && 0 <= i < g.succ(u).len() ==> d.contains(#[trigger] g.succ(u)[i]),
        reach_in(g, s, x, k),
    ensures d.contains(x)
    decreases k
{
    if !s.contains(x) {
        let (u, i) = choose|u: G::NodeId, i: int| reach_in(g, s, u, (k - 1) as nat) && #[trigger] is_succ(g, u, i, x);
        lemma_reach_closed(g, s, d, u, (k - 1) as nat);
    }
}
/// one more step stays reachable
pub proof fn lemma_reach_succ<G: IntoNeighbors>(g: G, s: ISet<G::NodeId>, u: G::NodeId, i: int)
    requires reach(g, s, u), 0 <= i < g.succ(u).len()
    ensures reach(g, s, g.succ(u)[i])
{
    let k = choose|k: nat| reach_in(g, s, u, k);
    assert(is_succ(g, u, i, g.succ(u)[i]));
    assert(reach_in(g, s, g.succ(u)[i], k + 1));
}
pub proof fn lemma_reach_start<G: IntoNeighbors>(g: G, s: ISet<G::NodeId>, x: G::NodeId)
    requires s.contains(x)
    ensures reach(g, s, x)
{
    assert(reach_in(g, s, x, 0));
}

pub open spec fn closed_of<G: IntoNeighbors>(g: G, d: ISet<G::NodeId>, st: Seq<G::NodeId>) -> bool {
    forall|u: G::NodeId, i: int| d.contains(u) && 0 <= i < g.succ(u).len() ==> d.contains(#[trigger] g.succ(u)[i]) || st.contains(g.succ(u)[i])
}
pub open spec fn within_of<G: IntoNeighbors>(g: G, d: ISet<G::NodeId>, st: Seq<G::NodeId>, s: ISet<G::NodeId>) -> bool {
    &&& forall|x: G::NodeId| d.contains(x) ==> reach(g, s, x)
    &&& forall|i: int| 0 <= i < st.len() ==> reach(g, s, #[trigger] st[i])
}
pub open spec fn covers_of<N>(d: ISet<N>, st: Seq<N>, s: ISet<N>) -> bool {
    forall|x: N| s.contains(x) ==> d.contains(x) || st.contains(x)
}

//@ item src/visit/traversal.rs | - | struct Dfs
#[derive(Clone, Debug)]
pub struct Dfs<N, VM> {
    /// The stack of nodes to visit
    pub stack: Vec<N>,
    /// The map of discovered nodes
    pub discovered: VM,
}
//@ end

impl<N, VM> Dfs<N, VM>
where
    N: Copy + PartialEq,
    VM: VisitMap<N>,
{
    /// every successor of a discovered node is discovered or waiting on the stack
    pub open spec fn closed<G: IntoNeighbors<NodeId = N>>(&self, g: G) -> bool { closed_of(g, self.discovered.vset(), self.stack@) }
    /// memory-safety side: the map has room for every node, and only nodes are on the stack
    pub open spec fn safe<G: IntoNeighbors<NodeId = N>>(&self, g: G) -> bool {
        &&& g.inv()
        &&& forall|a: N| g.is_node(a) ==> #[trigger] self.discovered.holds(a)
        &&& forall|i: int| 0 <= i < self.stack@.len() ==> g.is_node(#[trigger] self.stack@[i])
    }
    /// everything seen so far is reachable from s
    pub open spec fn within<G: IntoNeighbors<NodeId = N>>(&self, g: G, s: ISet<N>) -> bool { within_of(g, self.discovered.vset(), self.stack@, s) }
    /// the start set has been taken up
    pub open spec fn covers(&self, s: ISet<N>) -> bool { covers_of(self.discovered.vset(), self.stack@, s) }

    /// THEOREM (C08, Dfs): when the traversal is exhausted, the discovered set is exactly the set reachable from the start set
    pub proof fn lemma_exhausted_is_reach<G: IntoNeighbors<NodeId = N>>(&self, g: G, s: ISet<N>)
        requires self.closed(g), self.within(g, s), self.covers(s), self.stack@.len() == 0
        ensures forall|x: N| self.discovered.vset().contains(x) <==> reach(g, s, x)
    {
        let d = self.discovered.vset();
        assert forall|x: N| reach(g, s, x) implies d.contains(x) by {
            let k = choose|k: nat| reach_in(g, s, x, k);
            assert(s.subset_of(d));
            lemma_reach_closed(g, s, d, x, k);
        }
    }

//@ item src/visit/traversal.rs | impl<N, VM> Dfs<N, VM> where N: Copy + PartialEq, VM: VisitMap<N> | fn from_parts
    /// Create a `Dfs` from a vector and a visit map
    pub fn from_parts(stack: Vec<N>, discovered: VM) -> (r: Self)
        /*+*/ensures r.stack == stack, r.discovered == discovered/*-*/
    {
        Dfs { stack, discovered }
    }
//@ end

//@ item src/visit/traversal.rs | impl<N, VM> Dfs<N, VM> where N: Copy + PartialEq, VM: VisitMap<N> | fn move_to
    /// Keep the discovered map, but clear the visit stack and restart
    /// the dfs from a particular node.
    pub fn move_to(&mut self, start: N)
        /*+*/ensures final(self).stack@ == seq![start], final(self).discovered == old(self).discovered/*-*/   // [move_to_restarts_keeping_discovered]
    {
        self.stack.clear();
        self.stack.push(start);
    }
//@ end

//@ item src/visit/traversal.rs | impl<N, VM> Dfs<N, VM> where N: Copy + PartialEq, VM: VisitMap<N> | fn empty
    /// Create a new **Dfs** using the graph's visitor map, and no stack.
    pub fn empty<G>(graph: G) -> (r: Self)
    where
        G: GraphRef + Visitable<NodeId = N, Map = VM>/*+*/,
        ensures r.stack@.len() == 0, r.discovered.vset() == ISet::<N>::empty(), forall|a: N| graph.vis_node(a) ==> #[trigger] r.discovered.holds(a)/*-*/,
    {
        Dfs {
            stack: Vec::new(),
            discovered: graph.visit_map(),
        }
    }
//@ end

//@ item src/visit/traversal.rs | impl<N, VM> Dfs<N, VM> where N: Copy + PartialEq, VM: VisitMap<N> | fn new
    /// Create a new **Dfs**, using the graph's visitor map, and put **start**
    /// in the stack of nodes to visit.
    pub fn new<G>(graph: G, start: N) -> (r: Self)
    where
        G: GraphRef + Visitable<NodeId = N, Map = VM>/*+*/,
        ensures r.stack@ == seq![start], r.discovered.vset() == ISet::<N>::empty(), forall|a: N| graph.vis_node(a) ==> #[trigger] r.discovered.holds(a)/*-*/,   // [new_starts_at_start]
    {
        let mut dfs = Dfs::empty(graph);
        dfs.move_to(start);
        dfs
    }
//@ end

//@ item src/visit/traversal.rs | impl<N, VM> Dfs<N, VM> where N: Copy + PartialEq, VM: VisitMap<N> | fn reset
    /// Clear the visit state
    pub fn reset<G>(&mut self, graph: G)
    where
        G: GraphRef + Visitable<NodeId = N, Map = VM>/*+*/,
        ensures final(self).stack@.len() == 0, final(self).discovered.vset() == ISet::<N>::empty(), forall|a: N| graph.vis_node(a) ==> #[trigger] final(self).discovered.holds(a)/*-*/,   // [reset_clears]
    {
        graph.reset_map(&mut self.discovered);
        self.stack.clear();
    }
//@ end
}

impl<N, VM> Dfs<N, VM>
where
    N: Copy + PartialEq,
    VM: VisitMap<N>,
{
//@ item src/visit/traversal.rs | impl<N, VM> Dfs<N, VM> where N: Copy + PartialEq, VM: VisitMap<N> | fn next
    /// Return the next node in the dfs, or **None** if the traversal is done.
    pub fn next<G>(&mut self, graph: G) -> (r: Option<N>)
    where
        G: IntoNeighbors<NodeId = N>/*+*/,
        requires old(self).safe(graph)
        ensures
            final(self).safe(graph),
            old(self).closed(graph) ==> final(self).closed(graph),                                                   // [dfs_next_keeps_frontier_invariant]
            forall|s: ISet<N>| #[trigger] old(self).within(graph, s) ==> final(self).within(graph, s),               // [dfs_next_emits_only_reachable]
            forall|s: ISet<N>| #[trigger] old(self).covers(s) ==> final(self).covers(s),
            match r {
                Some(x) => !old(self).discovered.vset().contains(x) && final(self).discovered.vset() == old(self).discovered.vset().insert(x)   // [dfs_next_each_node_once]
                            && old(self).stack@.contains(x),
                None => final(self).stack@.len() == 0 && final(self).discovered.vset() == old(self).discovered.vset(),                          // [dfs_next_none_means_exhausted]
            }/*-*/
    {
        /*+*/let ghost mut pre: Seq<N> = self.stack@;/*-*/
        while let Some(node) = self.stack.pop()
            /*+*/invariant
                pre == self.stack@,
                self.safe(graph),
                old(self).closed(graph) ==> closed_of(graph, old(self).discovered.vset(), pre),
                self.discovered.vset() == old(self).discovered.vset(),
                forall|i: int| 0 <= i < self.stack@.len() ==> old(self).stack@.contains(#[trigger] self.stack@[i]),
                forall|s: ISet<N>| #[trigger] old(self).within(graph, s) ==> within_of(graph, old(self).discovered.vset(), pre, s),
                forall|s: ISet<N>| #[trigger] old(self).covers(s) ==> covers_of(old(self).discovered.vset(), pre, s),
            ensures self.stack@.len() == 0
            decreases self.stack@.len()/*-*/
        {
            /*+*/proof { assert(pre == self.stack@.push(node)); assert(pre[pre.len() - 1] == node); assert(graph.is_node(node)); }
            let ghost st0 = self.stack@;   // stack after the pop
            let ghost disc0 = self.discovered.vset();
            let ghost before = *self;/*-*/
            if self.discovered.visit(node) {
                /*+*/let ghost disc1 = self.discovered.vset();/*-*/
                /*R:D11 for succ in */ let mut __it = /*-*/ graph.neighbors(node) /*R:D11 */; let ghost all = __it.remaining(); let ghost mut done: int = 0; proof { graph.succ_law(node); } loop 
                    invariant
                        __it.obeys_prophetic_iter_laws(), __it.decrease() is Some,
                        0 <= done <= all.len(), __it.remaining() == all.skip(done),
                        all == graph.succ(node),
                        self.discovered.vset() == disc1,
                        forall|a: N| graph.is_node(a) ==> #[trigger] self.discovered.holds(a),
                        forall|i: int| 0 <= i < all.len() ==> graph.is_node(#[trigger] all[i]),
                        forall|i: int| 0 <= i < st0.len() ==> self.stack@.contains(#[trigger] st0[i]),
                        forall|i: int| 0 <= i < self.stack@.len() ==> st0.contains(#[trigger] self.stack@[i]) || (exists|j: int| 0 <= j < done && all[j] == self.stack@[i]),
                        forall|i: int| 0 <= i < done ==> disc1.contains(#[trigger] all[i]) || self.stack@.contains(all[i]),
                    ensures done == all.len(),
                    decreases __it.decrease()->Some_0/*-*/
                { /*+*/match __it.next() { None => { break; }, Some(succ) => {
                    let ghost stk = self.stack@;
                    proof { assert(succ == all[done]); }/*-*/
                    if !self.discovered.is_visited(&succ) {
                        self.stack.push(succ);
                    }
                    /*+*/proof {
                        assert forall|i: int| 0 <= i < st0.len() implies self.stack@.contains(#[trigger] st0[i]) by {
                            let j = choose|j: int| 0 <= j < stk.len() && stk[j] == st0[i];
                            assert(self.stack@[j] == st0[i]);
                        }
                        assert forall|i: int| 0 <= i < self.stack@.len() implies st0.contains(#[trigger] self.stack@[i]) || (exists|j: int| 0 <= j < done + 1 && all[j] == self.stack@[i]) by {
                            if i < stk.len() { assert(self.stack@[i] == stk[i]);
                                if !st0.contains(stk[i]) { let j = choose|j: int| 0 <= j < done && all[j] == stk[i]; assert(0 <= j < done + 1 && all[j] == self.stack@[i]); } }
                            else { assert(self.stack@[i] == succ); assert(all[done] == succ); }
                        }
                        assert forall|i: int| 0 <= i < done + 1 implies disc1.contains(#[trigger] all[i]) || self.stack@.contains(all[i]) by {
                            if i < done {
                                if !disc1.contains(all[i]) {
                                    let j = choose|j: int| 0 <= j < stk.len() && stk[j] == all[i];
                                    assert(self.stack@[j] == all[i]);
                                }
                            } else {
                                if !disc1.contains(succ) { assert(self.stack@[self.stack@.len() - 1] == succ); }
                            }
                        }
                        assert(all.skip(done).skip(1) =~= all.skip(done + 1));
                        done = done + 1;
                    }
                } } /*-*/ }
                /*+*/proof {
                    // every stack element is a node
                    assert forall|i: int| 0 <= i < self.stack@.len() implies graph.is_node(#[trigger] self.stack@[i]) by {
                        if st0.contains(self.stack@[i]) { let j = choose|j: int| 0 <= j < st0.len() && st0[j] == self.stack@[i]; assert(before.stack@[j] == st0[j]); }
                        else { let j = choose|j: int| 0 <= j < done && all[j] == self.stack@[i]; }
                    }
                    if old(self).closed(graph) {
                        assert forall|u: N, i: int| self.discovered.vset().contains(u) && 0 <= i < graph.succ(u).len() implies
                            self.discovered.vset().contains(#[trigger] graph.succ(u)[i]) || self.stack@.contains(graph.succ(u)[i]) by {
                            let v = graph.succ(u)[i];
                            if u == node {
                                assert(v == all[i]);
                            } else {
                                assert(disc0.contains(u));
                                assert(disc0.contains(v) || pre.contains(v));
                                if !disc0.contains(v) {
                                    let j = choose|j: int| 0 <= j < pre.len() && pre[j] == v;
                                    if j == pre.len() - 1 { assert(v == node); }
                                    else { assert(st0[j] == v); }
                                }
                            }
                        }
                    }
                    assert forall|s: ISet<N>| #[trigger] old(self).within(graph, s) implies self.within(graph, s) by {
                        assert(within_of(graph, disc0, pre, s));
                        assert(reach(graph, s, node)) by { assert(pre[pre.len() - 1] == node); }
                        assert forall|i: int| 0 <= i < self.stack@.len() implies reach(graph, s, #[trigger] self.stack@[i]) by {
                            if st0.contains(self.stack@[i]) { let j = choose|j: int| 0 <= j < st0.len() && st0[j] == self.stack@[i]; assert(pre[j] == st0[j]); }
                            else { let j = choose|j: int| 0 <= j < done && all[j] == self.stack@[i]; lemma_reach_succ(graph, s, node, j); }
                        }
                    }
                    assert forall|s: ISet<N>| #[trigger] old(self).covers(s) implies self.covers(s) by {
                        assert(covers_of(disc0, pre, s));
                        assert forall|x: N| s.contains(x) implies self.discovered.vset().contains(x) || self.stack@.contains(x) by {
                            if !disc0.contains(x) {
                                let j = choose|j: int| 0 <= j < pre.len() && pre[j] == x;
                                if j == pre.len() - 1 { assert(x == node); } else { assert(st0[j] == x); assert(self.stack@.contains(st0[j])); }
                            }
                        }
                    }
                }/*-*/
                return Some(node);
            }
            /*+*/proof {
                assert(disc0.contains(node));
                assert(self.discovered.vset() =~= disc0);
                if old(self).closed(graph) {
                    assert forall|u: N, i: int| disc0.contains(u) && 0 <= i < graph.succ(u).len() implies
                        disc0.contains(#[trigger] graph.succ(u)[i]) || st0.contains(graph.succ(u)[i]) by {
                        let v = graph.succ(u)[i];
                        assert(disc0.contains(v) || pre.contains(v));
                        if !disc0.contains(v) {
                            let j = choose|j: int| 0 <= j < pre.len() && pre[j] == v;
                            if j == pre.len() - 1 { assert(v == node); } else { assert(st0[j] == v); }
                        }
                    }
                }
                assert forall|s: ISet<N>| #[trigger] old(self).within(graph, s) implies within_of(graph, disc0, st0, s) by {
                    assert(within_of(graph, disc0, pre, s));
                    assert forall|i: int| 0 <= i < st0.len() implies reach(graph, s, #[trigger] st0[i]) by { assert(pre[i] == st0[i]); }
                }
                assert forall|s: ISet<N>| #[trigger] old(self).covers(s) implies covers_of(disc0, st0, s) by {
                    assert(covers_of(disc0, pre, s));
                    assert forall|x: N| s.contains(x) implies disc0.contains(x) || st0.contains(x) by {
                        if !disc0.contains(x) { let j = choose|j: int| 0 <= j < pre.len() && pre[j] == x; if j == pre.len() - 1 { assert(x == node); } else { assert(st0[j] == x); } }
                    }
                }
                pre = self.stack@;
            }/*-*/
        }
        None
    }
//@ end
}

// ---------------------------------------------------------------------------------- Bfs
pub open spec fn seq_no_dup<N>(q: Seq<N>) -> bool { forall|i: int, j: int| 0 <= i < j < q.len() ==> q[i] != q[j] }
/// Bfs marks on push: the expanded nodes are the discovered ones that are no longer queued
pub open spec fn bfs_closed_of<G: IntoNeighbors>(g: G, d: ISet<G::NodeId>, q: Seq<G::NodeId>) -> bool {
    forall|u: G::NodeId, i: int| d.contains(u) && !q.contains(u) && 0 <= i < g.succ(u).len() ==> d.contains(#[trigger] g.succ(u)[i])
}

//@ item src/visit/traversal.rs | - | struct Bfs
#[derive(Clone)]
pub struct Bfs<N, VM> {
    /// The queue of nodes to visit
    pub stack: VecDeque<N>,
    /// The map of discovered nodes
    pub discovered: VM,
}
//@ end

impl<N, VM> Bfs<N, VM>
where
    N: Copy + PartialEq,
    VM: VisitMap<N>,
{
    /// queue members are discovered nodes of the graph, each queued once; the map has room for every node
    pub open spec fn bwf<G: IntoNeighbors<NodeId = N>>(&self, g: G) -> bool {
        &&& g.inv()
        &&& forall|a: N| g.is_node(a) ==> #[trigger] self.discovered.holds(a)
        &&& forall|i: int| 0 <= i < self.stack@.len() ==> g.is_node(#[trigger] self.stack@[i]) && self.discovered.vset().contains(self.stack@[i])
        &&& seq_no_dup(self.stack@)
    }
    pub open spec fn closed<G: IntoNeighbors<NodeId = N>>(&self, g: G) -> bool { bfs_closed_of(g, self.discovered.vset(), self.stack@) }
    pub open spec fn within<G: IntoNeighbors<NodeId = N>>(&self, g: G, s: ISet<N>) -> bool { forall|x: N| self.discovered.vset().contains(x) ==> reach(g, s, x) }
    pub open spec fn covers(&self, s: ISet<N>) -> bool { s.subset_of(self.discovered.vset()) }
    /// the nodes emitted so far: discovered and no longer queued
    pub open spec fn emitted(&self, x: N) -> bool { self.discovered.vset().contains(x) && !self.stack@.contains(x) }

    /// THEOREM (C08, Bfs): when the queue is empty, the emitted (= discovered) nodes are exactly those reachable from the start set
    pub proof fn lemma_exhausted_is_reach<G: IntoNeighbors<NodeId = N>>(&self, g: G, s: ISet<N>)
        requires self.closed(g), self.within(g, s), self.covers(s), self.stack@.len() == 0
        ensures forall|x: N| self.emitted(x) <==> reach(g, s, x)
    {
        let d = self.discovered.vset();
        assert forall|x: N| reach(g, s, x) implies d.contains(x) by {
            let k = choose|k: nat| reach_in(g, s, x, k);
            lemma_reach_closed(g, s, d, x, k);
        }
    }

//@ item src/visit/traversal.rs | impl<N, VM> Bfs<N, VM> where N: Copy + PartialEq, VM: VisitMap<N> | fn new
    /// Create a new **Bfs**, using the graph's visitor map, and put **start**
    /// in the stack of nodes to visit.
    pub fn new<G>(graph: G, start: N) -> (r: Self)
    where
        G: GraphRef + Visitable<NodeId = N, Map = VM>/*+*/,
        requires graph.vis_node(start)
        ensures r.stack@ == seq![start], r.discovered.vset() == ISet::<N>::empty().insert(start),     // [bfs_new_starts_at_start]
            forall|a: N| graph.vis_node(a) ==> #[trigger] r.discovered.holds(a)/*-*/,
    {
        let mut discovered = graph.visit_map();
        discovered.visit(start);
        let mut stack = VecDeque::new();
        stack.push_front(start);
        Bfs { stack, discovered }
    }
//@ end

//@ item src/visit/traversal.rs | impl<N, VM> Bfs<N, VM> where N: Copy + PartialEq, VM: VisitMap<N> | fn next
    /// Return the next node in the bfs, or **None** if the traversal is done.
    pub fn next<G>(&mut self, graph: G) -> (r: Option<N>)
    where
        G: IntoNeighbors<NodeId = N>/*+*/,
        requires old(self).bwf(graph)
        ensures
            final(self).bwf(graph),
            old(self).closed(graph) ==> final(self).closed(graph),                                                   // [bfs_next_keeps_frontier_invariant]
            forall|s: ISet<N>| #[trigger] old(self).within(graph, s) ==> final(self).within(graph, s),               // [bfs_next_discovers_only_reachable]
            forall|s: ISet<N>| #[trigger] old(self).covers(s) ==> final(self).covers(s),
            match r {
                Some(x) => old(self).stack@.len() > 0 && x == old(self).stack@[0] && !old(self).emitted(x) && final(self).emitted(x)       // [bfs_next_each_node_once]
                            && (forall|y: N| y != x ==> (old(self).emitted(y) ==> final(self).emitted(y)) && (final(self).emitted(y) ==> old(self).emitted(y))),
                None => old(self).stack@.len() == 0 && final(self).stack@.len() == 0 && final(self).discovered.vset() == old(self).discovered.vset(),   // [bfs_next_none_means_exhausted]
            }/*-*/
    {
        if let Some(node) = self.stack.pop_front() {
            /*+*/let ghost q0 = self.stack@;   // queue after the pop
            let ghost disc0 = self.discovered.vset();
            proof { assert(old(self).stack@ =~= seq![node] + q0); assert(old(self).stack@[0] == node);
                assert forall|i: int| 0 <= i < q0.len() implies q0[i] == old(self).stack@[i + 1] by { } }/*-*/
            /*R:D11 for succ in */ let mut __it = /*-*/ graph.neighbors(node) /*R:D11 */; let ghost all = __it.remaining(); let ghost mut done: int = 0; proof { graph.succ_law(node); } loop 
                invariant
                    __it.obeys_prophetic_iter_laws(), __it.decrease() is Some,
                    0 <= done <= all.len(), __it.remaining() == all.skip(done),
                    all == graph.succ(node),
                    forall|a: N| graph.is_node(a) ==> #[trigger] self.discovered.holds(a),
                    forall|i: int| 0 <= i < all.len() ==> graph.is_node(#[trigger] all[i]),
                    disc0.subset_of(self.discovered.vset()),
                    forall|x: N| self.discovered.vset().contains(x) ==> disc0.contains(x) || (exists|j: int| 0 <= j < done && all[j] == x),
                    forall|i: int| 0 <= i < done ==> self.discovered.vset().contains(#[trigger] all[i]),
                    q0.len() <= self.stack@.len(), forall|i: int| 0 <= i < q0.len() ==> self.stack@[i] == q0[i],
                    forall|i: int| q0.len() <= i < self.stack@.len() ==> !disc0.contains(#[trigger] self.stack@[i]) && (exists|j: int| 0 <= j < done && all[j] == self.stack@[i]),
                    forall|i: int| 0 <= i < self.stack@.len() ==> self.discovered.vset().contains(#[trigger] self.stack@[i]),
                    seq_no_dup(self.stack@), seq_no_dup(q0), !q0.contains(node), disc0.contains(node),
                    self.tail_holds_new(q0, disc0),
                ensures done == all.len(),
                decreases __it.decrease()->Some_0/*-*/
            { /*+*/match __it.next() { None => { break; }, Some(succ) => {
                let ghost stk = self.stack@; let ghost dk = self.discovered.vset();
                proof { assert(succ == all[done]); }/*-*/
                if self.discovered.visit(succ) {
                    self.stack.push_back(succ);
                }
                /*+*/proof {
                    assert forall|x: N| self.discovered.vset().contains(x) implies disc0.contains(x) || (exists|j: int| 0 <= j < done + 1 && all[j] == x) by {
                        if x == succ { assert(all[done] == x); } else { if !disc0.contains(x) { let j = choose|j: int| 0 <= j < done && all[j] == x; assert(0 <= j < done + 1 && all[j] == x); } }
                    }
                    assert forall|i: int| q0.len() <= i < self.stack@.len() implies !disc0.contains(#[trigger] self.stack@[i]) && (exists|j: int| 0 <= j < done + 1 && all[j] == self.stack@[i]) by {
                        if i < stk.len() { assert(self.stack@[i] == stk[i]); let j = choose|j: int| 0 <= j < done && all[j] == stk[i]; assert(0 <= j < done + 1 && all[j] == self.stack@[i]); }
                        else { assert(self.stack@[i] == succ); assert(all[done] == succ); assert(!dk.contains(succ)); }
                    }
                    assert(seq_no_dup(self.stack@)) by {
                        assert forall|i: int, j: int| 0 <= i < j < self.stack@.len() implies self.stack@[i] != self.stack@[j] by {
                            if j == stk.len() { assert(self.stack@[i] == stk[i]); assert(dk.contains(stk[i])); assert(!dk.contains(succ)); }
                            else { assert(self.stack@[i] == stk[i] && self.stack@[j] == stk[j]); }
                        }
                    }
                    assert forall|i: int| 0 <= i < self.stack@.len() implies self.discovered.vset().contains(#[trigger] self.stack@[i]) by {
                        if i < stk.len() { assert(self.stack@[i] == stk[i]); }
                    }
                    assert forall|x: N| self.discovered.vset().contains(x) && !disc0.contains(x) implies self.stack@.contains(x) by {
                        if x == succ && !dk.contains(succ) { assert(self.stack@[self.stack@.len() - 1] == succ); }
                        else { assert(dk.contains(x)); let i = choose|i: int| 0 <= i < stk.len() && stk[i] == x; assert(self.stack@[i] == x); }
                    }
                    assert(all.skip(done).skip(1) =~= all.skip(done + 1));
                    done = done + 1;
                }
            } } /*-*/ }
            /*+*/proof {
                assert forall|i: int| 0 <= i < self.stack@.len() implies graph.is_node(#[trigger] self.stack@[i]) by {
                    if i < q0.len() { assert(self.stack@[i] == q0[i]); assert(q0[i] == old(self).stack@[i + 1]); }
                    else { let j = choose|j: int| 0 <= j < done && all[j] == self.stack@[i]; }
                }
                if old(self).closed(graph) {
                    assert forall|u: N, i: int| self.discovered.vset().contains(u) && !self.stack@.contains(u) && 0 <= i < graph.succ(u).len() implies
                        self.discovered.vset().contains(#[trigger] graph.succ(u)[i]) by {
                        if u == node { assert(graph.succ(u)[i] == all[i]); }
                        else if disc0.contains(u) {
                            // u was discovered before and is not queued now; was it queued before?  old queue = [node] + q0
                            if old(self).stack@.contains(u) { let j = choose|j: int| 0 <= j < old(self).stack@.len() && old(self).stack@[j] == u; assert(j > 0); assert(q0[j - 1] == u); assert(self.stack@[j - 1] == u); }
                            assert(disc0.contains(graph.succ(u)[i]));
                        } else {
                            // newly discovered nodes are all queued
                            let j = choose|j: int| 0 <= j < done && all[j] == u;
                            assert(false) by {
                                // u is new => it was pushed; find it in the queue tail
                                assert(self.discovered.vset().contains(u));
                                self.lemma_new_is_queued(q0, disc0, u);
                            }
                        }
                    }
                }
                assert forall|s: ISet<N>| #[trigger] old(self).within(graph, s) implies self.within(graph, s) by {
                    assert(reach(graph, s, node));
                    assert forall|x: N| self.discovered.vset().contains(x) implies reach(graph, s, x) by {
                        if !disc0.contains(x) { let j = choose|j: int| 0 <= j < done && all[j] == x; lemma_reach_succ(graph, s, node, j); }
                    }
                }
                // emitted set: exactly node was added
                assert forall|y: N| y != node implies (old(self).emitted(y) ==> self.emitted(y)) && (self.emitted(y) ==> old(self).emitted(y)) by {
                    if old(self).emitted(y) {
                        if self.stack@.contains(y) { let i = choose|i: int| 0 <= i < self.stack@.len() && self.stack@[i] == y;
                            if i < q0.len() { assert(q0[i] == y); assert(old(self).stack@[i + 1] == y); } else { assert(!disc0.contains(self.stack@[i])); } }
                    }
                    if self.emitted(y) {
                        if !disc0.contains(y) { self.lemma_new_is_queued(q0, disc0, y); }
                        if old(self).stack@.contains(y) { let j = choose|j: int| 0 <= j < old(self).stack@.len() && old(self).stack@[j] == y; assert(j > 0); assert(q0[j - 1] == y); assert(self.stack@[j - 1] == y); }
                    }
                }
                assert(!self.stack@.contains(node)) by {
                    if self.stack@.contains(node) { let i = choose|i: int| 0 <= i < self.stack@.len() && self.stack@[i] == node;
                        if i < q0.len() { assert(q0[i] == node); } else { assert(!disc0.contains(self.stack@[i])); } }
                }
            }/*-*/

            return Some(node);
        }
        None
    }
//@ end

    /// a node discovered during this step sits in the freshly pushed tail of the queue
    pub proof fn lemma_new_is_queued(&self, q0: Seq<N>, disc0: ISet<N>, u: N)
        requires self.discovered.vset().contains(u), !disc0.contains(u),
            self.tail_holds_new(q0, disc0),
        ensures self.stack@.contains(u)
    {
    }
    pub open spec fn tail_holds_new(&self, q0: Seq<N>, disc0: ISet<N>) -> bool {
        forall|x: N| self.discovered.vset().contains(x) && !disc0.contains(x) ==> self.stack@.contains(x)
    }
}
