// ======================================================================================
// fragment traversal_topo.rs - src/visit/traversal.rs: Topo::next (property C08)
// each node is emitted at most once and only after all its predecessors.
// reset forgets what was emitted (the frame of the TRUSTED extend_with_initials is assumed).
// NOT decided here: completeness (every node off a cycle is emitted), new / with_initials and WHICH nodes reset
// puts on the list (filter / collect / extend adapters).
// ======================================================================================

//@ item src/visit/traversal.rs | - | struct Topo
/// A topological order traversal for a graph.
#[derive(Clone)]
pub struct Topo<N, VM> {
    pub tovisit: Vec<N>,
    pub ordered: VM,
}
//@ end

impl<N, VM> Topo<N, VM>
where
    N: Copy + PartialEq,
    VM: VisitMap<N>,
{
    /// every predecessor of x has been emitted
    pub open spec fn ready<G: IntoNeighborsDirected<NodeId = N>>(&self, g: G, x: N) -> bool {
        forall|i: int| 0 <= i < g.nbrs(x, Direction::Incoming).len() ==> self.ordered.vset().contains(#[trigger] g.nbrs(x, Direction::Incoming)[i])
    }
    /// representation invariant: the map has room for every node; only nodes wait in `tovisit`, and each of them has all
    /// its predecessors emitted already
    pub open spec fn tinv<G: IntoNeighborsDirected<NodeId = N>>(&self, g: G) -> bool {
        &&& g.inv()
        &&& forall|a: N| g.is_node(a) ==> #[trigger] self.ordered.holds(a)
        &&& forall|i: int| 0 <= i < self.tovisit@.len() ==> g.is_node(#[trigger] self.tovisit@[i]) && self.ready(g, self.tovisit@[i])
    }

//@ item src/visit/traversal.rs | impl<N, VM> Topo<N, VM> where N: Copy + PartialEq, VM: VisitMap<N> | fn next
    /// Return the next node in the current topological order traversal, or
    /// `None` if the traversal is at the end.
    pub fn next<G>(&mut self, g: G) -> (r: Option<N>)
    where
        G: IntoNeighborsDirected + Visitable<NodeId = N, Map = VM>/*+*/,
        requires old(self).tinv(g)
        ensures final(self).tinv(g),
            match r {
                Some(x) => g.is_node(x) && !old(self).ordered.vset().contains(x)                      // [topo_next_each_node_once]
                    && old(self).ready(g, x)                                                        // [topo_next_after_all_predecessors]
                    && final(self).ordered.vset() == old(self).ordered.vset().insert(x),
                None => final(self).tovisit@.len() == 0 && final(self).ordered.vset() == old(self).ordered.vset(),   // [topo_next_none_means_exhausted]
            }/*-*/
    {
        // Take an unvisited element and find which of its neighbors are next
        while let Some(nix) = self.tovisit.pop()
            /*+*/invariant self.tinv(g), self.ordered.vset() == old(self).ordered.vset(),
            ensures self.tovisit@.len() == 0,
            decreases self.tovisit@.len()/*-*/
        {
            /*+*/let ghost tv0 = self.tovisit@; let ghost ord0 = self.ordered.vset();
            proof { assert(g.is_node(nix) && self.ready(g, nix)) by { let pre = tv0.push(nix); assert(pre[pre.len() - 1] == nix); } }/*-*/
            if self.ordered.is_visited(&nix) {
                continue;
            }
            self.ordered.visit(nix);
            /*+*/let ghost ord1 = self.ordered.vset();
            proof {
                assert forall|i: int| 0 <= i < tv0.len() implies g.is_node(#[trigger] tv0[i]) && self.ready(g, tv0[i]) by { }
            }/*-*/
            /*R:D11 for neigh in */ let mut __it = /*-*/ g.neighbors(nix) /*R:D11 */; let ghost all = __it.remaining(); let ghost mut done: int = 0; proof { g.succ_law(nix); } loop
                invariant
                    __it.obeys_prophetic_iter_laws(), __it.decrease() is Some,
                    0 <= done <= all.len(), __it.remaining() == all.skip(done), all == g.succ(nix),
                    forall|i: int| 0 <= i < all.len() ==> g.is_node(#[trigger] all[i]),
                    self.ordered.vset() == ord1, self.tinv(g),
                ensures done == all.len(),
                decreases __it.decrease()->Some_0/*-*/
            { /*+*/match __it.next() { None => { break; }, Some(neigh) => {
                proof { assert(neigh == all[done]); g.dir_law(neigh, neigh); Reversed(g).succ_law(neigh); }/*-*/
                // Look at each neighbor, and those that only have incoming edges
                // from the already ordered list, they are the next to visit.
                if Reversed(g)
                    .neighbors(neigh)
                    .all(|b/*+*/: N/*-*/| /*+*/-> (q: bool) requires self.ordered.holds(b) ensures q == self.ordered.vset().contains(b) {/*-*/ self.ordered.is_visited(&b) /*+*/}/*-*/)
                {
                    /*+*/let ghost tvb = self.tovisit@;/*-*/
                    self.tovisit.push(neigh);
                    /*+*/proof {
                        assert(self.ready(g, neigh));
                        assert forall|i: int| 0 <= i < self.tovisit@.len() implies g.is_node(#[trigger] self.tovisit@[i]) && self.ready(g, self.tovisit@[i]) by {
                            if i < tvb.len() { assert(self.tovisit@[i] == tvb[i]); }
                        }
                    }/*-*/
                }
                /*+*/proof { assert(all.skip(done).skip(1) =~= all.skip(done + 1)); done = done + 1; }
            } } /*-*/ }
            return Some(nix);
        }
        None
    }
//@ end

//@ item src/visit/traversal.rs | impl<N, VM> Topo<N, VM> where N: Copy + PartialEq, VM: VisitMap<N> | fn extend_with_initials
    // TRUSTED (filter / extend adapters with a capturing closure): only the FRAME is stated - the emitted-set is not touched; what
    // is pushed (the nodes without predecessors) is not decided.  The body is kept verbatim; a change inside it is a conflict.
    /*+*/#[verifier::external_body]/*-*/
    fn extend_with_initials<G>(&mut self, g: G)
    where
        G: IntoNodeIdentifiers + IntoNeighborsDirected<NodeId = N>/*+*/,
        ensures final(self).ordered == old(self).ordered/*-*/,
    {
        // find all initial nodes (nodes without incoming edges)
        self.tovisit.extend(
            g.node_identifiers()
                .filter(move |&a| g.neighbors_directed(a, Incoming).next().is_none()),
        );
    }
//@ end

//@ item src/visit/traversal.rs | impl<N, VM> Topo<N, VM> where N: Copy + PartialEq, VM: VisitMap<N> | fn reset
    /// Clear visited state, and put all initial nodes in the to visit list.
    pub fn reset<G>(&mut self, graph: G)
    where
        G: IntoNodeIdentifiers + IntoNeighborsDirected + Visitable<NodeId = N, Map = VM>/*+*/,
        ensures final(self).ordered.vset() == ISet::<N>::empty(), forall|a: N| graph.vis_node(a) ==> #[trigger] final(self).ordered.holds(a)/*-*/,   // [topo_reset_forgets_what_was_emitted]
    {
        graph.reset_map(&mut self.ordered);
        self.tovisit.clear();
        self.extend_with_initials(graph);
    }
//@ end
}
