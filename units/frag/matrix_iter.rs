// ======================================================================================
// fragment matrix_iter.rs - MatrixGraph's Edges / Neighbors iterators and edges / neighbors (C04): `edges(a)` yields,
// in ascending order of b, exactly the (a, b, weight) whose cell is occupied; `neighbors(a)` the b's.
// The iterator walks one row (or column) of the linearised matrix.  Its `next` is a std trait method without a
// precondition, so what it needs of its own fields (the slice has the size the capacity says) is a Verus TYPE INVARIANT
// of the struct (fields private, established by the constructors).
// ======================================================================================

//@ item src/matrix_graph.rs | - | enum NeighborIterDirection
#[derive(Debug, Clone, Copy, PartialEq, Eq)]
enum NeighborIterDirection {
    Rows,
    Columns,
}
//@ end

/// what is left of a row / column scan starting at (row, col): the occupied cells, as (a, b, weight)
pub open spec fn mscan<'a, Null: Nullable, Ix: IndexType>(adj: Seq<Null>, d: bool, w: int, rows: bool, row: int, col: int) -> Seq<(NodeIndex<Ix>, NodeIndex<Ix>, &'a Null::Wrapped)>
    decreases (if rows { w - row } else { w - col })
{
    if !(0 <= row < w && 0 <= col < w) { Seq::empty() }
    else {
        let here: Seq<(NodeIndex<Ix>, NodeIndex<Ix>, &'a Null::Wrapped)> = match adj[lin_pos(d, row, col, w)].nv() {
            Some(v) => seq![(NodeIndex(Ix::spec_new(row as usize)), NodeIndex(Ix::spec_new(col as usize)), &v)],   // the cell (row, col) IS the edge row -> col, whichever way the scan runs
            None => Seq::empty(),
        };
        here + (if rows { mscan::<Null, Ix>(adj, d, w, rows, row + 1, col) } else { mscan::<Null, Ix>(adj, d, w, rows, row, col + 1) })
    }
}

//@ item src/matrix_graph.rs | - | struct Edges
/// Iterator over the edges of from or to a node
pub struct Edges<'a, Ty: EdgeType, Null: 'a + Nullable, Ix> {
    iter_direction: NeighborIterDirection,
    node_adjacencies: &'a [Null],
    node_capacity: usize,
    row: usize,
    column: usize,
    ty: PhantomData<Ty>,
    ix: PhantomData<Ix>,
}
//@ end

impl<'a, Ty: EdgeType, Null: 'a + Nullable, Ix> Edges<'a, Ty, Null, Ix> {
    #[verifier::type_invariant]
    closed spec fn tinv(&self) -> bool {
        self.node_capacity < 0x4000_0000 && self.node_adjacencies@.len() == lin_size(Ty::spec_is_directed(), self.node_capacity as int)
    }
    pub closed spec fn adj(&self) -> Seq<Null> { self.node_adjacencies@ }
    pub closed spec fn cap(&self) -> int { self.node_capacity as int }
    pub closed spec fn rows(&self) -> bool { self.iter_direction is Rows }
    pub closed spec fn r(&self) -> int { self.row as int }
    pub closed spec fn c(&self) -> int { self.column as int }
}
impl<'a, Ty: EdgeType, Null: 'a + Nullable, Ix: IndexType> Edges<'a, Ty, Null, Ix> {
    pub open spec fn rem(&self) -> Seq<(NodeIndex<Ix>, NodeIndex<Ix>, &'a Null::Wrapped)> {
        mscan::<Null, Ix>(self.adj(), Ty::spec_is_directed(), self.cap(), self.rows(), self.r(), self.c())
    }
    pub open spec fn left(&self) -> nat {
        (if 0 <= self.r() < self.cap() && 0 <= self.c() < self.cap() { if self.rows() { self.cap() - self.r() } else { self.cap() - self.c() } } else { 0 }) as nat
    }
}
impl<'a, Ty: EdgeType, Null: 'a + Nullable, Ix: IndexType> vstd::std_specs::iter::IteratorSpecImpl for Edges<'a, Ty, Null, Ix> {
    open spec fn obeys_prophetic_iter_laws(&self) -> bool { true }
    open spec fn remaining(&self) -> Seq<(NodeIndex<Ix>, NodeIndex<Ix>, &'a Null::Wrapped)> { self.rem() }
    open spec fn decrease(&self) -> Option<nat> { Some(self.left()) }
    open spec fn will_return_none(&self) -> bool { true }
    open spec fn peek(&self, i: int) -> Option<(NodeIndex<Ix>, NodeIndex<Ix>, &'a Null::Wrapped)> { None }
}

impl<'a, Ty: EdgeType, Null: 'a + Nullable, Ix> Edges<'a, Ty, Null, Ix> {
//@ item src/matrix_graph.rs | impl<'a, Ty: EdgeType, Null: 'a + Nullable, Ix> Edges<'a, Ty, Null, Ix> | fn on_columns
    fn on_columns(row: usize, node_adjacencies: &'a [Null], node_capacity: usize) -> (r: Self)
        /*+*/requires node_capacity < 0x4000_0000, node_adjacencies@.len() == lin_size(Ty::spec_is_directed(), node_capacity as int)
        ensures r.adj() == node_adjacencies@, r.cap() == node_capacity, !r.rows(), r.r() == row, r.c() == 0/*-*/
    {
        Edges {
            iter_direction: NeighborIterDirection::Columns,
            node_adjacencies,
            node_capacity,
            row,
            column: 0,
            ty: PhantomData,
            ix: PhantomData,
        }
    }
//@ end

//@ item src/matrix_graph.rs | impl<'a, Ty: EdgeType, Null: 'a + Nullable, Ix> Edges<'a, Ty, Null, Ix> | fn on_rows
    fn on_rows(column: usize, node_adjacencies: &'a [Null], node_capacity: usize) -> (r: Self)
        /*+*/requires node_capacity < 0x4000_0000, node_adjacencies@.len() == lin_size(Ty::spec_is_directed(), node_capacity as int)
        ensures r.adj() == node_adjacencies@, r.cap() == node_capacity, r.rows(), r.r() == 0, r.c() == column/*-*/
    {
        Edges {
            iter_direction: NeighborIterDirection::Rows,
            node_adjacencies,
            node_capacity,
            row: 0,
            column,
            ty: PhantomData,
            ix: PhantomData,
        }
    }
//@ end
}

//@ item src/matrix_graph.rs | - | impl<'a, Ty: EdgeType, Null: Nullable, Ix: IndexType> Iterator for Edges<'a, Ty, Null, Ix>
impl<'a, Ty: EdgeType, Null: Nullable, Ix: IndexType> Iterator for Edges<'a, Ty, Null, Ix> {
    type Item = (NodeIndex<Ix>, NodeIndex<Ix>, &'a Null::Wrapped);

    fn next(&mut self) -> /*+*/(res:/*-*/ Option<Self::Item>/*+*/)
        ensures final(self).rows() == old(self).rows()/*-*/
    {
        use self::NeighborIterDirection::*;

        /*+*/proof { use_type_invariant(&*self); }/*-*/
        loop
            /*+*/invariant self.tinv(), self.adj() == old(self).adj(), self.cap() == old(self).cap(), self.rows() == old(self).rows(),
                self.rem() == old(self).rem(), self.left() <= old(self).left(),
            decreases self.left()/*-*/
        {
            let (row, column) = (self.row, self.column);
            if row >= self.node_capacity || column >= self.node_capacity {
                return None;
            }

            match self.iter_direction {
                Rows => self.row += 1,
                Columns => self.column += 1,
            }

            /*+*/proof { lemma_pos_canon(Ty::spec_is_directed(), row as int, column as int, self.node_capacity as int); }/*-*/
            let p = to_linearized_matrix_position::<Ty>(row, column, self.node_capacity);
            if let Some(e) = self.node_adjacencies[p].as_ref() {
                // the cell (row, column) is the edge row -> column, whichever
                // way the matrix is scanned
                return Some((NodeIndex::new(row), NodeIndex::new(column), e));
            }
        }
    }
}
//@ end

/// the far ends of a scan: targets of a row scan, sources of a column scan
pub open spec fn far_ends<'a, Null: Nullable, Ix: IndexType>(s: Seq<(NodeIndex<Ix>, NodeIndex<Ix>, &'a Null::Wrapped)>, rows: bool) -> Seq<NodeIndex<Ix>> {
    Seq::new(s.len(), |i: int| if rows { s[i].0 } else { s[i].1 })
}
//@ item src/matrix_graph.rs | - | struct Neighbors
/// Iterator over the neighbors of a node.
pub struct Neighbors<'a, Ty: EdgeType, Null: 'a + Nullable, Ix>(pub Edges<'a, Ty, Null, Ix>);
//@ end

impl<'a, Ty: EdgeType, Null: 'a + Nullable, Ix: IndexType> vstd::std_specs::iter::IteratorSpecImpl for Neighbors<'a, Ty, Null, Ix> {
    open spec fn obeys_prophetic_iter_laws(&self) -> bool { true }
    /// the far end of every remaining edge: the target when a row is scanned, the source when a column is scanned
    open spec fn remaining(&self) -> Seq<NodeIndex<Ix>> { far_ends::<Null, Ix>(self.0.rem(), self.0.rows()) }
    open spec fn decrease(&self) -> Option<nat> { Some(self.0.left()) }
    open spec fn will_return_none(&self) -> bool { true }
    open spec fn peek(&self, i: int) -> Option<NodeIndex<Ix>> { None }
}

//@ item src/matrix_graph.rs | - | impl<Ty: EdgeType, Null: Nullable, Ix: IndexType> Iterator for Neighbors<'_, Ty, Null, Ix>
impl<Ty: EdgeType, Null: Nullable, Ix: IndexType> Iterator for Neighbors<'_, Ty, Null, Ix> {
    type Item = NodeIndex<Ix>;

    fn next(&mut self) -> Option<Self::Item> {
        // the neighbor is the far end of the edge: its target when a row is
        // scanned along its columns, its source when a column is scanned
        // along its rows
        /*+*/let ghost r0 = self.0.rem(); let ghost rows = self.0.rows();
        /*-*/
        let iter_direction = self.0.iter_direction;
        /*+*/let r = {/*-*/ self.0.next().map(|/*R:D10 (a, b, _) */ __t: (NodeIndex<Ix>, NodeIndex<Ix>, &Null::Wrapped) /*-*/| /*+*/-> (x: NodeIndex<Ix>) ensures x == (if rows { __t.0 } else { __t.1 }) { let (a, b, _w) = __t;/*-*/ match iter_direction {
            NeighborIterDirection::Rows => a,
            NeighborIterDirection::Columns => b,
        } /*+*/}/*-*/) /*+*/};
        proof { if r is Some { assert(r0 =~= seq![r0[0]] + self.0.rem()); assert(far_ends::<Null, Ix>(r0, rows) =~= seq![r.unwrap()] + far_ends::<Null, Ix>(self.0.rem(), rows)); } else { assert(r0.len() == 0); } }
        r/*-*/
    }
    /*+*/#[verifier::external_body]/*-*/
    fn size_hint(&self) -> (usize, Option<usize>) {
        self.0.size_hint()
    }
}
//@ end

/// the occupied columns of row a from column c on, ascending
pub open spec fn mcols<Null: Nullable>(adj: Seq<Null>, d: bool, w: int, a: int, c: int) -> Seq<int>
    decreases w - c
{
    if !(0 <= a < w && 0 <= c < w) { Seq::empty() }
    else { (if adj[lin_pos(d, a, c, w)].nv() is Some { seq![c] } else { Seq::empty() }) + mcols(adj, d, w, a, c + 1) }
}
/// the row scan is the occupied columns, each with its cell's weight
pub proof fn lemma_mscan_is_mcols<'a, Null: Nullable, Ix: IndexType>(adj: Seq<Null>, d: bool, w: int, a: int, c: int)
    requires 0 <= c
    ensures ({ let s = mscan::<Null, Ix>(adj, d, w, false, a, c); let cs = mcols(adj, d, w, a, c);
        s.len() == cs.len() && forall|i: int| 0 <= i < cs.len() ==> (#[trigger] s[i]).0 == NodeIndex::<Ix>(Ix::spec_new(a as usize)) && s[i].1 == NodeIndex::<Ix>(Ix::spec_new(cs[i] as usize))
            && adj[lin_pos(d, a, cs[i], w)].nv() == Some(*s[i].2) })
    decreases w - c
{
    if 0 <= a < w && c < w { lemma_mscan_is_mcols::<Null, Ix>(adj, d, w, a, c + 1); }
}
/// the occupied columns: in range, occupied, ascending, complete
pub proof fn lemma_mcols<Null: Nullable>(adj: Seq<Null>, d: bool, w: int, a: int, c: int)
    requires 0 <= c
    ensures ({ let cs = mcols(adj, d, w, a, c);
        &&& forall|i: int| 0 <= i < cs.len() ==> c <= #[trigger] cs[i] < w && adj[lin_pos(d, a, cs[i], w)].nv() is Some
        &&& forall|i: int, j: int| 0 <= i < j < cs.len() ==> cs[i] < cs[j]
        &&& forall|b: int| 0 <= a < w && c <= b < w && adj[lin_pos(d, a, b, w)].nv() is Some ==> cs.contains(b) })
    decreases w - c
{
    if 0 <= a < w && c < w {
        lemma_mcols(adj, d, w, a, c + 1);
        let t = mcols(adj, d, w, a, c + 1); let cs = mcols(adj, d, w, a, c);
        let here: Seq<int> = if adj[lin_pos(d, a, c, w)].nv() is Some { seq![c] } else { Seq::empty() };
        assert(cs =~= here + t);
        assert forall|b: int| c <= b < w && adj[lin_pos(d, a, b, w)].nv() is Some implies cs.contains(b) by {
            if b == c { assert(cs[0] == c); } else { assert(t.contains(b)); let i = choose|i: int| 0 <= i < t.len() && t[i] == b; assert(cs[i + here.len()] == b); }
        }
    }
}

impl<N, E, S: BuildHasher, Ty: EdgeType, Null: Nullable<Wrapped = E>, Ix: IndexType>
    MatrixGraph<N, E, S, Ty, Null, Ix>
{
//@ item src/matrix_graph.rs | impl<N, E, S: BuildHasher, Ty: EdgeType, Null: Nullable<Wrapped = E>, Ix: IndexType> MatrixGraph<N, E, S, Ty, Null, Ix> | fn neighbors
    /// Return an iterator of all nodes with an edge starting from `a`.
    pub fn neighbors(&self, a: NodeIndex<Ix>) -> (r: Neighbors<Ty, Null, Ix>)
        /*+*/requires self.wf()
        ensures !r.0.rows(), r.0.rem() == mscan::<Null, Ix>(self.node_adjacencies@, self.d(), self.cap(), false, a.i(), 0)/*-*/   // [neighbors_is_row_scan] see lemma_mscan_columns
    {
        Neighbors(Edges::on_columns(
            a.index(),
            &self.node_adjacencies,
            self.node_capacity,
        ))
    }
//@ end

//@ item src/matrix_graph.rs | impl<N, E, S: BuildHasher, Ty: EdgeType, Null: Nullable<Wrapped = E>, Ix: IndexType> MatrixGraph<N, E, S, Ty, Null, Ix> | fn edges
    /// Return an iterator of all edges of `a`.
    pub fn edges(&self, a: NodeIndex<Ix>) -> (r: Edges<Ty, Null, Ix>)
        /*+*/requires self.wf()
        ensures !r.rows(), r.rem() == mscan::<Null, Ix>(self.node_adjacencies@, self.d(), self.cap(), false, a.i(), 0),     // [edges_is_row_scan]
            // i.e. exactly the occupied cells (a, b), ascending in b, each with its weight                              [edges_exactly_the_edges_at_a]
            ({ let cs = mcols(self.node_adjacencies@, self.d(), self.cap(), a.i(), 0);
               &&& r.rem().len() == cs.len()
               &&& forall|i: int| 0 <= i < cs.len() ==> (#[trigger] r.rem()[i]).0 == NodeIndex::<Ix>(Ix::spec_new(a.i() as usize)) && r.rem()[i].1 == NodeIndex::<Ix>(Ix::spec_new(cs[i] as usize)) && self.cell(a.i(), cs[i]) == Some(*r.rem()[i].2)
               &&& forall|i: int, j: int| 0 <= i < j < cs.len() ==> cs[i] < cs[j]
               &&& forall|b: int| self.has(a.i(), b) ==> cs.contains(b) })/*-*/
    {
        /*+*/proof { lemma_mscan_is_mcols::<Null, Ix>(self.node_adjacencies@, self.d(), self.cap(), a.i(), 0); lemma_mcols(self.node_adjacencies@, self.d(), self.cap(), a.i(), 0); }/*-*/
        Edges::on_columns(a.index(), &self.node_adjacencies, self.node_capacity)
    }
//@ end
}

impl<N, E, S: BuildHasher, Null: Nullable<Wrapped = E>, Ix: IndexType>
    MatrixGraph<N, E, S, Directed, Null, Ix>
{
//@ item src/matrix_graph.rs | impl<N, E, S: BuildHasher, Null: Nullable<Wrapped = E>, Ix: IndexType> MatrixGraph<N, E, S, Directed, Null, Ix> | fn neighbors_directed
    /// Return an iterator of all neighbors that have an edge between them and `a`, in the specified direction.
    pub fn neighbors_directed(
        &self,
        a: NodeIndex<Ix>,
        d: Direction,
    ) -> (r: Neighbors<Directed, Null, Ix>)
        /*+*/requires self.wf()
        ensures r.0.rows() == (d != Direction::Outgoing),
            r.0.rem() == (if d == Direction::Outgoing { mscan::<Null, Ix>(self.node_adjacencies@, true, self.cap(), false, a.i(), 0) }
                              else { mscan::<Null, Ix>(self.node_adjacencies@, true, self.cap(), true, 0, a.i()) })/*-*/   // [neighbors_directed_scans_row_or_column]
    {
        if d == Outgoing {
            self.neighbors(a)
        } else {
            Neighbors(Edges::on_rows(
                a.index(),
                &self.node_adjacencies,
                self.node_capacity,
            ))
        }
    }
//@ end

//@ item src/matrix_graph.rs | impl<N, E, S: BuildHasher, Null: Nullable<Wrapped = E>, Ix: IndexType> MatrixGraph<N, E, S, Directed, Null, Ix> | fn edges_directed
    /// Return an iterator of all edges of `a`, in the specified direction.
    pub fn edges_directed(&self, a: NodeIndex<Ix>, d: Direction) -> (r: Edges<Directed, Null, Ix>)
        /*+*/requires self.wf()
        ensures r.rows() == (d != Direction::Outgoing),
            r.rem() == (if d == Direction::Outgoing { mscan::<Null, Ix>(self.node_adjacencies@, true, self.cap(), false, a.i(), 0) }
                            else { mscan::<Null, Ix>(self.node_adjacencies@, true, self.cap(), true, 0, a.i()) })/*-*/     // [edges_directed_scans_row_or_column]
    {
        if d == Outgoing {
            self.edges(a)
        } else {
            Edges::on_rows(a.index(), &self.node_adjacencies, self.node_capacity)
        }
    }
//@ end
}
