// ======================================================================================
// fragment stable_link.rs - StableGraph::link_edges (property C17): rebuild the free lists and the
// incidence lists of a deserialised StableGraph; Ok means well formed, and exactly the inputs whose
// live edges join live nodes are accepted
// ======================================================================================

// ---- the node free list, built over a growing prefix of the node array
/// appending a live node (or any node not on the list) keeps the free list of the prefix
pub proof fn lemma_free_nodes_push_live<N, Ix: IndexType>(ns0: Seq<Node<Option<N>, Ix>>, ns1: Seq<Node<Option<N>, Ix>>, h: int, fl: Seq<int>)
    requires free_nodes_ok(ns0, h, fl, -1), ns1.len() == ns0.len() + 1, ns1[ns0.len() as int].weight is Some,
        forall|j: int| 0 <= j < ns0.len() ==> #[trigger] ns1[j] == ns0[j],
    ensures free_nodes_ok(ns1, h, fl, -1)
{
    lemma_nchain_frame(ns0, ns1, h, fl);
    assert forall|i: int| 0 <= i < fl.len() implies 0 <= #[trigger] fl[i] < ns1.len() && !nlive(ns1, fl[i]) && fl[i] != -1 by { assert(ns1[fl[i]] == ns0[fl[i]]); }
    assert forall|a: int| 0 <= a < ns1.len() && !nlive(ns1, a) && a != -1 implies #[trigger] fl.contains(a) by { assert(ns1[a] == ns0[a]); assert(!nlive(ns0, a)); }
    if fl.len() > 0 { assert(ns1[fl[0]] == ns0[fl[0]]); }
    assert forall|i: int, j: int| 0 <= i && j == i + 1 && j < fl.len() implies ns1[#[trigger] fl[j]].next[1].0.ix() == #[trigger] fl[i] by { assert(ns1[fl[j]] == ns0[fl[j]]); }
}
/// appending a vacant node x that points forward to the old head h (whose back link now names x) makes x the new head
#[verifier::spinoff_prover]
pub proof fn lemma_free_nodes_push_vacant<N, Ix: IndexType>(ns0: Seq<Node<Option<N>, Ix>>, ns1: Seq<Node<Option<N>, Ix>>, h: int, fl: Seq<int>)
    requires free_nodes_ok(ns0, h, fl, -1), ns1.len() == ns0.len() + 1, ns0.len() < end_ix::<Ix>(),
        ns1[ns0.len() as int].weight is None, ns1[ns0.len() as int].next[0].0.ix() == h, ns1[ns0.len() as int].next[1].0.ix() == end_ix::<Ix>(),
        forall|j: int| 0 <= j < ns0.len() && j != h ==> #[trigger] ns1[j] == ns0[j],
        0 <= h < ns0.len() ==> ns1[h].weight == ns0[h].weight && ns1[h].next[0] == ns0[h].next[0] && ns1[h].next[1].0.ix() == ns0.len(),
    ensures free_nodes_ok(ns1, ns0.len() as int, seq![ns0.len() as int] + fl, -1)
{
    let x = ns0.len() as int;
    let fl1 = seq![x] + fl;
    assert forall|i: int| 0 <= i < fl.len() implies 0 <= #[trigger] fl[i] < ns0.len() by { }
    assert forall|i: int| 0 <= i < fl.len() implies ns1[#[trigger] fl[i]].next[0] == ns0[fl[i]].next[0] by { if fl[i] != h { assert(ns1[fl[i]] == ns0[fl[i]]); } }
    lemma_nchain_frame(ns0, ns1, h, fl);
    assert(fl1.drop_first() =~= fl);
    assert(nchain(ns1, x, fl1));
    assert(no_dup(fl1)) by { assert forall|i: int, j: int| 0 <= i < j < fl1.len() implies fl1[i] != fl1[j] by { if i == 0 { assert(fl1[j] == fl[j - 1]); } else { assert(fl1[i] == fl[i - 1] && fl1[j] == fl[j - 1]); } } }
    assert forall|i: int| 0 <= i < fl1.len() implies 0 <= #[trigger] fl1[i] < ns1.len() && !nlive(ns1, fl1[i]) && fl1[i] != -1 by {
        if i > 0 { assert(fl1[i] == fl[i - 1]); assert(!nlive(ns0, fl[i - 1])); if fl[i - 1] != h { assert(ns1[fl[i - 1]] == ns0[fl[i - 1]]); } }
    }
    assert forall|i: int, j: int| 0 <= i && j == i + 1 && j < fl1.len() implies ns1[#[trigger] fl1[j]].next[1].0.ix() == #[trigger] fl1[i] by {
        if i == 0 { assert(fl1[1] == fl[0]); assert(fl[0] == h); }
        else { assert(fl1[j] == fl[j - 1] && fl1[i] == fl[i - 1]); assert(fl[j - 1] != h) by { if fl[j - 1] == h { assert(fl[0] == h); } } assert(ns1[fl[j - 1]] == ns0[fl[j - 1]]); }
    }
    assert forall|a: int| 0 <= a < ns1.len() && !nlive(ns1, a) && a != -1 implies #[trigger] fl1.contains(a) by {
        if a == x { assert(fl1[0] == x); }
        else { assert(!nlive(ns0, a)) by { if a != h { assert(ns1[a] == ns0[a]); } } assert(fl.contains(a)); let i = choose|i: int| 0 <= i < fl.len() && fl[i] == a; assert(fl1[i + 1] == a); }
    }
}

// ---- the incidence lists and the edge free list, built over a growing prefix of the edge array
/// appending a vacant edge slot x that points to the old head of the edge free list
#[verifier::spinoff_prover]
pub proof fn lemma_edges_push_vacant<N, E, Ix: IndexType>(ns: Seq<Node<Option<N>, Ix>>, es0: Seq<Edge<Option<E>, Ix>>, es1: Seq<Edge<Option<E>, Ix>>,
        out: Seq<Seq<int>>, inn: Seq<Seq<int>>, fe_head: EdgeIndex<Ix>, fe: Seq<int>)
    requires slists_ok(ns, es0, 0, out, -1), slists_ok(ns, es0, 1, inn, -1), free_edges_ok(es0, fe_head, fe),
        es1.len() == es0.len() + 1, es1.len() <= end_ix::<Ix>(), es1[es0.len() as int].weight is None, es1[es0.len() as int].next[0] == fe_head,
        forall|j: int| 0 <= j < es0.len() ==> #[trigger] es1[j] == es0[j],
    ensures slists_ok(ns, es1, 0, out, -1), slists_ok(ns, es1, 1, inn, -1),
        forall|h: EdgeIndex<Ix>| h.0.ix() == es0.len() ==> free_edges_ok(es1, h, seq![es0.len() as int] + fe),
{
    let x = es0.len() as int;
    assert forall|j: int| elive(es1, j) == elive(es0, j) by { if 0 <= j < es0.len() { assert(es1[j] == es0[j]); } }
    lemma_slists_extend(ns, es0, es1, 0, out);
    lemma_slists_extend(ns, es0, es1, 1, inn);
    let fe1 = seq![x] + fe;
    assert forall|h: EdgeIndex<Ix>| h.0.ix() == es0.len() implies free_edges_ok(es1, h, fe1) by {
        lemma_slist_range(es0, fe_head, 0, fe);
        assert forall|i: int| 0 <= i < fe.len() implies (#[trigger] fe[i]) < es1.len() && es1[fe[i]].next[0] == es0[fe[i]].next[0] by { assert(es1[fe[i]] == es0[fe[i]]); }
        lemma_slist_frame(es0, es1, fe_head, 0, fe);
        assert(fe1.drop_first() =~= fe);
        assert(slist(es1, h, 0, fe1));
        assert(no_dup(fe1)) by { assert forall|i: int, j: int| 0 <= i < j < fe1.len() implies fe1[i] != fe1[j] by { if i == 0 { assert(fe1[j] == fe[j - 1]); } else { assert(fe1[i] == fe[i - 1] && fe1[j] == fe[j - 1]); } } }
        assert forall|i: int| 0 <= i < fe1.len() implies 0 <= #[trigger] fe1[i] < es1.len() && !elive(es1, fe1[i]) by { if i > 0 { assert(fe1[i] == fe[i - 1]); } }
        assert forall|e: int| 0 <= e < es1.len() && !elive(es1, e) implies #[trigger] fe1.contains(e) by {
            if e == x { assert(fe1[0] == x); } else { assert(fe.contains(e)); let i = choose|i: int| 0 <= i < fe.len() && fe[i] == e; assert(fe1[i + 1] == e); }
        }
    }
}
/// a longer edge array that agrees on the old part and adds no live edge keeps the incidence lists
pub proof fn lemma_slists_extend<N, E, Ix: IndexType>(ns: Seq<Node<Option<N>, Ix>>, es0: Seq<Edge<Option<E>, Ix>>, es1: Seq<Edge<Option<E>, Ix>>, k: int, ls: Seq<Seq<int>>)
    requires 0 <= k < 2, slists_ok(ns, es0, k, ls, -1), es1.len() >= es0.len(), es1.len() <= end_ix::<Ix>(),
        forall|j: int| 0 <= j < es0.len() ==> #[trigger] es1[j] == es0[j],
        forall|j: int| es0.len() <= j < es1.len() ==> (#[trigger] es1[j]).weight is None,
    ensures slists_ok(ns, es1, k, ls, -1)
{
    assert forall|j: int| elive(es1, j) == elive(es0, j) by { if 0 <= j < es0.len() { assert(es1[j] == es0[j]); } }
    assert forall|a: int| 0 <= a < ns.len() && listed(ns, -1, a) implies slist(es1, ns[a].next[k], k, #[trigger] ls[a]) && no_dup(ls[a]) by {
        lemma_slist_range(es0, ns[a].next[k], k, ls[a]);
        assert forall|i: int| 0 <= i < ls[a].len() implies (#[trigger] ls[a][i]) < es1.len() && es1[ls[a][i]].next[k] == es0[ls[a][i]].next[k] by { assert(es1[ls[a][i]] == es0[ls[a][i]]); }
        lemma_slist_frame(es0, es1, ns[a].next[k], k, ls[a]);
    }
    assert forall|a: int, i: int| 0 <= a < ns.len() && 0 <= i < ls[a].len() implies elive(es1, #[trigger] ls[a][i]) && es1[ls[a][i]].node[k].0.ix() == a by { assert(elive(es0, ls[a][i])); assert(es1[ls[a][i]] == es0[ls[a][i]]); }
    assert forall|e: int| elive(es1, e) implies (#[trigger] es1[e]).node[k].0.ix() < ns.len() && listed(ns, -1, es1[e].node[k].0.ix() as int) by { assert(es1[e] == es0[e]); }
    assert forall|e: int| elive(es1, e) implies (#[trigger] ls[es1[e].node[k].0.ix() as int]).contains(e) by { assert(es1[e] == es0[e]); }
}
/// changing list heads of live nodes does not disturb the node free list
pub proof fn lemma_free_nodes_heads<N, Ix: IndexType>(ns0: Seq<Node<Option<N>, Ix>>, ns1: Seq<Node<Option<N>, Ix>>, h: int, fl: Seq<int>)
    requires free_nodes_ok(ns0, h, fl, -1), ns1.len() == ns0.len(),
        forall|j: int| 0 <= j < ns0.len() ==> (#[trigger] ns1[j]).weight == ns0[j].weight,
        forall|j: int| 0 <= j < ns0.len() && !nlive(ns0, j) ==> #[trigger] ns1[j] == ns0[j],
    ensures free_nodes_ok(ns1, h, fl, -1)
{
    assert forall|i: int| 0 <= i < fl.len() implies ns1[#[trigger] fl[i]] == ns0[fl[i]] by { assert(!nlive(ns0, fl[i])); }
    lemma_nchain_frame(ns0, ns1, h, fl);
    assert forall|x: int| #[trigger] nlive(ns1, x) == nlive(ns0, x) by { }
    assert forall|i: int, j: int| 0 <= i && j == i + 1 && j < fl.len() implies ns1[#[trigger] fl[j]].next[1].0.ix() == #[trigger] fl[i] by { assert(ns1[fl[j]] == ns0[fl[j]]); }
}

impl<N, E, Ty, Ix> StableGraph<N, E, Ty, Ix>
where
    Ty: EdgeType,
    Ix: IndexType,
{
//@ item src/graph_impl/stable_graph/mod.rs | impl<N, E, Ty, Ix> StableGraph<N, E, Ty, Ix> where Ty: EdgeType, Ix: IndexType | fn link_edges | props=C02,C17
    /// Fix up node and edge links after deserialization
    fn link_edges(&mut self) -> (res: Result<(), NodeIndex<Ix>>)
        /*+*/requires old(self).ns().len() <= end_ix::<Ix>(), old(self).es().len() <= end_ix::<Ix>(),
            forall|a: int| nlive(old(self).ns(), a) ==> (#[trigger] old(self).ns()[a]).next[0].i() == end_ix::<Ix>() && old(self).ns()[a].next[1].i() == end_ix::<Ix>(),   // as produced by the node deserialiser
        ensures
            res is Ok ==> final(self).wf(),                                                                    // [stable_link_edges_ok_means_well_formed] no corrupt graph from bad input
            res is Ok <==> (forall|e: int| elive(old(self).es(), e) ==> nlive(old(self).ns(), (#[trigger] old(self).es()[e]).node[0].i()) && nlive(old(self).ns(), old(self).es()[e].node[1].i())),   // [stable_link_edges_accepts_exactly_live_endpoints]
            final(self).ns().len() == old(self).ns().len() && final(self).es().len() == old(self).es().len(),
            forall|a: int| 0 <= a < old(self).ns().len() ==> (#[trigger] final(self).ns()[a]).weight == old(self).ns()[a].weight,
            forall|e: int| 0 <= e < old(self).es().len() ==> (#[trigger] final(self).es()[e]).weight == old(self).es()[e].weight && final(self).es()[e].node == old(self).es()[e].node/*-*/,   // [stable_link_edges_keeps_payload]
    {
        /*+*/let ghost ns0 = self.ns(); let ghost es0 = self.es(); let ghost n0 = ns0.len() as int;
        let ghost mut fl: Seq<int> = Seq::empty();/*-*/
        // set up free node list
        self.node_count = 0;
        self.edge_count = 0;
        let mut free_node = NodeIndex::end();
        /*+*/proof { let f0: NodeIndex<Ix> = free_node; assert(self.ns().subrange(0, 0) =~= Seq::<Node<Option<N>, Ix>>::empty()); assert(nchain(self.ns().subrange(0, 0), f0.0.ix() as int, fl)); }/*-*/
        for node_index in /*+*/it:/*-*/ 0..self.g.node_count()
            /*+*/invariant
                it.seq().len() == n0, forall|k: int| 0 <= k < n0 ==> it.seq()[k] == k,
                self.ns().len() == n0, n0 <= end_ix::<Ix>(), self.es() == es0, self.edge_count == 0,
                free_nodes_ok(self.ns().subrange(0, it.index@ as int), free_node.0.ix() as int, fl, -1),
                self.node_count == it.index@ - fl.len(),
                forall|x: int| 0 <= x < n0 ==> (#[trigger] self.ns()[x]).weight == ns0[x].weight,
                forall|x: int| it.index@ <= x < n0 ==> #[trigger] self.ns()[x] == ns0[x],
                forall|x: int| 0 <= x < it.index@ && nlive(ns0, x) ==> #[trigger] self.ns()[x] == ns0[x],/*-*/
        {
            /*+*/let ghost idx = it.index@ as int; let ghost nsb = self.ns(); let ghost h = free_node.0.ix() as int;
            proof { assert(node_index == it.seq()[it.index@ as int]); assert(node_index == idx);
                if fl.len() > 0 { assert(h == fl[0] && 0 <= h < idx); } else { assert(h == end_ix::<Ix>()); }
                lemma_nodup_bound(fl, idx); }/*-*/
            let node = &mut self.g.nodes[node_index];
            if node.weight.is_some() {
                self.node_count += 1;
                /*+*/proof {
                    assert(self.ns() == nsb);
                    let p0 = nsb.subrange(0, idx); let p1 = nsb.subrange(0, idx + 1);
                    assert forall|j: int| 0 <= j < p0.len() implies #[trigger] p1[j] == p0[j] by { }
                    lemma_free_nodes_push_live(p0, p1, h, fl);
                }/*-*/
            } else {
                // free node
                node.next = [free_node._into_edge(), EdgeIndex::end()];
                /*+*/proof { Ix::eq_law(); }/*-*/
                if free_node != NodeIndex::end() {
                    self.g.nodes[free_node.index()].next[1] = EdgeIndex::new(node_index);
                }
                free_node = NodeIndex::new(node_index);
                /*+*/proof {
                    let ns1 = self.ns();
                    let p0 = nsb.subrange(0, idx); let p1 = ns1.subrange(0, idx + 1);
                    assert forall|j: int| 0 <= j < p0.len() && j != h implies #[trigger] p1[j] == p0[j] by { }
                    lemma_free_nodes_push_vacant(p0, p1, h, fl);
                    fl = seq![idx] + fl;
                }/*-*/
            }
        }
        self.free_node = free_node;
        /*+*/let ghost ns1 = self.ns();
        proof { assert(ns1.subrange(0, n0) =~= ns1); }
        let ghost mut out: Seq<Seq<int>> = Seq::new(ns1.len(), |a: int| Seq::<int>::empty());
        let ghost mut inn: Seq<Seq<int>> = Seq::new(ns1.len(), |a: int| Seq::<int>::empty());
        let ghost mut fe: Seq<int> = Seq::empty();/*-*/

        let mut free_edge = EdgeIndex::end();
        /*+*/proof {
            let e0 = self.es().subrange(0, 0);
            assert(e0 =~= Seq::<Edge<Option<E>, Ix>>::empty());
            assert(slists_ok(ns1, e0, 0, out, -1));
            assert(slists_ok(ns1, e0, 1, inn, -1));
        }/*-*/
        /*R:D6 for (edge_index, edge) in enumerate(&mut self.g.edges) */ let mut __i = 0usize; loop
            invariant __i <= self.es().len(), self.ns().len() == n0, self.es().len() == es0.len(), n0 <= end_ix::<Ix>(), es0.len() <= end_ix::<Ix>(), ns0 == old(self).ns(), es0 == old(self).es(), n0 == ns0.len(),
                self.free_node == free_node, self.node_count == n0 - fl.len(), self.edge_count == __i - fe.len(),
                free_nodes_ok(self.ns(), self.free_node.0.ix() as int, fl, -1),
                slists_ok(self.ns(), self.es().subrange(0, __i as int), 0, out, -1),
                slists_ok(self.ns(), self.es().subrange(0, __i as int), 1, inn, -1),
                free_edges_ok(self.es().subrange(0, __i as int), free_edge, fe),
                forall|x: int| 0 <= x < n0 ==> (#[trigger] self.ns()[x]).weight == ns0[x].weight,
                forall|e: int| 0 <= e < es0.len() ==> (#[trigger] self.es()[e]).weight == es0[e].weight && self.es()[e].node == es0[e].node,
                forall|e: int| 0 <= e < __i && elive(es0, e) ==> nlive(ns0, (#[trigger] es0[e]).node[0].i()) && nlive(ns0, es0[e].node[1].i()),
            ensures __i >= self.es().len(),
            decreases self.es().len() - __i/*-*/
        {
            /*+*/if __i >= self.g.edges.len() { break; } let edge_index = __i; let ghost nsb = self.ns(); let ghost esb = self.es(); let ghost i = edge_index as int;
            proof { lemma_nodup_bound(fe, i); }
            let edge = &mut self.g.edges[edge_index]; __i += 1;/*-*/
            if edge.weight.is_none() {
                // free edge
                edge.next = [free_edge, EdgeIndex::end()];
                /*+*/let ghost old_head = free_edge;/*-*/
                free_edge = EdgeIndex::new(edge_index);
                /*+*/proof {
                    let p0 = esb.subrange(0, i); let p1 = self.es().subrange(0, i + 1);
                    assert forall|j: int| 0 <= j < p0.len() implies #[trigger] p1[j] == p0[j] by { }
                    lemma_edges_push_vacant(nsb, p0, p1, out, inn, old_head, fe);
                    fe = seq![i] + fe;
                }/*-*/
                continue;
            }
            let a = edge.source();
            let b = edge.target();
            /*+*/proof { assert(esb[i].node == es0[i].node); assert(esb[i].weight == es0[i].weight); assert(elive(es0, i)); }/*-*/
            let edge_idx = EdgeIndex::new(edge_index);
            match index_twice(&mut self.g.nodes, a.index(), b.index()) {
                Pair::None => /*+*/{ proof { assert(!(nlive(ns0, es0[i].node[0].i()) && nlive(ns0, es0[i].node[1].i()))); }/*-*/ return Err(if a > b { a } else { b }) /*+*/}/*-*/,
                Pair::One(an) => {
                    if an.weight.is_none() {
                        /*+*/proof { if an.weight is None { assert(!nlive(ns0, es0[i].node[0].i())); } }/*-*/
                        return Err(a);
                    }
                    edge.next = an.next;
                    an.next[0] = edge_idx;
                    an.next[1] = edge_idx;
                }
                Pair::Both(an, bn) => {
                    // a and b are different indices
                    if an.weight.is_none() {
                        /*+*/proof { if an.weight is None { assert(!nlive(ns0, es0[i].node[0].i())); } }/*-*/
                        return Err(a);
                    }
                    if bn.weight.is_none() {
                        /*+*/proof { if bn.weight is None { assert(!nlive(ns0, es0[i].node[1].i())); } }/*-*/
                        return Err(b);
                    }
                    edge.next = [an.next[0], bn.next[1]];
                    an.next[0] = edge_idx;
                    bn.next[1] = edge_idx;
                }
            }
            self.edge_count += 1;
            /*+*/proof {
                let ai = a.i(); let bi = b.i();
                let ns2 = self.ns(); let es2 = self.es();
                let p0 = esb.subrange(0, i); let p1 = es2.subrange(0, i + 1);
                assert forall|j: int| 0 <= j < p0.len() implies #[trigger] p1[j] == p0[j] by { }
                lemma_slink_head(nsb, p0, ns2, p1, 0, out, -1, ai, i);
                lemma_slink_head(nsb, p0, ns2, p1, 1, inn, -1, bi, i);
                out = out.update(ai, seq![i] + out[ai]);
                inn = inn.update(bi, seq![i] + inn[bi]);
                lemma_free_nodes_heads(nsb, ns2, self.free_node.0.ix() as int, fl);
                assert(free_edges_ok(p1, free_edge, fe)) by {
                    lemma_slist_range(p0, free_edge, 0, fe);
                    assert forall|q: int| 0 <= q < fe.len() implies (#[trigger] fe[q]) < p1.len() && p1[fe[q]].next[0] == p0[fe[q]].next[0] by { assert(p1[fe[q]] == p0[fe[q]]); }
                    lemma_slist_frame(p0, p1, free_edge, 0, fe);
                    assert forall|e: int| 0 <= e < p1.len() && !elive(p1, e) implies #[trigger] fe.contains(e) by { assert(e != i); assert(p1[e] == p0[e]); }
                    assert forall|q: int| 0 <= q < fe.len() implies 0 <= #[trigger] fe[q] < p1.len() && !elive(p1, fe[q]) by { assert(p1[fe[q]] == p0[fe[q]]); }
                }
            }/*-*/
        }
        self.free_edge = free_edge;
        /*+*/proof {
            assert(self.es().subrange(0, self.es().len() as int) =~= self.es());
            assert(self.wf_with(out, inn, fl, fe, -1));
            self.lemma_wf_unique(out, inn, fl, fe, -1);
        }/*-*/
        Ok(())
    }
//@ end
}
