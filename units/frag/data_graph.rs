// ======================================================================================
// fragment data_graph.rs - src/data.rs: Graph as a Build / Create / DataMap / DataMapMut (C01): each trait method is the
// inherent method of the same name, and `Build::add_edge` ALWAYS adds a new (possibly parallel) edge
// ======================================================================================

//@ item src/data.rs | - | impl<N, E, Ty, Ix> DataMap for Graph<N, E, Ty, Ix> where Ty: EdgeType, Ix: IndexType
impl<N, E, Ty, Ix> DataMap for Graph<N, E, Ty, Ix>
where
    Ty: EdgeType,
    Ix: IndexType,
{
    /*+*/
    open spec fn nweight(&self, id: NodeIndex<Ix>) -> Option<N> { if id.i() < self.n() { Some(self.view().nodes[id.i()]) } else { None } }
    open spec fn eweight(&self, id: EdgeIndex<Ix>) -> Option<E> { if id.i() < self.m() { Some(self.view().edges[id.i()].2) } else { None } }
    /*-*/
    fn node_weight(&self, id: Self::NodeId) -> Option<&Self::NodeWeight> {
        self.node_weight(id)
    }
    fn edge_weight(&self, id: Self::EdgeId) -> Option<&Self::EdgeWeight> {
        self.edge_weight(id)
    }
}
//@ end

//@ item src/data.rs | - | impl<N, E, Ty, Ix> DataMapMut for Graph<N, E, Ty, Ix> where Ty: EdgeType, Ix: IndexType
impl<N, E, Ty, Ix> DataMapMut for Graph<N, E, Ty, Ix>
where
    Ty: EdgeType,
    Ix: IndexType,
{
    /*+*/
    open spec fn dm_inv(&self) -> bool { self.wf() }
    /*-*/
    fn node_weight_mut(&mut self, id: Self::NodeId) -> /*+*/(r:/*-*/ Option<&mut Self::NodeWeight>/*+*/)
        ensures r is Some ==> final(self).view() == old(self).view().set_node_weight(id.i(), *final(r.unwrap())),
            r is None ==> final(self).nodes@ == old(self).nodes@ && final(self).edges@ == old(self).edges@/*-*/   // [datamapmut_graph_only_that_weight]
    {
        self.node_weight_mut(id)
    }
    fn edge_weight_mut(&mut self, id: Self::EdgeId) -> /*+*/(r:/*-*/ Option<&mut Self::EdgeWeight>/*+*/)
        ensures r is Some ==> final(self).view() == old(self).view().set_edge_weight(id.i(), *final(r.unwrap())),
            r is None ==> final(self).nodes@ == old(self).nodes@ && final(self).edges@ == old(self).edges@/*-*/   // [datamapmut_graph_only_that_weight]
    {
        /*+*/let ghost fin = *final(self); let ghost o = *old(self);
        let r = {/*-*/ self.edge_weight_mut(id) /*+*/};
        proof { if r is Some { assert(fin.view().edges.len() == o.view().edges.len()); assert(fin.edge_ps().len() == fin.m()); assert(o.edge_ps().len() == o.m()); } }
        r/*-*/
    }
}
//@ end

//@ item src/data.rs | - | impl<N, E, Ty, Ix> Build for Graph<N, E, Ty, Ix> where Ty: EdgeType, Ix: IndexType | provided=src/data.rs:trait Build:add_edge
impl<N, E, Ty, Ix> Build for Graph<N, E, Ty, Ix>
where
    Ty: EdgeType,
    Ix: IndexType,
{
    /*+*/
    open spec fn add_node_pre(&self) -> bool { self.wf() && (end_ix::<Ix>() == usize::MAX || self.n() < end_ix::<Ix>()) }
    open spec fn add_edge_pre(&self, a: NodeIndex<Ix>, b: NodeIndex<Ix>) -> bool {
        self.wf() && a.i() < self.n() && b.i() < self.n() && (end_ix::<Ix>() == usize::MAX || self.m() < end_ix::<Ix>())
    }
    open spec fn update_edge_pre(&self, a: NodeIndex<Ix>, b: NodeIndex<Ix>) -> bool {
        self.wf() && (self.view().find(Ty::spec_is_directed(), a.i(), b.i()) is None ==> self.add_edge_pre(a, b))
    }
    open spec fn node_added(pre: &Self, w: N, post: &Self, n: NodeIndex<Ix>) -> bool { post.wf() && n.i() == pre.n() && post.view() == pre.view().add_node(w) }
    /// a NEW edge, whatever edges a -> b exist already: Graph is a multigraph
    open spec fn edge_added(pre: &Self, a: NodeIndex<Ix>, b: NodeIndex<Ix>, w: E, post: &Self, e: EdgeIndex<Ix>) -> bool {
        post.wf() && e.i() == pre.m() && post.view() == pre.view().add_edge(a.i(), b.i(), w)
    }
    open spec fn edge_put(pre: &Self, a: NodeIndex<Ix>, b: NodeIndex<Ix>, w: E, post: &Self, e: EdgeIndex<Ix>) -> bool {
        post.wf() && match pre.view().find(Ty::spec_is_directed(), a.i(), b.i()) {
            Some((ev, d)) => e.i() == ev && post.view() == pre.view().set_edge_weight(ev, w),
            None => e.i() == pre.m() && post.view() == pre.view().add_edge(a.i(), b.i(), w),
        }
    }
    /*-*/
    fn add_node(&mut self, weight: Self::NodeWeight) -> Self::NodeId {
        self.add_node(weight)
    }
    fn add_edge(
        &mut self,
        a: Self::NodeId,
        b: Self::NodeId,
        weight: Self::EdgeWeight,
    ) -> Option<Self::EdgeId> {
        Some(self.add_edge(a, b, weight))
    }
    fn update_edge(
        &mut self,
        a: Self::NodeId,
        b: Self::NodeId,
        weight: Self::EdgeWeight,
    ) -> Self::EdgeId {
        self.update_edge(a, b, weight)
    }
}
//@ end

//@ item src/data.rs | - | impl<N, E, Ty, Ix> Create for Graph<N, E, Ty, Ix> where Ty: EdgeType, Ix: IndexType
impl<N, E, Ty, Ix> Create for Graph<N, E, Ty, Ix>
where
    Ty: EdgeType,
    Ix: IndexType,
{
    /*+*/
    open spec fn is_empty_graph(&self) -> bool { self.wf() && self.view().nodes.len() == 0 && self.view().edges.len() == 0 }
    /*-*/
    fn with_capacity(nodes: usize, edges: usize) -> Self {
        Self::with_capacity(nodes, edges)
    }
}
//@ end
