// ======================================================================================
// fragment visit_undirected.rs - the `UndirectedAdaptor` (src/visit/undirected_adaptor.rs) against the trait
// contracts (C06), generic in the wrapped graph.
//   `iter::Chain` has no vstd specification: the type is declared external (vstd's generic iterator contract then
//   covers its `next`) and `X.chain(Y)` is a call of the TRUSTED constructor chain_iters(X, Y) (D21) whose contract is
//   std's: first everything X yields, then everything Y yields.  Only `.chain(` itself is inside the rewritten
//   regions; the two operands are merged from /repo.
//   GraphBase / Data / IntoEdgeReferences for the adaptor come from `delegate_impl!` expansions, which cannot be located
//   as items; they are written out by hand (glue, NOT extracted).
// ======================================================================================
#[verifier::external_type_specification]
#[verifier::external_body]
#[verifier::reject_recursive_types(A)]
#[verifier::reject_recursive_types(B)]
pub struct ExChain<A, B>(iter::Chain<A, B>);
#[verifier::external_body]
pub fn chain_iters<A: Iterator, B: Iterator<Item = A::Item>>(a: A, b: B) -> (r: iter::Chain<A, B>)
    requires a.obeys_prophetic_iter_laws(), b.obeys_prophetic_iter_laws(), a.decrease() is Some, b.decrease() is Some
    ensures r.obeys_prophetic_iter_laws(), r.decrease() is Some, r.remaining() == a.remaining() + b.remaining()
{ a.chain(b) }

//@ item src/visit/undirected_adaptor.rs | - | struct UndirectedAdaptor
/// An edge direction removing graph adaptor.
#[derive(Copy, Clone, Debug)]
pub struct UndirectedAdaptor<G>(pub G);
//@ end

// hand-expanded `GraphBase! {delegate_impl [[G], G, UndirectedAdaptor<G>, access0]}` etc. (macro_rules expansions, NOT extracted)
impl<G: GraphBase> GraphBase for UndirectedAdaptor<G> {
    type NodeId = G::NodeId;
    type EdgeId = G::EdgeId;
}
impl<G: Data> Data for UndirectedAdaptor<G> {
    type NodeWeight = G::NodeWeight;
    type EdgeWeight = G::EdgeWeight;
}
impl<G: IntoEdgeReferences> IntoEdgeReferences for UndirectedAdaptor<G> {
    type EdgeRef = G::EdgeRef;
    type EdgeReferences = G::EdgeReferences;
    open spec fn edge_refs(self) -> Seq<G::EdgeRef> { self.0.edge_refs() }
    fn edge_references(self) -> G::EdgeReferences { self.0.edge_references() }
}

//@ item src/visit/undirected_adaptor.rs | - | impl<G: GraphRef> GraphRef for UndirectedAdaptor<G>
impl<G: GraphRef> GraphRef for UndirectedAdaptor<G> {}
//@ end

//@ item src/visit/undirected_adaptor.rs | - | impl<G> IntoNeighbors for UndirectedAdaptor<G> where G: IntoNeighborsDirected
impl<G> IntoNeighbors for UndirectedAdaptor<G>
where
    G: IntoNeighborsDirected,
{
    type Neighbors = core::iter::Chain<G::NeighborsDirected, G::NeighborsDirected>;
    /*+*/
    open spec fn inv(self) -> bool { self.0.inv() }
    open spec fn is_node(self, a: G::NodeId) -> bool { self.0.is_node(a) }
    /// the symmetrised graph: first the incoming, then the outgoing neighbours of a in G
    open spec fn succ(self, a: G::NodeId) -> Seq<G::NodeId> { self.0.nbrs(a, Direction::Incoming) + self.0.nbrs(a, Direction::Outgoing) }
    proof fn succ_law(self, a: G::NodeId) {
        let i_ = self.0.nbrs(a, Direction::Incoming); let o_ = self.0.nbrs(a, Direction::Outgoing);
        self.0.dir_law(a, a); self.0.succ_law(a);
        assert forall|i: int| 0 <= i < self.succ(a).len() implies self.is_node(#[trigger] self.succ(a)[i]) by {
            if i < i_.len() { assert(self.succ(a)[i] == i_[i]); } else { assert(self.succ(a)[i] == o_[i - i_.len()]); assert(self.0.is_node(self.0.succ(a)[i - i_.len()])); }
        }
        if !self.0.is_node(a) && i_.len() > 0 {
            let b = i_[0];
            self.0.dir_law(a, b); self.0.succ_law(b);
            let j = choose|j: int| 0 <= j < self.0.succ(b).len() && self.0.succ(b)[j] == a;
            assert(self.0.is_node(self.0.succ(b)[j]));
        }
    }
    /*-*/
    fn neighbors(self, n: G::NodeId) -> Self::Neighbors {
        /*R:D21 */ chain_iters( /*-*/self.0
            .neighbors_directed(n, Direction::Incoming)
            /*R:D21 .chain( */ , /*-*/self.0.neighbors_directed(n, Direction::Outgoing))
    }
}
//@ end

//@ item src/visit/undirected_adaptor.rs | - | impl<G> IntoEdges for UndirectedAdaptor<G> where G: IntoEdgesDirected
impl<G> IntoEdges for UndirectedAdaptor<G>
where
    G: IntoEdgesDirected,
{
    type Edges = core::iter::Chain<G::EdgesDirected, G::EdgesDirected>;
    /*+*/
    open spec fn edges_of(self, a: G::NodeId) -> Seq<G::EdgeRef> { self.0.edges_dir(a, Direction::Incoming) + self.0.edges_dir(a, Direction::Outgoing) }
    /// The trait's law - the queried node is the SOURCE of every edge `edges(a)` yields and the target is the corresponding
    /// neighbour - is the documented convention of `IntoEdges` for an undirected graph.  The adaptor hands out G's own edge
    /// references for the incoming half, whose source is the neighbour and whose target is a: the clause below cannot be proved
    /// for it (KNOWN FINDING, see known_findings.txt).  The count and the outgoing half are proved.
    proof fn edges_law(self, a: G::NodeId) {
        self.0.edges_dir_law(a, Direction::Incoming); self.0.edges_dir_law(a, Direction::Outgoing);
        let ei = self.0.edges_dir(a, Direction::Incoming); let eo = self.0.edges_dir(a, Direction::Outgoing);
        assert(self.edges_of(a).len() == self.succ(a).len());
        assert forall|i: int| ei.len() <= i < self.edges_of(a).len() implies (#[trigger] self.edges_of(a)[i]).src() == a && self.edges_of(a)[i].tgt() == self.succ(a)[i] by {
            assert(self.edges_of(a)[i] == eo[i - ei.len()]); assert(self.succ(a)[i] == self.0.nbrs(a, Direction::Outgoing)[i - ei.len()]);
        }
    }
    /*-*/
    fn edges(self, a: Self::NodeId) -> Self::Edges {
        /*R:D21 */ chain_iters( /*-*/self.0
            .edges_directed(a, Direction::Incoming)
            /*R:D21 .chain( */ , /*-*/self.0.edges_directed(a, Direction::Outgoing))
    }
}
//@ end
