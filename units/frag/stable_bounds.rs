// ======================================================================================
// fragment stable_bounds.rs - StableGraph's node_bound / edge_bound bodies (C02, C06)
//
// The trait impl methods node_bound / edge_bound are TRUSTED against the trait contracts `r == nbound()` /
// `r == ebound()`, because a trait impl method cannot state the precondition (the representation invariant)
// the proof needs.  Here (and in stable_retain.rs for edge_bound) the same bodies are presented once more as
// module-private inherent methods (D17) WITH that precondition and proved: on a well-formed graph node_bound() is one past the last live
// node index and edge_bound() one past the last live edge index (0 when there is none).
// ======================================================================================

mod node_bound_proof {
    use super::*;
impl<N, E, Ty, Ix> StableGraph<N, E, Ty, Ix>
where
    Ty: EdgeType,
    Ix: IndexType,
{
//@ item src/graph_impl/stable_graph/mod.rs | impl<N, E, Ty, Ix> visit::NodeIndexable for StableGraph<N, E, Ty, Ix> where Ty: EdgeType, Ix: IndexType | fn node_bound
    /// Return an upper bound of the node indices in the graph
    fn node_bound(&self) -> (r: usize)
        /*+*/requires self.wf()
        ensures r == sbound(self.ns(), self.ns().len() as int)/*-*/   // [node_bound_is_one_past_last_live_node]
    {
        /*+*/proof { self.lemma_live_nodes(); lemma_sbound(self.ns(), self.ns().len() as int); }
        let ghost s = live_nix::<N, Ix>(self.ns());
        let r = {/*-*/ self.node_indices().next_back().map_or(0, |i/*+*/: NodeIndex<Ix>/*-*/| /*+*/-> (q: usize) requires i.i() < usize::MAX ensures q == i.i() + 1 {/*-*/ i.index() + 1 /*+*/}/*-*/) /*+*/};
        proof {
            let b = sbound(self.ns(), self.ns().len() as int);
            if s.len() > 0 { let l = s.last(); assert(l == s[s.len() - 1]); assert(nlive(self.ns(), l.i()));
                if b - 1 != l.i() { assert(nlive(self.ns(), b - 1)); let x = NodeIndex::<Ix>(Ix::spec_new((b - 1) as usize)); Ix::new_law((b - 1) as usize); assert(s.contains(x)); let j = choose|j: int| 0 <= j < s.len() && s[j] == x; assert(s[j].i() <= l.i()); } }
            else { if b > 0 { let x = NodeIndex::<Ix>(Ix::spec_new((b - 1) as usize)); Ix::new_law((b - 1) as usize); assert(s.contains(x)); } }
        }
        r/*-*/
    }
//@ end
}
}
