// ======================================================================================
// fragment visit_stable.rs - the visit-trait impls of StableGraph proved against the trait
// contracts of visit_traits.rs (property C06, partial): node_bound vs node_count, to_index /
// from_index, visit maps, adjacency matrix in states WITH VACANCIES
// ======================================================================================

//@ item src/graph_impl/stable_graph/mod.rs | - | impl<N, E, Ty, Ix> visit::GraphBase for StableGraph<N, E, Ty, Ix> where Ix: IndexType
impl<N, E, Ty, Ix> visit::GraphBase for StableGraph<N, E, Ty, Ix>
where
    Ix: IndexType,
{
    type NodeId = NodeIndex<Ix>;
    type EdgeId = EdgeIndex<Ix>;
}
//@ end

//@ item src/graph_impl/stable_graph/mod.rs | - | impl<N, E, Ty, Ix> visit::Data for StableGraph<N, E, Ty, Ix> where Ty: EdgeType, Ix: IndexType
impl<N, E, Ty, Ix> visit::Data for StableGraph<N, E, Ty, Ix>
where
    Ty: EdgeType,
    Ix: IndexType,
{
    type NodeWeight = N;
    type EdgeWeight = E;
}
//@ end

//@ item src/graph_impl/stable_graph/mod.rs | - | impl<N, E, Ty, Ix> visit::NodeCount for StableGraph<N, E, Ty, Ix> where Ty: EdgeType, Ix: IndexType
impl<N, E, Ty, Ix> visit::NodeCount for StableGraph<N, E, Ty, Ix>
where
    Ty: EdgeType,
    Ix: IndexType,
{
    /*+*/open spec fn ncount(&self) -> usize { self.node_count }/*-*/
    fn node_count(&self) -> usize {
        self.node_count()
    }
}
//@ end

//@ item src/graph_impl/stable_graph/mod.rs | - | impl<N, E, Ty, Ix> visit::EdgeCount for StableGraph<N, E, Ty, Ix> where Ty: EdgeType, Ix: IndexType
impl<N, E, Ty, Ix> visit::EdgeCount for StableGraph<N, E, Ty, Ix>
where
    Ty: EdgeType,
    Ix: IndexType,
{
    /*+*/open spec fn ecount(&self) -> usize { self.edge_count }/*-*/
    #[inline]
    fn edge_count(&self) -> usize {
        self.edge_count()
    }
}
//@ end

//@ item src/graph_impl/stable_graph/mod.rs | - | impl<N, E, Ty, Ix> visit::NodeIndexable for StableGraph<N, E, Ty, Ix> where Ty: EdgeType, Ix: IndexType
impl<N, E, Ty, Ix> visit::NodeIndexable for StableGraph<N, E, Ty, Ix>
where
    Ty: EdgeType,
    Ix: IndexType,
{
    /*+*/
    open spec fn is_nid(&self, a: NodeIndex<Ix>) -> bool { nlive(self.ns(), a.i()) }
    open spec fn nbound(&self) -> usize { sbound(self.ns(), self.ns().len() as int) as usize }
    open spec fn ix_of(&self, a: NodeIndex<Ix>) -> usize { a.0.ix() }
    proof fn ix_inj_law(&self, a: NodeIndex<Ix>, b: NodeIndex<Ix>) { Ix::ix_inj(a.0, b.0); }
    /*-*/
    /// Return an upper bound of the node indices in the graph
    // TRUSTED against the trait contract `r == nbound()`: `next_back` of the Enumerate-based NodeIndices has no vstd specification
    /*+*/#[verifier::external_body]/*-*/
    fn node_bound(&self) -> usize {
        /*R:D20 self.node_indices().next_back().map_or(0, |i| i.index() + 1) */ unimplemented!() /*-*/
    }
    fn to_index(&self, ix: NodeIndex<Ix>) -> usize {
        /*+*/proof { self.lemma_nbound(); }/*-*/
        ix.index()
    }
    fn from_index(&self, ix: usize) -> Self::NodeId {
        /*+*/let r = {/*-*/ NodeIndex::new(ix) /*+*/};
        proof { assert forall|a: NodeIndex<Ix>| self.is_nid(a) && self.ix_of(a) == ix implies r == a by { Ix::ix_bound(a.0); Ix::ix_inj(a.0, r.0); } }
        r/*-*/
    }
}
//@ end

//@ item src/graph_impl/stable_graph/mod.rs | - | impl<N, E, Ty, Ix> visit::Visitable for StableGraph<N, E, Ty, Ix> where Ty: EdgeType, Ix: IndexType
impl<N, E, Ty, Ix> visit::Visitable for StableGraph<N, E, Ty, Ix>
where
    Ty: EdgeType,
    Ix: IndexType,
{
    type Map = FixedBitSet;
    /*+*/open spec fn vis_node(&self, a: NodeIndex<Ix>) -> bool { nlive(self.ns(), a.i()) }/*-*/
    fn visit_map(&self) -> FixedBitSet {
        /*+*/let r = {/*-*/ FixedBitSet::with_capacity(self.node_bound()) /*+*/};
        proof { assert(r.vset() =~= ISet::<NodeIndex<Ix>>::empty()); self.lemma_nbound(); }
        r/*-*/
    }
    fn reset_map(&self, map: &mut Self::Map) {
        map.clear();
        map.grow(self.node_bound());
        /*+*/proof { assert(map.vset() =~= ISet::<NodeIndex<Ix>>::empty()); self.lemma_nbound(); }/*-*/
    }
}
//@ end

//@ item src/graph_impl/stable_graph/mod.rs | - | impl<'a, N, E: 'a, Ty, Ix> visit::IntoNodeIdentifiers for &'a StableGraph<N, E, Ty, Ix> where Ty: EdgeType, Ix: IndexType
impl<'a, N, E: 'a, Ty, Ix> visit::IntoNodeIdentifiers for &'a StableGraph<N, E, Ty, Ix>
where
    Ty: EdgeType,
    Ix: IndexType,
{
    type NodeIdentifiers = NodeIndices<'a, N, Ix>;
    /*+*/open spec fn node_ids(self) -> Seq<NodeIndex<Ix>> { live_nix::<N, Ix>(self.ns()) }/*-*/   // see StableGraph::lemma_live_nodes: every live node once, ascending, node_count of them
    fn node_identifiers(self) -> Self::NodeIdentifiers {
        StableGraph::node_indices(self)
    }
}
//@ end

// ---- edge references of a StableGraph
//@ item src/graph_impl/stable_graph/mod.rs | - | struct EdgeReference
/// Reference to a `StableGraph` edge.
pub struct EdgeReference<'a, E: 'a, Ix = DefaultIx> {
    pub index: EdgeIndex<Ix>,
    pub node: [NodeIndex<Ix>; 2],
    pub weight: &'a E,
}
//@ end

//@ item src/graph_impl/stable_graph/mod.rs | - | impl<E, Ix: IndexType> Clone for EdgeReference<'_, E, Ix>
impl<E, Ix: IndexType> Clone for EdgeReference<'_, E, Ix> {
    fn clone(&self) -> Self {
        *self
    }
}
//@ end

//@ item src/graph_impl/stable_graph/mod.rs | - | impl<E, Ix: IndexType> Copy for EdgeReference<'_, E, Ix>
impl<E, Ix: IndexType> Copy for EdgeReference<'_, E, Ix> {}
//@ end

//@ item src/graph_impl/stable_graph/mod.rs | - | impl<Ix, E> visit::EdgeRef for EdgeReference<'_, E, Ix> where Ix: IndexType
impl<Ix, E> visit::EdgeRef for EdgeReference<'_, E, Ix>
where
    Ix: IndexType,
{
    type NodeId = NodeIndex<Ix>;
    type EdgeId = EdgeIndex<Ix>;
    type Weight = E;

    /*+*/open spec fn src(&self) -> NodeIndex<Ix> { self.node[0] }
    open spec fn tgt(&self) -> NodeIndex<Ix> { self.node[1] }
    open spec fn eid(&self) -> EdgeIndex<Ix> { self.index }/*-*/
    fn source(&self) -> Self::NodeId {
        self.node[0]
    }
    fn target(&self) -> Self::NodeId {
        self.node[1]
    }
    fn weight(&self) -> &E {
        self.weight
    }
    fn id(&self) -> Self::EdgeId {
        self.index
    }
}
//@ end

// `EdgeReferences` wraps `iter::Enumerate<slice::Iter<Edge<Option<E>>>>` and skips vacant slots with the crate's `ex_find_map` /
// `ex_rfind_map` (fragment iter_utils.rs).  What is left to yield is the filter-map of what the wrapped enumeration has left.
pub open spec fn seref_f<'a, E, Ix: IndexType>() -> spec_fn((usize, &'a Edge<Option<E>, Ix>)) -> Option<EdgeReference<'a, E, Ix>> {
    |t: (usize, &'a Edge<Option<E>, Ix>)| match t.1.weight { Some(w) => Some(EdgeReference { index: EdgeIndex(Ix::spec_new(t.0)), node: t.1.node, weight: &w }), None => None }
}
//@ item src/graph_impl/stable_graph/mod.rs | - | struct EdgeReferences
/// Iterator over all edges of a graph.
/*+*/#[verifier::reject_recursive_types(E)]
#[verifier::reject_recursive_types(Ix)]/*-*/
pub struct EdgeReferences<'a, E: 'a, Ix: 'a = DefaultIx> {
    pub iter: iter::Enumerate<slice::Iter<'a, Edge<Option<E>, Ix>>>,
}
//@ end

impl<'a, E, Ix: IndexType> EdgeReferences<'a, E, Ix> {
    #[verifier::prophetic]
    pub open spec fn rest(&self) -> Seq<EdgeReference<'a, E, Ix>> { fm_seq(self.iter.remaining(), seref_f::<E, Ix>()) }
}
impl<'a, E, Ix: IndexType> vstd::std_specs::iter::IteratorSpecImpl for EdgeReferences<'a, E, Ix> {
    open spec fn obeys_prophetic_iter_laws(&self) -> bool { self.iter.obeys_prophetic_iter_laws() }
    #[verifier::prophetic]
    open spec fn remaining(&self) -> Seq<EdgeReference<'a, E, Ix>> { self.rest() }
    open spec fn decrease(&self) -> Option<nat> { self.iter.decrease() }
    open spec fn will_return_none(&self) -> bool { true }
    open spec fn peek(&self, i: int) -> Option<EdgeReference<'a, E, Ix>> { None }
}
impl<'a, E, Ix: IndexType> vstd::std_specs::iter::DoubleEndedIteratorSpecImpl for EdgeReferences<'a, E, Ix> {
    open spec fn peek_back(&self, i: int) -> Option<EdgeReference<'a, E, Ix>> { None }
}

//@ item src/graph_impl/stable_graph/mod.rs | - | impl<'a, E, Ix> Iterator for EdgeReferences<'a, E, Ix> where Ix: IndexType
impl<'a, E, Ix> Iterator for EdgeReferences<'a, E, Ix>
where
    Ix: IndexType,
{
    type Item = EdgeReference<'a, E, Ix>;

    fn next(&mut self) -> Option<Self::Item> {
        /*+*/let ghost items = self.iter.remaining();
        let r = {/*-*/ self.iter.ex_find_map(|/*R:D10 (i, edge) */ __t: (usize, &'a Edge<Option<E>, Ix>) /*-*/| /*+*/-> (q: Option<EdgeReference<'a, E, Ix>>) ensures q == seref_f::<E, Ix>()(__t)/*-*/ { /*+*/let (i, edge) = __t;/*-*/
            edge.weight.as_ref().map(move |weight/*+*/: &'a E/*-*/| /*+*/-> (x: EdgeReference<'a, E, Ix>) ensures x == (EdgeReference { index: EdgeIndex(Ix::spec_new(i)), node: edge.node, weight: weight }) {/*-*/ EdgeReference {
                index: edge_index(i),
                node: edge.node,
                weight,
            } /*+*/}/*-*/)
        }) /*+*/};
        proof { if old(self).iter.obeys_prophetic_iter_laws() { let g = seref_f::<E, Ix>(); match r { Some(b) => { assert(fm_seq(items, g) == seq![b] + fm_seq(self.iter.remaining(), g)); }, None => { assert(fm_seq(items, g).len() == 0); lemma_fm_none(self.iter.remaining(), g); } } } }
        r/*-*/
    }
}
//@ end

//@ item src/graph_impl/stable_graph/mod.rs | - | impl<E, Ix> DoubleEndedIterator for EdgeReferences<'_, E, Ix> where Ix: IndexType
impl</*R:D31 */ 'a, /*-*/E, Ix> DoubleEndedIterator for EdgeReferences</*R:D31 '_ */ 'a /*-*/, E, Ix>
where
    Ix: IndexType,
{
    fn next_back(&mut self) -> Option<Self::Item> {
        /*+*/let ghost items = self.iter.remaining();
        let r = {/*-*/ self.iter.ex_rfind_map(|/*R:D10 (i, edge) */ __t: (usize, &'a Edge<Option<E>, Ix>) /*-*/| /*+*/-> (q: Option<EdgeReference<'a, E, Ix>>) ensures q == seref_f::<E, Ix>()(__t)/*-*/ { /*+*/let (i, edge) = __t;/*-*/
            edge.weight.as_ref().map(move |weight/*+*/: &'a E/*-*/| /*+*/-> (x: EdgeReference<'a, E, Ix>) ensures x == (EdgeReference { index: EdgeIndex(Ix::spec_new(i)), node: edge.node, weight: weight }) {/*-*/ EdgeReference {
                index: edge_index(i),
                node: edge.node,
                weight,
            } /*+*/}/*-*/)
        }) /*+*/};
        proof { if old(self).iter.obeys_prophetic_iter_laws() { let g = seref_f::<E, Ix>(); match r { Some(b) => { assert(fm_seq(items, g) == fm_seq(self.iter.remaining(), g).push(b)); }, None => { assert(fm_seq(items, g).len() == 0); lemma_fm_none(self.iter.remaining(), g); } } } }
        r/*-*/
    }
}
//@ end

/// the live edge slots below k, ascending
pub open spec fn live_ix<E, Ix: IndexType>(es: Seq<Edge<Option<E>, Ix>>, k: int) -> Seq<int> { idx_where(elive_p(es), k) }
pub proof fn lemma_live_ix<E, Ix: IndexType>(es: Seq<Edge<Option<E>, Ix>>, k: int)
    requires 0 <= k <= es.len()
    ensures forall|i: int| 0 <= i < live_ix(es, k).len() ==> 0 <= #[trigger] live_ix(es, k)[i] < k && elive(es, live_ix(es, k)[i]),
        forall|e: int| 0 <= e < k && elive(es, e) ==> live_ix(es, k).contains(e),
{
    lemma_idx_where(elive_p(es), k);
    assert forall|i: int| 0 <= i < live_ix(es, k).len() implies 0 <= #[trigger] live_ix(es, k)[i] < k && elive(es, live_ix(es, k)[i]) by { assert((elive_p(es))(live_ix(es, k)[i])); }
    assert forall|e: int| 0 <= e < k && elive(es, e) implies live_ix(es, k).contains(e) by { assert((elive_p(es))(e)); }
}
/// what `edge_references()` of a StableGraph yields: one reference per live edge slot, in index order
pub open spec fn live_refs<'a, E, Ix: IndexType>(es: Seq<Edge<Option<E>, Ix>>) -> Seq<EdgeReference<'a, E, Ix>> { fm_seq(enum_items(es), seref_f::<E, Ix>()) }
pub proof fn lemma_live_refs_prefix<'a, E, Ix: IndexType>(es: Seq<Edge<Option<E>, Ix>>, k: int)
    requires 0 <= k <= es.len()
    ensures ({ let a = fm_seq(enum_items(es).take(k), seref_f::<E, Ix>()); let b = live_ix(es, k);
        a.len() == b.len() && forall|i: int| 0 <= i < b.len() ==> (#[trigger] a[i]).node == es[b[i]].node && a[i].index == EdgeIndex::<Ix>(Ix::spec_new(b[i] as usize)) && Some(*a[i].weight) == es[b[i]].weight })
    decreases k
{
    if k > 0 {
        lemma_live_refs_prefix::<E, Ix>(es, k - 1);
        lemma_fm_take_step(enum_items(es), seref_f::<E, Ix>(), k);
        assert(enum_items(es)[k - 1] == ((k - 1) as usize, &es[k - 1]));
    } else {
        assert(enum_items(es).take(0) =~= Seq::<(usize, &Edge<Option<E>, Ix>)>::empty());
    }
}
pub proof fn lemma_live_refs<'a, E, Ix: IndexType>(es: Seq<Edge<Option<E>, Ix>>)
    requires es.len() <= end_ix::<Ix>()
    ensures live_refs::<E, Ix>(es).len() == live_ix(es, es.len() as int).len(),
        forall|i: int| 0 <= i < live_ix(es, es.len() as int).len() ==> (#[trigger] live_refs::<E, Ix>(es)[i]).node == es[live_ix(es, es.len() as int)[i]].node
            && live_refs::<E, Ix>(es)[i].index.i() == live_ix(es, es.len() as int)[i]
            && Some(*live_refs::<E, Ix>(es)[i].weight) == es[live_ix(es, es.len() as int)[i]].weight,
{
    let n = es.len() as int;
    assert(enum_items(es).take(n) =~= enum_items(es));
    lemma_live_refs_prefix::<E, Ix>(es, n);
    lemma_live_ix(es, n);
    assert forall|i: int| 0 <= i < live_ix(es, n).len() implies (#[trigger] live_refs::<E, Ix>(es)[i]).index.i() == live_ix(es, n)[i] by { Ix::new_law(live_ix(es, n)[i] as usize); }
}

//@ item src/graph_impl/stable_graph/mod.rs | - | impl<'a, N: 'a, E: 'a, Ty, Ix> visit::IntoEdgeReferences for &'a StableGraph<N, E, Ty, Ix> where Ty: EdgeType, Ix: IndexType
impl<'a, N: 'a, E: 'a, Ty, Ix> visit::IntoEdgeReferences for &'a StableGraph<N, E, Ty, Ix>
where
    Ty: EdgeType,
    Ix: IndexType,
{
    type EdgeRef = EdgeReference<'a, E, Ix>;
    type EdgeReferences = EdgeReferences<'a, E, Ix>;

    /*+*/open spec fn edge_refs(self) -> Seq<EdgeReference<'a, E, Ix>> { live_refs::<E, Ix>(self.es()) }/*-*/
    /// Create an iterator over all edges in the graph, in indexed order.
    ///
    /// Iterator element type is `EdgeReference<E, Ix>`.
    fn edge_references(self) -> Self::EdgeReferences {
        /*+*/let r = {/*-*/ EdgeReferences {
            iter: /*R:D23 self.g.edges.iter().enumerate() */ enumerate_slice(self.g.edges.as_slice()) /*-*/,
        } /*+*/};
        proof { assert(r.iter.remaining() =~= enum_items(self.es())); }
        r/*-*/
    }
}
//@ end

impl<N, E, Ty: EdgeType, Ix: IndexType> StableGraph<N, E, Ty, Ix> {
    /// "a live edge a -> b exists (either orientation when undirected)" over the abstract view
    pub open spec fn has_edge(&self, a: int, b: int) -> bool {
        exists|k: int| 0 <= k < self.view().edges.len() && #[trigger] slot_joins(self.view().edges[k], a, b, Ty::spec_is_directed())
    }
    pub proof fn lemma_nbound(&self)
        ensures self.nbound() as int == sbound(self.ns(), self.ns().len() as int), self.nbound() <= self.ns().len(),
            forall|a: int| nlive(self.ns(), a) ==> a < self.nbound(),
            self.nbound() > 0 ==> nlive(self.ns(), self.nbound() - 1),
    {
        assert(self.g.nodes@.len() == self.g.nodes.len());
        lemma_sbound(self.ns(), self.ns().len() as int);
    }
    /// endpoints of a live edge are live nodes, hence below node_bound
    pub proof fn lemma_live_endpoints(&self, k: int)
        requires self.wf(), elive(self.es(), k)
        ensures self.view().edges[k] is Some,
            0 <= self.view().edges[k]->Some_0.0 < self.nbound(), 0 <= self.view().edges[k]->Some_0.1 < self.nbound(),
            self.view().edges[k]->Some_0.0 == self.es()[k].node[0].i(), self.view().edges[k]->Some_0.1 == self.es()[k].node[1].i(),
    {
        self.lemma_nbound();
        let _ = self.es()[k];
    }
}
pub open spec fn slot_joins<E>(s: Option<(int, int, E)>, a: int, b: int, directed: bool) -> bool {
    s is Some && edge_joins(s->Some_0, a, b, directed)
}
pub open spec fn slot_cell<E>(s: Option<(int, int, E)>, n: int, bit: int, directed: bool) -> bool {
    s is Some && cell_of(s->Some_0, n, bit, directed)
}

//@ item src/traits_graph.rs | - | impl<N, E, Ty, Ix> GetAdjacencyMatrix for StableGraph<N, E, Ty, Ix> where Ty: EdgeType, Ix: IndexType
/// The adjacency matrix for **Graph** is a bitmap that's computed by
/// `.adjacency_matrix()`.
impl<N, E, Ty, Ix> GetAdjacencyMatrix for StableGraph<N, E, Ty, Ix>
where
    Ty: EdgeType,
    Ix: IndexType,
{
    type AdjMatrix = FixedBitSet;

    /*+*/
    open spec fn adj(&self, a: NodeIndex<Ix>, b: NodeIndex<Ix>) -> bool { self.has_edge(a.i(), b.i()) }
    open spec fn adj_node(&self, a: NodeIndex<Ix>) -> bool { a.i() < self.nbound() }
    open spec fn adj_pre(&self) -> bool { self.wf() && self.nbound() * self.nbound() <= usize::MAX }
    open spec fn is_matrix(&self, m: &FixedBitSet) -> bool {
        let n = self.nbound() as int;
        &&& self.wf()
        &&& m.blen() == n * n
        &&& forall|a: int, b: int| 0 <= a < n && 0 <= b < n ==> (m.bits().contains((n * a + b) as usize) <==> #[trigger] self.has_edge(a, b))
    }
    /*-*/

    fn adjacency_matrix(&self) -> FixedBitSet {
        let n = self.node_bound();
        let mut matrix = FixedBitSet::with_capacity(n * n);
        /*R:D11 for edge in */ let mut __it = /*-*/ self.edge_references() /*R:D11 */; let ghost all = __it.remaining(); let ghost mut done: int = 0; let ghost dir = Ty::spec_is_directed();
        let ghost live = live_ix(self.es(), self.es().len() as int);
        proof { lemma_live_refs::<E, Ix>(self.es()); lemma_live_ix(self.es(), self.es().len() as int); self.lemma_nbound(); }
        loop
            invariant
                __it.obeys_prophetic_iter_laws(), __it.decrease() is Some,
                0 <= done <= all.len(), __it.remaining() == all.skip(done),
                self.wf(), n == self.nbound(), n * n <= usize::MAX, all.len() == live.len(), dir == Ty::spec_is_directed(),
                live == live_ix(self.es(), self.es().len() as int),
                forall|k: int| 0 <= k < live.len() ==> elive(self.es(), #[trigger] live[k]),
                forall|k: int| 0 <= k < all.len() ==> (#[trigger] all[k]).node == self.es()[live[k]].node,
                matrix.blen() == n * n,
                forall|bit: usize| matrix.bits().contains(bit) <==> (exists|k: int| 0 <= k < done && #[trigger] slot_cell(self.view().edges[live[k]], n as int, bit as int, dir)),
            ensures done == all.len(),
            decreases __it.decrease()->Some_0/*-*/
        { /*+*/match __it.next() { None => { break; }, Some(edge) => {
            let ghost bits0 = matrix.bits(); let ghost e = self.view().edges[live[done]]->Some_0;
            proof { assert(edge == all[done]); self.lemma_live_endpoints(live[done]); assert(edge.node[0].i() == e.0 && edge.node[1].i() == e.1);
                lemma_cell_bound(n as int, edge.node[0].i(), edge.node[1].i()); lemma_cell_bound(n as int, edge.node[1].i(), edge.node[0].i()); }/*-*/
            let i = edge.source().index() * n + edge.target().index();
            matrix.put(i);
            /*+*/let ghost bits1 = matrix.bits(); proof { assert(i == e.0 * n + e.1); }/*-*/
            if !self.is_directed() {
                let j = edge.source().index() + n * edge.target().index();
                matrix.put(j);
                /*+*/proof { assert(j == e.0 + n * e.1); }/*-*/
            }
            /*+*/proof {
                assert(matrix.bits() == if dir { bits1 } else { bits1.insert((e.0 + n * e.1) as usize) });
                assert(bits1 == bits0.insert((e.0 * n + e.1) as usize));
                assert forall|bit: usize| matrix.bits().contains(bit) <==> (exists|k: int| 0 <= k < done + 1 && #[trigger] slot_cell(self.view().edges[live[k]], n as int, bit as int, dir)) by {
                    if matrix.bits().contains(bit) {
                        if bits0.contains(bit) {
                            let k = choose|k: int| 0 <= k < done && #[trigger] slot_cell(self.view().edges[live[k]], n as int, bit as int, dir);
                            assert(0 <= k < done + 1 && slot_cell(self.view().edges[live[k]], n as int, bit as int, dir));
                        } else {
                            assert(slot_cell(self.view().edges[live[done]], n as int, bit as int, dir));
                        }
                    }
                    if exists|k: int| 0 <= k < done + 1 && #[trigger] slot_cell(self.view().edges[live[k]], n as int, bit as int, dir) {
                        let k = choose|k: int| 0 <= k < done + 1 && #[trigger] slot_cell(self.view().edges[live[k]], n as int, bit as int, dir);
                        if k < done { assert(bits0.contains(bit)); } else { assert(k == done); }
                    }
                }
                assert(all.skip(done).skip(1) =~= all.skip(done + 1));
                done = done + 1;
            }
        } }/*-*/ }
        /*+*/proof {
            let nn = n as int;
            lemma_live_ix(self.es(), self.es().len() as int);
            assert forall|a: int, b: int| 0 <= a < nn && 0 <= b < nn implies (matrix.bits().contains((nn * a + b) as usize) <==> #[trigger] self.has_edge(a, b)) by {
                lemma_cell_bound(nn, a, b);
                let bit = (nn * a + b) as usize;
                if matrix.bits().contains(bit) {
                    let k = choose|k: int| 0 <= k < done && #[trigger] slot_cell(self.view().edges[live[k]], nn, bit as int, dir);
                    self.lemma_live_endpoints(live[k]);
                    let e = self.view().edges[live[k]]->Some_0;
                    lemma_cell_bound(nn, e.0, e.1); lemma_cell_bound(nn, e.1, e.0);
                    if e.0 * nn + e.1 == bit { lemma_cell_unique(nn, e.0, e.1, a, b); }
                    else { lemma_cell_unique(nn, e.1, e.0, a, b); }
                    assert(slot_joins(self.view().edges[live[k]], a, b, dir));
                }
                if self.has_edge(a, b) {
                    let x = choose|x: int| 0 <= x < self.view().edges.len() && #[trigger] slot_joins(self.view().edges[x], a, b, dir);
                    assert(elive(self.es(), x));
                    let k = choose|k: int| 0 <= k < live.len() && live[k] == x;
                    assert(slot_cell(self.view().edges[live[k]], nn, bit as int, dir));
                }
            }
        }/*-*/
        matrix
    }

    fn is_adjacent(&self, matrix: &FixedBitSet, a: NodeIndex<Ix>, b: NodeIndex<Ix>) -> bool {
        let n = self.node_bound();
        /*+*/proof { lemma_cell_bound(n as int, a.i(), b.i()); }/*-*/
        let index = n * a.index() + b.index();
        matrix.contains(index)
    }
}
//@ end
