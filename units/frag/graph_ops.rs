// ======================================================================================
// fragment graph_ops.rs - Graph operations of src/graph_impl/mod.rs under contract (C01)
// ======================================================================================

// lists after appending a node with two empty lists
pub proof fn lemma_lists_after_add_node<N, E, Ix: IndexType>(ns0: Seq<Node<N, Ix>>, es: Seq<Edge<E, Ix>>, x: Node<N, Ix>, k: int, ls: Seq<Seq<int>>)
    requires 0 <= k < 2, lists_ok(ns0, es, k, ls), x.next[k].0.ix() == end_ix::<Ix>(),
        forall|e: int| 0 <= e < es.len() ==> (#[trigger] es[e]).node[k].0.ix() < ns0.len(),
    ensures lists_ok(ns0.push(x), es, k, ls.push(Seq::empty()))
{
    let ns1 = ns0.push(x); let ls1 = ls.push(Seq::<int>::empty());
    assert forall|a: int| 0 <= a < ns1.len() implies slist(es, ns1[a].next[k], k, #[trigger] ls1[a]) && no_dup(ls1[a]) by {
        if a < ns0.len() { assert(ns1[a] == ns0[a]); assert(ls1[a] == ls[a]); }
    }
    assert forall|a: int, i: int| 0 <= a < ns1.len() && 0 <= i < ls1[a].len() implies es[#[trigger] ls1[a][i]].node[k].0.ix() == a by {
        if a < ns0.len() { assert(ls1[a] == ls[a]); }
    }
    assert forall|e: int| 0 <= e < es.len() implies (#[trigger] ls1[es[e].node[k].0.ix() as int]).contains(e) by {
        let a = es[e].node[k].0.ix() as int;
        assert(ls1[a] == ls[a]);
        assert(ls[a].contains(e));
    }
}

impl<N, E, Ty, Ix> Graph<N, E, Ty, Ix>
where
    Ty: EdgeType,
    Ix: IndexType,
{
//@ item src/graph_impl/mod.rs | impl<N, E, Ty, Ix> Graph<N, E, Ty, Ix> where Ty: EdgeType, Ix: IndexType | fn with_capacity
    /// Create a new `Graph` with estimated capacity.
    pub fn with_capacity(nodes: usize, edges: usize) -> (g: Self)
        /*+*/ensures g.wf(), g.view().nodes.len() == 0, g.view().edges.len() == 0/*-*/,   // [with_capacity_empty]
    {
        /*+*/let g = {/*-*/ Graph {
            nodes: Vec::with_capacity(nodes),
            edges: Vec::with_capacity(edges),
            ty: PhantomData,
        } /*+*/}; proof { assert(g.wf_with(Seq::empty(), Seq::empty())); g.lemma_wf_unique(Seq::empty(), Seq::empty()); } g/*-*/
    }
//@ end

//@ item src/graph_impl/mod.rs | impl<N, E, Ty, Ix> Graph<N, E, Ty, Ix> where Ty: EdgeType, Ix: IndexType | fn node_count
    pub fn node_count(&self) -> (r: usize)
        /*+*/ensures r == self.view().nodes.len()/*-*/   // [node_count]
    {
        self.nodes.len()
    }
//@ end

//@ item src/graph_impl/mod.rs | impl<N, E, Ty, Ix> Graph<N, E, Ty, Ix> where Ty: EdgeType, Ix: IndexType | fn edge_count
    pub fn edge_count(&self) -> (r: usize)
        /*+*/ensures r == self.view().edges.len()/*-*/   // [edge_count]
    {
        self.edges.len()
    }
//@ end

//@ item src/graph_impl/mod.rs | impl<N, E, Ty, Ix> Graph<N, E, Ty, Ix> where Ty: EdgeType, Ix: IndexType | fn is_directed
    #[inline]
    pub fn is_directed(&self) -> (r: bool)
        /*+*/ensures r == Ty::spec_is_directed()/*-*/
    {
        Ty::is_directed()
    }
//@ end

//@ item src/graph_impl/mod.rs | impl<N, E, Ty, Ix> Graph<N, E, Ty, Ix> where Ty: EdgeType, Ix: IndexType | fn add_node
    #[track_caller]
    pub fn add_node(&mut self, weight: N) -> (r: NodeIndex<Ix>)
        /*+*/requires old(self).wf(),
            end_ix::<Ix>() == usize::MAX || old(self).n() < end_ix::<Ix>(),   // [add_node_panics_iff_full] documented panic = negated precondition
        ensures final(self).wf(), r.i() == old(self).n(), final(self).view() == old(self).view().add_node(weight)/*-*/,   // [add_node_view]
    {
        self.try_add_node(weight).unwrap()
    }
//@ end

//@ item src/graph_impl/mod.rs | impl<N, E, Ty, Ix> Graph<N, E, Ty, Ix> where Ty: EdgeType, Ix: IndexType | fn try_add_node
    pub fn try_add_node(&mut self, weight: N) -> (res: Result<NodeIndex<Ix>, GraphError>)
        /*+*/requires old(self).n() <= end_ix::<Ix>()     // (part of wf(); stated alone because StableGraph calls this on its inner graph)
        ensures
            old(self).wf() ==> final(self).wf(),
            res is Err <==> (end_ix::<Ix>() != usize::MAX && old(self).n() == end_ix::<Ix>()),   // [try_add_node_err_iff_full]
            res is Err ==> final(self).nodes@ == old(self).nodes@ && final(self).edges@ == old(self).edges@,   // [try_add_node_err_unchanged]
            res is Ok ==> res->Ok_0.i() == old(self).n() && final(self).n() <= end_ix::<Ix>() && final(self).edges@ == old(self).edges@
                && final(self).nodes@.len() == old(self).n() + 1 && (forall|i: int| 0 <= i < old(self).n() ==> #[trigger] final(self).nodes@[i] == old(self).nodes@[i])
                && final(self).nodes@[old(self).n()].weight == weight && final(self).nodes@[old(self).n()].next[0].i() == end_ix::<Ix>() && final(self).nodes@[old(self).n()].next[1].i() == end_ix::<Ix>(),   // [try_add_node_raw]
            old(self).wf() && res is Ok ==> final(self).view() == old(self).view().add_node(weight)/*-*/,   // [try_add_node_view]
    {
        /*+*/proof { assert(!0usize == 0xffff_ffff_ffff_ffffusize) by (bit_vector); }/*-*/
        let node = Node {
            weight,
            next: [EdgeIndex::end(), EdgeIndex::end()],
        };
        let node_idx = NodeIndex::new(self.nodes.len());
        // check for max capacity, except if we use usize
        if <Ix as IndexType>::max().index() == !0 || NodeIndex::end() != node_idx {
            /*+*/let ghost nd = node;/*-*/
            self.nodes.push(node);
            /*+*/proof {
                let out = old(self).outs(); let inn = old(self).inns();
                assert(self.nodes@ == old(self).nodes@.push(nd));
                assert(self.nodes@.len() == self.nodes.len());   // Vec length is a usize
                assert(self.n() <= end_ix::<Ix>());
              if old(self).wf() {
                assert(old(self).wf_with(out, inn));
                lemma_lists_after_add_node(old(self).nodes@, self.edges@, nd, 0, out);
                lemma_lists_after_add_node(old(self).nodes@, self.edges@, nd, 1, inn);
                assert(self.wf_with(out.push(Seq::empty()), inn.push(Seq::empty())));
                self.lemma_wf_unique(out.push(Seq::empty()), inn.push(Seq::empty()));
                assert(self.node_ws() =~= old(self).node_ws().push(weight));
                assert(self.edge_ps() =~= old(self).edge_ps());
              }
            }/*-*/
            Ok(node_idx)
        } else {
            Err(GraphError::NodeIxLimit)
        }
    }
//@ end

//@ item src/graph_impl/mod.rs | impl<N, E, Ty, Ix> Graph<N, E, Ty, Ix> where Ty: EdgeType, Ix: IndexType | fn try_add_edge
    pub fn try_add_edge(
        &mut self,
        a: NodeIndex<Ix>,
        b: NodeIndex<Ix>,
        weight: E,
    ) -> (res: Result<EdgeIndex<Ix>, GraphError>)
        /*+*/requires old(self).wf()
        ensures
            final(self).wf(),
            res is Err ==> final(self).nodes@ == old(self).nodes@ && final(self).edges@ == old(self).edges@,   // [try_add_edge_err_unchanged]
            res is Err <==> (a.i() >= old(self).n() || b.i() >= old(self).n()
                             || (end_ix::<Ix>() != usize::MAX && old(self).m() == end_ix::<Ix>())),   // [try_add_edge_err_iff]
            (end_ix::<Ix>() != usize::MAX && old(self).m() == end_ix::<Ix>()) ==> res == Err::<EdgeIndex<Ix>, GraphError>(GraphError::EdgeIxLimit),   // [try_add_edge_limit_first]
            res is Ok ==> res->Ok_0.i() == old(self).m()
                && final(self).view() == old(self).view().add_edge(a.i(), b.i(), weight)/*-*/,   // [try_add_edge_view]
    {
        /*+*/proof { assert(!0usize == 0xffff_ffff_ffff_ffffusize) by (bit_vector); }
        let ghost out = self.outs(); let ghost inn = self.inns();/*-*/
        let edge_idx = EdgeIndex::new(self.edges.len());
        if !(<Ix as IndexType>::max().index() == !0 || EdgeIndex::end() != edge_idx) {
            return Err(GraphError::EdgeIxLimit);
        }

        let mut edge = Edge {
            weight,
            node: [a, b],
            next: [EdgeIndex::end(); 2],
        };
        match index_twice(&mut self.nodes, a.index(), b.index()) {
            Pair::None => return Err(GraphError::NodeOutBounds),
            Pair::One(an) => {
                edge.next = an.next;
                an.next[0] = edge_idx;
                an.next[1] = edge_idx;
            }
            Pair::Both(an, bn) => {
                // a and b are different indices
                edge.next = [an.next[0], bn.next[1]];
                an.next[0] = edge_idx;
                bn.next[1] = edge_idx;
            }
        }
        self.edges.push(edge);
        /*+*/proof {
            let ns0 = old(self).nodes@; let es0 = old(self).edges@;
            let ns1 = self.nodes@; let es1 = self.edges@;
            let m = es0.len() as int; let ai = a.0.ix() as int; let bi = b.0.ix() as int;
            let out1 = out.update(ai, seq![m] + out[ai]);
            let inn1 = inn.update(bi, seq![m] + inn[bi]);
            assert(self.edges@.len() == self.edges.len());   // Vec length is a usize
            assert(m + 1 <= usize::MAX);
            assert(m < end_ix::<Ix>());
            assert(es1 == es0.push(es1[m]));
            lemma_lists_after_add(ns0, es0, ns1, es1, 0, out, ai, m);
            lemma_lists_after_add(ns0, es0, ns1, es1, 1, inn, bi, m);
            assert(ns1.len() == ns0.len());
            assert(self.nodes@.len() <= end_ix::<Ix>() && self.edges@.len() <= end_ix::<Ix>());
            assert forall|e: int| 0 <= e < es1.len() implies (#[trigger] es1[e]).node[0].0.ix() < ns1.len() && es1[e].node[1].0.ix() < ns1.len() by {
                if e < m { assert(es1[e] == es0[e]); }
            }
            assert(lists_ok(ns1, es1, 0, out1));
            assert(lists_ok(ns1, es1, 1, inn1));
            assert(self.wf_with(out1, inn1));
            self.lemma_wf_unique(out1, inn1);
            assert(self.node_ws() =~= old(self).node_ws());
            assert(self.edge_ps() =~= old(self).edge_ps().push((ai, bi, weight)));
        }/*-*/
        Ok(edge_idx)
    }
//@ end

//@ item src/graph_impl/mod.rs | impl<N, E, Ty, Ix> Graph<N, E, Ty, Ix> where Ty: EdgeType, Ix: IndexType | fn find_edge_directed_from_node
    fn find_edge_directed_from_node(
        &self,
        node: &Node<N, Ix>,
        b: NodeIndex<Ix>,
    ) -> (r: Option<EdgeIndex<Ix>>)
        /*+*/requires
            self.m() <= end_ix::<Ix>(),
            exists|s: Seq<int>| slist(self.edges@, node.next[0], 0, s),
        ensures
            ({ let s = list_of(self.edges@, node.next[0], 0);
               let p = endpoint_is(self.edges@, 1, b.i());
               match r {
                    Some(e) => first_with(s, p) == Some(e.i()),   // [find_directed_first_match]
                    None => first_with(s, p) is None,             // [find_directed_none_iff_absent]
               } })/*-*/
    {
        /*+*/let ghost s0: Seq<int> = list_of(self.edges@, node.next[0], 0);
        let ghost mut rest: Seq<int> = s0;
        let ghost mut done: int = 0;
        proof { lemma_slist_is_chain(self.edges@, node.next[0], 0, s0); assert(s0.subrange(0, s0.len() as int) =~= s0); }/*-*/
        let mut edix = node.next[0];
        while let Some(edge) = self.edges.get(edix.index())
            /*+*/invariant
                0 <= done <= s0.len(), s0 == list_of(self.edges@, node.next[0], 0),
                chain(self.edges@, node.next[0], 0, s0),
                rest == s0.subrange(done, s0.len() as int),
                chain(self.edges@, edix, 0, rest),
                forall|j: int| 0 <= j < done ==> self.edges@[s0[j]].node[1].0.ix() != b.0.ix(),
            ensures edix.0.ix() >= self.edges@.len(),
            decreases rest.len()/*-*/
        {
            /*+*/proof {
                assert(rest.len() > 0);
                assert(rest[0] == edix.0.ix());
            }/*-*/
            if edge.node[1] == b {
                /*+*/proof {
                    assert(s0[done] == rest[0]);
                    assert(0 <= s0[done] < self.edges@.len());
                    assert(0 <= done < s0.len() && s0[done] == edix.0.ix() && self.edges@[s0[done]].node[1].0.ix() == b.0.ix());
                    lemma_first_with_some(s0, endpoint_is(self.edges@, 1, b.i()), done);
                }/*-*/
                return Some(edix);
            }
            edix = edge.next[0];
            /*+*/proof {
                assert(s0[done] == rest[0]);
                rest = rest.drop_first();
                done = done + 1;
                assert(rest =~= s0.subrange(done, s0.len() as int));
            }/*-*/
        }
        /*+*/proof { assert(edix.0.ix() >= self.edges@.len()); assert(rest.len() == 0); assert(done == s0.len());
            lemma_first_with_none(s0, endpoint_is(self.edges@, 1, b.i())); }/*-*/
        None
    }
//@ end
}

//@ item src/graph_impl/mod.rs | - | struct EdgesWalkerMut
struct EdgesWalkerMut<'a, E: 'a, Ix: IndexType = DefaultIx> {
    edges: &'a mut [Edge<E, Ix>],
    next: EdgeIndex<Ix>,
    dir: Direction,
}
//@ end

//@ item src/graph_impl/mod.rs | - | fn edges_walker_mut
fn edges_walker_mut<E, Ix>(
    edges: &mut [Edge<E, Ix>],
    next: EdgeIndex<Ix>,
    dir: Direction,
) -> (r: EdgesWalkerMut<E, Ix>)
where
    Ix: IndexType/*+*/,
    ensures r.edges@ == old(edges)@, final(r.edges)@ == final(edges)@, r.next == next, r.dir == dir/*-*/,
{
    EdgesWalkerMut { edges, next, dir }
}
//@ end

impl<E, Ix> EdgesWalkerMut<'_, E, Ix>
where
    Ix: IndexType,
{
//@ item src/graph_impl/mod.rs | impl<E, Ix> EdgesWalkerMut<'_, E, Ix> where Ix: IndexType | fn next_edge
    fn next_edge(&mut self) -> (r: Option<&mut Edge<E, Ix>>)
        /*+*/ensures
            final(self).dir == old(self).dir,
            final(final(self).edges)@ == final(old(self).edges)@,
            match r {
                None => old(self).next.0.ix() >= old(self).edges@.len() && final(self).next == old(self).next && final(self).edges@ == old(self).edges@,
                Some(e) => {
                    let i = old(self).next.0.ix() as int;
                    &&& i < old(self).edges@.len()
                    &&& *e == old(self).edges@[i]
                    &&& final(self).next == old(self).edges@[i].next[old(self).dir.k()]
                    &&& final(self).edges@ == old(self).edges@.update(i, *final(e))
                }
            }/*-*/
    {
        self.next().map(|t/*+*/: (EdgeIndex<Ix>, &mut Edge<E, Ix>)/*-*/| /*+*/-> (r: &mut Edge<E, Ix>) ensures *r == *old(t.1), *final(r) == *final(t.1) {/*-*/ t.1 /*+*/}/*-*/)
    }
//@ end

//@ item src/graph_impl/mod.rs | impl<E, Ix> EdgesWalkerMut<'_, E, Ix> where Ix: IndexType | fn next
    fn next(&mut self) -> (r: Option<(EdgeIndex<Ix>, &mut Edge<E, Ix>)>)
        /*+*/ensures
            final(self).dir == old(self).dir,
            final(final(self).edges)@ == final(old(self).edges)@,
            match r {
                None => old(self).next.0.ix() >= old(self).edges@.len() && final(self).next == old(self).next && final(self).edges@ == old(self).edges@,
                Some((ix, e)) => {
                    let i = old(self).next.0.ix() as int;
                    &&& ix == old(self).next
                    &&& i < old(self).edges@.len()
                    &&& *e == old(self).edges@[i]
                    &&& final(self).next == old(self).edges@[i].next[old(self).dir.k()]
                    &&& final(self).edges@ == old(self).edges@.update(i, *final(e))
                }
            }/*-*/
    {
        let this_index = self.next;
        let k = self.dir.index();
        match self.edges.get_mut(self.next.index()) {
            None => None,
            Some(edge) => {
                self.next = edge.next[k];
                Some((this_index, edge))
            }
        }
    }
//@ end
}

/// the k-lists currently hanging off the node heads (on raw sequences; Graph::outs()/inns() are the k = 0 / 1 instances)
pub open spec fn cur_lists<N, E, Ix: IndexType>(ns: Seq<Node<N, Ix>>, es: Seq<Edge<E, Ix>>, k: int) -> Seq<Seq<int>> {
    Seq::new(ns.len(), |a: int| list_of(es, ns[a].next[k], k))
}
pub proof fn lemma_cur_lists<N, E, Ix: IndexType>(ns: Seq<Node<N, Ix>>, es: Seq<Edge<E, Ix>>, k: int, ls: Seq<Seq<int>>, e: int)
    requires lists_ok_except(ns, es, k, ls, e), es.len() <= end_ix::<Ix>()
    ensures cur_lists(ns, es, k) == ls
{
    assert forall|a: int| 0 <= a < ns.len() implies ls[a] == #[trigger] cur_lists(ns, es, k)[a] by {
        lemma_list_of(es, ns[a].next[k], k, ls[a]);
    }
    assert(cur_lists(ns, es, k) =~= ls);
}
/// lists after the last edge l has been moved into slot e (no-op when e was the last edge)
pub open spec fn renamed_lists<E, Ix: IndexType>(es: Seq<Edge<E, Ix>>, k: int, ls: Seq<Seq<int>>, e: int) -> Seq<Seq<int>> {
    let l = es.len() - 1;
    let al = es[l].node[k].0.ix() as int;
    if e == l { ls } else { ls.update(al, ls[al].update(pos_of(ls[al], l), e)) }
}

impl<N, E, Ty, Ix> Graph<N, E, Ty, Ix>
where
    Ty: EdgeType,
    Ix: IndexType,
{
//@ item src/graph_impl/mod.rs | impl<N, E, Ty, Ix> Graph<N, E, Ty, Ix> where Ty: EdgeType, Ix: IndexType | fn change_edge_links
    /// For edge `e` with endpoints `edge_node`, replace links to it,
    /// with links to `edge_next`.
    /*+*/#[verifier::spinoff_prover]/*-*/
    fn change_edge_links(
        &mut self,
        edge_node: [NodeIndex<Ix>; 2],
        e: EdgeIndex<Ix>,
        edge_next: [EdgeIndex<Ix>; 2],
    )
        /*+*/requires
            edge_node[0].0.ix() < old(self).nodes.len(), edge_node[1].0.ix() < old(self).nodes.len(),
            exists|s0: Seq<int>| chain(old(self).edges@, old(self).nodes@[edge_node[0].0.ix() as int].next[0], 0, s0) && no_dup(s0),
            exists|s1: Seq<int>| chain(old(self).edges@, old(self).nodes@[edge_node[1].0.ix() as int].next[1], 1, s1) && no_dup(s1),
        ensures
            payload_same(old(self).nodes@, old(self).edges@, final(self).nodes@, final(self).edges@),
            dir_done(old(self).nodes@, old(self).edges@, final(self).nodes@, final(self).edges@, edge_node[0].0.ix() as int, e, edge_next[0], 0,
                chain_of(old(self).edges@, old(self).nodes@[edge_node[0].0.ix() as int].next[0], 0)),
            dir_done(old(self).nodes@, old(self).edges@, final(self).nodes@, final(self).edges@, edge_node[1].0.ix() as int, e, edge_next[1], 1,
                chain_of(old(self).edges@, old(self).nodes@[edge_node[1].0.ix() as int].next[1], 1))/*-*/,
    {
        /*+*/let ghost n0 = self.nodes@;
        let ghost e0 = self.edges@;
        let ghost s0 = chain_of(e0, n0[edge_node[0].0.ix() as int].next[0], 0);
        let ghost s1 = chain_of(e0, n0[edge_node[1].0.ix() as int].next[1], 1);
        proof {
            let t0 = choose|s: Seq<int>| chain(e0, n0[edge_node[0].0.ix() as int].next[0], 0, s) && no_dup(s);
            lemma_chain_of(e0, n0[edge_node[0].0.ix() as int].next[0], 0, t0);
            let t1 = choose|s: Seq<int>| chain(e0, n0[edge_node[1].0.ix() as int].next[1], 1, s) && no_dup(s);
            lemma_chain_of(e0, n0[edge_node[1].0.ix() as int].next[1], 1, t1);
        }/*-*/
        for /*R:D5 &d */ __d /*-*/ in /*+*/it:/*-*/ &DIRECTIONS
            /*+*/invariant
                it.seq().len() == 2, it.seq()[0].k() == 0, it.seq()[1].k() == 1,
                payload_same(n0, e0, self.nodes@, self.edges@),
                n0 == old(self).nodes@, e0 == old(self).edges@,
                edge_node[0].0.ix() < n0.len(), edge_node[1].0.ix() < n0.len(),
                chain(e0, n0[edge_node[0].0.ix() as int].next[0], 0, s0), no_dup(s0),
                chain(e0, n0[edge_node[1].0.ix() as int].next[1], 1, s1), no_dup(s1),
                it.index@ >= 1 ==> dir_done(n0, e0, self.nodes@, self.edges@, edge_node[0].0.ix() as int, e, edge_next[0], 0, s0),
                it.index@ >= 2 ==> dir_done(n0, e0, self.nodes@, self.edges@, edge_node[1].0.ix() as int, e, edge_next[1], 1, s1),
                it.index@ <= 1 ==> dir_untouched(n0, e0, self.nodes@, self.edges@, 1),
                it.index@ <= 0 ==> dir_untouched(n0, e0, self.nodes@, self.edges@, 0)/*-*/,
        { /*+*/let d = *__d;/*-*/
            let k = d.index();
            /*+*/let ghost a: int = edge_node[k as int].0.ix() as int;
            let ghost s: Seq<int> = if k == 0 { s0 } else { s1 };
            let ghost repl = edge_next[k as int];
            let ghost n1 = self.nodes@;   // state at the start of this direction
            let ghost e1 = self.edges@;
            proof {
                assert(d == it.seq()[it.index@]);
                assert(k == it.index@);
                // the chain for direction k is still a chain in the current state: next[k] fields are untouched so far
                lemma_chain_range(e0, n0[a].next[k as int], k as int, s);
                assert forall|i: int| 0 <= i < s.len() implies e1[#[trigger] s[i]].next[k as int] == e0[s[i]].next[k as int] by { }
                lemma_chain_frame(e0, e1, n0[a].next[k as int], k as int, s);
                assert(n1[a].next[k as int] == n0[a].next[k as int]);
                lemma_first_link_frame(e0, e1, k as int, s, e);
            }/*-*/
            let node = match self.nodes.get_mut(edge_node[k].index()) {
                Some(r) => r,
                None => {
                    assert(false);
                    return;
                }
            };
            let fst = node.next[k];
            if fst == e {
                node.next[k] = edge_next[k];
                /*+*/proof {
                    assert(self.edges@ == e1);
                    assert(step_ok(n1, e1, self.nodes@, self.edges@, a, e, repl, k as int, s));
                }/*-*/
            } else {
                /*+*/let ghost mut done: int = 0;/*-*/
                let mut edges = edges_walker_mut(&mut self.edges, fst, d)/*+*/;
                let ghost fin = final(edges.edges)@;
                proof { assert(s.subrange(0, s.len() as int) =~= s); }
                let ghost mut hit: bool = false/*-*/;
                while let Some(curedge) = edges.next_edge()
                    /*+*/invariant_except_break
                        edges.edges@ == e1,
                        chain(e1, edges.next, k as int, s.subrange(done, s.len() as int)),
                        !hit,
                    invariant
                        final(edges.edges)@ == fin,
                        edges.dir == d, k == d.k(), 0 <= done <= s.len(), k < 2, repl == edge_next[k as int],
                        no_dup(s),
                        forall|i: int| 0 <= i < done ==> e1[s[i]].next[k as int].0.ix() != e.0.ix(),
                        first_link(e1, k as int, s, e) == done + first_link(e1, k as int, s.subrange(done, s.len() as int), e),
                    ensures
                        !hit ==> edges.edges@ == e1 && first_link(e1, k as int, s, e) == s.len(),
                        hit ==> {
                            let p = first_link(e1, k as int, s, e);
                            &&& p == done && p < s.len()
                            &&& edges.edges@.len() == e1.len()
                            &&& forall|j: int| 0 <= j < e1.len() && j != s[p] ==> edges.edges@[j] == e1[j]
                            &&& edges.edges@[s[p]].next[k as int] == repl
                            &&& same_but_next(edges.edges@[s[p]], e1[s[p]], k as int)
                        },
                    decreases s.len() - done/*-*/
                {
                    /*+*/proof {
                        let rest = s.subrange(done, s.len() as int);
                        assert(rest.len() > 0);
                        assert(rest[0] == s[done]);
                        assert(rest.drop_first() =~= s.subrange(done + 1, s.len() as int));
                    }
                    let ghost cur0 = *curedge;/*-*/
                    if curedge.next[k] == e {
                        curedge.next[k] = edge_next[k];
                        /*+*/proof {
                            hit = true;
                            let rest = s.subrange(done, s.len() as int);
                            assert(cur0 == e1[s[done]]);
                            assert(first_link(e1, k as int, rest, e) == 0);
                            assert(same_but_next(*curedge, cur0, k as int));
                            assert(repl == edge_next[k as int]);
                        }/*-*/
                        break; // the edge can only be present once in the list.
                    }
                    /*+*/proof { done = done + 1; }/*-*/
                }
                /*+*/proof {
                    // walker is still alive here; its contents are the final edges by the prophecy invariant
                }/*-*/
            }
            /*+*/proof {
                if n1[a].next[k as int].0.ix() != e.0.ix() {
                    assert(self.nodes@ =~= n1);
                    assert(step_ok(n1, e1, self.nodes@, self.edges@, a, e, repl, k as int, s));
                }
            }
            proof {
                // establish dir_done(k) w.r.t. (n0,e0) from the facts about (n1,e1), and keep the other direction's status
                let n2 = self.nodes@; let e2 = self.edges@;
                assert(step_ok(n1, e1, n2, e2, a, e, repl, k as int, s));
                assert(payload_same(n0, e0, n2, e2));
                // direction k, relative to the original state
                assert(dir_done(n0, e0, n2, e2, a, e, repl, k as int, s)) by {
                    assert forall|j: int| 0 <= j < n0.len() implies (#[trigger] n2[j]).next[k as int] == node_next_after(n0, j, a, e, repl, k as int) by {
                        assert(n1[j].next[k as int] == n0[j].next[k as int]);
                    }
                    assert forall|j: int| 0 <= j < e0.len() implies (#[trigger] e2[j]).next[k as int] == edge_next_after(n0, e0, j, a, e, repl, k as int, s) by {
                        assert(e1[j].next[k as int] == e0[j].next[k as int]);
                    }
                }
                // the other direction keeps its status
                if k == 0 {
                    assert(dir_untouched(n0, e0, n2, e2, 1)) by {
                        assert forall|j: int| 0 <= j < n0.len() implies (#[trigger] n2[j]).next[1] == n0[j].next[1] by { assert(n1[j].next[1] == n0[j].next[1]); }
                        assert forall|j: int| 0 <= j < e0.len() implies (#[trigger] e2[j]).next[1] == e0[j].next[1] by { assert(e1[j].next[1] == e0[j].next[1]); }
                    }
                } else {
                    let a0 = edge_node[0].0.ix() as int;
                    assert(dir_done(n0, e0, n2, e2, a0, e, edge_next[0], 0, s0)) by {
                        assert forall|j: int| 0 <= j < n0.len() implies (#[trigger] n2[j]).next[0] == node_next_after(n0, j, a0, e, edge_next[0], 0) by { assert(n2[j].next[0] == n1[j].next[0]); }
                        assert forall|j: int| 0 <= j < e0.len() implies (#[trigger] e2[j]).next[0] == edge_next_after(n0, e0, j, a0, e, edge_next[0], 0, s0) by { assert(e2[j].next[0] == e1[j].next[0]); }
                    }
                }
            }/*-*/
        }
    }
//@ end

//@ item src/graph_impl/mod.rs | impl<N, E, Ty, Ix> Graph<N, E, Ty, Ix> where Ty: EdgeType, Ix: IndexType | fn remove_edge_adjust_indices
    fn remove_edge_adjust_indices(&mut self, e: EdgeIndex<Ix>) -> (r: Option<E>)
        /*+*/requires
            e.0.ix() < old(self).edges@.len(), old(self).edges@.len() <= end_ix::<Ix>(), old(self).nodes@.len() <= end_ix::<Ix>(),
            endpoints_ok(old(self).nodes@, old(self).edges@),
            lists_ok_except(old(self).nodes@, old(self).edges@, 0, cur_lists(old(self).nodes@, old(self).edges@, 0), e.0.ix() as int),
            lists_ok_except(old(self).nodes@, old(self).edges@, 1, cur_lists(old(self).nodes@, old(self).edges@, 1), e.0.ix() as int),
        ensures
            r == Some(old(self).edges@[e.0.ix() as int].weight),
            final(self).wf(),
            final(self).outs() == renamed_lists(old(self).edges@, 0, cur_lists(old(self).nodes@, old(self).edges@, 0), e.0.ix() as int),
            final(self).inns() == renamed_lists(old(self).edges@, 1, cur_lists(old(self).nodes@, old(self).edges@, 1), e.0.ix() as int),
            final(self).nodes@.len() == old(self).nodes@.len(),
            final(self).edges@.len() == old(self).edges@.len() - 1,
            forall|j: int| 0 <= j < final(self).nodes@.len() ==> (#[trigger] final(self).nodes@[j]).weight == old(self).nodes@[j].weight,
            // swap_remove on the payload
            forall|j: int| 0 <= j < final(self).edges@.len() ==> {
                let src = if j == e.0.ix() { old(self).edges@.len() - 1 } else { j };
                (#[trigger] final(self).edges@[j]).weight == old(self).edges@[src].weight && final(self).edges@[j].node == old(self).edges@[src].node
            }/*-*/,
    {
        /*+*/let ghost ns1 = self.nodes@;
        let ghost es1 = self.edges@;
        let ghost ei = e.0.ix() as int;
        let ghost l = es1.len() - 1;
        let ghost l0 = cur_lists(ns1, es1, 0);
        let ghost l1 = cur_lists(ns1, es1, 1);/*-*/
        // swap_remove the edge -- only the removed edge
        // and the edge swapped into place are affected and need updating
        // indices.
        let edge = self.edges.swap_remove(e.index())/*+*/;
        let ghost es2 = self.edges@/*-*/;
        let swap = match self.edges.get(e.index()) {
            // no elment needed to be swapped.
            None => /*+*/{
                proof {
                    assert(ei == l);
                    assert(es2 =~= es1.drop_last());
                    lemma_truncate_dir(ns1, es1, es2, 0, l0);
                    lemma_truncate_dir(ns1, es1, es2, 1, l1);
                    assert(self.wf_with(l0, l1));
                    self.lemma_wf_unique(l0, l1);
                }/*-*/
                return Some(edge.weight)
            /*+*/}/*-*/,
            Some(ed) => ed.node,
        };
        let swapped_e = EdgeIndex::new(self.edges.len());
        /*+*/proof {
            assert(ei < l);
            assert(es2.len() == l);
            assert(es2[ei] == es1[l]);
            assert forall|j: int| 0 <= j < es2.len() && j != ei implies es2[j] == es1[j] by { }
            let sw: EdgeIndex<Ix> = swapped_e;
            assert(sw.0.ix() == l);
        }
        let ghost al0 = es1[l].node[0].0.ix() as int;
        let ghost al1 = es1[l].node[1].0.ix() as int;
        let ghost q0 = pos_of(l0[al0], l);
        let ghost q1 = pos_of(l1[al1], l);
        proof {
            assert(l0[al0].contains(l));
            assert(l1[al1].contains(l));
            lemma_rename_pre(ns1, es1, es2, 0, l0, ei, q0);
            lemma_rename_pre(ns1, es1, es2, 1, l1, ei, q1);
        }

        // Update the edge lists by replacing links to the old index by references to the new
        // edge index.
        proof {
            lemma_chain_of(es2, ns1[al0].next[0], 0, l0[al0].subrange(0, q0));
            lemma_chain_of(es2, ns1[al1].next[1], 1, l1[al1].subrange(0, q1));
            assert(swap[0].0.ix() == al0 && swap[1].0.ix() == al1);
        }/*-*/
        self.change_edge_links(swap, swapped_e, [e, e]);
        /*+*/proof {
            let ns3 = self.nodes@; let es3 = self.edges@;
            lemma_rename_dir(ns1, es1, es2, ns3, es3, 0, l0, e, swapped_e, q0);
            lemma_rename_dir(ns1, es1, es2, ns3, es3, 1, l1, e, swapped_e, q1);
            let l0b = l0.update(al0, l0[al0].update(q0, ei));
            let l1b = l1.update(al1, l1[al1].update(q1, ei));
            assert(endpoints_ok(ns3, es3));
            assert(self.wf_with(l0b, l1b));
            self.lemma_wf_unique(l0b, l1b);
        }/*-*/
        Some(edge.weight)
    }
//@ end

//@ item src/graph_impl/mod.rs | impl<N, E, Ty, Ix> Graph<N, E, Ty, Ix> where Ty: EdgeType, Ix: IndexType | fn remove_edge
    /*+*/#[verifier::spinoff_prover]/*-*/
    pub fn remove_edge(&mut self, e: EdgeIndex<Ix>) -> (r: Option<E>)
        /*+*/requires old(self).wf()
        ensures
            final(self).wf(),
            e.0.ix() >= old(self).edges@.len() ==> r is None && final(self).nodes@ == old(self).nodes@ && final(self).edges@ == old(self).edges@,   // [remove_edge_absent_unchanged]
            e.0.ix() < old(self).edges@.len() ==> {
                &&& r == Some(old(self).edges@[e.0.ix() as int].weight)   // [remove_edge_returns_weight]
                &&& final(self).view() == old(self).view().remove_edge(e.i())   // [remove_edge_view]
                &&& final(self).wf()
                &&& final(self).nodes@.len() == old(self).nodes@.len()
                &&& final(self).edges@.len() == old(self).edges@.len() - 1
                &&& forall|j: int| 0 <= j < final(self).nodes@.len() ==> (#[trigger] final(self).nodes@[j]).weight == old(self).nodes@[j].weight
                &&& forall|j: int| 0 <= j < final(self).edges@.len() ==> {
                        let src = if j == e.0.ix() { old(self).edges@.len() - 1 } else { j };
                        (#[trigger] final(self).edges@[j]).weight == old(self).edges@[src].weight && final(self).edges@[j].node == old(self).edges@[src].node
                    }
            }/*-*/,
    {
        // every edge is part of two lists,
        // outgoing and incoming edges.
        // Remove it from both
        let (edge_node, edge_next) = match self.edges.get(e.index()) {
            None => return None,
            Some(x) => (x.node, x.next),
        };
        /*+*/let ghost ns0 = self.nodes@;
        let ghost es0 = self.edges@;
        let ghost out = self.outs(); let ghost inn = self.inns();
        let ghost ei = e.0.ix() as int;
        let ghost a0 = es0[ei].node[0].0.ix() as int;
        let ghost a1 = es0[ei].node[1].0.ix() as int;
        let ghost q0 = pos_of(out[a0], ei);
        let ghost q1 = pos_of(inn[a1], ei);
        proof {
            assert(out[a0].contains(ei));
            assert(inn[a1].contains(ei));
            let t = end_ix::<Ix>() as int;
            lemma_slist_is_tchain(es0, ns0[a0].next[0], 0, out[a0]);
            lemma_tchain_is_chain(es0, ns0[a0].next[0], 0, out[a0], t);
            lemma_slist_is_tchain(es0, ns0[a1].next[1], 1, inn[a1]);
            lemma_tchain_is_chain(es0, ns0[a1].next[1], 1, inn[a1], t);
        }
        // Remove the edge from its in and out lists by replacing it with
        // a link to the next in the list.
        proof {
            lemma_chain_of(es0, ns0[a0].next[0], 0, out[a0]);
            lemma_chain_of(es0, ns0[a1].next[1], 1, inn[a1]);
        }/*-*/
        self.change_edge_links(edge_node, e, edge_next);
        /*+*/proof {
            let ns1 = self.nodes@; let es1 = self.edges@;
            lemma_unlink_dir(ns0, es0, ns1, es1, 0, out, e, q0);
            lemma_unlink_dir(ns0, es0, ns1, es1, 1, inn, e, q1);
            assert(endpoints_ok(ns1, es1));
            lemma_cur_lists(ns1, es1, 0, out.update(a0, out[a0].remove(q0)), ei);
            lemma_cur_lists(ns1, es1, 1, inn.update(a1, inn[a1].remove(q1)), ei);
        }
        let ghost mid = *self;
        let r = {/*-*/ self.remove_edge_adjust_indices(e) /*+*/};
        proof {
            let o1 = out.update(a0, out[a0].remove(q0)); let i1 = inn.update(a1, inn[a1].remove(q1));
            assert(self.outs() == renamed_lists(mid.edges@, 0, o1, ei));
            assert(self.inns() == renamed_lists(mid.edges@, 1, i1, ei));
            let v0 = old(self).view(); let v1 = self.view(); let l = es0.len() - 1;
            assert(v0.edges[ei].0 == a0 && v0.edges[ei].1 == a1);
            assert(mid.edges@[l].node == es0[l].node);
            assert(v1.nodes =~= v0.nodes);
            assert(v1.edges =~= v0.remove_edge(ei).edges);
            assert(v1.out == v0.remove_edge(ei).out);
            assert(v1.inn == v0.remove_edge(ei).inn);
        }
        r/*-*/
    }
//@ end
}
