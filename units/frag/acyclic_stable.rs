// ======================================================================================
// fragment acyclic_stable.rs - src/acyclic.rs: the removal pass-throughs of Acyclic<StableDiGraph>
// (property C14, the bookkeeping half).  The items sit in `macro_rules! impl_graph_traits`; they are
// extracted from the macro body with `$graph_type` := StableDiGraph (rules D7 / N7).
// ======================================================================================
//@ item src/graph_impl/stable_graph/mod.rs | - | type StableDiGraph
/// A `StableGraph` with directed edges.
///
/// For example, an edge from *1* to *2* is distinct from an edge from *2* to
/// *1*.
pub type StableDiGraph<N, E, Ix = DefaultIx> = StableGraph<N, E, Directed, Ix>;
//@ end

impl<N, E, Ix: IndexType> Acyclic<StableDiGraph<N, E, Ix>> {
    /// position of the node with index a
    pub open spec fn pos(&self, a: int) -> usize { self.order_map.n2p()[a].0 }
    /// C14's state invariant (bookkeeping half): the order map is a bijection between its positions and exactly the live
    /// nodes, and every edge goes from an earlier to a later position (hence the graph has no directed cycle).
    pub open spec fn ainv(&self) -> bool {
        &&& self.graph.wf()
        &&& self.order_map.inv(&&self.graph)
        &&& forall|a: NodeIndex<Ix>| nlive(self.graph.ns(), a.i()) ==> #[trigger] self.order_map.present(a)
        &&& forall|e: int| elive(self.graph.es(), e) ==> self.pos((#[trigger] self.graph.es()[e]).node[0].i()) < self.pos(self.graph.es()[e].node[1].i())
    }
}

impl<N, E, Ix: IndexType> Acyclic<StableDiGraph<N, E, Ix>> {
    /// a live node has a slot in the position vector
    pub proof fn lemma_live_in_range(&self, a: NodeIndex<Ix>)
        requires self.ainv(), nlive(self.graph.ns(), a.i())
        ensures a.i() < self.order_map.n2p().len()
    {
        assert(self.order_map.present(a));
        let p = choose|p: TopologicalPosition| self.order_map.p2n().contains_key(p) && self.order_map.p2n()[p] == a;
        assert((&self.graph).ix_of(self.order_map.p2n()[p]) < self.order_map.n2p().len());
    }
    /// the endpoints of a live edge are live nodes
    pub proof fn lemma_edge_ends_live(&self, e: int)
        requires self.graph.wf(), elive(self.graph.es(), e)
        ensures nlive(self.graph.ns(), self.graph.es()[e].node[0].i()), nlive(self.graph.ns(), self.graph.es()[e].node[1].i())
    {
        let _ = self.graph.es()[e];
    }
}

impl<N, E, Ix: IndexType> Acyclic<StableDiGraph<N, E, Ix>> {
//@ item src/acyclic.rs | impl<N, E, Ix: IndexType> Acyclic<StableDiGraph<N, E, Ix>> | fn remove_edge | subst=$graph_type:StableDiGraph
            /// Remove an edge and return its edge weight, or None if it didn't exist.
            ///
            /// Pass through to underlying graph.
            pub fn remove_edge(
                &mut self,
                e: <StableDiGraph<N, E, Ix> as GraphBase>::EdgeId,
            ) -> (r: Option<E>)
                /*+*/requires old(self).ainv()
                ensures final(self).ainv(),                                                  // [acyclic_remove_edge_keeps_order]
                    final(self).order_map == old(self).order_map,                            // [acyclic_remove_edge_order_untouched]
                    r is Some <==> elive(old(self).graph.es(), e.i())/*-*/
            {
                /*+*/let r = {/*-*/ self.graph.remove_edge(e) /*+*/};
                proof {
                    assert(old(self).graph.wf_p(-1));
                    assert forall|a: NodeIndex<Ix>| nlive(self.graph.ns(), a.i()) implies #[trigger] self.order_map.present(a) by { assert(nlive(old(self).graph.ns(), a.i())); }
                }
                r/*-*/
            }
//@ end

//@ item src/acyclic.rs | impl<N, E, Ix: IndexType> Acyclic<StableDiGraph<N, E, Ix>> | fn remove_node | subst=$graph_type:StableDiGraph
            /// Remove a node from the graph if it exists, and return its
            /// weight. If it doesn't exist in the graph, return None.
            ///
            /// This updates the order in O(v) runtime and removes the node in
            /// the underlying graph.
            pub fn remove_node(
                &mut self,
                n: <StableDiGraph<N, E, Ix> as GraphBase>::NodeId,
            ) -> (r: Option<N>)
                /*+*/requires old(self).ainv()
                ensures final(self).ainv(),                                                                     // [acyclic_remove_node_keeps_order]
                    r is Some <==> nlive(old(self).graph.ns(), n.i()),                                          // [acyclic_remove_node_none_iff_absent]
                    r is None ==> final(self).order_map.p2n() == old(self).order_map.p2n() && final(self).graph.ns() == old(self).graph.ns() && final(self).graph.es() == old(self).graph.es(),   // [acyclic_remove_absent_node_changes_nothing]
                    forall|p: TopologicalPosition| old(self).order_map.p2n().contains_key(p) && old(self).order_map.p2n()[p] != n
                        ==> final(self).order_map.p2n().contains_key(p) && final(self).order_map.p2n()[p] == old(self).order_map.p2n()[p],   // [acyclic_remove_node_others_keep_position]
                    !final(self).order_map.present(n)/*-*/
            {
                // a node that is not in the graph has no entry in the order map
                /*R:D16 self.graph.node_weight(n)?; */ match self.graph.node_weight(n) { None => { return None; }, Some(__w) => {} } /*-*/
                /*+*/proof { if nlive(old(self).graph.ns(), n.i()) { assert(old(self).order_map.present(n)); } }/*-*/
                self.order_map.remove_node(n, &self.graph);
                // A graph with compact indices moves its last node into the
                // freed slot: that node then needs its position under its
                // new index.
                /*+*/proof { self.graph.lemma_nbound(); assert(nlive(self.graph.ns(), n.i())); let b = self.graph.nbound(); assert(nlive(self.graph.ns(), b - 1)); }/*-*/
                /*+*/let ghost gpre = self.graph; let ghost om1 = self.order_map;/*-*/
                let last = NodeIndex::new(self.graph.node_bound() - 1);
                let weight = self.graph.remove_node(n);
                /*+*/proof { gpre.lemma_nbound(); Ix::ix_bound(n.0); let ll: NodeIndex<Ix> = last; assert(ll.i() == gpre.nbound() - 1); assert(nlive(gpre.ns(), ll.i()));
                    Ix::eq_law(); if last.i() != n.i() { assert(nlive(self.graph.ns(), last.i())); } }/*-*/
                if last != n && self.graph.node_weight(last).is_none() {
                    self.order_map.rename_node(last, n, &self.graph);
                }
                /*+*/let r = {/*-*/ weight /*+*/};
                proof {
                    assert(self.order_map == om1);
                    let g0 = old(self).graph; let g1 = self.graph; let om0 = old(self).order_map;
                    assert forall|p: TopologicalPosition| om1.p2n().contains_key(p) implies
                        (&g1).is_nid(#[trigger] om1.p2n()[p]) && (&g1).ix_of(om1.p2n()[p]) < om1.n2p().len() && om1.n2p()[(&g1).ix_of(om1.p2n()[p]) as int] == p by {
                        let x = om1.p2n()[p];
                        assert(x != n) by { if x == n { assert(om1.present(n)); } }
                        assert(om0.p2n().contains_key(p));
                        assert((&g0).is_nid(x));
                        Ix::ix_inj(x.0, n.0);
                        assert(x.i() != n.i());
                    }
                    assert forall|a: NodeIndex<Ix>| nlive(g1.ns(), a.i()) implies #[trigger] om1.present(a) by {
                        assert(a.i() != n.i());
                        assert(nlive(g0.ns(), a.i()));
                        assert(om0.present(a));
                        let p = choose|p: TopologicalPosition| om0.p2n().contains_key(p) && om0.p2n()[p] == a;
                        assert(om1.p2n().contains_key(p) && om1.p2n()[p] == a);
                    }
                    assert forall|e: int| elive(g1.es(), e) implies self.pos((#[trigger] g1.es()[e]).node[0].i()) < self.pos(g1.es()[e].node[1].i()) by {
                        assert(elive(g0.es(), e));
                        assert(g1.es()[e].node == g0.es()[e].node);
                        assert(g0.es()[e].node[0].i() != n.i() && g0.es()[e].node[1].i() != n.i());
                        old(self).lemma_edge_ends_live(e);
                        old(self).lemma_live_in_range(g0.es()[e].node[0]); old(self).lemma_live_in_range(g0.es()[e].node[1]);
                        assert(old(self).pos(g0.es()[e].node[0].i()) < old(self).pos(g0.es()[e].node[1].i()));
                    }
                }
                r/*-*/
            }
//@ end
}
