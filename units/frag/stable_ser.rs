// ======================================================================================
// fragment stable_ser.rs - what StableGraph hands to serde (C17): into_serializable
// The node and edge arrays are cut at node_bound() / edge_bound() (trailing vacancies are not written), and the two
// sequence lengths that are written in front of the present nodes and of the holes are exact: `Somes.0` is the number
// of present nodes, `Holes.0` the number of vacancies below node_bound.  (A wrong length would desynchronise a
// length-prefixed format such as bincode.)
// ======================================================================================

//@ item src/graph_impl/stable_graph/serialization.rs | - | struct Somes
/// `Somes` are the present node weights N, with known length.
pub struct Somes<T>(pub usize, pub T);
//@ end

//@ item src/graph_impl/stable_graph/serialization.rs | - | struct Holes
/// Holes are the node indices of vacancies, with known length
pub struct Holes<T>(pub usize, pub T);
//@ end

//@ item src/graph_impl/stable_graph/serialization.rs | - | struct SerStableGraph | serde=4a9bd69e36
// Serialization representation for StableGraph
// Keep in sync with deserialization and Graph
pub struct SerStableGraph<'a, N: 'a, E: 'a, Ix: 'a + IndexType> {
    pub nodes: Somes<&'a [Node<Option<N>, Ix>]>,
    pub node_holes: Holes<&'a [Node<Option<N>, Ix>]>,
    pub edge_property: EdgeProperty,
    pub edges: &'a [Edge<Option<E>, Ix>],
}
//@ end

/// the indices below k satisfying p are those below a larger bound that has nothing more to offer
pub proof fn lemma_idx_where_cut(p: spec_fn(int) -> bool, k: int, n: int)
    requires 0 <= k <= n, forall|x: int| k <= x < n ==> !(#[trigger] p(x))
    ensures idx_where(p, n) == idx_where(p, k)
    decreases n - k
{
    if k < n { lemma_idx_where_cut(p, k, n - 1); assert(!p(n - 1)); }
}

pub proof fn lemma_idx_where_len(p: spec_fn(int) -> bool, k: int)
    requires 0 <= k
    ensures idx_where(p, k).len() <= k
    decreases k
{
    if k > 0 { lemma_idx_where_len(p, k - 1); }
}

mod stable_ser {
    use super::*;
    use super::edge_indexable::EdgeIndexable;

//@ item src/graph_impl/stable_graph/serialization.rs | - | impl<'a, N, E, Ty, Ix> IntoSerializable for &'a StableGraph<N, E, Ty, Ix> where Ix: IndexType, Ty: EdgeType
impl<'a, N, E, Ty, Ix> IntoSerializable for &'a StableGraph<N, E, Ty, Ix>
where
    Ix: IndexType,
    Ty: EdgeType,
{
    type Output = SerStableGraph<'a, N, E, Ix>;
    /*+*/open spec fn ser_ok(self) -> bool { self.wf() }/*-*/
    fn into_serializable(self) -> /*+*/(r:/*-*/ Self::Output/*+*/)
        ensures ({ let nb = self.nbound() as int;
            &&& r.nodes.1@ == self.ns().take(nb) && r.node_holes.1@ == self.ns().take(nb) && r.edges@ == self.es().take(self.ebound_spec())     // [ser_stable_cut_at_the_bounds]
            &&& r.nodes.0 == idx_where(nlive_p(self.ns()), nb).len()                                      // [ser_stable_present_count_exact]
            &&& r.node_holes.0 == nb - idx_where(nlive_p(self.ns()), nb).len()                            // [ser_stable_hole_count_exact]
            &&& (r.edge_property is Directed) == Ty::spec_is_directed() })/*-*/
    {
        /*+*/proof { self.lemma_nbound(); self.lemma_live_nodes(); lemma_sebound(self.es(), self.es().len() as int);
            lemma_idx_where_cut(nlive_p(self.ns()), self.nbound() as int, self.ns().len() as int); lemma_idx_where(nlive_p(self.ns()), self.nbound() as int); lemma_idx_where_len(nlive_p(self.ns()), self.nbound() as int); }/*-*/
        let nodes = &self.raw_nodes()[..self.node_bound()];
        let node_count = self.node_count();
        let hole_count = nodes.len() - node_count;
        let edges = &self.raw_edges()[..self.edge_bound()];
        SerStableGraph {
            nodes: Somes(node_count, nodes),
            node_holes: Holes(hole_count, nodes),
            edges,
            edge_property: EdgeProperty::from(PhantomData::<Ty>),
        }
    }
}
//@ end
}
