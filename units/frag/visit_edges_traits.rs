// ======================================================================================
// fragment visit_edges_traits.rs - IntoEdges / IntoEdgesDirected as trait contracts (src/visit/mod.rs, properties C06):
// the edges at a node lead to exactly its neighbours, in the same order
// ======================================================================================

//@ item src/visit/mod.rs | - | trait IntoEdges
/// Access to all edges of each node.
pub trait IntoEdges : IntoEdgeReferences + IntoNeighbors {
    type Edges: Iterator<Item=Self::EdgeRef>/*+*/;
    /// the edge references `edges(a)` yields, in iteration order
    spec fn edges_of(self, a: Self::NodeId) -> Seq<Self::EdgeRef>;
    /// one consistent graph: the edges at a start at a and lead to the neighbours of a, in the same order
    proof fn edges_law(self, a: Self::NodeId)
        requires self.inv()
        ensures self.edges_of(a).len() == self.succ(a).len(),
            forall|i: int| 0 <= i < self.edges_of(a).len() ==> (#[trigger] self.edges_of(a)[i]).src() == a && self.edges_of(a)[i].tgt() == self.succ(a)[i]/*-*/;   // [edges_start_at_the_queried_node]
    fn edges(self, a: Self::NodeId) -> (r: Self::Edges)
        /*+*/requires self.inv()
        ensures r.obeys_prophetic_iter_laws(), r.decrease() is Some, r.remaining() == self.edges_of(a)/*-*/;   // [edges_is_edges_of]
}
//@ end

//@ item src/visit/mod.rs | - | trait IntoEdgesDirected
/// Access to all edges of each node, in the specified direction.
pub trait IntoEdgesDirected : IntoEdges + IntoNeighborsDirected {
    type EdgesDirected: Iterator<Item=Self::EdgeRef>/*+*/;
    spec fn edges_dir(self, a: Self::NodeId, d: Direction) -> Seq<Self::EdgeRef>;
    /// Outgoing is `edges`; in direction d the queried node is at the d end of every edge and the other end is the
    /// corresponding neighbour
    proof fn edges_dir_law(self, a: Self::NodeId, d: Direction)
        requires self.inv()
        ensures self.edges_dir(a, Direction::Outgoing) == self.edges_of(a),
            self.edges_dir(a, d).len() == self.nbrs(a, d).len(),
            forall|i: int| 0 <= i < self.edges_dir(a, d).len() ==>
                (if d == Direction::Outgoing { (#[trigger] self.edges_dir(a, d)[i]).src() == a && self.edges_dir(a, d)[i].tgt() == self.nbrs(a, d)[i] }
                 else { self.edges_dir(a, d)[i].tgt() == a && self.edges_dir(a, d)[i].src() == self.nbrs(a, d)[i] })/*-*/;
    fn edges_directed(self, a: Self::NodeId, dir: Direction) -> (r: Self::EdgesDirected)
        /*+*/requires self.inv()
        ensures r.obeys_prophetic_iter_laws(), r.decrease() is Some, r.remaining() == self.edges_dir(a, dir)/*-*/;   // [edges_directed_is_edges_dir]
}
//@ end
