// ======================================================================================
// fragment graph6_order.rs - src/graph6/graph6_encoder.rs: the order header of the graph6 encoding
// (property C18): N(n) is 6 bits of n for n < 63, else the 6 bits of 63 followed by 18 bits of n
// ======================================================================================
pub mod enc_order {
    use super::*;
    use super::enc::{get_number_as_bits, get_adj_matrix_upper_diagonal_as_bits, ubits};
    verus! {
//@ item src/graph6/graph6_encoder.rs | - | const N
const N: usize = 63;
//@ end

/// big-endian bits of n on len positions
pub open spec fn nbits(n: usize, len: int) -> Seq<usize> { Seq::new(len as nat, |j: int| (n >> ((len - 1 - j) as usize)) & 1) }
/// the concatenated bit fields
pub open spec fn cat_bits(v: Seq<(usize, usize)>) -> Seq<usize>
    decreases v.len()
{
    if v.len() == 0 { Seq::empty() } else { nbits(v[0].0, v[0].1 as int) + cat_bits(v.drop_first()) }
}
/// D21: `v.iter().flat_map(|&(n, n_of_bits)| get_number_as_bits(n, n_of_bits)).collect()` (flat_map / collect have no vstd
/// specification).  TRUSTED: the bit vectors of the fields, concatenated in order.
#[verifier::external_body]
pub fn concat_number_bits(v: &Vec<(usize, usize)>) -> (r: Vec<usize>)
    requires forall|i: int| 0 <= i < v@.len() ==> (#[trigger] v@[i]).1 <= 64
    ensures r@ == cat_bits(v@)
{ unimplemented!() }
/// D3b: the documented panic for an unsupported order; it does not return
#[verifier::external_body]
pub fn order_not_supported() -> !
    ensures false
{ panic!("Graph order not supported.") }

//@ item src/graph6/graph6_encoder.rs | - | fn get_graph_order_as_bits
// Converts graph order to a bits vector.
pub fn get_graph_order_as_bits(order: usize) -> (r: Vec<usize>)
    /*+*/ensures order <= 258047,                                                                          // [g6_order_panics_iff_unsupported] (returns only for a supported order)
        r@ == (if order < 63 { nbits(order, 6) } else { nbits(63, 6) + nbits(order, 18) })/*-*/           // [g6_order_header]
{
    let to_convert_to_bits = if order < N {
        vec![(order, 6)]
    } else if order <= 258047 {
        vec![(N, 6), (order, 18)]
    } else {
        /*R:D3b panic!("Graph order not supported.") */ order_not_supported() /*-*/
    };

    /*+*/proof {
        let v = to_convert_to_bits@;
        if order < 63 {
            assert(v.len() == 1 && v[0] == (order, 6usize));
            assert(v.drop_first() =~= Seq::<(usize, usize)>::empty());
            assert(cat_bits(v.drop_first()) =~= Seq::<usize>::empty());
            assert(cat_bits(v) =~= nbits(order, 6));
        }
        else {
            assert(v.len() == 2 && v[0] == (63usize, 6usize) && v[1] == (order, 18usize));
            let t = v.drop_first();
            assert(t.len() == 1 && t[0] == (order, 18usize));
            assert(t.drop_first() =~= Seq::<(usize, usize)>::empty());
            assert(cat_bits(t.drop_first()) =~= Seq::<usize>::empty());
            assert(cat_bits(t) =~= nbits(order, 18));
            assert(cat_bits(v) =~= nbits(63, 6) + nbits(order, 18));
        }
    }/*-*/
    /*R:D21 to_convert_to_bits
        .iter()
        .flat_map(|&(n, n_of_bits)| get_number_as_bits(n, n_of_bits))
        .collect() */ concat_number_bits(&to_convert_to_bits) /*-*/
}
//@ end

/// what `bits_to_ascii` makes of a bit vector (String plumbing: to_string / join / from_str_radix / char::from; NOT verified)
pub uninterp spec fn ascii_of(bits: Seq<usize>) -> Seq<char>;
//@ item src/graph6/graph6_encoder.rs | - | fn bits_to_ascii
// Convert a vector of bits to a String using ASCII encoding.
// Each 6 bits will be converted to a single ASCII character.
/*+*/#[verifier::external_body]/*-*/
pub fn bits_to_ascii(mut bits: Vec<usize>) -> (r: String)
    /*+*/ensures r@ == ascii_of(bits@)/*-*/
{
    /*R:D20 while bits.len() % 6 != 0 {
        bits.push(0);
    }

    let bits_strs = bits.iter().map(|bit| bit.to_string()).collect::<Vec<_>>();

    let bytes = bits_strs
        .chunks(6)
        .map(|bits_chunk| bits_chunk.join(""))
        .map(|bits_str| usize::from_str_radix(&bits_str, 2));

    bytes
        .map(|byte| char::from((N + byte.unwrap()) as u8))
        .collect() */ unimplemented!() /*-*/
}
//@ end

//@ item src/graph6/graph6_encoder.rs | - | fn get_graph6_representation
/// Converts a graph that implements GetAdjacencyMatrix and IntoNodeIdentifers
/// into a graph6 format string.
pub fn get_graph6_representation<G>(graph: G) -> (r: String)
where
    G: GetAdjacencyMatrix + IntoNodeIdentifiers/*+*/,
    requires forall|i: int| 0 <= i < graph.node_ids().len() ==> graph.adj_node(#[trigger] graph.node_ids()[i]), graph.node_ids().len() < usize::MAX, graph.adj_pre(), graph.ids_inv(),
    ensures graph.node_ids().len() <= 258047,                                             // (panics for a larger graph, as documented by the format)
        r@ == ascii_of((if graph.node_ids().len() < 63 { nbits(graph.node_ids().len() as usize, 6) } else { nbits(63, 6) + nbits(graph.node_ids().len() as usize, 18) })
                        + ubits(graph, graph.node_ids(), graph.node_ids().len() as int))/*-*/   // [g6_string_is_header_then_upper_triangle]
{
    let (graph_order, mut upper_diagonal_as_bits) = get_adj_matrix_upper_diagonal_as_bits(graph);
    let mut graph_order_as_bits = get_graph_order_as_bits(graph_order);

    let mut graph_as_bits = vec![];
    graph_as_bits.append(&mut graph_order_as_bits);
    graph_as_bits.append(&mut upper_diagonal_as_bits);
    /*+*/proof { assert(graph_as_bits@ =~= (if graph_order < 63 { nbits(graph_order, 6) } else { nbits(63, 6) + nbits(graph_order, 18) }) + ubits(graph, graph.node_ids(), graph.node_ids().len() as int)); }/*-*/

    bits_to_ascii(graph_as_bits)
}
//@ end
    } // verus!
}
