// ======================================================================================
// fragment graph_clone.rs - Clone / clone_from of Node, Edge, Graph (C01, C02):
// a clone has the same structure (indices, links, vacancies, free lists, counts) as its source;
// weights are whatever `N::clone` / `E::clone` return (vstd's `cloned` relation).
// D7: `clone_fields!(T, f..)` is written out as its expansion (the macro text is pinned as an item, so a change of the macro is noticed).
// D29: inside that expansion `.clone()` of the `Copy` link arrays `[EdgeIndex<Ix>; 2]` / `[NodeIndex<Ix>; 2]` is written as a copy: the
//      derived `Clone` of the index newtypes gets no specification from Verus ("autoderive Clone ... not a copy"), and std requires
//      `Clone` of a `Copy` type to agree with the copy.  Trusted, listed.
// ======================================================================================

//@ item src/macros.rs | - | macro_rules clone_fields
/*R:D7 macro_rules! clone_fields {
    ($name:ident, $($field:ident),+ $(,)*) => (
        fn clone(&self) -> Self {
            $name {
                $(
                    $field : self . $field .clone()
                ),*
            }
        }
    );
} */ /*-*/
//@ end

//@ item src/graph_impl/mod.rs | - | impl<E, Ix> Clone for Node<E, Ix> where E: Clone, Ix: Copy
impl<E, Ix> Clone for Node<E, Ix>
where
    E: Clone,
    Ix: Copy,
{
    /*R:D7 clone_fields!(Node, weight, next,); */ fn clone(&self) -> (r: Self) ensures r.next == self.next, cloned(self.weight, r.weight) { Node { weight: self.weight.clone(), next: /*D29 self.next.clone() */ self.next } } /*-*/
}
//@ end

//@ item src/graph_impl/mod.rs | - | impl<E, Ix> Clone for Edge<E, Ix> where E: Clone, Ix: Copy
impl<E, Ix> Clone for Edge<E, Ix>
where
    E: Clone,
    Ix: Copy,
{
    /*R:D7 clone_fields!(Edge, weight, next, node,); */ fn clone(&self) -> (r: Self) ensures r.next == self.next, r.node == self.node, cloned(self.weight, r.weight) { Edge { weight: self.weight.clone(), next: /*D29 self.next.clone() */ self.next, node: /*D29 self.node.clone() */ self.node } } /*-*/
}
//@ end

/// same links and endpoints slot by slot; weights related by `clone`
pub open spec fn cloned_nodes<N: Clone, Ix: IndexType>(a: Seq<Node<N, Ix>>, b: Seq<Node<N, Ix>>) -> bool {
    a.len() == b.len() && forall|i: int| 0 <= i < a.len() ==> (#[trigger] b[i]).next == a[i].next && cloned(a[i].weight, b[i].weight)
}
pub open spec fn cloned_edges<E: Clone, Ix: IndexType>(a: Seq<Edge<E, Ix>>, b: Seq<Edge<E, Ix>>) -> bool {
    a.len() == b.len() && forall|i: int| 0 <= i < a.len() ==> (#[trigger] b[i]).next == a[i].next && b[i].node == a[i].node && cloned(a[i].weight, b[i].weight)
}

//@ item src/graph_impl/mod.rs | - | impl<N, E, Ty, Ix: IndexType> Clone for Graph<N, E, Ty, Ix> where N: Clone, E: Clone
/// The resulting cloned graph has the same graph indices as `self`.
impl<N, E, Ty, Ix: IndexType> Clone for Graph<N, E, Ty, Ix>
where
    N: Clone,
    E: Clone,
{
    fn clone(&self) -> /*+*/(r:/*-*/ Self/*+*/)
        ensures cloned_nodes(self.nodes@, r.nodes@), cloned_edges(self.edges@, r.edges@),   // [graph_clone_same_structure]
            self.wf() ==> r.wf() && r.outs() == self.outs() && r.inns() == self.inns()/*-*/     // [graph_clone_keeps_invariant_and_lists]
    {
        /*+*/let r = {/*-*/ Graph {
            nodes: self.nodes.clone(),
            edges: self.edges.clone(),
            ty: self.ty,
        } /*+*/};
        proof { if self.wf() { r.lemma_weights_only(self); } }
        r/*-*/
    }

    fn clone_from(&mut self, rhs: &Self)
        /*+*/ensures cloned_nodes(rhs.nodes@, final(self).nodes@), cloned_edges(rhs.edges@, final(self).edges@),   // [graph_clone_from_same_structure]
            rhs.wf() ==> final(self).wf() && final(self).outs() == rhs.outs() && final(self).inns() == rhs.inns()/*-*/   // [graph_clone_from_keeps_invariant_and_lists]
    {
        /*R:D28 self.nodes.clone_from(&rhs.nodes); */ self.nodes = rhs.nodes.clone(); /*-*/
        /*R:D28 self.edges.clone_from(&rhs.edges); */ self.edges = rhs.edges.clone(); /*-*/
        self.ty = rhs.ty;
        /*+*/proof { if rhs.wf() { self.lemma_weights_only(rhs); } }/*-*/
    }
}
//@ end

