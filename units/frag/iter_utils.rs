// ======================================================================================
// fragment iter_utils.rs - the crate's own `ex_find_map` / `ex_rfind_map` (src/iter_utils.rs) under contract,
// generic in the iterator (vstd's prophetic iterator laws) and in the `FnMut` mapper.  StableGraph's
// whole-graph iterators are built on them (C02, C06).
//   `for elt in self` (self: &mut Self) is written as rustc's own desugaring, a loop over `self.next()` (D11).
//   D30: `Self: Sized` is added to the two provided methods (this Verus cannot dereference an unsized `Self` in a specification); the only
//   impl in the crate is the blanket `impl<I: Iterator> IterUtilsExt for I`, whose `I` is implicitly Sized.
//   The functions return from inside the loop; `loop_isolation(false)` lets that exit see the facts about
//   the entry values of `self` and `f` (a verifier attribute, no code change).
// ======================================================================================

/// the elements of s that f maps to Some, mapped, in order (what `filter_map` yields)
pub open spec fn fm_seq<A, B>(s: Seq<A>, f: spec_fn(A) -> Option<B>) -> Seq<B>
    decreases s.len()
{
    if s.len() == 0 { Seq::empty() }
    else { (match f(s[0]) { Some(b) => seq![b], None => Seq::empty() }) + fm_seq(s.drop_first(), f) }
}
pub proof fn lemma_fm_append<A, B>(a: Seq<A>, b: Seq<A>, f: spec_fn(A) -> Option<B>)
    ensures fm_seq(a + b, f) == fm_seq(a, f) + fm_seq(b, f)
    decreases a.len()
{
    if a.len() == 0 { assert(a + b =~= b); assert(fm_seq(a, f) + fm_seq(b, f) =~= fm_seq(b, f)); }
    else {
        assert((a + b).drop_first() =~= a.drop_first() + b);
        lemma_fm_append(a.drop_first(), b, f);
        let h: Seq<B> = match f(a[0]) { Some(x) => seq![x], None => Seq::empty() };
        assert((a + b)[0] == a[0]);
        assert(h + (fm_seq(a.drop_first(), f) + fm_seq(b, f)) =~= (h + fm_seq(a.drop_first(), f)) + fm_seq(b, f));
    }
}
pub proof fn lemma_fm_none<A, B>(s: Seq<A>, f: spec_fn(A) -> Option<B>)
    requires forall|j: int| 0 <= j < s.len() ==> f(#[trigger] s[j]) is None
    ensures fm_seq(s, f).len() == 0
    decreases s.len()
{
    if s.len() > 0 {
        assert forall|j: int| 0 <= j < s.drop_first().len() implies f(#[trigger] s.drop_first()[j]) is None by { assert(s.drop_first()[j] == s[j + 1]); }
        lemma_fm_none(s.drop_first(), f);
        assert(f(s[0]) is None);
    }
}
/// the first hit is at k: it heads the result, the rest comes from what follows k
pub proof fn lemma_fm_first<A, B>(s: Seq<A>, f: spec_fn(A) -> Option<B>, k: int)
    requires 0 <= k < s.len(), f(s[k]) is Some, forall|j: int| 0 <= j < k ==> f(#[trigger] s[j]) is None
    ensures fm_seq(s, f) == seq![f(s[k])->Some_0] + fm_seq(s.skip(k + 1), f)
{
    let a = s.take(k); let b = s.skip(k);
    assert(s =~= a + b);
    lemma_fm_append(a, b, f);
    assert forall|j: int| 0 <= j < a.len() implies f(#[trigger] a[j]) is None by { assert(a[j] == s[j]); }
    lemma_fm_none(a, f);
    assert(b[0] == s[k]);
    assert(b.drop_first() =~= s.skip(k + 1));
    assert(fm_seq(a, f) + fm_seq(b, f) =~= fm_seq(b, f));
}
/// the last hit is at k: it ends the result, the rest comes from what precedes k
pub proof fn lemma_fm_last<A, B>(s: Seq<A>, f: spec_fn(A) -> Option<B>, k: int)
    requires 0 <= k < s.len(), f(s[k]) is Some, forall|j: int| k < j < s.len() ==> f(#[trigger] s[j]) is None
    ensures fm_seq(s, f) == fm_seq(s.take(k), f).push(f(s[k])->Some_0)
{
    let a = s.take(k); let m = seq![s[k]]; let c = s.skip(k + 1);
    assert(s =~= (a + m) + c);
    lemma_fm_append(a + m, c, f);
    lemma_fm_append(a, m, f);
    assert forall|j: int| 0 <= j < c.len() implies f(#[trigger] c[j]) is None by { assert(c[j] == s[k + 1 + j]); }
    lemma_fm_none(c, f);
    assert(m.drop_first() =~= Seq::<A>::empty()); assert(m[0] == s[k]); assert(fm_seq(m.drop_first(), f) =~= Seq::<B>::empty());
    assert(fm_seq(m, f) =~= seq![f(s[k])->Some_0]);
    assert(fm_seq(a + m, f) + fm_seq(c, f) =~= fm_seq(a + m, f));
    assert(fm_seq(a, f) + seq![f(s[k])->Some_0] =~= fm_seq(a, f).push(f(s[k])->Some_0));
}

/// the mapper `f` computes the spec function `g`
pub open spec fn refines<A, B, F: FnMut(A) -> Option<B>>(f: F, g: spec_fn(A) -> Option<B>) -> bool {
    forall|x: A, q: Option<B>| #[trigger] f.ensures((x,), q) ==> q == g(x)
}

//@ item src/iter_utils.rs | - | trait IterUtilsExt
pub trait IterUtilsExt: Iterator {
    /// Return the first element that maps to `Some(_)`, or None if the iterator
    /// was exhausted.
    // No precondition on the iterator (the callers are `Iterator::next` impls, which cannot have one): everything is stated for an
    // iterator that obeys vstd's laws; termination is NOT verified (it needs the iterator's own measure).
    /*+*/#[verifier::loop_isolation(false)]
    #[verifier::exec_allows_no_decreases_clause]/*-*/
    fn ex_find_map<F, R>(&mut self, mut f: F) -> (res: Option<R>)
    where
        F: FnMut(Self::Item) -> Option<R>,
        /*R:D30 */ Self: Sized, /*-*/
        /*+*/requires forall|x: Self::Item| #[trigger] f.requires((x,)),
        ensures
            (*final(self)).obeys_prophetic_iter_laws() == (*old(self)).obeys_prophetic_iter_laws(),
            (*old(self)).obeys_prophetic_iter_laws() ==> ((*final(self)).decrease() is Some <==> (*old(self)).decrease() is Some),
            (*old(self)).obeys_prophetic_iter_laws() && (*old(self)).decrease() is Some && res is Some ==> (*final(self)).decrease()->Some_0 < (*old(self)).decrease()->Some_0,
            (*old(self)).obeys_prophetic_iter_laws() ==> ({ let rem = (*old(self)).remaining();
               match res {
                  // [ex_find_map_first_hit] the first element mapped to Some; everything up to and including it is consumed, nothing more
                  Some(r) => exists|k: int| 0 <= k < rem.len() && #[trigger] f.ensures((rem[k],), Some(r)) && (forall|j: int| 0 <= j < k ==> #[trigger] f.ensures((rem[j],), None::<R>))
                                && (*final(self)).remaining() == rem.skip(k + 1),
                  // [ex_find_map_none_means_no_hit]
                  None => (forall|j: int| 0 <= j < rem.len() ==> #[trigger] f.ensures((rem[j],), None::<R>)) && (*final(self)).remaining().len() == 0,
               } }),
            // the same, read through `filter_map`: for every spec function g the mapper computes      [ex_find_map_is_filter_map_head]
            (*old(self)).obeys_prophetic_iter_laws() ==> forall|g: spec_fn(Self::Item) -> Option<R>| refines(f, g) ==>
                match res {
                    Some(r) => #[trigger] fm_seq((*old(self)).remaining(), g) == seq![r] + fm_seq((*final(self)).remaining(), g),
                    None => (#[trigger] fm_seq((*old(self)).remaining(), g)).len() == 0 && (*final(self)).remaining().len() == 0,
                },/*-*/
    {
        /*+*/let ghost rem = self.remaining(); let ghost mut done: int = 0; let ghost f0 = f; let ghost ob = self.obeys_prophetic_iter_laws();/*-*/
        /*R:D11 for elt in self { */ loop
            invariant rem == (*old(self)).remaining(), ob == (*old(self)).obeys_prophetic_iter_laws(), self.obeys_prophetic_iter_laws() == ob,
                ob ==> (self.decrease() is Some <==> (*old(self)).decrease() is Some),
                ob && (*old(self)).decrease() is Some ==> self.decrease()->Some_0 <= (*old(self)).decrease()->Some_0,
                ob && (*old(self)).decrease() is Some && done > 0 ==> self.decrease()->Some_0 < (*old(self)).decrease()->Some_0,
                ob ==> 0 <= done <= rem.len() && self.remaining() == rem.skip(done),
                forall|x: Self::Item| #[trigger] f.requires((x,)),
                forall|x: Self::Item, r: Option<R>| #[trigger] f.ensures((x,), r) == f0.ensures((x,), r),
                ob ==> forall|j: int| 0 <= j < done ==> #[trigger] f0.ensures((rem[j],), None::<R>),
        { match self.next() { None => { proof { if ob { assert(rem.skip(done).len() == 0); } } break; }, Some(elt) => {
            proof { if ob { assert(elt == rem[done]); assert(rem.skip(done).drop_first() =~= rem.skip(done + 1)); } } /*-*/
            if let result @ Some(_) = f(elt) {
                /*+*/proof { if ob { let k = done; let r = result.unwrap(); assert(f0.ensures((rem[k],), Some(r))); assert(self.remaining() == rem.skip(k + 1));
                    assert(0 <= k < rem.len() && f0.ensures((rem[k],), Some(r)) && (forall|j: int| 0 <= j < k ==> #[trigger] f0.ensures((rem[j],), None::<R>)) && self.remaining() == rem.skip(k + 1));
                    assert forall|g: spec_fn(Self::Item) -> Option<R>| refines(f0, g) implies #[trigger] fm_seq(rem, g) == seq![r] + fm_seq(self.remaining(), g) by {
                        assert forall|j: int| 0 <= j < k implies g(#[trigger] rem[j]) is None by { assert(f0.ensures((rem[j],), None::<R>)); }
                        lemma_fm_first(rem, g, k);
                    } } }/*-*/
                return result;
            }
            /*+*/proof { done = done + 1; }/*-*/
        /*R:D11 } */ } } }
        proof { if ob {
            assert forall|g: spec_fn(Self::Item) -> Option<R>| refines(f0, g) implies (#[trigger] fm_seq(rem, g)).len() == 0 by {
                assert forall|j: int| 0 <= j < rem.len() implies g(#[trigger] rem[j]) is None by { assert(f0.ensures((rem[j],), None::<R>)); }
                lemma_fm_none(rem, g);
            } } } /*-*/
        None
    }

    /// Return the last element from the back that maps to `Some(_)`, or
    /// None if the iterator was exhausted.
    /*+*/#[verifier::loop_isolation(false)]
    #[verifier::exec_allows_no_decreases_clause]/*-*/
    fn ex_rfind_map<F, R>(&mut self, mut f: F) -> (res: Option<R>)
    where
        F: FnMut(Self::Item) -> Option<R>,
        Self: DoubleEndedIterator /*R:D30 */ + Sized /*-*/,
        /*+*/requires forall|x: Self::Item| #[trigger] f.requires((x,)),
        ensures
            (*final(self)).obeys_prophetic_iter_laws() == (*old(self)).obeys_prophetic_iter_laws(),
            (*old(self)).obeys_prophetic_iter_laws() ==> ((*final(self)).decrease() is Some <==> (*old(self)).decrease() is Some),
            (*old(self)).obeys_prophetic_iter_laws() && (*old(self)).decrease() is Some && res is Some ==> (*final(self)).decrease()->Some_0 < (*old(self)).decrease()->Some_0,
            (*old(self)).obeys_prophetic_iter_laws() ==> ({ let rem = (*old(self)).remaining();
               match res {
                  // [ex_rfind_map_last_hit]
                  Some(r) => exists|k: int| 0 <= k < rem.len() && #[trigger] f.ensures((rem[k],), Some(r)) && (forall|j: int| k < j < rem.len() ==> #[trigger] f.ensures((rem[j],), None::<R>))
                                && (*final(self)).remaining() == rem.take(k),
                  // [ex_rfind_map_none_means_no_hit]
                  None => (forall|j: int| 0 <= j < rem.len() ==> #[trigger] f.ensures((rem[j],), None::<R>)) && (*final(self)).remaining().len() == 0,
               } }),
            // [ex_rfind_map_is_filter_map_last]
            (*old(self)).obeys_prophetic_iter_laws() ==> forall|g: spec_fn(Self::Item) -> Option<R>| refines(f, g) ==>
                match res {
                    Some(r) => #[trigger] fm_seq((*old(self)).remaining(), g) == fm_seq((*final(self)).remaining(), g).push(r),
                    None => (#[trigger] fm_seq((*old(self)).remaining(), g)).len() == 0 && (*final(self)).remaining().len() == 0,
                },/*-*/
    {
        /*+*/let ghost rem = self.remaining(); let ghost mut left: int = rem.len() as int; let ghost f0 = f; let ghost ob = self.obeys_prophetic_iter_laws();
        proof { assert(rem.take(left) =~= rem); }/*-*/
        while let Some(elt) = self.next_back()
            /*+*/invariant rem == (*old(self)).remaining(), ob == (*old(self)).obeys_prophetic_iter_laws(), self.obeys_prophetic_iter_laws() == ob,
                ob ==> (self.decrease() is Some <==> (*old(self)).decrease() is Some),
                ob && (*old(self)).decrease() is Some ==> self.decrease()->Some_0 <= (*old(self)).decrease()->Some_0,
                ob && (*old(self)).decrease() is Some && left < rem.len() ==> self.decrease()->Some_0 < (*old(self)).decrease()->Some_0,
                ob ==> 0 <= left <= rem.len() && self.remaining() == rem.take(left),
                forall|x: Self::Item| #[trigger] f.requires((x,)),
                forall|x: Self::Item, r: Option<R>| #[trigger] f.ensures((x,), r) == f0.ensures((x,), r),
                ob ==> forall|j: int| left <= j < rem.len() ==> #[trigger] f0.ensures((rem[j],), None::<R>),/*-*/
        {
            /*+*/proof { if ob { assert(left > 0); assert(elt == rem[left - 1]); assert(rem.take(left).drop_last() =~= rem.take(left - 1)); } }/*-*/
            if let result @ Some(_) = f(elt) {
                /*+*/proof { if ob { let k = left - 1; let r = result.unwrap(); assert(f0.ensures((rem[k],), Some(r))); assert(self.remaining() == rem.take(k));
                    assert(0 <= k < rem.len() && f0.ensures((rem[k],), Some(r)) && (forall|j: int| k < j < rem.len() ==> #[trigger] f0.ensures((rem[j],), None::<R>)) && self.remaining() == rem.take(k));
                    assert forall|g: spec_fn(Self::Item) -> Option<R>| refines(f0, g) implies #[trigger] fm_seq(rem, g) == fm_seq(self.remaining(), g).push(r) by {
                        assert forall|j: int| k < j < rem.len() implies g(#[trigger] rem[j]) is None by { assert(f0.ensures((rem[j],), None::<R>)); }
                        lemma_fm_last(rem, g, k);
                    } } }/*-*/
                return result;
            }
            /*+*/proof { left = left - 1; }/*-*/
        }
        /*+*/proof { if ob {
            assert(left == 0);
            assert forall|g: spec_fn(Self::Item) -> Option<R>| refines(f0, g) implies (#[trigger] fm_seq(rem, g)).len() == 0 by {
                assert forall|j: int| 0 <= j < rem.len() implies g(#[trigger] rem[j]) is None by { assert(f0.ensures((rem[j],), None::<R>)); }
                lemma_fm_none(rem, g);
            } } }/*-*/
        None
    }
}
//@ end

//@ item src/iter_utils.rs | - | impl<I> IterUtilsExt for I where I: Iterator
impl<I> IterUtilsExt for I where I: Iterator {}
//@ end

/// membership in a filter-map
pub proof fn lemma_fm_contains<A, B>(s: Seq<A>, f: spec_fn(A) -> Option<B>, b: B)
    ensures fm_seq(s, f).contains(b) <==> (exists|j: int| 0 <= j < s.len() && f(#[trigger] s[j]) == Some(b))
    decreases s.len()
{
    if s.len() > 0 {
        let t = s.drop_first();
        lemma_fm_contains(t, f, b);
        let hd: Seq<B> = match f(s[0]) { Some(x) => seq![x], None => Seq::empty() };
        let rest = fm_seq(t, f); let full = hd + rest;
        if full.contains(b) {
            let q = choose|q: int| 0 <= q < full.len() && full[q] == b;
            if q < hd.len() { assert(f(s[0]) == Some(b)); }
            else { assert(rest[q - hd.len()] == b); assert(rest.contains(b));
                let j = choose|j: int| 0 <= j < t.len() && f(#[trigger] t[j]) == Some(b); assert(s[j + 1] == t[j]); }
        }
        if exists|j: int| 0 <= j < s.len() && f(#[trigger] s[j]) == Some(b) {
            let j = choose|j: int| 0 <= j < s.len() && f(#[trigger] s[j]) == Some(b);
            if j == 0 { assert(full[0] == b); }
            else { assert(t[j - 1] == s[j]); assert(rest.contains(b)); let q = choose|q: int| 0 <= q < rest.len() && rest[q] == b; assert(full[hd.len() + q] == b); }
        }
    }
}
