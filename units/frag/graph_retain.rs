// ======================================================================================
// fragment graph_retain.rs - Graph::retain_nodes / retain_edges under contract (C01)
//
// The visitor is an arbitrary `FnMut(Frozen<Self>, index) -> bool`; its contract is what the type
// `Frozen` enforces (weights may change, links may not: `same_links`; an assumption about the
// visitor, listed).  Graph removal renumbers (the last index adopts the removed one); the loops
// run from the highest index down, so the element visited at index i is still the ORIGINAL element
// i, and every element moved into a lower slot has already been approved.  Proved for every visitor:
// the debug assertion `ret.is_some()` never fires, the invariant is kept, the survivors are
// exactly the approved original indices (each once; `orig` maps a final index to its original
// one), the removed ones were rejected.
// ======================================================================================

impl<N, E, Ty: EdgeType, Ix: IndexType> Graph<N, E, Ty, Ix> {
    /// what the holder of a `Frozen<Self>` can change: weights only
    pub open spec fn same_links(&self, o: &Self) -> bool {
        &&& self.nodes@.len() == o.nodes@.len() && self.edges@.len() == o.edges@.len()
        &&& forall|a: int| 0 <= a < o.nodes@.len() ==> (#[trigger] self.nodes@[a]).next == o.nodes@[a].next
        &&& forall|e: int| 0 <= e < o.edges@.len() ==> (#[trigger] self.edges@[e]).next == o.edges@[e].next && self.edges@[e].node == o.edges@[e].node
    }
}
/// `orig` lists, for every surviving (final) index, the original index of that element: distinct, in range
pub open spec fn survivors(orig: Seq<int>, n0: int, n1: int) -> bool {
    &&& orig.len() == n1 && n1 <= n0
    &&& forall|i: int, j: int| 0 <= i < j < orig.len() ==> orig[i] != orig[j]
    &&& forall|j: int| 0 <= j < orig.len() ==> 0 <= #[trigger] orig[j] < n0
}

#[verifier::prophetic]
pub open spec fn graph_node_visitor<N, E, Ty: EdgeType, Ix: IndexType, F: FnMut(Frozen<Graph<N, E, Ty, Ix>>, NodeIndex<Ix>) -> bool>(visit: F) -> bool {
    &&& forall|g: Frozen<Graph<N, E, Ty, Ix>>, i: NodeIndex<Ix>| g.0.wf() && i.i() < g.0.n() ==> #[trigger] visit.requires((g, i))
    &&& forall|g: Frozen<Graph<N, E, Ty, Ix>>, i: NodeIndex<Ix>, r: bool| #[trigger] visit.ensures((g, i), r) ==> final(g.0).same_links(&*g.0)
}
/// some call of the visitor for (original) node index j answered `keep`
pub open spec fn graph_node_answer<N, E, Ty: EdgeType, Ix: IndexType, F: FnMut(Frozen<Graph<N, E, Ty, Ix>>, NodeIndex<Ix>) -> bool>(visit: F, j: int, keep: bool) -> bool {
    exists|g: Frozen<Graph<N, E, Ty, Ix>>, i: NodeIndex<Ix>| i.i() == j && #[trigger] visit.ensures((g, i), keep)
}
#[verifier::prophetic]
pub open spec fn graph_edge_visitor<N, E, Ty: EdgeType, Ix: IndexType, F: FnMut(Frozen<Graph<N, E, Ty, Ix>>, EdgeIndex<Ix>) -> bool>(visit: F) -> bool {
    &&& forall|g: Frozen<Graph<N, E, Ty, Ix>>, i: EdgeIndex<Ix>| g.0.wf() && i.i() < g.0.m() ==> #[trigger] visit.requires((g, i))
    &&& forall|g: Frozen<Graph<N, E, Ty, Ix>>, i: EdgeIndex<Ix>, r: bool| #[trigger] visit.ensures((g, i), r) ==> final(g.0).same_links(&*g.0)
}
pub open spec fn graph_edge_answer<N, E, Ty: EdgeType, Ix: IndexType, F: FnMut(Frozen<Graph<N, E, Ty, Ix>>, EdgeIndex<Ix>) -> bool>(visit: F, j: int, keep: bool) -> bool {
    exists|g: Frozen<Graph<N, E, Ty, Ix>>, i: EdgeIndex<Ix>| i.i() == j && #[trigger] visit.ensures((g, i), keep)
}

/// dropping slot i by letting the last element adopt it (what remove_node / remove_edge do to indices)
pub open spec fn swap_removed(orig: Seq<int>, i: int) -> Seq<int> {
    if i == orig.len() - 1 { orig.drop_last() } else { orig.update(i, orig.last()).drop_last() }
}

impl<N, E, Ty, Ix> Graph<N, E, Ty, Ix>
where
    Ty: EdgeType,
    Ix: IndexType,
{
//@ item src/graph_impl/mod.rs | impl<N, E, Ty, Ix> Graph<N, E, Ty, Ix> where Ty: EdgeType, Ix: IndexType | fn retain_nodes
    /// Keep all nodes that return `true` from the `visit` closure,
    /// remove the others.
    pub fn retain_nodes<F>(&mut self, mut visit: F)
    where
        F: FnMut(Frozen<Self>, NodeIndex<Ix>) -> bool,
        /*+*/requires old(self).wf(), graph_node_visitor(visit),
        ensures final(self).wf(),
            exists|orig: Seq<int>| #![auto] {
                &&& survivors(orig, old(self).n() as int, final(self).n() as int)                                           // [retain_nodes_survivors_distinct_originals]
                &&& forall|j: int| 0 <= j < orig.len() ==> graph_node_answer(visit, orig[j], true)                          // [retain_nodes_survivors_were_approved]
                &&& forall|k: int| 0 <= k < old(self).n() && !orig.contains(k) ==> graph_node_answer(visit, k, false)       // [retain_nodes_removed_were_rejected]
            },
        /*-*/
    {
        /*+*/let ghost v0 = visit; let ghost n0 = self.n() as int; let ghost mut orig: Seq<int> = Seq::new(n0 as nat, |i: int| i);/*-*/
        for index in /*+*/it:/*-*/ self.node_indices().rev()
            /*+*/invariant
                self.wf(), graph_node_visitor(visit), n0 <= end_ix::<Ix>(),
                forall|g: Frozen<Self>, x: NodeIndex<Ix>, r: bool| #[trigger] visit.ensures((g, x), r) == v0.ensures((g, x), r),
                it.seq().len() == n0, forall|k: int| 0 <= k < n0 ==> it.seq()[k] == NodeIndex::<Ix>(Ix::spec_new((n0 - 1 - k) as usize)),
                n0 - it.index@ <= self.n() <= n0,
                survivors(orig, n0, self.n() as int),
                forall|j: int| 0 <= j < n0 - it.index@ ==> orig[j] == j,
                forall|j: int| n0 - it.index@ <= j < orig.len() ==> orig[j] >= n0 - it.index@,
                forall|j: int| n0 - it.index@ <= j < orig.len() ==> graph_node_answer(v0, orig[j], true),
                forall|k: int| n0 - it.index@ <= k < n0 && !orig.contains(k) ==> graph_node_answer(v0, k, false),/*-*/
        {
            /*+*/let ghost i = n0 - it.index@ - 1; let ghost orig0 = orig; let ghost m = *self;
            proof { assert(index == it.seq()[it.index@ as int]); Ix::new_law(i as usize); assert(index.i() == i); }/*-*/
            if !visit(Frozen(self), index) {
                /*+*/let ghost m2 = *self;
                proof { m2.lemma_weights_only(&m); }/*-*/
                let ret = self.remove_node(index);
                debug_assert!(ret.is_some());
                let _ = ret;
                /*+*/proof {
                    assert(graph_node_answer(v0, i, false));
                    orig = swap_removed(orig0, i);
                    let l = orig0.len() - 1;
                    assert forall|k: int| i <= k < n0 && !orig.contains(k) implies graph_node_answer(v0, k, false) by {
                        if k == i { } else if !orig0.contains(k) { } else {
                            let p = choose|p: int| 0 <= p < orig0.len() && orig0[p] == k;
                            if p == l { assert(orig[i] == k); } else { assert(orig[p] == k); }
                        }
                    }
                }/*-*/
            } /*+*/else { proof { self.lemma_weights_only(&m); assert(orig[i] == i); assert(graph_node_answer(v0, i, true));
                assert forall|k: int| i <= k < n0 && !orig.contains(k) implies graph_node_answer(v0, k, false) by { if k == i { assert(orig.contains(i)); } } } }/*-*/
        }
        /*+*/proof {
            assert forall|j: int| 0 <= j < orig.len() implies graph_node_answer(v0, orig[j], true) by { }
            assert forall|k: int| 0 <= k < n0 && !orig.contains(k) implies graph_node_answer(v0, k, false) by { }
        }/*-*/
    }
//@ end

//@ item src/graph_impl/mod.rs | impl<N, E, Ty, Ix> Graph<N, E, Ty, Ix> where Ty: EdgeType, Ix: IndexType | fn retain_edges
    /// Keep all edges that return `true` from the `visit` closure,
    /// remove the others.
    pub fn retain_edges<F>(&mut self, mut visit: F)
    where
        F: FnMut(Frozen<Self>, EdgeIndex<Ix>) -> bool,
        /*+*/requires old(self).wf(), graph_edge_visitor(visit),
        ensures final(self).wf(), final(self).n() == old(self).n(),                                                        // [retain_edges_keeps_every_node]
            exists|orig: Seq<int>| #![auto] {
                &&& survivors(orig, old(self).m() as int, final(self).m() as int)                                           // [retain_edges_survivors_distinct_originals]
                &&& forall|j: int| 0 <= j < orig.len() ==> graph_edge_answer(visit, orig[j], true)                          // [retain_edges_survivors_were_approved]
                &&& forall|k: int| 0 <= k < old(self).m() && !orig.contains(k) ==> graph_edge_answer(visit, k, false)       // [retain_edges_removed_were_rejected]
            },
        /*-*/
    {
        /*+*/let ghost v0 = visit; let ghost n0 = self.m() as int; let ghost nn = self.n(); let ghost mut orig: Seq<int> = Seq::new(n0 as nat, |i: int| i);/*-*/
        for index in /*+*/it:/*-*/ self.edge_indices().rev()
            /*+*/invariant
                self.wf(), graph_edge_visitor(visit), n0 <= end_ix::<Ix>(), self.n() == nn,
                forall|g: Frozen<Self>, x: EdgeIndex<Ix>, r: bool| #[trigger] visit.ensures((g, x), r) == v0.ensures((g, x), r),
                it.seq().len() == n0, forall|k: int| 0 <= k < n0 ==> it.seq()[k] == EdgeIndex::<Ix>(Ix::spec_new((n0 - 1 - k) as usize)),
                n0 - it.index@ <= self.m() <= n0,
                survivors(orig, n0, self.m() as int),
                forall|j: int| 0 <= j < n0 - it.index@ ==> orig[j] == j,
                forall|j: int| n0 - it.index@ <= j < orig.len() ==> orig[j] >= n0 - it.index@,
                forall|j: int| n0 - it.index@ <= j < orig.len() ==> graph_edge_answer(v0, orig[j], true),
                forall|k: int| n0 - it.index@ <= k < n0 && !orig.contains(k) ==> graph_edge_answer(v0, k, false),/*-*/
        {
            /*+*/let ghost i = n0 - it.index@ - 1; let ghost orig0 = orig; let ghost m = *self;
            proof { assert(index == it.seq()[it.index@ as int]); Ix::new_law(i as usize); assert(index.i() == i); }/*-*/
            if !visit(Frozen(self), index) {
                /*+*/let ghost m2 = *self;
                proof { m2.lemma_weights_only(&m); }/*-*/
                let ret = self.remove_edge(index);
                debug_assert!(ret.is_some());
                let _ = ret;
                /*+*/proof {
                    assert(graph_edge_answer(v0, i, false));
                    orig = swap_removed(orig0, i);
                    let l = orig0.len() - 1;
                    assert forall|k: int| i <= k < n0 && !orig.contains(k) implies graph_edge_answer(v0, k, false) by {
                        if k == i { } else if !orig0.contains(k) { } else {
                            let p = choose|p: int| 0 <= p < orig0.len() && orig0[p] == k;
                            if p == l { assert(orig[i] == k); } else { assert(orig[p] == k); }
                        }
                    }
                }/*-*/
            } /*+*/else { proof { self.lemma_weights_only(&m); assert(orig[i] == i); assert(graph_edge_answer(v0, i, true));
                assert forall|k: int| i <= k < n0 && !orig.contains(k) implies graph_edge_answer(v0, k, false) by { if k == i { assert(orig.contains(i)); } } } }/*-*/
        }
        /*+*/proof {
            assert forall|j: int| 0 <= j < orig.len() implies graph_edge_answer(v0, orig[j], true) by { }
            assert forall|k: int| 0 <= k < n0 && !orig.contains(k) implies graph_edge_answer(v0, k, false) by { }
        }/*-*/
    }
//@ end
}
